import Pun.Props.C07
import Pun.Lemmas.HierScale
import Pun.Lemmas.HierTotal
/-!
# C07 — the mixed expression equals the converted-first expression, every cell of the dispatch graph

`route_agrees`: for every pair of valid operands of which at least one is p-box-like (p-box,
precise distribution, DS structure), every operation, every dependency code and any number of steps:
whenever the expression with every operand converted first answers `z`, the mixed expression (numbers
through `pbox_number_ops`, intervals negated / inverted by interval arithmetic first, reflected
operators with the un-exchanged dependency) answers the same `z`.

`spec_total`: the converted-first expression answers a well-formed p-box — always for `+`, `-` and under
p / o / i; under Frechet for `×`, `÷` when no converted operand straddles zero or one operand is a number.
`route_partial` combines the two; the only part of `C07RouteStatement` left open is that the Frechet
product of converted operands ANSWERS when an operand straddles zero and none is a number (soundness of
naive ∩ Balch, C02's open extension) — agreement holds there as well.

Ingredients (Lemmas/HierComm, Lemmas/HierScale, Lemmas/HierTotal): the combination rules and the public sum / product
are symmetric in their operands (Frechet product included: sign routing, naive ∩ Balch); with a
constant operand the independent and opposite rules coincide with the perfect rule; the product with
an embedded number is `pbox_number_ops` under every dependency, also for zero-straddling boxes.
-/
set_option linter.unusedSimpArgs false
set_option linter.unusedVariables false
namespace Pun.Hier
open Pun Pun.PBox

theorem wf_to {n : Nat} {p : PB} (h : WF n p) : Pun.WF.WF n p := ⟨h.llen, h.rlen, h.lsorted, h.rsorted, h.le⟩
theorem wf_of {n : Nat} {p : PB} (h : Pun.WF.WF n p) : WF n p := ⟨h.llen, h.rlen, h.lsorted, h.rsorted, h.le⟩

theorem evalOp_fwd (n : Nat) (d : Dep) (o : Op) (l r : Opd) (hl : isHigh l = true) (P : PB)
    (hP : convertPbox n l = .ok P) :
    evalOp n d o l r = (method n o d P r >>= fun t => pure (.pbox t)) := by
  cases l with
  | num c => simp [isHigh] at hl
  | ivl a b => simp [isHigh] at hl
  | pbox p => simp only [convertPbox] at hP; injection hP with e; subst e; cases r <;> rfl
  | dist q => simp only [convertPbox] at hP; injection hP with e; subst e; cases r <;> rfl
  | dss p => simp only [convertPbox] at hP; injection hP with e; subst e; cases r <;> rfl

theorem evalOp_refl (n : Nat) (d : Dep) (o : Op) (l r : Opd) (hl : isHigh l = false) (hr : isHigh r = true) (Q : PB)
    (hQ : convertPbox n r = .ok Q) :
    evalOp n d o l r = (reflected n o d l Q >>= fun t => pure (.pbox t)) := by
  cases l with
  | num c =>
    cases r with
    | num c' => simp [isHigh] at hr
    | ivl a b => simp [isHigh] at hr
    | pbox p => simp only [convertPbox] at hQ; injection hQ with e; subst e; rfl
    | dist q => simp only [convertPbox] at hQ; injection hQ with e; subst e; rfl
    | dss p => simp only [convertPbox] at hQ; injection hQ with e; subst e; rfl
  | ivl a b =>
    cases r with
    | num c' => simp [isHigh] at hr
    | ivl a' b' => simp [isHigh] at hr
    | pbox p => simp only [convertPbox] at hQ; injection hQ with e; subst e; rfl
    | dist q => simp only [convertPbox] at hQ; injection hQ with e; subst e; rfl
    | dss p => simp only [convertPbox] at hQ; injection hQ with e; subst e; rfl
  | pbox p => simp [isHigh] at hl
  | dist q => simp [isHigh] at hl
  | dss p => simp [isHigh] at hl

/-- a number or an interval as the constant p-box `operation.convert` makes of it -/
def lowBox (n : Nat) : Opd → PB
  | .num c => ofIvl n c c
  | .ivl a b => ofIvl n a b
  | _ => ⟨[], []⟩

theorem convert_low (n : Nat) (hn : 0 < n) (l : Opd) (hl : isHigh l = false) (hv : ValidOpd n l) :
    convert n l = .ok (lowBox n l) := by
  cases l with
  | num c => exact ivlToPbox_eq n c c hn (le_refl c)
  | ivl a b => exact ivlToPbox_eq n a b hn hv
  | pbox p => simp [isHigh] at hl
  | dist q => simp [isHigh] at hl
  | dss p => simp [isHigh] at hl

/-! ## p-box-like operand on the left, Python number on the right -/

/-- **`X op c`**: the number route (`pbox_number_ops`, dependency ignored) and the converted-first
expression both answer, with the same p-box — all four operations, every dependency -/
theorem fwd_num_agrees (n : Nat) (hn : 0 < n) (d : Dep) (hd : d ≠ .unknown) (o : Op) (l : Opd)
    (hl : isHigh l = true) (hv : ValidOpd n l) (c : Rat) (hc : o = .div → c ≠ 0) :
    ∃ z, spec n d o l (.num c) = .ok z ∧ evalOp n d o l (.num c) = .ok (.pbox z) := by
  obtain ⟨P, hP1, hP2, hw⟩ := convert_high_wf n l hl hv
  have e1 : convert n (.num c) = .ok (ofIvl n c c) := ivlToPbox_eq n c c hn (le_refl c)
  have hd' := swapPO_ne_unknown d hd
  rw [evalOp_fwd n d o l _ hl P hP1]
  simp only [spec, hP2, e1, ok_bind]
  cases o with
  | add =>
    refine ⟨_, add_const_right_all n hn d hd c c (le_refl c) P hw, ?_⟩
    simp only [method, pboxAdd, numberOp_add_wf n P hw c, ok_bind]; rfl
  | sub =>
    refine ⟨⟨P.left.map (-c + ·), P.right.map (-c + ·)⟩, ?_, ?_⟩
    · simp only [binop, PBox.sub, neg_ofIvl n c c hn (le_refl c), ok_bind]
      exact add_const_right_all n hn _ hd' (-c) (-c) (le_refl _) P hw
    · simp only [method, pboxSub, negOpd, ok_bind, pboxAdd, numberOp_add_wf n P hw (-c)]; rfl
  | mul =>
    refine ⟨scaleP P c, ?_, ?_⟩
    · simp only [binop]; rw [mul_const_all n hn d hd P hw c]; exact numberOp_mul_wf n P hw c
    · simp only [method, pboxMul, numberOp_mul_wf n P hw c, ok_bind]; rfl
  | div =>
    have hc0 := hc rfl
    have h0 : 0 < c ∨ c < 0 := by
      rcases lt_trichotomy c 0 with h | h | h
      · exact Or.inr h
      · exact absurd h hc0
      · exact Or.inl h
    refine ⟨scaleP P (1 / c), ?_, ?_⟩
    · simp only [binop, PBox.div, recipOne_ofIvl n c c hn (le_refl c) h0]
      rw [mul_const_all n hn _ hd' P hw (1 / c)]; exact numberOp_mul_wf n P hw (1 / c)
    · simp only [method, pboxDiv, oneOver, hc0, if_false, ok_bind, pboxMul, numberOp_mul_wf n P hw (1 / c)]; rfl


/-! ## number or interval on the left: the reflected operators -/

def lowLo : Opd → Rat
  | .num c => c | .ivl a _ => a | _ => 0
def lowHi : Opd → Rat
  | .num c => c | .ivl _ b => b | _ => 0

theorem lowBox_eq (n : Nat) (l : Opd) (hl : isHigh l = false) : lowBox n l = ofIvl n (lowLo l) (lowHi l) := by
  cases l <;> first | rfl | (simp [isHigh] at hl)

theorem low_le (n : Nat) (l : Opd) (hl : isHigh l = false) (hv : ValidOpd n l) : lowLo l ≤ lowHi l := by
  cases l with
  | num c => exact le_refl c
  | ivl a b => exact hv
  | pbox p => simp [isHigh] at hl
  | dist q => simp [isHigh] at hl
  | dss p => simp [isHigh] at hl

/-- `Q.add(l)` for a number or an interval `l`: the shift, every dependency -/
theorem pboxAdd_low (n : Nat) (hn : 0 < n) (d : Dep) (hd : d ≠ .unknown) (Q : PB) (hQ : WF n Q) (l : Opd)
    (hl : isHigh l = false) (hv : ValidOpd n l) :
    pboxAdd n d Q l = .ok ⟨Q.left.map (lowLo l + ·), Q.right.map (lowHi l + ·)⟩ := by
  cases l with
  | num c => simp only [pboxAdd, lowLo, lowHi]; exact numberOp_add_wf n Q hQ c
  | ivl a b =>
    simp only [pboxAdd, convertPbox, ivlToPbox_eq n a b hn hv, ok_bind, lowLo, lowHi]
    exact add_const_right_all n hn d hd a b hv Q hQ
  | pbox p => simp [isHigh] at hl
  | dist q => simp [isHigh] at hl
  | dss p => simp [isHigh] at hl

/-- `Q.mul(l)` for a number or an interval `l` is the p-box product with the converted `l` -/
theorem pboxMul_low (n : Nat) (hn : 0 < n) (d : Dep) (hd : d ≠ .unknown) (Q : PB) (hQ : WF n Q) (l : Opd)
    (hl : isHigh l = false) (hv : ValidOpd n l) :
    pboxMul n d Q l = mul n d Q (lowBox n l) := by
  cases l with
  | num c => simp only [pboxMul, lowBox]; exact (mul_const_all n hn d hd Q hQ c).symm
  | ivl a b => simp only [pboxMul, convertPbox, ivlToPbox_eq n a b hn hv, ok_bind, lowBox]
  | pbox p => simp [isHigh] at hl
  | dist q => simp [isHigh] at hl
  | dss p => simp [isHigh] at hl

theorem scaleP_one (n : Nat) (R : PB) : scaleP R 1 = R := by
  unfold scaleP; simp

/-- **`l op X`** for a number or an interval `l` and a p-box-like `X` (the reflected operators
`__radd__`, `__rsub__`, `__rmul__`, `__rtruediv__`, dependency NOT exchanged): whenever the converted-first
expression answers `z`, so does the mixed expression — all four operations, every dependency -/
theorem refl_agrees (n : Nat) (hn : 0 < n) (d : Dep) (hd : d ≠ .unknown) (o : Op) (l r : Opd)
    (hl : isHigh l = false) (hvl : ValidOpd n l) (hr : isHigh r = true) (hvr : ValidOpd n r)
    (z : PB) (h : spec n d o l r = .ok z) : evalOp n d o l r = .ok (.pbox z) := by
  obtain ⟨Q, hQ1, hQ2, hw⟩ := convert_high_wf n r hr hvr
  have hd' := swapPO_ne_unknown d hd
  have hab := low_le n l hl hvl
  rw [evalOp_refl n d o l r hl hr Q hQ1]
  simp only [spec, convert_low n hn l hl hvl, hQ2, ok_bind, lowBox_eq n l hl] at h
  cases o with
  | add =>
    simp only [binop, add_const_left_all n hn d hd _ _ hab Q hw] at h
    simp only [reflected, pboxAdd_low n hn d hd Q hw l hl hvl, ok_bind, h]; rfl
  | sub =>
    obtain ⟨hneg, hwn⟩ := neg_wf n Q hw
    simp only [binop, PBox.sub, hneg, ok_bind, add_const_left_all n hn _ hd' _ _ hab _ hwn] at h
    simp only [reflected, hneg, ok_bind, pboxAdd_low n hn d hd _ hwn l hl hvl, h]; rfl
  | mul =>
    simp only [binop] at h
    have h' := mul_comm_ok n d _ _ z (len_ofIvl n _ _) hw.len h
    simp only [reflected, pboxMul_low n hn d hd Q hw l hl hvl, lowBox_eq n l hl, h', ok_bind]; rfl
  | div =>
    simp only [binop, PBox.div] at h
    cases hr12 : (recip n Q >>= fun r => numberOp n (· * ·) r 1) with
    | error e => rw [hr12] at h; simp at h
    | ok r1 =>
      rw [hr12] at h
      simp only at h
      obtain ⟨R, hR, hR1⟩ := bind_ok hr12
      have hwR : WF n R := wf_of (Pun.WF.recip_wf n Q R (wf_to hw) hR)
      rw [numberOp_mul_wf n R hwR 1, scaleP_one n R] at hR1
      injection hR1 with e; subst e
      have h' := mul_comm_ok n _ _ _ z (len_ofIvl n _ _) hwR.len h
      rw [mul_swapPO_const_right] at h'
      simp only [reflected, hR, ok_bind, pboxMul_low n hn d hd R hwR l hl hvl, lowBox_eq n l hl, h', tryType]; rfl


/-! ## ★ every cell -/

/-- divisor numbers / intervals the property covers (no zero inside); a p-box-like divisor needs no side
condition for the AGREEMENT (if the converted-first quotient answers, so does the mixed one) -/
def DivisorLowOk (o : Op) : Opd → Prop
  | .num c => o = .div → c ≠ 0
  | .ivl a b => o = .div → (0 < a ∨ b < 0)
  | _ => True


/-- **C07, dispatch part — agreement, every cell.**  For any number of steps, every dependency code, every
operation and every pair of valid operands of which at least one is p-box-like (divisor numbers /
intervals without zero): whenever the expression with every operand converted first answers `z`, the mixed
expression answers the same `z`. -/
theorem route_agrees' (n : Nat) (hn : 0 < n) (d : Dep) (hd : d ≠ .unknown) (o : Op) (l r : Opd)
    (hvl : ValidOpd n l) (hvr : ValidOpd n r) (hh : isHigh l = true ∨ isHigh r = true) (hdiv : DivisorLowOk o r)
    (z : PB) (h : spec n d o l r = .ok z) : evalOp n d o l r = .ok (.pbox z) := by
  cases hl : isHigh l with
  | true =>
    cases r with
    | num c =>
      obtain ⟨z', h1, h2⟩ := fwd_num_agrees n hn d hd o l hl hvl c hdiv
      rw [h1] at h; injection h with e; subst e; exact h2
    | ivl a b => exact fwd_agrees n hn d o l (.ivl a b) hl ⟨hvr, hdiv⟩ z h
    | pbox p => exact fwd_agrees n hn d o l (.pbox p) hl trivial z h
    | dist q => exact fwd_agrees n hn d o l (.dist q) hl trivial z h
    | dss p => exact fwd_agrees n hn d o l (.dss p) hl trivial z h
  | false =>
    have hr : isHigh r = true := by
      rcases hh with h' | h'
      · rw [hl] at h'; cases h'
      · exact h'
    exact refl_agrees n hn d hd o l r hl hvl hr hvr z h

theorem divisorLow_of (o : Op) (r : Opd) (h : DivisorOk o r) : DivisorLowOk o r := by
  cases r <;> first | exact h | trivial

theorem route_agrees (n : Nat) (hn : 0 < n) (d : Dep) (hd : d ≠ .unknown) (o : Op) (l r : Opd)
    (hvl : ValidOpd n l) (hvr : ValidOpd n r) (hh : isHigh l = true ∨ isHigh r = true) (hdiv : DivisorOk o r)
    (z : PB) (h : spec n d o l r = .ok z) : evalOp n d o l r = .ok (.pbox z) :=
  route_agrees' n hn d hd o l r hvl hvr hh (divisorLow_of o r hdiv) z h

/-! ## when the converted-first expression answers -/

def isNum : Opd → Bool
  | .num _ => true | _ => false

/-- every valid operand converts to a well-formed box (a number to a constant one) -/
theorem convert_valid (n : Nat) (hn : 0 < n) (l : Opd) (hv : ValidOpd n l) :
    ∃ X, convert n l = .ok X ∧ WF n X ∧ (isNum l = true → ∃ c, X = ofIvl n c c) := by
  cases l with
  | num c => exact ⟨_, ivlToPbox_eq n c c hn (le_refl c), wf_ofIvl n c c (le_refl c), fun _ => ⟨c, rfl⟩⟩
  | ivl a b => exact ⟨_, ivlToPbox_eq n a b hn hv, wf_ofIvl n a b hv, fun h => by simp [isNum] at h⟩
  | pbox p => exact ⟨p, rfl, hv, fun h => by simp [isNum] at h⟩
  | dist q => exact ⟨ofDist q, rfl, by obtain ⟨h1, h2⟩ := hv; subst h1; exact wf_ofDist q h2, fun h => by simp [isNum] at h⟩
  | dss p => exact ⟨p, rfl, hv, fun h => by simp [isNum] at h⟩

/-- a valid divisor without zero converts to a box of one sign -/
theorem divisor_sameSign (n : Nat) (hn : 0 < n) (r : Opd) (hv : ValidOpd n r) (hdiv : DivisorOk .div r)
    (Y : PB) (hY : convert n r = .ok Y) : SameSign Y := by
  cases r with
  | num c =>
    have h0 := hdiv rfl
    rw [show convert n (.num c) = .ok (ofIvl n c c) from ivlToPbox_eq n c c hn (le_refl c)] at hY
    injection hY with e; subst e
    rcases lt_trichotomy c 0 with h | h | h
    · right; constructor <;> intro v hv' <;> simp only [ofIvl, List.mem_replicate] at hv' <;> rw [hv'.2] <;> exact h
    · exact absurd h h0
    · left; constructor <;> intro v hv' <;> simp only [ofIvl, List.mem_replicate] at hv' <;> rw [hv'.2] <;> exact h
  | ivl a b =>
    rw [show convert n (.ivl a b) = .ok (ofIvl n a b) from ivlToPbox_eq n a b hn hv] at hY
    injection hY with e; subst e
    rcases hdiv rfl with h | h
    · left; constructor <;> intro v hv' <;> simp only [ofIvl, List.mem_replicate] at hv' <;> rw [hv'.2]
      · exact h
      · exact lt_of_lt_of_le h hv
    · right; constructor <;> intro v hv' <;> simp only [ofIvl, List.mem_replicate] at hv' <;> rw [hv'.2]
      · exact lt_of_le_of_lt hv h
      · exact h
  | pbox p =>
    simp only [convert, convertPbox] at hY; injection hY with e; subst e
    exact sameSign_of n _ hv (hdiv rfl)
  | dist q =>
    simp only [convert, convertPbox] at hY; injection hY with e; subst e
    obtain ⟨h1, h2⟩ := hv; subst h1
    exact sameSign_of _ _ (wf_ofDist q h2) (hdiv rfl)
  | dss p =>
    simp only [convert, convertPbox] at hY; injection hY with e; subst e
    exact sameSign_of n _ hv (hdiv rfl)

/-- **the converted-first expression answers** (with a well-formed p-box): always for `+`, `-` and under perfect /
opposite / independent dependence; under Frechet for `×`, `÷` when neither converted operand straddles zero
or one operand is a Python number -/
theorem spec_total (n : Nat) (hn : 0 < n) (d : Dep) (hd : d ≠ .unknown) (o : Op) (l r : Opd)
    (hvl : ValidOpd n l) (hvr : ValidOpd n r) (hdiv : DivisorOk o r)
    (hf : d = .f → (o = .mul ∨ o = .div) →
      (∀ X Y, convert n l = .ok X → convert n r = .ok Y → straddlesZero X = false ∧ straddlesZero Y = false) ∨
      isNum l = true ∨ isNum r = true) :
    ∃ z, spec n d o l r = .ok z ∧ WF n z := by
  obtain ⟨X, hX, wX, nX⟩ := convert_valid n hn l hvl
  obtain ⟨Y, hY, wY, nY⟩ := convert_valid n hn r hvr
  simp only [spec, hX, hY, ok_bind]
  apply binop_total n hn o d hd X Y wX wY
  · intro ho; subst ho; exact divisor_sameSign n hn r hvr hdiv Y hY
  · intro h1 h2
    rcases hf h1 h2 with h | h | h
    · exact Or.inl (h X Y hX hY)
    · exact Or.inr (Or.inl (nX h))
    · exact Or.inr (Or.inr (nY h))

/-- **C07, dispatch part**: under the conditions of `spec_total` the converted-first expression answers a
well-formed p-box and the mixed expression returns exactly that p-box.  What remains of `C07RouteStatement`:
that the Frechet product / quotient of converted operands answers when an operand straddles zero and neither
is a number (non-emptiness of naive ∩ Balch — the soundness of those two bounds, C02's open extension); the
AGREEMENT (`route_agrees`) holds there too. -/
theorem route_partial (n : Nat) (hn : 0 < n) (d : Dep) (hd : d ≠ .unknown) (o : Op) (l r : Opd)
    (hvl : ValidOpd n l) (hvr : ValidOpd n r) (hh : isHigh l = true ∨ isHigh r = true) (hdiv : DivisorOk o r)
    (hf : d = .f → (o = .mul ∨ o = .div) →
      (∀ X Y, convert n l = .ok X → convert n r = .ok Y → straddlesZero X = false ∧ straddlesZero Y = false) ∨
      isNum l = true ∨ isNum r = true) :
    ∃ z, spec n d o l r = .ok z ∧ evalOp n d o l r = .ok (.pbox z) ∧ WF n z := by
  obtain ⟨z, hz, wz⟩ := spec_total n hn d hd o l r hvl hvr hdiv hf
  exact ⟨z, hz, route_agrees n hn d hd o l r hvl hvr hh hdiv z hz, wz⟩

/-- non-vacuity: a zero-straddling distribution times a negative number under Frechet (the number route against
naive ∩ Balch), and an interval divided by a DS structure under opposite dependence -/
example : ∃ z, spec 3 .f .mul (.dist [-1, 0, 2]) (.num (-3)) = .ok z ∧
    evalOp 3 .f .mul (.dist [-1, 0, 2]) (.num (-3)) = .ok (.pbox z) ∧ WF 3 z :=
  route_partial 3 (by decide) .f (by decide) .mul _ _ ⟨rfl, by decide⟩ trivial (Or.inl rfl)
    (fun h => by cases h) (fun _ _ => Or.inr (Or.inr rfl))

example : ∃ z, spec 2 .o .div (.ivl (-1) 2) (.dss ⟨[1, 2], [3, 4]⟩) = .ok z ∧
    evalOp 2 .o .div (.ivl (-1) 2) (.dss ⟨[1, 2], [3, 4]⟩) = .ok (.pbox z) ∧ WF 2 z :=
  route_partial 2 (by decide) .o (by decide) .div _ _ (by show (-1 : Rat) ≤ 2; norm_num)
    ⟨rfl, rfl, by decide, by decide, by repeat constructor⟩ (Or.inr rfl)
    (fun _ => Or.inl (by intro v hv; simp at hv; rcases hv with h | h <;> rw [h] <;> norm_num))
    (fun h => by cases h)


end Pun.Hier
