import Pun.Lemmas.Elem
/-!
# C05 — interval elementary functions and integer powers enclose every pointwise value

All statements are about the definitions of `Pun.Model.Elem` that the driver executes.
Transcendental functions are abstract (`s`, `f`, `E : ℚ → ℚ`) with exactly the order facts used.
-/
set_option linter.unusedSimpArgs false
set_option linter.unusedVariables false
namespace Pun.Elem

/-! ## cosine, sine: the scalar case analysis is sound and total -/

/-- Soundness of the cosine case analysis for ANY function that is `T`-periodic, bounded by ±1,
antitone on the first half period and monotone on the second.  Reduced endpoints are given by their
defining decomposition `lo = yl + kl·T`, `0 ≤ yl < T` (what `%` computes). -/
theorem cos_sound (s : ℚ → ℚ) (T : ℚ) (hT : 0 < T)
    (per : ∀ (x : ℚ) (k : ℤ), s (x + k * T) = s x)
    (bd : ∀ x, -1 ≤ s x ∧ s x ≤ 1)
    (anti : ∀ u v, 0 ≤ u → u ≤ v → v ≤ T / 2 → s v ≤ s u)
    (mono : ∀ u v, T / 2 ≤ u → u ≤ v → v ≤ T → s u ≤ s v)
    (lo hi x yl yh yx : ℚ) (kl kh kx : ℤ)
    (hlo : lo = yl + kl * T) (hyl0 : 0 ≤ yl) (hylT : yl < T)
    (hhi : hi = yh + kh * T) (hyh0 : 0 ≤ yh) (hyhT : yh < T)
    (hx : x = yx + kx * T) (hyx0 : 0 ≤ yx) (hyxT : yx < T)
    (h1 : lo ≤ x) (h2 : x ≤ hi) (sh : Shape)
    (hsh : cosShape (hi - lo) yl yh T = some sh) :
    (bounds (s yl) (s yh) sh).1 ≤ s x ∧ s x ≤ (bounds (s yl) (s yh) sh).2 := by
  have hsx : s x = s yx := by rw [hx, per]
  rw [hsx]
  have hb := bd yx
  -- integer bookkeeping
  have hk1 : kl ≤ kx := by
    by_contra hcon
    have : kx + 1 ≤ kl := by omega
    have hc : ((kx : ℚ) + 1) ≤ (kl : ℚ) := by exact_mod_cast this
    nlinarith
  have hk2 : kx ≤ kh := by
    by_contra hcon
    have : kh + 1 ≤ kx := by omega
    have hc : ((kh : ℚ) + 1) ≤ (kx : ℚ) := by exact_mod_cast this
    nlinarith
  unfold cosShape at hsh
  simp only at hsh
  by_cases hw : T ≤ hi - lo
  · simp only [hw, if_true, Option.some.injEq] at hsh; subst hsh; exact hb
  · simp only [hw, if_false] at hsh
    have hwT : hi - lo < T := not_le.mp hw
    have hk3 : kh ≤ kl + 1 := by
      by_contra hcon
      have : kl + 2 ≤ kh := by omega
      have hc : ((kl : ℚ) + 2) ≤ (kh : ℚ) := by exact_mod_cast this
      nlinarith
    -- position of yx relative to yl, yh
    have hpos : (kx = kl ∧ yl ≤ yx) ∨ (kx = kh ∧ yx ≤ yh) := by
      rcases (by omega : kx = kl ∨ kx = kh) with h | h
      · left; refine ⟨h, ?_⟩; subst h; nlinarith
      · right; refine ⟨h, ?_⟩; subst h; nlinarith
    have hsame : kh = kl → yl ≤ yh := by
      intro h; subst h; nlinarith
    have hwrap : kh = kl + 1 → yh < yl := by
      intro h
      have : (kh : ℚ) = kl + 1 := by exact_mod_cast h
      nlinarith
    split_ifs at hsh with c1 c2 c3 c4 c5
    all_goals (simp only [Option.some.injEq] at hsh; subst hsh; simp only [bounds])
    · exact hb
    · -- lh : yl ≤ yh, both in second half
      obtain ⟨hle, ⟨a1, a2⟩, ⟨b1, b2⟩⟩ := c2
      have hkk : kh = kl := by
        rcases (by omega : kh = kl ∨ kh = kl + 1) with h | h
        · exact h
        · exact absurd (hwrap h) (not_lt.mpr hle)
      rcases hpos with ⟨hk, hy⟩ | ⟨hk, hy⟩
      · have hyy : yx ≤ yh := by subst hk; rw [hkk] at hhi; nlinarith
        exact ⟨mono yl yx a1 hy (le_trans hyy b2), mono yx yh (le_trans a1 hy) hyy b2⟩
      · have hyy : yl ≤ yx := by subst hk; rw [hkk] at hx; nlinarith
        exact ⟨mono yl yx a1 hyy (le_trans hy b2), mono yx yh (le_trans a1 hyy) hy b2⟩
    · -- minTo1 : yl in second half, yh in first half
      obtain ⟨⟨a1, a2⟩, ⟨b1, b2⟩⟩ := c3
      refine ⟨?_, hb.2⟩
      rcases hpos with ⟨hk, hy⟩ | ⟨hk, hy⟩
      · exact le_trans (min_le_left _ _) (mono yl yx a1 hy (le_of_lt hyxT))
      · exact le_trans (min_le_right _ _) (anti yx yh hyx0 hy b2)
    · -- m1ToMax : yl in first half, yh in second half
      obtain ⟨⟨a1, a2⟩, ⟨b1, b2⟩⟩ := c4
      refine ⟨hb.1, ?_⟩
      have hkk : kh = kl := by
        rcases (by omega : kh = kl ∨ kh = kl + 1) with h | h
        · exact h
        · have := hwrap h
          -- yh < yl ≤ H ≤ yh : only possible if equal, contradiction
          linarith
      have hyl_le : yl ≤ yx := by
        rcases hpos with ⟨hk, hy⟩ | ⟨hk, hy⟩
        · exact hy
        · subst hk; rw [hkk] at hx; nlinarith
      have hyx_le : yx ≤ yh := by
        rcases hpos with ⟨hk, hy⟩ | ⟨hk, hy⟩
        · subst hk; rw [hkk] at hhi; nlinarith
        · exact hy
      by_cases hm : yx ≤ T / 2
      · exact le_trans (anti yl yx a1 hyl_le hm) (le_max_left _ _)
      · exact le_trans (mono yx yh (le_of_lt (not_le.mp hm)) hyx_le b2) (le_max_right _ _)
    · -- hl : yl ≤ yh, both in first half
      obtain ⟨hle, ⟨a1, a2⟩, ⟨b1, b2⟩⟩ := c5
      have hkk : kh = kl := by
        rcases (by omega : kh = kl ∨ kh = kl + 1) with h | h
        · exact h
        · exact absurd (hwrap h) (not_lt.mpr hle)
      have hyl_le : yl ≤ yx := by
        rcases hpos with ⟨hk, hy⟩ | ⟨hk, hy⟩
        · exact hy
        · subst hk; rw [hkk] at hx; nlinarith
      have hyx_le : yx ≤ yh := by
        rcases hpos with ⟨hk, hy⟩ | ⟨hk, hy⟩
        · subst hk; rw [hkk] at hhi; nlinarith
        · exact hy
      exact ⟨anti yx yh hyx0 hyx_le b2, anti yl yx a1 hyl_le (le_trans hyx_le b2)⟩


/-- the scalar cosine never falls off the end (never returns Python `None`) on reduced endpoints -/
theorem cos_total (w yl yh T : ℚ) (hT : 0 < T) (hyl0 : 0 ≤ yl) (hylT : yl < T) (hyh0 : 0 ≤ yh) (hyhT : yh < T) :
    (cosShape w yl yh T).isSome = true := by
  unfold cosShape
  simp only
  split_ifs with c0 c1 c2 c3 c4 c5
  all_goals first
    | rfl
    | (exfalso
       rcases le_total yl (T / 2) with a | a <;> rcases le_total yh (T / 2) with b | b <;>
         rcases le_or_gt yl yh with c | c
       · exact c5 ⟨c, ⟨hyl0, a⟩, ⟨hyh0, b⟩⟩
       · exact c1 (Or.inl ⟨c, ⟨hyl0, a⟩, ⟨hyh0, b⟩⟩)
       · exact c4 ⟨⟨hyl0, a⟩, ⟨b, le_of_lt hyhT⟩⟩
       · exact c4 ⟨⟨hyl0, a⟩, ⟨b, le_of_lt hyhT⟩⟩
       · exact c3 ⟨⟨a, le_of_lt hylT⟩, ⟨hyh0, b⟩⟩
       · exact c3 ⟨⟨a, le_of_lt hylT⟩, ⟨hyh0, b⟩⟩
       · exact c2 ⟨c, ⟨a, le_of_lt hylT⟩, ⟨b, le_of_lt hyhT⟩⟩
       · exact c1 (Or.inr ⟨c, ⟨a, le_of_lt hylT⟩, ⟨b, le_of_lt hyhT⟩⟩))


theorem sin_sound (s : ℚ → ℚ) (T : ℚ) (hT : 0 < T)
    (per : ∀ (x : ℚ) (k : ℤ), s (x + k * T) = s x)
    (bd : ∀ x, -1 ≤ s x ∧ s x ≤ 1)
    (m1 : ∀ u v, 0 ≤ u → u ≤ v → v ≤ T / 4 → s u ≤ s v)
    (a2 : ∀ u v, T / 4 ≤ u → u ≤ v → v ≤ 3 * (T / 4) → s v ≤ s u)
    (m3 : ∀ u v, 3 * (T / 4) ≤ u → u ≤ v → v ≤ T → s u ≤ s v)
    (lo hi x yl yh yx : ℚ) (kl kh kx : ℤ)
    (hlo : lo = yl + kl * T) (hyl0 : 0 ≤ yl) (hylT : yl < T)
    (hhi : hi = yh + kh * T) (hyh0 : 0 ≤ yh) (hyhT : yh < T)
    (hx : x = yx + kx * T) (hyx0 : 0 ≤ yx) (hyxT : yx < T)
    (h1 : lo ≤ x) (h2 : x ≤ hi) (sh : Shape)
    (hsh : sinShape (hi - lo) yl yh T = some sh) :
    (bounds (s yl) (s yh) sh).1 ≤ s x ∧ s x ≤ (bounds (s yl) (s yh) sh).2 := by
  have hsx : s x = s yx := by rw [hx, per]
  rw [hsx]
  have hb := bd yx
  have hT0 : s T = s 0 := by have := per 0 1; simpa using this
  unfold sinShape at hsh
  simp only at hsh
  by_cases hw : T ≤ hi - lo
  · simp only [hw, if_true, Option.some.injEq] at hsh; subst hsh; exact hb
  · simp only [hw, if_false] at hsh
    have hr := reduced_range T hT lo hi x yl yh yx kl kh kx hlo hyl0 hylT hhi hyh0 hyhT hx hyx0 hyxT h1 h2
      (not_le.mp hw)
    have hQ : 0 < T / 4 := by linarith
    split_ifs at hsh with e1 e2 e3 c1 c2 c3 c4 c5
    all_goals (simp only [Option.some.injEq] at hsh; subst hsh; simp only [bounds])
    · -- early return 1: within [0,Q], increasing
      obtain ⟨⟨a, b⟩, c⟩ := e1
      rcases hr with ⟨p, q⟩ | ⟨hwr, _⟩
      · exact ⟨m1 yl yx a p (le_trans q b), m1 yx yh hyx0 q b⟩
      · exact absurd hwr (not_lt.mpr c)
    · -- early return 2: within [Q,3Q], decreasing
      obtain ⟨⟨a, b⟩, c⟩ := e2
      rcases hr with ⟨p, q⟩ | ⟨hwr, _⟩
      · exact ⟨a2 yx yh (le_trans a p) q b, a2 yl yx a p (le_trans q b)⟩
      · exact absurd hwr (not_lt.mpr c)
    · -- early return 3: within [3Q,T], increasing
      obtain ⟨⟨a, b⟩, c⟩ := e3
      rcases hr with ⟨p, q⟩ | ⟨hwr, _⟩
      · exact ⟨m3 yl yx a p (le_trans q b), m3 yx yh (le_trans a p) q b⟩
      · exact absurd hwr (not_lt.mpr c)
    · exact hb
    · -- case2: [sl, sh]
      rcases c2 with ⟨⟨a, a'⟩, ⟨b, b'⟩, c⟩ | ⟨⟨a, a'⟩, ⟨b, b'⟩⟩ | ⟨⟨a, a'⟩, ⟨b, b'⟩, c⟩
      · rcases hr with ⟨p, q⟩ | ⟨hwr, _⟩
        · exact ⟨m1 yl yx a p (le_trans q b'), m1 yx yh hyx0 q b'⟩
        · exact absurd hwr (not_lt.mpr c)
      · -- wrap from third quadrant to first quadrant
        rcases hr with ⟨p, q⟩ | ⟨hwr, p | q⟩
        · -- no wrap possible unless degenerate: yl ≤ yx ≤ yh ≤ Q < 3Q ≤ yl
          exfalso; linarith
        · -- yx in [yl, T)
          refine ⟨m3 yl yx a p (le_of_lt hyxT), ?_⟩
          calc s yx ≤ s T := m3 yx T (le_trans a p) (le_of_lt hyxT) (le_refl _)
            _ = s 0 := hT0
            _ ≤ s yh := m1 0 yh (le_refl _) b b'
        · -- yx in [0, yh]
          refine ⟨?_, m1 yx yh hyx0 q b'⟩
          calc s yl ≤ s T := m3 yl T a a' (le_refl _)
            _ = s 0 := hT0
            _ ≤ s yx := m1 0 yx (le_refl _) hyx0 (le_trans q b')
      · rcases hr with ⟨p, q⟩ | ⟨hwr, _⟩
        · exact ⟨m3 yl yx a p (le_trans q b'), m3 yx yh (le_trans a p) q b'⟩
        · exact absurd hwr (not_lt.mpr c)
    · -- case3: [min, 1]
      refine ⟨?_, hb.2⟩
      rcases c3 with ⟨⟨a, a'⟩, ⟨b, b'⟩⟩ | ⟨⟨a, a'⟩, ⟨b, b'⟩⟩
      · -- yl in [0,Q], yh in [Q,3Q]
        rcases hr with ⟨p, q⟩ | ⟨hwr, _⟩
        · by_cases hm : yx ≤ T / 4
          · exact le_trans (min_le_left _ _) (m1 yl yx a p hm)
          · exact le_trans (min_le_right _ _) (a2 yx yh (le_of_lt (not_le.mp hm)) q b')
        · exfalso; linarith
      · -- yl in [3Q,T], yh in [Q,3Q] : wrap
        rcases hr with ⟨p, q⟩ | ⟨hwr, p | q⟩
        · -- 3Q ≤ yl ≤ yx ≤ yh ≤ 3Q: all equal 3Q
          have e1 : yx = yl := by linarith
          rw [e1]; exact min_le_left _ _
        · exact le_trans (min_le_left _ _) (m3 yl yx a p (le_of_lt hyxT))
        · by_cases hm : yx ≤ T / 4
          · -- s yl ≤ s T = s 0 ≤ s yx
            refine le_trans (min_le_left _ _) ?_
            calc s yl ≤ s T := m3 yl T a a' (le_refl _)
              _ = s 0 := hT0
              _ ≤ s yx := m1 0 yx (le_refl _) hyx0 hm
          · exact le_trans (min_le_right _ _) (a2 yx yh (le_of_lt (not_le.mp hm)) q b')
    · -- case4: [-1, max]
      refine ⟨hb.1, ?_⟩
      rcases c4 with ⟨⟨a, a'⟩, ⟨b, b'⟩⟩ | ⟨⟨a, a'⟩, ⟨b, b'⟩⟩
      · -- yl in [Q,3Q], yh in [0,Q] : wrap
        rcases hr with ⟨p, q⟩ | ⟨hwr, p | q⟩
        · have e1 : yx = yl := by linarith
          rw [e1]; exact le_max_left _ _
        · by_cases hm : yx ≤ 3 * (T / 4)
          · exact le_trans (a2 yl yx a p hm) (le_max_left _ _)
          · refine le_trans ?_ (le_max_right _ _)
            calc s yx ≤ s T := m3 yx T (le_of_lt (not_le.mp hm)) (le_of_lt hyxT) (le_refl _)
              _ = s 0 := hT0
              _ ≤ s yh := m1 0 yh (le_refl _) b b'
        · exact le_trans (m1 yx yh hyx0 q b') (le_max_right _ _)
      · -- yl in [Q,3Q], yh in [3Q,T]
        rcases hr with ⟨p, q⟩ | ⟨hwr, _⟩
        · by_cases hm : yx ≤ 3 * (T / 4)
          · exact le_trans (a2 yl yx a p hm) (le_max_left _ _)
          · exact le_trans (m3 yx yh (le_of_lt (not_le.mp hm)) q b') (le_max_right _ _)
        · exfalso; linarith
    · -- case5: [sh, sl]
      obtain ⟨⟨a, a'⟩, ⟨b, b'⟩, c⟩ := c5
      rcases hr with ⟨p, q⟩ | ⟨hwr, _⟩
      · exact ⟨a2 yx yh (le_trans a p) q b', a2 yl yx a p (le_trans q b')⟩
      · exact absurd hwr (not_lt.mpr c)


end Pun.Elem
