import Pun.Lemmas.Elem
import Mathlib.Tactic.Tauto
import Mathlib.Algebra.Order.Ring.Abs
import Mathlib.Algebra.Order.Ring.Basic
import Mathlib.Algebra.Order.Field.Basic
import Mathlib.Algebra.Order.GroupWithZero.Basic
import Mathlib.Algebra.Order.Monoid.Unbundled.Pow
/-!
# C05 — interval elementary functions and integer powers enclose every pointwise value

All statements are about the definitions of `Pun.Model.Elem` that the driver executes.
Transcendental functions are abstract (`s`, `f`, `E : ℚ → ℚ`) with exactly the order facts used.
-/
set_option linter.unusedSimpArgs false
set_option linter.unusedVariables false
namespace Pun.Elem

/-! ## cosine, sine: the scalar case analysis is sound and total -/

/-- Soundness of the cosine case analysis for ANY function that is `T`-periodic, bounded by ±1,
antitone on the first half period and monotone on the second.  Reduced endpoints are given by their
defining decomposition `lo = yl + kl·T`, `0 ≤ yl < T` (what `%` computes). -/
theorem cos_sound (s : ℚ → ℚ) (T : ℚ) (hT : 0 < T)
    (per : ∀ (x : ℚ) (k : ℤ), s (x + k * T) = s x)
    (bd : ∀ x, -1 ≤ s x ∧ s x ≤ 1)
    (anti : ∀ u v, 0 ≤ u → u ≤ v → v ≤ T / 2 → s v ≤ s u)
    (mono : ∀ u v, T / 2 ≤ u → u ≤ v → v ≤ T → s u ≤ s v)
    (lo hi x yl yh yx : ℚ) (kl kh kx : ℤ)
    (hlo : lo = yl + kl * T) (hyl0 : 0 ≤ yl) (hylT : yl < T)
    (hhi : hi = yh + kh * T) (hyh0 : 0 ≤ yh) (hyhT : yh < T)
    (hx : x = yx + kx * T) (hyx0 : 0 ≤ yx) (hyxT : yx < T)
    (h1 : lo ≤ x) (h2 : x ≤ hi) (sh : Shape)
    (hsh : cosShape (hi - lo) yl yh T = some sh) :
    (bounds (s yl) (s yh) sh).1 ≤ s x ∧ s x ≤ (bounds (s yl) (s yh) sh).2 := by
  have hsx : s x = s yx := by rw [hx, per]
  rw [hsx]
  have hb := bd yx
  -- integer bookkeeping
  have hk1 : kl ≤ kx := by
    by_contra hcon
    have : kx + 1 ≤ kl := by omega
    have hc : ((kx : ℚ) + 1) ≤ (kl : ℚ) := by exact_mod_cast this
    nlinarith
  have hk2 : kx ≤ kh := by
    by_contra hcon
    have : kh + 1 ≤ kx := by omega
    have hc : ((kh : ℚ) + 1) ≤ (kx : ℚ) := by exact_mod_cast this
    nlinarith
  unfold cosShape at hsh
  simp only at hsh
  by_cases hw : T ≤ hi - lo
  · simp only [hw, if_true, Option.some.injEq] at hsh; subst hsh; exact hb
  · simp only [hw, if_false] at hsh
    have hwT : hi - lo < T := not_le.mp hw
    have hk3 : kh ≤ kl + 1 := by
      by_contra hcon
      have : kl + 2 ≤ kh := by omega
      have hc : ((kl : ℚ) + 2) ≤ (kh : ℚ) := by exact_mod_cast this
      nlinarith
    -- position of yx relative to yl, yh
    have hpos : (kx = kl ∧ yl ≤ yx) ∨ (kx = kh ∧ yx ≤ yh) := by
      rcases (by omega : kx = kl ∨ kx = kh) with h | h
      · left; refine ⟨h, ?_⟩; subst h; nlinarith
      · right; refine ⟨h, ?_⟩; subst h; nlinarith
    have hsame : kh = kl → yl ≤ yh := by
      intro h; subst h; nlinarith
    have hwrap : kh = kl + 1 → yh < yl := by
      intro h
      have : (kh : ℚ) = kl + 1 := by exact_mod_cast h
      nlinarith
    split_ifs at hsh with c1 c2 c3 c4 c5
    all_goals (simp only [Option.some.injEq] at hsh; subst hsh; simp only [bounds])
    · exact hb
    · -- lh : yl ≤ yh, both in second half
      obtain ⟨hle, ⟨a1, a2⟩, ⟨b1, b2⟩⟩ := c2
      have hkk : kh = kl := by
        rcases (by omega : kh = kl ∨ kh = kl + 1) with h | h
        · exact h
        · exact absurd (hwrap h) (not_lt.mpr hle)
      rcases hpos with ⟨hk, hy⟩ | ⟨hk, hy⟩
      · have hyy : yx ≤ yh := by subst hk; rw [hkk] at hhi; nlinarith
        exact ⟨mono yl yx a1 hy (le_trans hyy b2), mono yx yh (le_trans a1 hy) hyy b2⟩
      · have hyy : yl ≤ yx := by subst hk; rw [hkk] at hx; nlinarith
        exact ⟨mono yl yx a1 hyy (le_trans hy b2), mono yx yh (le_trans a1 hyy) hy b2⟩
    · -- minTo1 : yl in second half, yh in first half
      obtain ⟨⟨a1, a2⟩, ⟨b1, b2⟩⟩ := c3
      refine ⟨?_, hb.2⟩
      rcases hpos with ⟨hk, hy⟩ | ⟨hk, hy⟩
      · exact le_trans (min_le_left _ _) (mono yl yx a1 hy (le_of_lt hyxT))
      · exact le_trans (min_le_right _ _) (anti yx yh hyx0 hy b2)
    · -- m1ToMax : yl in first half, yh in second half
      obtain ⟨⟨a1, a2⟩, ⟨b1, b2⟩⟩ := c4
      refine ⟨hb.1, ?_⟩
      have hkk : kh = kl := by
        rcases (by omega : kh = kl ∨ kh = kl + 1) with h | h
        · exact h
        · have := hwrap h
          -- yh < yl ≤ H ≤ yh : only possible if equal, contradiction
          linarith
      have hyl_le : yl ≤ yx := by
        rcases hpos with ⟨hk, hy⟩ | ⟨hk, hy⟩
        · exact hy
        · subst hk; rw [hkk] at hx; nlinarith
      have hyx_le : yx ≤ yh := by
        rcases hpos with ⟨hk, hy⟩ | ⟨hk, hy⟩
        · subst hk; rw [hkk] at hhi; nlinarith
        · exact hy
      by_cases hm : yx ≤ T / 2
      · exact le_trans (anti yl yx a1 hyl_le hm) (le_max_left _ _)
      · exact le_trans (mono yx yh (le_of_lt (not_le.mp hm)) hyx_le b2) (le_max_right _ _)
    · -- hl : yl ≤ yh, both in first half
      obtain ⟨hle, ⟨a1, a2⟩, ⟨b1, b2⟩⟩ := c5
      have hkk : kh = kl := by
        rcases (by omega : kh = kl ∨ kh = kl + 1) with h | h
        · exact h
        · exact absurd (hwrap h) (not_lt.mpr hle)
      have hyl_le : yl ≤ yx := by
        rcases hpos with ⟨hk, hy⟩ | ⟨hk, hy⟩
        · exact hy
        · subst hk; rw [hkk] at hx; nlinarith
      have hyx_le : yx ≤ yh := by
        rcases hpos with ⟨hk, hy⟩ | ⟨hk, hy⟩
        · subst hk; rw [hkk] at hhi; nlinarith
        · exact hy
      exact ⟨anti yx yh hyx0 hyx_le b2, anti yl yx a1 hyl_le (le_trans hyx_le b2)⟩


theorem sin_sound (s : ℚ → ℚ) (T : ℚ) (hT : 0 < T)
    (per : ∀ (x : ℚ) (k : ℤ), s (x + k * T) = s x)
    (bd : ∀ x, -1 ≤ s x ∧ s x ≤ 1)
    (m1 : ∀ u v, 0 ≤ u → u ≤ v → v ≤ T / 4 → s u ≤ s v)
    (a2 : ∀ u v, T / 4 ≤ u → u ≤ v → v ≤ 3 * (T / 4) → s v ≤ s u)
    (m3 : ∀ u v, 3 * (T / 4) ≤ u → u ≤ v → v ≤ T → s u ≤ s v)
    (lo hi x yl yh yx : ℚ) (kl kh kx : ℤ)
    (hlo : lo = yl + kl * T) (hyl0 : 0 ≤ yl) (hylT : yl < T)
    (hhi : hi = yh + kh * T) (hyh0 : 0 ≤ yh) (hyhT : yh < T)
    (hx : x = yx + kx * T) (hyx0 : 0 ≤ yx) (hyxT : yx < T)
    (h1 : lo ≤ x) (h2 : x ≤ hi) (sh : Shape)
    (hsh : sinShape (hi - lo) yl yh T = some sh) :
    (bounds (s yl) (s yh) sh).1 ≤ s x ∧ s x ≤ (bounds (s yl) (s yh) sh).2 := by
  have hsx : s x = s yx := by rw [hx, per]
  rw [hsx]
  have hb := bd yx
  have hT0 : s T = s 0 := by have := per 0 1; simpa using this
  unfold sinShape at hsh
  simp only at hsh
  by_cases hw : T ≤ hi - lo
  · simp only [hw, if_true, Option.some.injEq] at hsh; subst hsh; exact hb
  · simp only [hw, if_false] at hsh
    have hr := reduced_range T hT lo hi x yl yh yx kl kh kx hlo hyl0 hylT hhi hyh0 hyhT hx hyx0 hyxT h1 h2
      (not_le.mp hw)
    have hQ : 0 < T / 4 := by linarith
    split_ifs at hsh with e1 e2 e3 c1 c2 c3 c4 c5
    all_goals (simp only [Option.some.injEq] at hsh; subst hsh; simp only [bounds])
    · -- early return 1: within [0,Q], increasing
      obtain ⟨⟨a, b⟩, c⟩ := e1
      rcases hr with ⟨p, q⟩ | ⟨hwr, _⟩
      · exact ⟨m1 yl yx a p (le_trans q b), m1 yx yh hyx0 q b⟩
      · exact absurd hwr (not_lt.mpr c)
    · -- early return 2: within [Q,3Q], decreasing
      obtain ⟨⟨a, b⟩, c⟩ := e2
      rcases hr with ⟨p, q⟩ | ⟨hwr, _⟩
      · exact ⟨a2 yx yh (le_trans a p) q b, a2 yl yx a p (le_trans q b)⟩
      · exact absurd hwr (not_lt.mpr c)
    · -- early return 3: within [3Q,T], increasing
      obtain ⟨⟨a, b⟩, c⟩ := e3
      rcases hr with ⟨p, q⟩ | ⟨hwr, _⟩
      · exact ⟨m3 yl yx a p (le_trans q b), m3 yx yh (le_trans a p) q b⟩
      · exact absurd hwr (not_lt.mpr c)
    · exact hb
    · -- case2: [sl, sh]
      rcases c2 with ⟨⟨a, a'⟩, ⟨b, b'⟩, c⟩ | ⟨⟨a, a'⟩, ⟨b, b'⟩⟩ | ⟨⟨a, a'⟩, ⟨b, b'⟩, c⟩
      · rcases hr with ⟨p, q⟩ | ⟨hwr, _⟩
        · exact ⟨m1 yl yx a p (le_trans q b'), m1 yx yh hyx0 q b'⟩
        · exact absurd hwr (not_lt.mpr c)
      · -- wrap from third quadrant to first quadrant
        rcases hr with ⟨p, q⟩ | ⟨hwr, p | q⟩
        · -- no wrap possible unless degenerate: yl ≤ yx ≤ yh ≤ Q < 3Q ≤ yl
          exfalso; linarith
        · -- yx in [yl, T)
          refine ⟨m3 yl yx a p (le_of_lt hyxT), ?_⟩
          calc s yx ≤ s T := m3 yx T (le_trans a p) (le_of_lt hyxT) (le_refl _)
            _ = s 0 := hT0
            _ ≤ s yh := m1 0 yh (le_refl _) b b'
        · -- yx in [0, yh]
          refine ⟨?_, m1 yx yh hyx0 q b'⟩
          calc s yl ≤ s T := m3 yl T a a' (le_refl _)
            _ = s 0 := hT0
            _ ≤ s yx := m1 0 yx (le_refl _) hyx0 (le_trans q b')
      · rcases hr with ⟨p, q⟩ | ⟨hwr, _⟩
        · exact ⟨m3 yl yx a p (le_trans q b'), m3 yx yh (le_trans a p) q b'⟩
        · exact absurd hwr (not_lt.mpr c)
    · -- case3: [min, 1]
      refine ⟨?_, hb.2⟩
      rcases c3 with ⟨⟨a, a'⟩, ⟨b, b'⟩⟩ | ⟨⟨a, a'⟩, ⟨b, b'⟩⟩
      · -- yl in [0,Q], yh in [Q,3Q]
        rcases hr with ⟨p, q⟩ | ⟨hwr, _⟩
        · by_cases hm : yx ≤ T / 4
          · exact le_trans (min_le_left _ _) (m1 yl yx a p hm)
          · exact le_trans (min_le_right _ _) (a2 yx yh (le_of_lt (not_le.mp hm)) q b')
        · exfalso; linarith
      · -- yl in [3Q,T], yh in [Q,3Q] : wrap
        rcases hr with ⟨p, q⟩ | ⟨hwr, p | q⟩
        · -- 3Q ≤ yl ≤ yx ≤ yh ≤ 3Q: all equal 3Q
          have e1 : yx = yl := by linarith
          rw [e1]; exact min_le_left _ _
        · exact le_trans (min_le_left _ _) (m3 yl yx a p (le_of_lt hyxT))
        · by_cases hm : yx ≤ T / 4
          · -- s yl ≤ s T = s 0 ≤ s yx
            refine le_trans (min_le_left _ _) ?_
            calc s yl ≤ s T := m3 yl T a a' (le_refl _)
              _ = s 0 := hT0
              _ ≤ s yx := m1 0 yx (le_refl _) hyx0 hm
          · exact le_trans (min_le_right _ _) (a2 yx yh (le_of_lt (not_le.mp hm)) q b')
    · -- case4: [-1, max]
      refine ⟨hb.1, ?_⟩
      rcases c4 with ⟨⟨a, a'⟩, ⟨b, b'⟩⟩ | ⟨⟨a, a'⟩, ⟨b, b'⟩⟩
      · -- yl in [Q,3Q], yh in [0,Q] : wrap
        rcases hr with ⟨p, q⟩ | ⟨hwr, p | q⟩
        · have e1 : yx = yl := by linarith
          rw [e1]; exact le_max_left _ _
        · by_cases hm : yx ≤ 3 * (T / 4)
          · exact le_trans (a2 yl yx a p hm) (le_max_left _ _)
          · refine le_trans ?_ (le_max_right _ _)
            calc s yx ≤ s T := m3 yx T (le_of_lt (not_le.mp hm)) (le_of_lt hyxT) (le_refl _)
              _ = s 0 := hT0
              _ ≤ s yh := m1 0 yh (le_refl _) b b'
        · exact le_trans (m1 yx yh hyx0 q b') (le_max_right _ _)
      · -- yl in [Q,3Q], yh in [3Q,T]
        rcases hr with ⟨p, q⟩ | ⟨hwr, _⟩
        · by_cases hm : yx ≤ 3 * (T / 4)
          · exact le_trans (a2 yl yx a p hm) (le_max_left _ _)
          · exact le_trans (m3 yx yh (le_of_lt (not_le.mp hm)) q b') (le_max_right _ _)
        · exfalso; linarith
    · -- case5: [sh, sl]
      obtain ⟨⟨a, a'⟩, ⟨b, b'⟩, c⟩ := c5
      rcases hr with ⟨p, q⟩ | ⟨hwr, _⟩
      · exact ⟨a2 yx yh (le_trans a p) q b', a2 yl yx a p (le_trans q b')⟩
      · exact absurd hwr (not_lt.mpr c)



/-! ## totality, array form = scalar form -/


theorem cos_total (w yl yh T : ℚ) (hT : 0 < T) (hyl0 : 0 ≤ yl) (hylT : yl ≤ T) (hyh0 : 0 ≤ yh) (hyhT : yh ≤ T) :
    (cosShape w yl yh T).isSome = true := by
  unfold cosShape
  simp only
  split_ifs with c0 c1 c2 c3 c4 c5
  all_goals first
    | rfl
    | (exfalso
       rcases le_total yl (T / 2) with a | a <;> rcases le_total yh (T / 2) with b | b <;>
         rcases le_or_gt yl yh with c | c
       · exact c5 ⟨c, ⟨hyl0, a⟩, ⟨hyh0, b⟩⟩
       · exact c1 (Or.inl ⟨c, ⟨hyl0, a⟩, ⟨hyh0, b⟩⟩)
       · exact c4 ⟨⟨hyl0, a⟩, ⟨b, hyhT⟩⟩
       · exact c4 ⟨⟨hyl0, a⟩, ⟨b, hyhT⟩⟩
       · exact c3 ⟨⟨a, hylT⟩, ⟨hyh0, b⟩⟩
       · exact c3 ⟨⟨a, hylT⟩, ⟨hyh0, b⟩⟩
       · exact c2 ⟨c, ⟨a, hylT⟩, ⟨b, hyhT⟩⟩
       · exact c1 (Or.inr ⟨c, ⟨a, hylT⟩, ⟨b, hyhT⟩⟩))

theorem cosVec_eq_scalar (w yl yh T : ℚ) (hT : 0 < T) (hyl0 : 0 ≤ yl) (hylT : yl ≤ T) (hyh0 : 0 ≤ yh) (hyhT : yh ≤ T) :
    cosShape w yl yh T = some (cosVecShape w yl yh T) := by
  have ht := cos_total w yl yh T hT hyl0 hylT hyh0 hyhT
  unfold cosShape at ht ⊢
  unfold cosVecShape ov
  simp only at ht ⊢
  by_cases c0 : T ≤ w
  · simp only [c0, if_true, true_or]
  · by_cases c1 : (yh < yl ∧ (0 ≤ yl ∧ yl ≤ T / 2) ∧ (0 ≤ yh ∧ yh ≤ T / 2)) ∨ (yh < yl ∧ (T / 2 ≤ yl ∧ yl ≤ T) ∧ (T / 2 ≤ yh ∧ yh ≤ T))
    · simp only [c0, c1, if_true, if_false, or_true]
    · have c1' : ¬ (T ≤ w ∨ (yh < yl ∧ (0 ≤ yl ∧ yl ≤ T / 2) ∧ (0 ≤ yh ∧ yh ≤ T / 2)) ∨ (yh < yl ∧ (T / 2 ≤ yl ∧ yl ≤ T) ∧ (T / 2 ≤ yh ∧ yh ≤ T))) := by
        rintro (h | h); exact c0 h; exact c1 h
      simp only [c0, c1, c1', if_false, false_or, or_false] at ht ⊢
      split_ifs at ht ⊢ <;> first | rfl | (exact absurd ht (by simp))



/-- array form = scalar form, sine -/
theorem sinVec_eq_scalar (w yl yh T : ℚ) (hT : 0 < T) (hyl0 : 0 ≤ yl) (hylT : yl ≤ T) (hyh0 : 0 ≤ yh) (hyhT : yh ≤ T) :
    sinShape w yl yh T = some (sinVecShape w yl yh T) := by
  unfold sinShape sinVecShape ov
  simp only
  have he1 : ((0 ≤ yl ∧ yh ≤ T / 4) ∧ yl ≤ yh) ↔ ((0 ≤ yl ∧ yl ≤ T / 4) ∧ (0 ≤ yh ∧ yh ≤ T / 4) ∧ yl ≤ yh) := by
    constructor
    · rintro ⟨⟨a, b⟩, c⟩; exact ⟨⟨a, by linarith⟩, ⟨by linarith, b⟩, c⟩
    · rintro ⟨⟨a, _⟩, ⟨_, b⟩, c⟩; exact ⟨⟨a, b⟩, c⟩
  have he2 : ((T / 4 ≤ yl ∧ yh ≤ 3 * (T / 4)) ∧ yl ≤ yh) ↔ ((T / 4 ≤ yl ∧ yl ≤ 3 * (T / 4)) ∧ (T / 4 ≤ yh ∧ yh ≤ 3 * (T / 4)) ∧ yl ≤ yh) := by
    constructor
    · rintro ⟨⟨a, b⟩, c⟩; exact ⟨⟨a, by linarith⟩, ⟨by linarith, b⟩, c⟩
    · rintro ⟨⟨a, _⟩, ⟨_, b⟩, c⟩; exact ⟨⟨a, b⟩, c⟩
  have he3 : ((3 * (T / 4) ≤ yl ∧ yh ≤ T) ∧ yl ≤ yh) ↔ ((3 * (T / 4) ≤ yl ∧ yl ≤ T) ∧ (3 * (T / 4) ≤ yh ∧ yh ≤ T) ∧ yl ≤ yh) := by
    constructor
    · rintro ⟨⟨a, b⟩, c⟩; exact ⟨⟨a, by linarith⟩, ⟨by linarith, b⟩, c⟩
    · rintro ⟨⟨a, _⟩, ⟨_, b⟩, c⟩; exact ⟨⟨a, b⟩, c⟩
  have hlt : yh < yl ↔ ¬ yl ≤ yh := not_le.symm
  simp only [he1, he2, he3, hlt]
  by_cases c0 : T ≤ w
  · simp only [c0, if_true]
  simp only [c0, if_false]
  by_cases m1 : (0 ≤ yl ∧ yl ≤ T / 4) ∧ (0 ≤ yh ∧ yh ≤ T / 4) ∧ yl ≤ yh
  · rw [if_pos m1, if_pos m1]
  simp only [m1, if_false, false_or]
  by_cases m2 : (T / 4 ≤ yl ∧ yl ≤ 3 * (T / 4)) ∧ (T / 4 ≤ yh ∧ yh ≤ 3 * (T / 4)) ∧ yl ≤ yh
  · rw [if_pos m2, if_pos m2]
  simp only [m2, if_false]
  by_cases m3 : (3 * (T / 4) ≤ yl ∧ yl ≤ T) ∧ (3 * (T / 4) ≤ yh ∧ yh ≤ T) ∧ yl ≤ yh
  · rw [if_pos m3, if_pos m3]
  simp only [m3, if_false, or_false]
  split_ifs with k1 k2 k3 k4
  · rfl
  · rfl
  · rfl
  · rfl
  · exfalso
    have hl : (0 ≤ yl ∧ yl ≤ T / 4) ∨ (T / 4 ≤ yl ∧ yl ≤ 3 * (T / 4)) ∨ (3 * (T / 4) ≤ yl ∧ yl ≤ T) := by
      rcases le_total yl (T / 4) with a | a
      · exact Or.inl ⟨hyl0, a⟩
      · rcases le_total yl (3 * (T / 4)) with a' | a'
        · exact Or.inr (Or.inl ⟨a, a'⟩)
        · exact Or.inr (Or.inr ⟨a', hylT⟩)
    have hh : (0 ≤ yh ∧ yh ≤ T / 4) ∨ (T / 4 ≤ yh ∧ yh ≤ 3 * (T / 4)) ∨ (3 * (T / 4) ≤ yh ∧ yh ≤ T) := by
      rcases le_total yh (T / 4) with a | a
      · exact Or.inl ⟨hyh0, a⟩
      · rcases le_total yh (3 * (T / 4)) with a' | a'
        · exact Or.inr (Or.inl ⟨a, a'⟩)
        · exact Or.inr (Or.inr ⟨a', hyhT⟩)
    rcases hl with l | l | l <;> rcases hh with h | h | h
    · by_cases c : yl ≤ yh
      · exact m1 ⟨l, h, c⟩
      · exact k1 (Or.inl ⟨l, h, c⟩)
    · exact k3 (Or.inl ⟨l, h⟩)
    · exact k1 (Or.inr (Or.inl ⟨l, h⟩))
    · exact k4 (Or.inl ⟨l, h⟩)
    · by_cases c : yl ≤ yh
      · exact m2 ⟨l, h, c⟩
      · exact k1 (Or.inr (Or.inr (Or.inl ⟨l, h, c⟩)))
    · exact k4 (Or.inr ⟨l, h⟩)
    · exact k2 ⟨l, h⟩
    · exact k3 (Or.inr ⟨l, h⟩)
    · by_cases c : yl ≤ yh
      · exact m3 ⟨l, h, c⟩
      · exact k1 (Or.inr (Or.inr (Or.inr ⟨l, h, c⟩)))


/-! ## tangent -/


theorem tan_sound (t : ℚ → ℚ) (P : ℚ) (hP : 0 < P)
    (per : ∀ (x : ℚ) (k : ℤ), t (x + k * P) = t x)
    (m1 : ∀ u v, 0 ≤ u → u ≤ v → v < P / 2 → t u ≤ t v)
    (m2 : ∀ u v, P / 2 < u → u ≤ v → v ≤ P → t u ≤ t v)
    (lo hi x zl zh zx : ℚ) (kl kh kx : ℤ)
    (hlo : lo = zl + kl * P) (hzl0 : 0 ≤ zl) (hzlP : zl < P)
    (hhi : hi = zh + kh * P) (hzh0 : 0 ≤ zh) (hzhP : zh < P)
    (hx : x = zx + kx * P) (hzx0 : 0 ≤ zx) (hzxP : zx < P)
    (h1 : lo ≤ x) (h2 : x ≤ hi)
    (hfin : tanInf (hi - lo) zl zh P = false) :
    zx ≠ P / 2 ∧ t zl ≤ t x ∧ t x ≤ t zh := by
  have hsx : t x = t zx := by rw [hx, per]
  rw [hsx]
  have hP0 : t P = t 0 := by have := per 0 1; simpa using this
  unfold tanInf at hfin
  simp only [decide_eq_false_iff_not, not_or] at hfin
  obtain ⟨hw, c1b, c1c, c1d⟩ := hfin
  have hr := reduced_range P hP lo hi x zl zh zx kl kh kx hlo hzl0 hzlP hhi hzh0 hzhP hx hzx0 hzxP h1 h2 (not_le.mp hw)
  rcases hr with ⟨p, q⟩ | ⟨hwr, pq⟩
  · rcases le_or_gt zl (P / 2) with a | a
    · have hzh : zh < P / 2 := by
        by_contra hc
        exact c1d ⟨⟨hzl0, a⟩, ⟨not_lt.mp hc, le_of_lt hzhP⟩⟩
      exact ⟨by intro e; linarith, m1 zl zx hzl0 p (by linarith), m1 zx zh hzx0 q hzh⟩
    · exact ⟨by intro e; linarith, m2 zl zx a p (le_of_lt hzxP), m2 zx zh (by linarith) q (le_of_lt hzhP)⟩
  · have a : P / 2 < zl := by
      by_contra hc
      have hc' := not_lt.mp hc
      exact c1b ⟨hwr, ⟨hzl0, hc'⟩, ⟨hzh0, by linarith⟩⟩
    have b : zh < P / 2 := by
      by_contra hc
      have hc' := not_lt.mp hc
      exact c1c ⟨hwr, ⟨le_of_lt a, le_of_lt hzlP⟩, ⟨hc', le_of_lt hzhP⟩⟩
    rcases pq with p | q
    · refine ⟨by intro e; linarith, m2 zl zx a p (le_of_lt hzxP), ?_⟩
      calc t zx ≤ t P := m2 zx P (by linarith) (le_of_lt hzxP) (le_refl _)
        _ = t 0 := hP0
        _ ≤ t zh := m1 0 zh (le_refl _) hzh0 b
    · refine ⟨by intro e; linarith, ?_, m1 zx zh hzx0 q b⟩
      calc t zl ≤ t P := m2 zl P a (le_of_lt hzlP) (le_refl _)
        _ = t 0 := hP0
        _ ≤ t zx := m1 0 zx (le_refl _) hzx0 (by linarith)

/-- a width of at least one period always gives the unbounded interval -/
theorem tan_wide (w zl zh P : ℚ) (h : P ≤ w) : tanInf w zl zh P = true := by
  unfold tanInf; simp [h]


/-! ## statements about the functions the driver executes -/


theorem fmodR_decomp (x T : ℚ) (hT : 0 < T) :
    x = fmodR x T + (⌊x / T⌋ : ℤ) * T ∧ 0 ≤ fmodR x T ∧ fmodR x T < T := by
  have h := fmod_decomp x T hT
  have e0 : (x / T).floor = ⌊x / T⌋ := by rw [Rat.floor_def', Rat.floor_def]
  have e : fmodR x T = x - T * ⌊x / T⌋ := by
    unfold fmodR; rw [e0]
  rw [e]; exact h

theorem mkI_ok {a b : ℚ} {p : ℚ × ℚ} (h : mkI a b = .ok p) : p = (a, b) ∧ a ≤ b := by
  unfold mkI at h
  split_ifs at h with c
  · exact ⟨by cases h; rfl, c⟩

/-- **sine encloses** : what the scalar form returns on `[lo,hi]` (reduced endpoints computed by the
model's `%`, values of `s` at them) contains `s x` for every `x ∈ [lo,hi]`, for any `s` with period
`T`, bounded by ±1, increasing / decreasing / increasing on the three pieces cut at `T/4`, `3T/4`. -/
theorem sin_encloses (s : ℚ → ℚ) (T : ℚ) (hT : 0 < T)
    (per : ∀ (x : ℚ) (k : ℤ), s (x + k * T) = s x)
    (bd : ∀ x, -1 ≤ s x ∧ s x ≤ 1)
    (m1 : ∀ u v, 0 ≤ u → u ≤ v → v ≤ T / 4 → s u ≤ s v)
    (a2 : ∀ u v, T / 4 ≤ u → u ≤ v → v ≤ 3 * (T / 4) → s v ≤ s u)
    (m3 : ∀ u v, 3 * (T / 4) ≤ u → u ≤ v → v ≤ T → s u ≤ s v)
    (lo hi x : ℚ) (h1 : lo ≤ x) (h2 : x ≤ hi) (p : ℚ × ℚ)
    (hp : sinI T (hi - lo) (fmodR lo T) (fmodR hi T) (s (fmodR lo T)) (s (fmodR hi T)) = .ok p) :
    p.1 ≤ s x ∧ s x ≤ p.2 := by
  obtain ⟨dl, dl0, dlT⟩ := fmodR_decomp lo T hT
  obtain ⟨dh, dh0, dhT⟩ := fmodR_decomp hi T hT
  obtain ⟨dx, dx0, dxT⟩ := fmodR_decomp x T hT
  unfold sinI trigI at hp
  cases hs : sinShape (hi - lo) (fmodR lo T) (fmodR hi T) T with
  | none => rw [hs] at hp; cases hp
  | some sh =>
    rw [hs] at hp
    obtain ⟨e, _⟩ := mkI_ok hp
    rw [e]
    exact sin_sound s T hT per bd m1 a2 m3 lo hi x _ _ _ _ _ _ dl dl0 dlT dh dh0 dhT dx dx0 dxT h1 h2 sh hs

/-- the scalar sine never fails on a proper interval: neither falls off the end nor trips the
constructor's assertion -/
theorem sin_returns (s : ℚ → ℚ) (T : ℚ) (hT : 0 < T)
    (per : ∀ (x : ℚ) (k : ℤ), s (x + k * T) = s x)
    (bd : ∀ x, -1 ≤ s x ∧ s x ≤ 1)
    (m1 : ∀ u v, 0 ≤ u → u ≤ v → v ≤ T / 4 → s u ≤ s v)
    (a2 : ∀ u v, T / 4 ≤ u → u ≤ v → v ≤ 3 * (T / 4) → s v ≤ s u)
    (m3 : ∀ u v, 3 * (T / 4) ≤ u → u ≤ v → v ≤ T → s u ≤ s v)
    (lo hi : ℚ) (h : lo ≤ hi) :
    ∃ p, sinI T (hi - lo) (fmodR lo T) (fmodR hi T) (s (fmodR lo T)) (s (fmodR hi T)) = .ok p := by
  obtain ⟨dl, dl0, dlT⟩ := fmodR_decomp lo T hT
  obtain ⟨dh, dh0, dhT⟩ := fmodR_decomp hi T hT
  have hv := sinVec_eq_scalar (hi - lo) (fmodR lo T) (fmodR hi T) T hT dl0 (le_of_lt dlT) dh0 (le_of_lt dhT)
  have hs := sin_sound s T hT per bd m1 a2 m3 lo hi lo _ _ _ _ _ _ dl dl0 dlT dh dh0 dhT dl dl0 dlT (le_refl _) h _ hv
  unfold sinI trigI mkI
  rw [hv]; dsimp only
  rw [if_pos (le_trans hs.1 hs.2)]
  exact ⟨_, rfl⟩

theorem cos_encloses (s : ℚ → ℚ) (T : ℚ) (hT : 0 < T)
    (per : ∀ (x : ℚ) (k : ℤ), s (x + k * T) = s x)
    (bd : ∀ x, -1 ≤ s x ∧ s x ≤ 1)
    (anti : ∀ u v, 0 ≤ u → u ≤ v → v ≤ T / 2 → s v ≤ s u)
    (mono : ∀ u v, T / 2 ≤ u → u ≤ v → v ≤ T → s u ≤ s v)
    (lo hi x : ℚ) (h1 : lo ≤ x) (h2 : x ≤ hi) (p : ℚ × ℚ)
    (hp : cosI T (hi - lo) (fmodR lo T) (fmodR hi T) (s (fmodR lo T)) (s (fmodR hi T)) = .ok p) :
    p.1 ≤ s x ∧ s x ≤ p.2 := by
  obtain ⟨dl, dl0, dlT⟩ := fmodR_decomp lo T hT
  obtain ⟨dh, dh0, dhT⟩ := fmodR_decomp hi T hT
  obtain ⟨dx, dx0, dxT⟩ := fmodR_decomp x T hT
  unfold cosI trigI at hp
  cases hs : cosShape (hi - lo) (fmodR lo T) (fmodR hi T) T with
  | none => rw [hs] at hp; cases hp
  | some sh =>
    rw [hs] at hp
    obtain ⟨e, _⟩ := mkI_ok hp
    rw [e]
    exact cos_sound s T hT per bd anti mono lo hi x _ _ _ _ _ _ dl dl0 dlT dh dh0 dhT dx dx0 dxT h1 h2 sh hs

theorem cos_returns (s : ℚ → ℚ) (T : ℚ) (hT : 0 < T)
    (per : ∀ (x : ℚ) (k : ℤ), s (x + k * T) = s x)
    (bd : ∀ x, -1 ≤ s x ∧ s x ≤ 1)
    (anti : ∀ u v, 0 ≤ u → u ≤ v → v ≤ T / 2 → s v ≤ s u)
    (mono : ∀ u v, T / 2 ≤ u → u ≤ v → v ≤ T → s u ≤ s v)
    (lo hi : ℚ) (h : lo ≤ hi) :
    ∃ p, cosI T (hi - lo) (fmodR lo T) (fmodR hi T) (s (fmodR lo T)) (s (fmodR hi T)) = .ok p := by
  obtain ⟨dl, dl0, dlT⟩ := fmodR_decomp lo T hT
  obtain ⟨dh, dh0, dhT⟩ := fmodR_decomp hi T hT
  have hv := cosVec_eq_scalar (hi - lo) (fmodR lo T) (fmodR hi T) T hT dl0 (le_of_lt dlT) dh0 (le_of_lt dhT)
  have hs := cos_sound s T hT per bd anti mono lo hi lo _ _ _ _ _ _ dl dl0 dlT dh dh0 dhT dl dl0 dlT (le_refl _) h _ hv
  unfold cosI trigI mkI
  rw [hv]; dsimp only
  rw [if_pos (le_trans hs.1 hs.2)]
  exact ⟨_, rfl⟩

/-- **tangent encloses**: when the model returns a bounded interval, no point of `[lo,hi]` reduces to
the pole `P/2` and the interval contains `t x` for all `x ∈ [lo,hi]`; `t` is any function with period
`P`, increasing on `[0,P/2)` and on `(P/2,P]`. -/
theorem tan_encloses (t : ℚ → ℚ) (P : ℚ) (hP : 0 < P)
    (per : ∀ (x : ℚ) (k : ℤ), t (x + k * P) = t x)
    (m1 : ∀ u v, 0 ≤ u → u ≤ v → v < P / 2 → t u ≤ t v)
    (m2 : ∀ u v, P / 2 < u → u ≤ v → v ≤ P → t u ≤ t v)
    (lo hi x : ℚ) (h1 : lo ≤ x) (h2 : x ≤ hi) (p : ℚ × ℚ)
    (hp : tanI P (hi - lo) (fmodR lo P) (fmodR hi P) (t (fmodR lo P)) (t (fmodR hi P)) = .ok (some p)) :
    fmodR x P ≠ P / 2 ∧ p.1 ≤ t x ∧ t x ≤ p.2 := by
  obtain ⟨dl, dl0, dlT⟩ := fmodR_decomp lo P hP
  obtain ⟨dh, dh0, dhT⟩ := fmodR_decomp hi P hP
  obtain ⟨dx, dx0, dxT⟩ := fmodR_decomp x P hP
  unfold tanI at hp
  cases hc : tanInf (hi - lo) (fmodR lo P) (fmodR hi P) P with
  | true => rw [hc] at hp; simp at hp
  | false =>
    rw [hc] at hp
    simp only [Bool.false_eq_true, if_false] at hp
    cases hm : mkI (t (fmodR lo P)) (t (fmodR hi P)) with
    | error e => rw [hm] at hp; cases hp
    | ok q =>
      rw [hm] at hp
      obtain ⟨e, _⟩ := mkI_ok hm
      have : p = q := by cases hp; rfl
      rw [this, e]
      exact tan_sound t P hP per m1 m2 lo hi x _ _ _ _ _ _ dl dl0 dlT dh dh0 dhT dx dx0 dxT h1 h2 hc

/-- the tangent never trips the constructor's assertion on a proper interval -/
theorem tan_returns (t : ℚ → ℚ) (P : ℚ) (hP : 0 < P)
    (per : ∀ (x : ℚ) (k : ℤ), t (x + k * P) = t x)
    (m1 : ∀ u v, 0 ≤ u → u ≤ v → v < P / 2 → t u ≤ t v)
    (m2 : ∀ u v, P / 2 < u → u ≤ v → v ≤ P → t u ≤ t v)
    (lo hi : ℚ) (h : lo ≤ hi) :
    ∃ r, tanI P (hi - lo) (fmodR lo P) (fmodR hi P) (t (fmodR lo P)) (t (fmodR hi P)) = .ok r := by
  obtain ⟨dl, dl0, dlT⟩ := fmodR_decomp lo P hP
  obtain ⟨dh, dh0, dhT⟩ := fmodR_decomp hi P hP
  unfold tanI
  cases hc : tanInf (hi - lo) (fmodR lo P) (fmodR hi P) P with
  | true => exact ⟨none, by simp⟩
  | false =>
    have hs := tan_sound t P hP per m1 m2 lo hi lo _ _ _ _ _ _ dl dl0 dlT dh dh0 dhT dl dl0 dlT (le_refl _) h hc
    have e : t lo = t (fmodR lo P) := by
      conv_lhs => rw [dl]
      exact per _ _
    simp only [Bool.false_eq_true, if_false, mkI]
    rw [if_pos (by rw [← e]; exact hs.2.2)]
    exact ⟨_, rfl⟩

/-- array form = scalar form, element by element (sine, cosine): on reduced endpoints the value the
masked assignments of `sin_vector` / `cos_vector` leave in an element is what `sin` / `cos` return -/
theorem sinA_elem_eq_scalar (T w yl yh sl sh : ℚ) (hT : 0 < T) (hyl0 : 0 ≤ yl) (hylT : yl ≤ T) (hyh0 : 0 ≤ yh) (hyhT : yh ≤ T) :
    sinI T w yl yh sl sh = mkI (sinVecEl T w yl yh sl sh).1 (sinVecEl T w yl yh sl sh).2 := by
  unfold sinI trigI sinVecEl
  rw [sinVec_eq_scalar w yl yh T hT hyl0 hylT hyh0 hyhT]

theorem cosA_elem_eq_scalar (T w yl yh sl sh : ℚ) (hT : 0 < T) (hyl0 : 0 ≤ yl) (hylT : yl ≤ T) (hyh0 : 0 ≤ yh) (hyhT : yh ≤ T) :
    cosI T w yl yh sl sh = mkI (cosVecEl T w yl yh sl sh).1 (cosVecEl T w yl yh sl sh).2 := by
  unfold cosI trigI cosVecEl
  rw [cosVec_eq_scalar w yl yh T hT hyl0 hylT hyh0 hyhT]

theorem mkA_ok {l r : List (ℚ × ℚ)} (h : mkA l = .ok r) : r = l := by
  unfold mkA at h
  split_ifs at h
  cases h; rfl

/-- the array result is the list of per-element results -/
theorem sinA_elementwise (T : ℚ) (xs : List TrigArg) (r : List (ℚ × ℚ)) (h : sinA T xs = .ok r) :
    r = xs.map (fun x => sinVecEl T x.w x.yl x.yh x.sl x.sh) := mkA_ok h

theorem cosA_elementwise (T : ℚ) (xs : List TrigArg) (r : List (ℚ × ℚ)) (h : cosA T xs = .ok r) :
    r = xs.map (fun x => cosVecEl T x.w x.yl x.yh x.sl x.sh) := mkA_ok h

/-- tangent: array and scalar forms take the same decision and use the same endpoint values -/
theorem tanA_elementwise (P : ℚ) (xs : List TrigArg) (r : List (Option (ℚ × ℚ))) (h : tanA P xs = .ok r) :
    r = xs.map (fun x => if tanInf x.w x.yl x.yh P then none else some (x.sl, x.sh)) := by
  unfold tanA at h
  simp only at h
  split_ifs at h
  cases h; rfl

theorem tanI_eq_elem (P w zl zh tl th : ℚ) (h : tl ≤ th) :
    tanI P w zl zh tl th = .ok (if tanInf w zl zh P then none else some (tl, th)) := by
  unfold tanI mkI
  split_ifs <;> rfl


/-! ## abs, exp, sqrt, log -/


theorem absR_eq (x : ℚ) : absR x = |x| := by
  unfold absR
  split_ifs with h
  · exact (abs_of_neg h).symm
  · exact (abs_of_nonneg (not_lt.mp h)).symm

/-- `abs` returns exactly `[min |x|, max |x|]` over `x ∈ [lo,hi]` -/
theorem abs_exact (lo hi : ℚ) (h : lo ≤ hi) :
    (absI lo hi).1 ≤ (absI lo hi).2 ∧
    (∀ x, lo ≤ x → x ≤ hi → (absI lo hi).1 ≤ |x| ∧ |x| ≤ (absI lo hi).2) ∧
    (∃ x, lo ≤ x ∧ x ≤ hi ∧ |x| = (absI lo hi).1) ∧
    (∃ x, lo ≤ x ∧ x ≤ hi ∧ |x| = (absI lo hi).2) := by
  unfold absI
  simp only [absR_eq, ge_iff_le]
  have hsound : ∀ x, lo ≤ x → x ≤ hi → (if lo ≤ 0 ∧ 0 ≤ hi then 0 else min |lo| |hi|) ≤ |x| ∧ |x| ≤ max |lo| |hi| := by
    intro x h1 h2
    refine ⟨?_, abs_le_max_abs_abs h1 h2⟩
    split_ifs with hz
    · exact abs_nonneg x
    · rcases not_and_or.mp hz with hz | hz
      · have : 0 < lo := not_le.mp hz
        rw [abs_of_pos this, abs_of_pos (by linarith : 0 < x)]
        exact le_trans (min_le_left _ _) h1
      · have : hi < 0 := not_le.mp hz
        rw [abs_of_neg this, abs_of_neg (by linarith : x < 0)]
        exact le_trans (min_le_right _ _) (by linarith)
  refine ⟨le_trans (hsound lo (le_refl _) h).1 (hsound lo (le_refl _) h).2, hsound, ?_, ?_⟩
  · split_ifs with hz
    · exact ⟨0, hz.1, hz.2, abs_zero⟩
    · rcases min_choice |lo| |hi| with e | e <;> rw [e]
      · exact ⟨lo, le_refl _, h, rfl⟩
      · exact ⟨hi, h, le_refl _, rfl⟩
  · rcases max_choice |lo| |hi| with e | e <;> rw [e]
    · exact ⟨lo, le_refl _, h, rfl⟩
    · exact ⟨hi, h, le_refl _, rfl⟩

/-- endpoint evaluation of a function monotone on `[lo,hi]` (exp) is the exact range -/
theorem mono_exact (f : ℚ → ℚ) (lo hi : ℚ) (h : lo ≤ hi)
    (hf : ∀ u v, lo ≤ u → u ≤ v → v ≤ hi → f u ≤ f v) :
    expI (f lo) (f hi) = .ok (f lo, f hi) ∧
    (∀ x, lo ≤ x → x ≤ hi → f lo ≤ f x ∧ f x ≤ f hi) ∧
    (∃ x, lo ≤ x ∧ x ≤ hi ∧ f x = f lo) ∧ (∃ x, lo ≤ x ∧ x ≤ hi ∧ f x = f hi) := by
  refine ⟨?_, ?_, ⟨lo, le_refl _, h, rfl⟩, ⟨hi, h, le_refl _, rfl⟩⟩
  · unfold expI mkI; rw [if_pos (hf lo hi (le_refl _) h (le_refl _))]
  · intro x h1 h2; exact ⟨hf lo x (le_refl _) h1 h2, hf x hi h1 h2 (le_refl _)⟩

/-- sqrt on its domain: exact range of any function monotone on `[lo,hi]`, `0 ≤ lo` -/
theorem sqrt_exact (f : ℚ → ℚ) (lo hi : ℚ) (h0 : 0 ≤ lo) (h : lo ≤ hi)
    (hf : ∀ u v, lo ≤ u → u ≤ v → v ≤ hi → f u ≤ f v) :
    sqrtI lo hi (f lo) (f hi) = .ok (f lo, f hi) ∧
    (∀ x, lo ≤ x → x ≤ hi → f lo ≤ f x ∧ f x ≤ f hi) := by
  constructor
  · unfold sqrtI
    rw [if_neg (not_lt.mpr h0), if_neg (not_lt.mpr (le_trans h0 h))]
    show mkI (f lo) (f hi) = _
    unfold mkI; rw [if_pos (hf lo hi (le_refl _) h (le_refl _))]
  · intro x h1 h2; exact ⟨hf lo x (le_refl _) h1 h2, hf x hi h1 h2 (le_refl _)⟩

/-- an interval reaching below 0 is outside the domain of sqrt: the call raises -/
theorem sqrt_domain (lo hi a b : ℚ) (h : lo < 0) : sqrtI lo hi a b = .error .Assertion := by
  unfold sqrtI; rw [if_pos h]; split_ifs <;> rfl

theorem log_exact (f : ℚ → ℚ) (lo hi : ℚ) (h0 : 0 < lo) (h : lo ≤ hi)
    (hf : ∀ u v, lo ≤ u → u ≤ v → v ≤ hi → f u ≤ f v) :
    logI lo (f lo) (f hi) = .ok (f lo, f hi) ∧
    (∀ x, lo ≤ x → x ≤ hi → f lo ≤ f x ∧ f x ≤ f hi) := by
  constructor
  · unfold logI mkI; rw [if_pos h0, if_pos (hf lo hi (le_refl _) h (le_refl _))]
  · intro x h1 h2; exact ⟨hf lo x (le_refl _) h1 h2, hf x hi h1 h2 (le_refl _)⟩

/-- an interval containing a non-positive number is outside the domain of log: the call raises -/
theorem log_domain (lo a b : ℚ) (h : lo ≤ 0) : logI lo a b = .error .Assertion := by
  unfold logI; rw [if_neg (not_lt.mpr h)]

/-- the array forms raise as soon as one element is outside the domain -/
theorem logA_domain (los a b : List ℚ) (x : ℚ) (hx : x ∈ los) (h : x ≤ 0) : logA los a b = .error .Assertion := by
  unfold logA
  rw [if_neg]
  intro hall
  have := List.all_eq_true.mp hall x hx
  simp only [gt_iff_lt, decide_eq_true_eq] at this
  exact absurd this (not_lt.mpr h)


/-! ## integer powers -/


theorem even_pow_le_max (n : ℕ) (hev : Even n) (lo hi x : ℚ) (h1 : lo ≤ x) (h2 : x ≤ hi) :
    x ^ n ≤ max (lo ^ n) (hi ^ n) := by
  have hx : |x| ≤ max |lo| |hi| := abs_le_max_abs_abs h1 h2
  rcases le_max_iff.mp hx with h | h
  · refine le_trans ?_ (le_max_left _ _)
    calc x ^ n = |x| ^ n := (hev.pow_abs x).symm
      _ ≤ |lo| ^ n := pow_le_pow_left₀ (abs_nonneg x) h n
      _ = lo ^ n := hev.pow_abs lo
  · refine le_trans ?_ (le_max_right _ _)
    calc x ^ n = |x| ^ n := (hev.pow_abs x).symm
      _ ≤ |hi| ^ n := pow_le_pow_left₀ (abs_nonneg x) h n
      _ = hi ^ n := hev.pow_abs hi

/-- non-negative integer power: the parity logic encloses `x^n` for every `x ∈ [lo,hi]` -/
theorem pow_sound (n : ℕ) (lo hi x : ℚ) (h1 : lo ≤ x) (h2 : x ≤ hi) :
    (powNat n lo hi).1 ≤ x ^ n ∧ x ^ n ≤ (powNat n lo hi).2 := by
  unfold powNat
  simp only
  split_ifs with he h0 hneg
  · have hev : Even n := Nat.even_iff.mpr he
    exact ⟨pow_le_pow_left₀ (le_of_lt h0) h1 n, even_pow_le_max n hev lo hi x h1 h2⟩
  · have hev : Even n := Nat.even_iff.mpr he
    refine ⟨?_, even_pow_le_max n hev lo hi x h1 h2⟩
    calc hi ^ n = |hi| ^ n := (hev.pow_abs hi).symm
      _ ≤ |x| ^ n := by
          apply pow_le_pow_left₀ (abs_nonneg hi)
          rw [abs_of_neg hneg, abs_of_neg (by linarith : x < 0)]; linarith
      _ = x ^ n := hev.pow_abs x
  · have hev : Even n := Nat.even_iff.mpr he
    exact ⟨hev.pow_nonneg x, even_pow_le_max n hev lo hi x h1 h2⟩
  · have hodd : Odd n := Nat.odd_iff.mpr (by omega)
    have hm := (hodd.strictMono_pow (R := ℚ)).monotone
    exact ⟨le_trans (min_le_left _ _) (hm h1), le_trans (hm h2) (le_max_right _ _)⟩

/-- the bounds are ordered, so the constructor's assertion never fires for `k ≥ 0` -/
theorem powI_nonneg (k : ℤ) (hk : 0 ≤ k) (lo hi : ℚ) (h : lo ≤ hi) :
    powI k lo hi = .ok (powNat k.natAbs lo hi) := by
  unfold powI
  rw [if_neg (not_lt.mpr hk)]
  have := pow_sound k.natAbs lo hi lo (le_refl _) h
  simp only [mkI]
  rw [if_pos (le_trans this.1 this.2)]

/-- even powers (n ≥ 1) and odd powers return the exact range: both bounds are attained -/
theorem pow_exact (n : ℕ) (hn : n ≠ 0) (lo hi : ℚ) (h : lo ≤ hi) :
    (∃ x, lo ≤ x ∧ x ≤ hi ∧ x ^ n = (powNat n lo hi).1) ∧
    (∃ x, lo ≤ x ∧ x ≤ hi ∧ x ^ n = (powNat n lo hi).2) := by
  unfold powNat
  simp only
  have hmax : ∃ x, lo ≤ x ∧ x ≤ hi ∧ x ^ n = max (lo ^ n) (hi ^ n) := by
    rcases max_choice (lo ^ n) (hi ^ n) with e | e <;> rw [e]
    · exact ⟨lo, le_refl _, h, rfl⟩
    · exact ⟨hi, h, le_refl _, rfl⟩
  split_ifs with he h0 hneg
  · exact ⟨⟨lo, le_refl _, h, rfl⟩, hmax⟩
  · exact ⟨⟨hi, h, le_refl _, rfl⟩, hmax⟩
  · exact ⟨⟨0, not_lt.mp h0, not_lt.mp hneg, zero_pow hn⟩, hmax⟩
  · refine ⟨?_, hmax⟩
    rcases min_choice (lo ^ n) (hi ^ n) with e | e <;> rw [e]
    · exact ⟨lo, le_refl _, h, rfl⟩
    · exact ⟨hi, h, le_refl _, rfl⟩

theorem recipI_sound (a b : ℚ) (hab : a ≤ b) (h0 : ¬ (a ≤ 0 ∧ 0 ≤ b)) :
    recipI a b = .ok (1 / b, 1 / a) ∧ ∀ y, a ≤ y → y ≤ b → 1 / b ≤ 1 / y ∧ 1 / y ≤ 1 / a := by
  have hsign : 0 < a ∨ b < 0 := by
    rcases lt_or_ge 0 a with h | h
    · exact Or.inl h
    · exact Or.inr (not_le.mp (fun hb => h0 ⟨h, hb⟩))
  have key : ∀ y, a ≤ y → y ≤ b → 1 / b ≤ 1 / y ∧ 1 / y ≤ 1 / a := by
    intro y h1 h2
    rcases hsign with h | h
    · exact ⟨one_div_le_one_div_of_le (by linarith) h2, one_div_le_one_div_of_le h h1⟩
    · exact ⟨one_div_le_one_div_of_neg_of_le h h2 |>.trans_eq' rfl |> fun t => by simpa using t,
        by simpa using one_div_le_one_div_of_neg_of_le (by linarith : y < 0) h1⟩
  refine ⟨?_, key⟩
  unfold recipI mkI
  rw [if_neg (by simpa [ge_iff_le] using h0)]
  have := key a (le_refl _) hab
  rw [if_pos (le_trans this.1 this.2)]

/-- negative exponent on an interval not containing 0: the non-negative power of the reciprocal
encloses `1 / x^n` for every `x ∈ [lo,hi]` -/
theorem pow_neg_sound (k : ℤ) (hk : k < 0) (lo hi : ℚ) (h : lo ≤ hi) (h0 : ¬ (lo ≤ 0 ∧ 0 ≤ hi)) :
    ∃ a b, powI k lo hi = .ok (a, b) ∧ ∀ x, lo ≤ x → x ≤ hi → a ≤ 1 / x ^ k.natAbs ∧ 1 / x ^ k.natAbs ≤ b := by
  set n := k.natAbs with hn'
  obtain ⟨hr, hkey⟩ := recipI_sound lo hi h h0
  have hord : 1 / hi ≤ 1 / lo := le_trans (hkey lo (le_refl _) h).1 (hkey lo (le_refl _) h).2
  have hs := pow_sound n (1 / hi) (1 / lo)
  have hp := hs (1 / lo) hord (le_refl _)
  refine ⟨(powNat n (1 / hi) (1 / lo)).1, (powNat n (1 / hi) (1 / lo)).2, ?_, ?_⟩
  · unfold powI
    rw [if_pos hk, hr]
    simp only [mkI, ← hn']
    rw [if_pos (le_trans hp.1 hp.2)]
  · intro x h1 h2
    have := hs (1 / x) (hkey x h1 h2).1 (hkey x h1 h2).2
    rw [one_div_pow] at this
    exact this

/-- negative exponent with the pole 0 inside the interval: the call raises `ZeroDivisionError` -/
theorem pow_neg_pole_raises (k : ℤ) (hk : k < 0) (lo hi : ℚ) (h0 : lo ≤ 0 ∧ 0 ≤ hi) :
    powI k lo hi = .error .ZeroDivision := by
  unfold powI
  rw [if_pos hk]
  unfold recipI
  rw [if_pos ⟨h0.1, h0.2⟩]

/-! ## logistic function, tanh -/


/-- the logistic function `1/(1+exp(-x))`, for ANY positive monotone `E` in place of `exp`:
no assertion fires and the result is the exact range (every variable occurs once) -/
theorem sigmoid_exact (E : ℚ → ℚ) (hpos : ∀ x, 0 < E x) (hmono : ∀ u v, u ≤ v → E u ≤ E v)
    (lo hi : ℚ) (h : lo ≤ hi) :
    sigmoidI (E (-hi)) (E (-lo)) = .ok (1 / (1 + E (-lo)), 1 / (1 + E (-hi))) ∧
    ∀ x, lo ≤ x → x ≤ hi →
      1 / (1 + E (-lo)) ≤ 1 / (1 + E (-x)) ∧ 1 / (1 + E (-x)) ≤ 1 / (1 + E (-hi)) := by
  have h1 : E (-hi) ≤ E (-lo) := hmono _ _ (by linarith)
  constructor
  · unfold sigmoidI mkI
    rw [if_pos h1]; dsimp only
    rw [if_pos (by linarith : 1 + E (-hi) ≤ 1 + E (-lo))]; dsimp only
    unfold recipI mkI
    rw [if_neg (by intro hc; have := hpos (-hi); linarith [hc.1])]
    rw [if_pos (one_div_le_one_div_of_le (by have := hpos (-hi); linarith) (by linarith))]
  · intro x hx1 hx2
    have a1 : E (-hi) ≤ E (-x) := hmono _ _ (by linarith)
    have a2 : E (-x) ≤ E (-lo) := hmono _ _ (by linarith)
    have p1 := hpos (-hi); have p2 := hpos (-x)
    exact ⟨one_div_le_one_div_of_le (by linarith) (by linarith),
           one_div_le_one_div_of_le (by linarith) (by linarith)⟩

/-- `methods.tanh` = `1 - 2/(1+exp(2x))`, for any positive monotone `E`: exact range -/
theorem tanh_exact (E : ℚ → ℚ) (hpos : ∀ x, 0 < E x) (hmono : ∀ u v, u ≤ v → E u ≤ E v)
    (lo hi : ℚ) (h : lo ≤ hi) :
    tanhI (E (2 * lo)) (E (2 * hi)) = .ok (1 - 2 / (1 + E (2 * lo)), 1 - 2 / (1 + E (2 * hi))) ∧
    ∀ x, lo ≤ x → x ≤ hi →
      1 - 2 / (1 + E (2 * lo)) ≤ 1 - 2 / (1 + E (2 * x)) ∧ 1 - 2 / (1 + E (2 * x)) ≤ 1 - 2 / (1 + E (2 * hi)) := by
  have key : ∀ u v, u ≤ v → 2 / (1 + E (2 * v)) ≤ 2 / (1 + E (2 * u)) := by
    intro u v huv
    have := hmono (2 * u) (2 * v) (by linarith)
    have p := hpos (2 * u)
    exact div_le_div_of_nonneg_left (by norm_num) (by linarith) (by linarith)
  have h1 : E (2 * lo) ≤ E (2 * hi) := hmono _ _ (by linarith)
  constructor
  · unfold tanhI mkI
    rw [if_pos h1]; dsimp only
    rw [if_pos (by linarith : 1 + E (2 * lo) ≤ 1 + E (2 * hi))]; dsimp only
    rw [if_neg (by intro hc; have := hpos (2 * lo); linarith [hc.1])]
    rw [if_pos (key lo hi h)]; dsimp only
    rw [if_pos (by have := key lo hi h; linarith)]
  · intro x hx1 hx2
    have := key lo x hx1; have := key x hi hx2
    constructor <;> linarith



/-! ## non-vacuity: the hypotheses are satisfiable, and concrete evaluations of the model take the
non-trivial branches (wrapped endpoints, poles, negative powers, domain errors) -/

example : ∃ (s : ℚ → ℚ) (T : ℚ), 0 < T ∧ (∀ (x : ℚ) (k : ℤ), s (x + k * T) = s x) ∧ (∀ x, -1 ≤ s x ∧ s x ≤ 1) ∧
    (∀ u v, 0 ≤ u → u ≤ v → v ≤ T / 4 → s u ≤ s v) ∧ (∀ u v, T / 4 ≤ u → u ≤ v → v ≤ 3 * (T / 4) → s v ≤ s u) ∧
    (∀ u v, 3 * (T / 4) ≤ u → u ≤ v → v ≤ T → s u ≤ s v) ∧
    (∀ u v, 0 ≤ u → u ≤ v → v ≤ T / 2 → s v ≤ s u) ∧ (∀ u v, T / 2 ≤ u → u ≤ v → v ≤ T → s u ≤ s v) :=
  ⟨fun _ => 0, 8, by norm_num, fun _ _ => rfl, fun _ => by norm_num, fun _ _ _ _ _ => le_refl _,
    fun _ _ _ _ _ => le_refl _, fun _ _ _ _ _ => le_refl _, fun _ _ _ _ _ => le_refl _, fun _ _ _ _ _ => le_refl _⟩

-- period 8 (quarter 2): [-1,1] wraps through 0 -> [s yl, s yh]; [1,3] contains the maximum; [6,7] for cos
example : sinShape 2 (fmodR (-1) 8) (fmodR 1 8) 8 = some .lh := by decide +kernel
example : sinShape 2 (fmodR 1 8) (fmodR 3 8) 8 = some .minTo1 := by decide +kernel
example : sinShape 7 (fmodR 1 8) (fmodR 8 8) 8 = some .full := by decide +kernel
example : sinVecShape 2 (fmodR 2 8) (fmodR 6 8) 8 = .hl := by decide +kernel
example : cosShape 2 (fmodR 7 8) (fmodR 9 8) 8 = some .minTo1 := by decide +kernel
example : cosShape 8 (fmodR (-16) 8) (fmodR (-8) 8) 8 = some .full := by decide +kernel
example : cosVecShape 8 (fmodR (-16) 8) (fmodR (-8) 8) 8 = .full := by decide +kernel
example : tanInf 4 (fmodR 0 4) (fmodR 4 4) 4 = true := by decide +kernel
example : tanInf 1 (fmodR 1 4) (fmodR (5/2) 4) 4 = true := by decide +kernel
example : tanInf 1 (fmodR 3 4) (fmodR (9/2) 4) 4 = false := by decide +kernel
example : absI (-2) 1 = (0, 2) := by decide +kernel
example : powI (-2) 1 2 = .ok (1/4, 1) := by decide +kernel
example : powI (-1) (-1) 2 = .error .ZeroDivision := by decide +kernel
example : powI 2 (-1) 2 = .ok (0, 4) := by decide +kernel
example : powI 0 (-1) 2 = .ok (0, 1) := by decide +kernel      -- sound, not tight (n = 0 is excluded from pow_exact)
example : powA .int (-1) [1, -1] [2, 2] = .error .ZeroDivision := by decide +kernel
example : powA .int (-2) [1, -2] [2, -1] = .ok [(1/4, 1), (1/4, 1)] := by decide +kernel
example : logI 0 0 1 = .error .Assertion := by decide +kernel
example : sqrtI (-1) 4 0 2 = .error .Assertion := by decide +kernel

example : ∃ E : ℚ → ℚ, (∀ x, 0 < E x) ∧ (∀ u v, u ≤ v → E u ≤ E v) ∧ E (-1) < E 1 :=
  ⟨fun x => if x < 0 then 1 else 2,
   fun x => by dsimp only; split_ifs <;> norm_num,
   fun u v h => by dsimp only; split_ifs with a b <;> first | (exfalso; simp only [not_lt] at *; linarith) | norm_num,
   by norm_num⟩

example : ∃ (t : ℚ → ℚ) (P : ℚ), 0 < P ∧ (∀ (x : ℚ) (k : ℤ), t (x + k * P) = t x) ∧
    (∀ u v, 0 ≤ u → u ≤ v → v < P / 2 → t u ≤ t v) ∧ (∀ u v, P / 2 < u → u ≤ v → v ≤ P → t u ≤ t v) :=
  ⟨fun _ => 0, 4, by norm_num, fun _ _ => rfl, fun _ _ _ _ _ => le_refl _, fun _ _ _ _ _ => le_refl _⟩

/-! ## overflow of exp: the extended forms the driver executes -/

/-- on finite values the extended constructor is the ordinary one -/
theorem expIE_fin (a b : ℚ) :
    expIE (.fin a) (.fin b) = if a ≤ b then .ok (.fin a, .fin b) else .error .Assertion := by
  unfold expIE mkIE EV.le
  by_cases h : a ≤ b <;> simp [h]

/-- `exp(hi)` overflowed: `[exp lo, inf]` is returned, no assertion fires -/
theorem expIE_overflow (a : EV) : expIE a .pinf = .ok (a, .pinf) := by
  unfold expIE mkIE
  cases a <;> rfl

/-- on finite values the extended logistic function is `sigmoidI` (so `sigmoid_exact` applies) -/
theorem sigmoidIE_fin (a b : ℚ) : sigmoidIE (.fin a) (.fin b) = sigmoidI a b := by
  unfold sigmoidIE sigmoidI mkIE mkI EV.le
  by_cases h : a ≤ b
  · simp only [h, decide_true, if_true, EV.add1]
    by_cases h2 : 1 + a ≤ 1 + b
    · simp only [h2, decide_true, if_true, recipI, EV.le0, EV.ge0, EV.rdiv, mkI, Bool.and_eq_true, decide_eq_true_eq]
      split_ifs <;> first | rfl | simp_all
    · simp only [h2, decide_false, if_false, Bool.false_eq_true]
  · simp only [h, decide_false, if_false, Bool.false_eq_true]

theorem tanhIE_fin (a b : ℚ) : tanhIE (.fin a) (.fin b) = tanhI a b := by
  by_cases h : a ≤ b <;> by_cases h2 : 1 + a ≤ 1 + b <;> by_cases h3 : 1 + a ≤ 0 <;> by_cases h3' : 0 ≤ 1 + b <;>
    by_cases h4 : 2 / (1 + b) ≤ 2 / (1 + a) <;>
    simp [tanhIE, tanhI, mkIE, mkI, EV.le, EV.add1, EV.le0, EV.ge0, EV.rdiv, h, h2, h3, h3', h4]

/-- `exp(-lo)` overflowed to `inf` (lo < −709.78): the logistic function returns `[0, 1/(1+E(-hi))]`,
which still encloses `1/(1+E(-x))` for every `x ≤ hi`, for any positive monotone `E` -/
theorem sigmoid_overflow_sound (E : ℚ → ℚ) (hpos : ∀ x, 0 < E x) (hmono : ∀ u v, u ≤ v → E u ≤ E v) (hi : ℚ) :
    sigmoidIE (.fin (E (-hi))) .pinf = .ok (0, 1 / (1 + E (-hi))) ∧
    ∀ x, x ≤ hi → 0 ≤ 1 / (1 + E (-x)) ∧ 1 / (1 + E (-x)) ≤ 1 / (1 + E (-hi)) := by
  have p := hpos (-hi)
  constructor
  · unfold sigmoidIE mkIE
    simp only [EV.le, if_true, EV.add1, EV.le0, EV.ge0, EV.rdiv, Bool.and_true, decide_eq_true_eq]
    rw [if_neg (by linarith)]
    unfold mkI
    rw [if_pos (by positivity)]
  · intro x hx
    have a1 : E (-hi) ≤ E (-x) := hmono _ _ (by linarith)
    have p2 := hpos (-x)
    exact ⟨by positivity, one_div_le_one_div_of_le (by linarith) (by linarith)⟩

/-- `exp(2 hi)` overflowed: `tanh` returns `[1 − 2/(1+E(2 lo)), 1]`, which encloses `1 − 2/(1+E(2x))`
for every `x ≥ lo` -/
theorem tanh_overflow_sound (E : ℚ → ℚ) (hpos : ∀ x, 0 < E x) (hmono : ∀ u v, u ≤ v → E u ≤ E v) (lo : ℚ) :
    tanhIE (.fin (E (2 * lo))) .pinf = .ok (1 - 2 / (1 + E (2 * lo)), 1) ∧
    ∀ x, lo ≤ x → 1 - 2 / (1 + E (2 * lo)) ≤ 1 - 2 / (1 + E (2 * x)) ∧ 1 - 2 / (1 + E (2 * x)) ≤ 1 := by
  have p := hpos (2 * lo)
  constructor
  · unfold tanhIE mkIE
    simp only [EV.le, if_true, EV.add1, EV.le0, EV.ge0, EV.rdiv, Bool.and_true, decide_eq_true_eq]
    rw [if_neg (by linarith)]
    unfold mkI
    rw [if_pos (by positivity)]
    simp only
    rw [if_pos (by have : 0 ≤ 2 / (1 + E (2 * lo)) := by positivity
                   linarith)]
    simp
  · intro x hx
    have a1 : E (2 * lo) ≤ E (2 * x) := hmono _ _ (by linarith)
    have p2 := hpos (2 * x)
    have h1 : 2 / (1 + E (2 * x)) ≤ 2 / (1 + E (2 * lo)) :=
      div_le_div_of_nonneg_left (by norm_num) (by linarith) (by linarith)
    have h2 : 0 ≤ 2 / (1 + E (2 * x)) := by positivity
    constructor <;> linarith

example : sigmoidIE (.fin 0) .pinf = .ok (0, 1) := by decide +kernel
example : tanhIE (.fin 0) .pinf = .ok (-1, 1) := by decide +kernel
example : tanhIE .pinf .pinf = .ok (1, 1) := by decide +kernel
example : expIE .pinf (.fin 1) = .error .Assertion := by decide +kernel


/-! ## `activation.tanh` (single-occurrence form since `fa5d3fa`) -/

/-- the operations of `activation.tanh` are those of `methods.tanh` -/
theorem atanhIE_eq_tanhIE (a b : EV) : atanhIE a b = tanhIE a b := rfl

/-- `activation.tanh`, for any positive monotone `E` in place of `exp`: no error, and the result is the
exact range of `1 − 2/(1+E(2x))` over `[lo,hi]` (enclosure, both bounds attained at the endpoints) -/
theorem atanh_sound (E : ℚ → ℚ) (hpos : ∀ x, 0 < E x) (hmono : ∀ u v, u ≤ v → E u ≤ E v)
    (lo hi : ℚ) (h : lo ≤ hi) :
    atanhIE (.fin (E (2 * lo))) (.fin (E (2 * hi))) = .ok (1 - 2 / (1 + E (2 * lo)), 1 - 2 / (1 + E (2 * hi))) ∧
    ∀ x, lo ≤ x → x ≤ hi →
      1 - 2 / (1 + E (2 * lo)) ≤ 1 - 2 / (1 + E (2 * x)) ∧ 1 - 2 / (1 + E (2 * x)) ≤ 1 - 2 / (1 + E (2 * hi)) := by
  rw [atanhIE_eq_tanhIE, tanhIE_fin]
  exact tanh_exact E hpos hmono lo hi h

/-- `exp(2 hi)` overflowed: `[1 − 2/(1+E(2 lo)), 1]` still encloses -/
theorem atanh_overflow_sound (E : ℚ → ℚ) (hpos : ∀ x, 0 < E x) (hmono : ∀ u v, u ≤ v → E u ≤ E v) (lo : ℚ) :
    atanhIE (.fin (E (2 * lo))) .pinf = .ok (1 - 2 / (1 + E (2 * lo)), 1) ∧
    ∀ x, lo ≤ x → 1 - 2 / (1 + E (2 * lo)) ≤ 1 - 2 / (1 + E (2 * x)) ∧ 1 - 2 / (1 + E (2 * x)) ≤ 1 := by
  rw [atanhIE_eq_tanhIE]
  exact tanh_overflow_sound E hpos hmono lo

/-- both endpoints beyond the overflow threshold (the input that raised before `fa5d3fa`): `[1, 1]` -/
example : atanhIE .pinf .pinf = .ok (1, 1) := by decide +kernel

end Pun.Elem
