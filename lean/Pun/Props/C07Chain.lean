import Pun.Props.C07Route
/-!
# C07 — histories: an operation applied to the result of a mixed-kind operation

`chain_agrees`: for `(a op1 b) op2 c`, `a op1 (b op2 c)`, `(a op1 b) op2 a` with operands of any kinds
(numbers, intervals, p-boxes, precise distributions, DS structures), every dependency: if the history with
every operand converted to a p-box first answers `z`, the Python history — number / interval
sub-expressions evaluated by Python / interval arithmetic, everything else through the dispatch graph —
answers an object whose conversion is `z`.  Built from `step_agrees` (one step, any kinds), which combines
`route_agrees'` (mixed pairs), `low_expr` (number / interval pairs: `arith_num_left/right` reduce a Python
number to the degenerate interval, then `embed_op`) and `binop_wf` (results stay valid operands).
-/
set_option linter.unusedSimpArgs false
set_option linter.unusedVariables false
namespace Pun.Hier
open Pun Pun.PBox

/-! ## a Python number in interval arithmetic is the degenerate interval -/

theorem arith_num_right (o : Op) (a b y : Rat) (hab : a ≤ b) :
    Arith.binop (toArith o) (.I a b) (.N y) = Arith.binop (toArith o) (.I a b) (.I y y) := by
  cases o with
  | add =>
    rw [toArith, arith_add a b y y hab (le_refl y)]
    have h : a + y ≤ b + y := by linarith
    simp [Arith.binop, Arith.opdIV, Arith.forward, Arith.IV.ofI, Arith.mkIV, h]
  | sub =>
    rw [toArith, arith_sub a b y y hab (le_refl y)]
    have h : a - y ≤ b - y := by linarith
    simp [Arith.binop, Arith.opdIV, Arith.forward, Arith.IV.ofI, Arith.mkIV, h]
  | mul =>
    rw [toArith, arith_mul a b y y hab (le_refl y)]
    by_cases hy : 0 ≤ y
    · have h : a * y ≤ b * y := mul_le_mul_of_nonneg_right hab hy
      simp [Arith.binop, Arith.opdIV, Arith.forward, Arith.IV.ofI, Arith.mulNum, Arith.mkIV, hy, h, min4, max4]
    · have hy' : y ≤ 0 := le_of_lt (not_le.mp hy)
      have h : b * y ≤ a * y := mul_le_mul_of_nonpos_right hab hy'
      simp [Arith.binop, Arith.opdIV, Arith.forward, Arith.IV.ofI, Arith.mulNum, Arith.mkIV, hy, h, min4, max4]
  | div =>
    rcases lt_trichotomy y 0 with hy | hy | hy
    · rw [toArith, arith_div a b y y hab (le_refl y) (Or.inr hy)]
      have h : b * (1 / y) ≤ a * (1 / y) := mul_le_mul_of_nonpos_right hab (le_of_lt (one_div_neg.mpr hy))
      have h' : b / y ≤ a / y := by rw [div_eq_mul_one_div b, div_eq_mul_one_div a]; exact h
      have h2 : b * y⁻¹ ≤ a * y⁻¹ := by simpa [one_div] using h
      simp [Arith.binop, Arith.opdIV, Arith.forward, Arith.IV.ofI, Arith.divNum, Arith.mkIV, ne_of_lt hy, not_lt.mpr (le_of_lt hy),
        h', min4, max4, h, h2, div_eq_mul_one_div b, div_eq_mul_one_div a]
    · subst hy
      rw [toArith, arith_div_zero a b 0 0 ⟨le_refl 0, le_refl 0⟩]
      simp [Arith.binop, Arith.opdIV, Arith.forward, Arith.IV.ofI, Arith.divNum]
    · rw [toArith, arith_div a b y y hab (le_refl y) (Or.inl hy)]
      have h : a * (1 / y) ≤ b * (1 / y) := mul_le_mul_of_nonneg_right hab (le_of_lt (one_div_pos.mpr hy))
      have h' : a / y ≤ b / y := by rw [div_eq_mul_one_div b, div_eq_mul_one_div a]; exact h
      have h2 : a * y⁻¹ ≤ b * y⁻¹ := by simpa [one_div] using h
      simp [Arith.binop, Arith.opdIV, Arith.forward, Arith.IV.ofI, Arith.divNum, Arith.mkIV, ne_of_gt hy, hy,
        h', min4, max4, h, h2, hab, div_eq_mul_one_div b, div_eq_mul_one_div a]

theorem arith_num_left (o : Op) (x c d : Rat) (hcd : c ≤ d) :
    Arith.binop (toArith o) (.N x) (.I c d) = Arith.binop (toArith o) (.I x x) (.I c d) := by
  cases o with
  | add =>
    rw [toArith, arith_add x x c d (le_refl x) hcd]
    have h : c + x ≤ d + x := by linarith
    simp [Arith.binop, Arith.opdIV, Arith.reflected, Arith.forward, Arith.IV.ofI, Arith.mkIV, h, hcd, add_comm]
  | sub =>
    rw [toArith, arith_sub x x c d (le_refl x) hcd]
    have h : x - d ≤ x - c := by linarith
    simp [Arith.binop, Arith.opdIV, Arith.reflected, Arith.rsubNum, Arith.IV.ofI, Arith.mkIV, h]
  | mul =>
    rw [toArith, arith_mul x x c d (le_refl x) hcd]
    by_cases hx : 0 ≤ x
    · have h : c * x ≤ d * x := mul_le_mul_of_nonneg_right hcd hx
      have h2 : x * c ≤ x * d := mul_le_mul_of_nonneg_left hcd hx
      simp [Arith.binop, Arith.opdIV, Arith.reflected, Arith.forward, Arith.IV.ofI, Arith.mulNum, Arith.mkIV, hx, h, h2, min4, max4,
        mul_comm c x, mul_comm d x]
    · have hx' : x ≤ 0 := le_of_lt (not_le.mp hx)
      have h : d * x ≤ c * x := mul_le_mul_of_nonpos_right hcd hx'
      have h2 : x * d ≤ x * c := mul_le_mul_of_nonpos_left hcd hx'
      simp [Arith.binop, Arith.opdIV, Arith.reflected, Arith.forward, Arith.IV.ofI, Arith.mulNum, Arith.mkIV, hx, h, h2, min4, max4,
        mul_comm c x, mul_comm d x]
  | div =>
    by_cases hz : c ≤ 0 ∧ 0 ≤ d
    · rw [toArith, arith_div_zero x x c d hz]
      simp [Arith.binop, Arith.opdIV, Arith.reflected, Arith.rdivNum, Arith.IV.ofI, Arith.straddles, hz.1, hz.2]
    · have h0 : 0 < c ∨ d < 0 := by
        by_cases hc : 0 < c
        · exact Or.inl hc
        · right; by_contra hd'; exact hz ⟨not_lt.mp hc, not_lt.mp hd'⟩
      have hle := one_div_anti c d hcd h0
      have hle' : d⁻¹ ≤ c⁻¹ := by simpa [one_div] using hle
      rw [toArith, arith_div x x c d (le_refl x) hcd h0]
      have hstr : ¬ (c ≤ 0 ∧ 0 ≤ d) := hz
      by_cases hx : 0 ≤ x
      · have h2 : x * d⁻¹ ≤ x * c⁻¹ := mul_le_mul_of_nonneg_left hle' hx
        simp [Arith.binop, Arith.opdIV, Arith.reflected, Arith.rdivNum, Arith.IV.ofI, Arith.straddles, hstr, Arith.mkIV, hx, h2,
          min4, max4, div_eq_mul_inv]
      · have hx' : x ≤ 0 := le_of_lt (not_le.mp hx)
        have h2 : x * c⁻¹ ≤ x * d⁻¹ := mul_le_mul_of_nonpos_left hle' hx'
        simp [Arith.binop, Arith.opdIV, Arith.reflected, Arith.rdivNum, Arith.IV.ofI, Arith.straddles, hstr, Arith.mkIV, hx, h2,
          min4, max4, div_eq_mul_inv]

/-! ## results stay well formed; number / interval sub-expressions -/

/-- whatever a p-box operation on well-formed operands returns is well formed (C04's lemmas) -/
theorem binop_wf (n : Nat) (o : Op) (d : Dep) (X Y P : PB) (hX : WF n X) (hY : WF n Y)
    (h : binop n o d X Y = .ok P) : WF n P := by
  cases o with
  | add => exact wf_of_c04 (Pun.WF.add_wf n d X Y P (wf_c04 hX) (wf_c04 hY) h)
  | sub => exact wf_of_c04 (Pun.WF.sub_wf n d X Y P (wf_c04 hX) (wf_c04 hY) h)
  | mul => exact wf_of_c04 (Pun.WF.mul_wf n d X Y P (wf_c04 hX) (wf_c04 hY) h)
  | div => exact wf_of_c04 (Pun.WF.divC_wf n d X Y P (wf_c04 hX) (wf_c04 hY) h)

theorem le_of_wf_ofIvl (n : Nat) (hn : 0 < n) (a b : Rat) (h : WF n (ofIvl n a b)) : a ≤ b := by
  obtain ⟨k, rfl⟩ : ∃ k, n = k + 1 := ⟨n - 1, by omega⟩
  have := h.le
  simp only [ofIvl, List.replicate_succ] at this
  cases this with
  | cons h0 _ => exact h0

/-- an expression on two intervals answers an interval whose embedding is the converted-first result -/
theorem ivl_ivl_expr (n : Nat) (hn : 0 < n) (d : Dep) (hd : d ≠ .unknown) (o : Op) (a b c e : Rat)
    (hab : a ≤ b) (hce : c ≤ e) (h0 : o = .div → (0 < c ∨ e < 0)) :
    ∃ lo hi, Arith.binop (toArith o) (.I a b) (.I c e) = .ok (.I lo hi) ∧ lo ≤ hi ∧
      spec n d o (.ivl a b) (.ivl c e) = .ok (ofIvl n lo hi) := by
  obtain ⟨lo, hi, h⟩ := arith_total o a b c e hab hce h0
  have hev : evalOp n d o (.ivl a b) (.ivl c e) = .ok (.ivl lo hi) := by
    simp only [evalOp, opdArith, lowOp, h, resOfArith]
  have hs := ivl_expr_embeds n hn d hd o a b c e lo hi hab hce hev
  refine ⟨lo, hi, h, ?_, hs⟩
  have e1 : convert n (.ivl a b) = .ok (ofIvl n a b) := ivlToPbox_eq n a b hn hab
  have e2 : convert n (.ivl c e) = .ok (ofIvl n c e) := ivlToPbox_eq n c e hn hce
  simp only [spec, e1, e2, ok_bind] at hs
  exact le_of_wf_ofIvl n hn lo hi (binop_wf n o d _ _ _ (wf_ofIvl n a b hab) (wf_ofIvl n c e hce) hs)

/-- **a sub-expression on numbers / intervals** is evaluated in the simpler calculus; its result, converted,
is the converted-first result -/
theorem low_expr (n : Nat) (hn : 0 < n) (d : Dep) (hd : d ≠ .unknown) (o : Op) (l r : Opd)
    (hl : isHigh l = false) (hr : isHigh r = false) (hvl : ValidOpd n l) (hvr : ValidOpd n r)
    (hdiv : DivisorLowOk o r) :
    ∃ res, evalOp n d o l r = .ok res ∧ isHigh res.toOpd = false ∧ ValidOpd n res.toOpd ∧
      spec n d o l r = .ok (lowBox n res.toOpd) := by
  cases l with
  | pbox p => simp [isHigh] at hl
  | dist q => simp [isHigh] at hl
  | dss p => simp [isHigh] at hl
  | num x =>
    cases r with
    | pbox p => simp [isHigh] at hr
    | dist q => simp [isHigh] at hr
    | dss p => simp [isHigh] at hr
    | num y =>
      have hnat : ∃ z, native o x y = .ok (.num z) := by
        cases o with
        | add => exact ⟨_, rfl⟩
        | sub => exact ⟨_, rfl⟩
        | mul => exact ⟨_, rfl⟩
        | div => exact ⟨x / y, by simp [native, hdiv rfl]⟩
      obtain ⟨z, hz⟩ := hnat
      have hev : evalOp n d o (.num x) (.num y) = .ok (.num z) := by simp only [evalOp, opdArith, lowOp, hz]
      exact ⟨.num z, hev, rfl, trivial, real_expr_embeds n hn d hd o x y z hev⟩
    | ivl c e =>
      obtain ⟨lo, hi, h, hle, hs⟩ := ivl_ivl_expr n hn d hd o x x c e (le_refl x) hvr hdiv
      refine ⟨.ivl lo hi, ?_, rfl, hle, hs⟩
      simp only [evalOp, opdArith, lowOp, arith_num_left o x c e hvr, h, resOfArith]
  | ivl a b =>
    cases r with
    | pbox p => simp [isHigh] at hr
    | dist q => simp [isHigh] at hr
    | dss p => simp [isHigh] at hr
    | num y =>
      have h0 : o = .div → (0 < y ∨ y < 0) := by
        intro ho
        have := hdiv ho
        rcases lt_trichotomy y 0 with h | h | h
        · exact Or.inr h
        · exact absurd h this
        · exact Or.inl h
      obtain ⟨lo, hi, h, hle, hs⟩ := ivl_ivl_expr n hn d hd o a b y y hvl (le_refl y) h0
      refine ⟨.ivl lo hi, ?_, rfl, hle, hs⟩
      simp only [evalOp, opdArith, lowOp, arith_num_right o a b y hvl, h, resOfArith]
    | ivl c e =>
      obtain ⟨lo, hi, h, hle, hs⟩ := ivl_ivl_expr n hn d hd o a b c e hvl hvr hdiv
      refine ⟨.ivl lo hi, ?_, rfl, hle, hs⟩
      simp only [evalOp, opdArith, lowOp, h, resOfArith]

/-! ## ★ histories -/

/-- **one step of a history**: whatever the kinds of the two (valid) operands, if the p-box operation on
the converted operands answers `z`, the Python expression answers an object whose conversion is `z`
(a number / interval when both operands are, otherwise the p-box `z` itself), and that object is again
a valid operand -/
theorem step_agrees (n : Nat) (hn : 0 < n) (d : Dep) (hd : d ≠ .unknown) (o : Op) (l r : Opd)
    (hvl : ValidOpd n l) (hvr : ValidOpd n r) (hdiv : DivisorLowOk o r)
    (X Y z : PB) (hX : convert n l = .ok X) (hY : convert n r = .ok Y) (h : binop n o d X Y = .ok z) :
    ∃ res, evalOp n d o l r = .ok res ∧ ValidOpd n res.toOpd ∧ convert n res.toOpd = .ok z := by
  have hs : spec n d o l r = .ok z := by simp only [spec, hX, hY, ok_bind, h]
  by_cases hh : isHigh l = true ∨ isHigh r = true
  · obtain ⟨X', hX', wX, -⟩ := convert_valid n hn l hvl
    obtain ⟨Y', hY', wY, -⟩ := convert_valid n hn r hvr
    rw [hX] at hX'; injection hX' with e1; subst e1
    rw [hY] at hY'; injection hY' with e2; subst e2
    exact ⟨.pbox z, route_agrees' n hn d hd o l r hvl hvr hh hdiv z hs, binop_wf n o d X Y z wX wY h, rfl⟩
  · have hl : isHigh l = false := by cases hq : isHigh l <;> simp [hq] at hh ⊢
    have hr : isHigh r = false := by cases hq : isHigh r <;> simp [hq] at hh ⊢
    obtain ⟨res, hev, hlow, hval, hsp⟩ := low_expr n hn d hd o l r hl hr hvl hvr hdiv
    rw [hs] at hsp; injection hsp with e; subst e
    exact ⟨res, hev, hval, convert_low n hn _ hlow hval⟩

/-- **C07 for histories**: `(a op1 b) op2 c`, `a op1 (b op2 c)` and `(a op1 b) op2 a` with operands of ANY kinds.
If the history with every operand converted first answers `z`, the Python history — sub-expressions on
numbers / intervals evaluated in the simpler calculus, mixed ones through the dispatch graph — answers an
object whose conversion is `z`. -/
theorem chain_agrees (n : Nat) (hn : 0 < n) (d : Dep) (hd : d ≠ .unknown) (sh : Shape) (o1 o2 : Op) (a b c : Opd)
    (hva : ValidOpd n a) (hvb : ValidOpd n b) (hvc : ValidOpd n c)
    (hd1 : match sh with
      | .left => DivisorLowOk o1 b ∧ DivisorLowOk o2 c
      | .right => DivisorLowOk o2 c ∧ ∀ res, evalOp n d o2 b c = .ok res → DivisorLowOk o1 res.toOpd
      | .reuse => DivisorLowOk o1 b ∧ DivisorLowOk o2 a)
    (z : PB) (h : specChain n d sh o1 o2 a b c = .ok z) :
    ∃ res, evalChain n d sh o1 o2 a b c = .ok res ∧ convert n res.toOpd = .ok z := by
  unfold specChain at h
  obtain ⟨x, hx, h⟩ := bind_ok h
  obtain ⟨y, hy, h⟩ := bind_ok h
  obtain ⟨zc, hz, h⟩ := bind_ok h
  cases sh with
  | left =>
    simp only at h hd1
    obtain ⟨r, hr, h⟩ := bind_ok h
    obtain ⟨res1, e1, v1, c1⟩ := step_agrees n hn d hd o1 a b hva hvb hd1.1 x y r hx hy hr
    obtain ⟨res2, e2, v2, c2⟩ := step_agrees n hn d hd o2 res1.toOpd c v1 hvc hd1.2 r zc z c1 hz h
    exact ⟨res2, by simp only [evalChain, e1, ok_bind, e2], c2⟩
  | right =>
    simp only at h hd1
    obtain ⟨r, hr, h⟩ := bind_ok h
    obtain ⟨res1, e1, v1, c1⟩ := step_agrees n hn d hd o2 b c hvb hvc hd1.1 y zc r hy hz hr
    obtain ⟨res2, e2, v2, c2⟩ := step_agrees n hn d hd o1 a res1.toOpd hva v1 (hd1.2 res1 e1) x r z hx c1 h
    exact ⟨res2, by simp only [evalChain, e1, ok_bind, e2], c2⟩
  | reuse =>
    simp only at h hd1
    obtain ⟨r, hr, h⟩ := bind_ok h
    obtain ⟨res1, e1, v1, c1⟩ := step_agrees n hn d hd o1 a b hva hvb hd1.1 x y r hx hy hr
    obtain ⟨res2, e2, v2, c2⟩ := step_agrees n hn d hd o2 res1.toOpd a v1 hva hd1.2 r x z c1 hx h
    exact ⟨res2, by simp only [evalChain, e1, ok_bind, e2], c2⟩

/-- non-vacuity: `(Interval - Interval) * Distribution` under independence -/
example : ∃ z, specChain 2 .i .left .sub .mul (.ivl 1 2) (.ivl (-3) (-1)) (.dist [1, 4]) = .ok z := by
  have e1 : convert 2 (.ivl 1 2) = .ok (ofIvl 2 1 2) := ivlToPbox_eq 2 1 2 (by decide) (by norm_num)
  have e2 : convert 2 (.ivl (-3) (-1)) = .ok (ofIvl 2 (-3) (-1)) := by
    simp only [convert, convertPbox]; exact ivlToPbox_eq 2 (-3) (-1) (by decide) (by norm_num)
  have e0 : convert 2 (.dist [1, 4]) = .ok (ofDist [1, 4]) := rfl
  have e3 : binop 2 .sub .i (ofIvl 2 1 2) (ofIvl 2 (-3) (-1)) = .ok (ofIvl 2 (1 - -1) (2 - -3)) :=
    sub_ofIvl 2 .i (by decide) 1 2 (-3) (-1) (by decide) (by norm_num) (by norm_num)
  obtain ⟨R, hR, -⟩ := mul_total 2 (by decide) .i (by decide) (ofIvl 2 (1 - -1) (2 - -3)) (ofDist [1, 4])
    (wf_ofIvl 2 _ _ (by norm_num)) (wf_ofDist [1, 4] (by decide)) (fun h => by cases h)
  have e4 : binop 2 .mul .i (ofIvl 2 (1 - -1) (2 - -3)) (ofDist [1, 4]) = .ok R := hR
  exact ⟨R, by simp only [specChain, e1, e2, e0, ok_bind, e3, e4]⟩


end Pun.Hier
