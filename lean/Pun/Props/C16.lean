import Pun.Model.DepCtx
/-!
# C16 — the ambient dependency setting is scoped, restored and isolated

All theorems are about the functions the driver executes (`stepCtx`, `run`,
`trace`, `stepW`, `traceW`, `method`, `operator` of `Pun.Model.DepCtx`).
Core Lean only.

* `balanced_restores`, `restored_observation`, `inside_is_code`, `inside_observation` — scoping and
  restoration for every well-nested history (any depth, any order of codes, any of the three ways of
  leaving a block);
* `operator_eq_method`, `operator_in_block` — the bare operator inside the block is the explicit method with the
  block's code, for every operator (incl. `D ** y`, `Distribution.__pow__`, since the repair 449c733);
* `thread_isolation` — for EVERY schedule (any list of thread-tagged events, not a bounded
  enumeration) each thread observes exactly what its own events, run alone, would show;
* `task_copy_semantics`, `task_created_anywhere`, `thread_starts_fresh` — a task starts from a copy (of
  the value the parent's own history gives at that moment, at any point of any schedule), a thread from
  the default, and afterwards neither side sees the other's writes; `thread_isolation_state` is the
  state form of isolation;
* `unknown_code_fails`, `unknown_code_fails_in_block`, `known_code_dispatches`;
* `foreign_close_leaves_closer` — a generator block closed from another context does not touch the closer;
* `explicit_call_ignores_ambient`, `explicit_call_outside` — an explicit method inside a block of any other code
  gives what it gives outside;
* `deferred_entry_restores`, `deferred_entry_observation`, `thread_isolation_deferred` — manager objects built
  before they are entered (pre-built managers, `__enter__`/`__exit__`, ExitStack, decorator form, built in one
  thread and entered in another): the value restored is the one in force at ENTER time;
* `nonlifo_example` — what is excluded by the grammar: suspended generators closed out of LIFO order leak.
-/
set_option linter.unusedSimpArgs false
set_option linter.unusedVariables false

namespace Pun.DepCtx

/-- the three ways of leaving a block: normally, by exception, by closing the suspended generator -/
def Ev.isExit : Ev → Bool
  | .exit | .raise | .genClose => true
  | _ => false

/-- events that do not open or close a block -/
def Ev.isAtom : Ev → Bool
  | .get | .arith _ | .call _ _ | .closeOther | .spawnThread _ | .spawnTask _ => true
  | _ => false

/-- well-nested histories `H ::= ε | atom | enter d · H · (exit|raise|genClose) | H · H`, any depth -/
inductive Balanced : List Ev → Prop where
  | nil : Balanced []
  | atom (e : Ev) (h : e.isAtom = true) : Balanced [e]
  | wrap (d : Code) (x : Ev) (hx : x.isExit = true) {es : List Ev} :
      Balanced es → Balanced (Ev.enter d :: (es ++ [x]))
  | append {a b : List Ev} : Balanced a → Balanced b → Balanced (a ++ b)

theorem run_append (c : Ctx) (a b : List Ev) :
    run c (a ++ b) = (run c a).bind (fun c' => run c' b) := by
  induction a generalizing c with
  | nil => simp [run]
  | cons e es ih =>
    simp only [List.cons_append, run]
    cases h : stepCtx c e with
    | none => simp
    | some c' => simp [ih]

theorem stepCtx_atom (c : Ctx) {e : Ev} (h : e.isAtom = true) : stepCtx c e = some c := by
  cases e <;> simp [Ev.isAtom] at h <;> rfl

theorem stepCtx_exit (c : Ctx) {x : Ev} (h : x.isExit = true) : stepCtx c x = leave c := by
  cases x <;> simp [Ev.isExit] at h <;> rfl

/-- the three ways of leaving a block have the same effect (the `finally` clause runs in all of them),
and it is the LIFO case of the general token reset -/
theorem exit_kinds_agree (c : Ctx) :
    stepCtx c .raise = stepCtx c .exit ∧ stepCtx c .genClose = stepCtx c .exit
      ∧ stepCtx c (.exitAt 0) = stepCtx c .exit := by
  refine ⟨rfl, rfl, ?_⟩
  cases c with
  | mk cur toks => cases toks <;> simp [stepCtx, leaveAt, leave]

/-- ★ after any well-nested history the setting in force before it is in force again
(and the stack of open blocks is unchanged) -/
theorem balanced_restores {es : List Ev} (h : Balanced es) (c : Ctx) : run c es = some c := by
  induction h generalizing c with
  | nil => rfl
  | atom e he => simp [run, stepCtx_atom c he]
  | wrap d x hx _ ih =>
    simp only [run, stepCtx, Option.bind_some]
    rw [run_append, ih]
    simp [run, stepCtx_exit _ hx, leave]
  | append _ _ iha ihb => rw [run_append, iha]; simp [ihb]

/-- ★ inside the block, at nesting depth 0 of that block, the setting is the block's code -/
theorem inside_is_code (d : Code) {es : List Ev} (h : Balanced es) (c : Ctx) :
    (run c (Ev.enter d :: es)).map get = some d := by
  simp only [run, stepCtx, Option.bind_some]
  rw [balanced_restores h]; rfl

/-! ### the same facts as *observations* (what `get_current_dependency()` returns after each event) -/

theorem trace_append (c : Ctx) (a b : List Ev) :
    trace c (a ++ b) =
      (trace c a).bind (fun ta => (run c a).bind (fun c' => (trace c' b).map (fun tb => ta ++ tb))) := by
  induction a generalizing c with
  | nil => simp [trace, run]
  | cons e es ih =>
    simp only [List.cons_append, trace, run]
    cases h : stepCtx c e with
    | none => simp
    | some c' =>
      simp only [ih, Option.bind_some]
      cases trace c' es <;> cases run c' es <;> simp [Function.comp_def]

/-- a well-nested history can always be observed -/
theorem balanced_trace {es : List Ev} (h : Balanced es) (c : Ctx) : ∃ tr, trace c es = some tr := by
  induction h generalizing c with
  | nil => exact ⟨[], rfl⟩
  | atom e he => exact ⟨[obsOf c e], by simp [trace, stepCtx_atom c he]⟩
  | @wrap d x hx es hb ih =>
    obtain ⟨tr, htr⟩ := ih ⟨d, c.cur :: c.toks⟩
    refine ⟨obsOf ⟨d, c.cur :: c.toks⟩ (.enter d) :: (tr ++ [obsOf c x]), ?_⟩
    simp only [trace, stepCtx]
    rw [trace_append, htr, balanced_restores hb]
    simp [trace, stepCtx_exit _ hx, leave]
  | @append a b ha hb iha ihb =>
    obtain ⟨ta, hta⟩ := iha c
    obtain ⟨tb, htb⟩ := ihb c
    exact ⟨ta ++ tb, by rw [trace_append, hta, balanced_restores ha]; simp [htb]⟩

/-- the observation made after the last event of a history is the one made in the final context -/
theorem trace_snoc (c : Ctx) (es : List Ev) (e : Ev) {tr : List Obs} (h : trace c (es ++ [e]) = some tr) :
    ∃ c', run c (es ++ [e]) = some c' ∧ tr.getLast? = some (obsOf c' e) := by
  rw [trace_append] at h
  rw [run_append]
  cases hta : trace c es with
  | none => simp [hta] at h
  | some ta =>
    cases hr : run c es with
    | none => simp [hta, hr] at h
    | some c1 =>
      simp only [hta, hr, Option.bind_some, trace] at h
      cases hs : stepCtx c1 e with
      | none => simp [hs] at h
      | some c2 =>
        simp only [hs, Option.map_some, Option.some.injEq] at h
        refine ⟨c2, by simp [run, hs], ?_⟩
        subst h; simp

/-- ★ restoration as observed: a block `enter d · H · x` (H well nested, x any way of leaving) can be
run from every context; the first observation inside is `d`, and the observation made right after
leaving is the value in force before the block — any depth, any codes inside `H`. -/
theorem restored_observation (d : Code) (x : Ev) (hx : x.isExit = true) {es : List Ev}
    (h : Balanced es) (c : Ctx) :
    ∃ tr, trace c (Ev.enter d :: (es ++ [x])) = some tr
      ∧ tr.head?.map (·.code) = some d
      ∧ tr.getLast?.map (·.code) = some c.cur := by
  obtain ⟨tr, htr⟩ := balanced_trace (Balanced.wrap d x hx h) c
  refine ⟨tr, htr, ?_, ?_⟩
  · simp only [trace, stepCtx] at htr
    cases h2 : trace ⟨d, c.cur :: c.toks⟩ (es ++ [x]) with
    | none => simp [h2] at htr
    | some t2 =>
      simp only [h2, Option.map_some, Option.some.injEq] at htr
      subst htr; simp [obsOf, get]
  · have hsn := trace_snoc c (Ev.enter d :: es) x (tr := tr) (by simpa using htr)
    obtain ⟨c', hrun, hlast⟩ := hsn
    have hb := balanced_restores (Balanced.wrap d x hx h) c
    simp only [List.cons_append] at hrun
    rw [hb] at hrun
    cases hrun
    rw [hlast]
    cases x <;> simp [Ev.isExit] at hx <;> simp [obsOf, get]

/-- ★ `get_current_dependency()` called inside the block after any well-nested prefix returns the block's code -/
theorem inside_observation (d : Code) {es : List Ev} (h : Balanced es) (c : Ctx) :
    ∃ tr, trace c (Ev.enter d :: (es ++ [.get])) = some tr ∧ tr.getLast?.map (·.code) = some d := by
  have hb : Balanced (es ++ [.get]) := Balanced.append h (Balanced.atom .get rfl)
  obtain ⟨tr, htr⟩ := balanced_trace hb ⟨d, c.cur :: c.toks⟩
  refine ⟨obsOf ⟨d, c.cur :: c.toks⟩ (.enter d) :: tr, by simp [trace, stepCtx, htr], ?_⟩
  obtain ⟨c', hrun, hlast⟩ := trace_snoc _ es .get htr
  rw [balanced_restores hb] at hrun
  cases hrun
  have hne : tr ≠ [] := by
    intro h0; subst h0; simp at hlast
  rw [List.getLast?_cons_of_ne_nil hne] at *
  simp [hlast, obsOf, get]

/-! ### operators -/

/-- the statement: the bare operator is the explicit method applied to the value read at call time -/
def OperatorEqMethodStatement : Prop := ∀ (op : Op) (c : Ctx), operator op c = method op (get c)

/-- ★ it holds for every operator of `Pbox`, of the Dempster-Shafer mixin and of `Distribution`.
(On the pinned tree `Distribution.__pow__` passed the literal `"f"`: finding KF-C16-dist-pow, repaired by 449c733;
while it was open the model had a special case `powD ↦ method pow f` and this statement was refuted on
`powD` under `p`.) -/
theorem operator_eq_method (op : Op) (c : Ctx) : operator op c = method op (get c) := rfl

theorem operator_eq_method_statement : OperatorEqMethodStatement := operator_eq_method

/-- the statement: inside `with dependency(d)`, after any well-nested prefix, the bare operator gives exactly
what the explicit method called with `d` gives (value or error), and the observed setting is `d` -/
def OperatorInBlockStatement : Prop :=
  ∀ (op : Op) (d : Code) (es : List Ev), Balanced es → ∀ c : Ctx,
    ∃ tr o, trace c (Ev.enter d :: (es ++ [.arith op])) = some tr ∧ tr.getLast? = some o
      ∧ o.code = d ∧ o.res = some (method op d)

/-- ★ -/
theorem operator_in_block (op : Op) (d : Code) {es : List Ev} (h : Balanced es) (c : Ctx) :
    ∃ tr o, trace c (Ev.enter d :: (es ++ [.arith op])) = some tr ∧ tr.getLast? = some o
      ∧ o.code = d ∧ o.res = some (method op d) := by
  have hb : Balanced (es ++ [.arith op]) := Balanced.append h (Balanced.atom (.arith op) rfl)
  obtain ⟨tr, htr⟩ := balanced_trace hb ⟨d, c.cur :: c.toks⟩
  obtain ⟨c', hrun, hlast⟩ := trace_snoc _ es (.arith op) htr
  rw [balanced_restores hb] at hrun
  cases hrun
  have hne : tr ≠ [] := by
    intro h0; subst h0; simp at hlast
  refine ⟨obsOf ⟨d, c.cur :: c.toks⟩ (.enter d) :: tr, obsOf ⟨d, c.cur :: c.toks⟩ (.arith op),
    by simp [trace, stepCtx, htr], ?_, ?_, ?_⟩
  · rw [List.getLast?_cons_of_ne_nil hne]; exact hlast
  · simp [obsOf, get]
  · simp [obsOf, operator, get]

theorem operator_in_block_statement : OperatorInBlockStatement :=
  fun op d _ h c => operator_in_block op d h c

/-- ★ an unknown code makes every explicit method fail (all of them, `pow` behind `D ** y` included) -/
theorem unknown_code_fails (op : Op) (n : Nat) : ∃ e, method op (.unk n) = .error e := by
  cases op <;> simp [method, addDispatch, mulDispatch, powDispatch, swapPO, Except.map]

/-- the four known codes never make the dispatch fail -/
theorem known_code_dispatches (op : Op) (d : Code) (h : d.known = true) : ∃ call, method op d = .ok call := by
  cases op <;> cases d <;> simp [Code.known] at h <;>
    simp [method, addDispatch, mulDispatch, powDispatch, swapPO, Except.map]

/-- the statement: every bare operator fails inside a block with an unknown code -/
def UnknownCodeFailsInBlockStatement : Prop :=
  ∀ (op : Op) (n : Nat) (es : List Ev), Balanced es → ∀ c : Ctx,
    ∃ tr o e, trace c (Ev.enter (.unk n) :: (es ++ [.arith op])) = some tr ∧ tr.getLast? = some o
      ∧ o.res = some (.error e)

/-- ★ … as observed inside a block with an unknown code, whatever happened in the block before
(on the pinned tree `D ** y` returned the Frechet power there instead of failing; repaired by 449c733) -/
theorem unknown_code_fails_in_block (op : Op) (n : Nat) {es : List Ev} (h : Balanced es) (c : Ctx) :
    ∃ tr o e, trace c (Ev.enter (.unk n) :: (es ++ [.arith op])) = some tr ∧ tr.getLast? = some o
      ∧ o.res = some (.error e) := by
  obtain ⟨tr, o, htr, hl, _, hres⟩ := operator_in_block op (.unk n) h c
  obtain ⟨e, he⟩ := unknown_code_fails op n
  exact ⟨tr, o, e, htr, hl, by rw [hres, he]⟩

theorem unknown_code_fails_in_block_statement : UnknownCodeFailsInBlockStatement :=
  fun op n _ h c => unknown_code_fails_in_block op n h c

/-- ★ an explicit method does not look at the ambient setting: called with `d` inside a block of ANY code `a`
(known or unknown), after any well-nested prefix, from any context, it gives `method op d` — the same as outside
any block — and the ambient setting it leaves behind is still `a`.  (In the model `method` has no context
argument; that the real methods and every helper they call behave so is what the tie and the oracle check,
with operands of every sign class.) -/
theorem explicit_call_ignores_ambient (op : Op) (d a : Code) {es : List Ev} (h : Balanced es) (c : Ctx) :
    ∃ tr o, trace c (Ev.enter a :: (es ++ [.call op d])) = some tr ∧ tr.getLast? = some o
      ∧ o.code = a ∧ o.res = some (method op d) := by
  have hb : Balanced (es ++ [.call op d]) := Balanced.append h (Balanced.atom (.call op d) rfl)
  obtain ⟨tr, htr⟩ := balanced_trace hb ⟨a, c.cur :: c.toks⟩
  obtain ⟨c', hrun, hlast⟩ := trace_snoc _ es (.call op d) htr
  rw [balanced_restores hb] at hrun
  cases hrun
  have hne : tr ≠ [] := by
    intro h0; subst h0; simp at hlast
  refine ⟨obsOf ⟨a, c.cur :: c.toks⟩ (.enter a) :: tr, obsOf ⟨a, c.cur :: c.toks⟩ (.call op d),
    by simp [trace, stepCtx, htr], ?_, ?_, ?_⟩
  · rw [List.getLast?_cons_of_ne_nil hne]; exact hlast
  · simp [obsOf, get]
  · simp [obsOf]

/-- outside any block the same call gives the same outcome -/
theorem explicit_call_outside (op : Op) (d : Code) (c : Ctx) :
    (trace c [.call op d]).map (fun tr => tr.map (·.res)) = some [some (method op d)] := by
  simp [trace, stepCtx, obsOf]

/-- ★ closing a generator whose block was entered by another thread / task / Context (`reset(token)` raises
ValueError in the closer) leaves the CLOSER's setting and open blocks exactly as they were: inside the closer's own
block of code `a`, after any well-nested prefix, the observation after the foreign close is still `a`.  (What the
starter is left with — its block is never restored, Python cannot reset another context — is outside the
statement; the model keeps the starter's block open and the tie checks that.) -/
theorem foreign_close_leaves_closer (a : Code) {es : List Ev} (h : Balanced es) (c : Ctx) :
    ∃ tr, trace c (Ev.enter a :: (es ++ [.closeOther, .get])) = some tr ∧ tr.getLast?.map (·.code) = some a := by
  have hb : Balanced (es ++ [.closeOther]) := Balanced.append h (Balanced.atom .closeOther rfl)
  have := inside_observation a hb c
  simpa [List.append_assoc] using this

/-- `sub`/`div` exchange perfect and opposite and nothing else -/
theorem swapPO_involutive (d : Code) : swapPO (swapPO d) = d := by
  cases d <;> rfl

/-! ### several threads / tasks under every schedule -/

def proj (t : Nat) (es : List (Nat × Ev)) : List Ev :=
  (es.filter (fun p => p.1 == t)).map (·.2)

def projObs (t : Nat) (tr : List (Nat × Obs)) : List Obs :=
  (tr.filter (fun p => p.1 == t)).map (·.2)

/-- no event of the schedule (re)creates the context of `t` -/
def NoSpawnOnto (t : Nat) (es : List (Nat × Ev)) : Prop :=
  ∀ p ∈ es, p.2 ≠ Ev.spawnThread t ∧ p.2 ≠ Ev.spawnTask t

theorem stepW_nonspawn (w : World) (t : Nat) (e : Ev) (h1 : ∀ ch, e ≠ .spawnThread ch)
    (h2 : ∀ ch, e ≠ .spawnTask ch) : stepW w t e = (stepCtx (w t) e).map (upd w t) := by
  cases e <;> first | rfl | exact absurd rfl (h1 _) | exact absurd rfl (h2 _)

theorem stepW_self {w w1 : World} {t : Nat} {e : Ev} (h : stepW w t e = some w1) :
    stepCtx (w t) e = some (w1 t) := by
  cases e <;> simp only [stepW, stepCtx] at h ⊢
  case spawnThread ch =>
    by_cases hc : ch = t
    · simp [hc] at h
    · simp only [hc, if_false, Option.some.injEq] at h
      subst h
      have : ¬ t = ch := fun h' => hc h'.symm
      simp [upd, this]
  case spawnTask ch =>
    by_cases hc : ch = t
    · simp [hc] at h
    · simp only [hc, if_false, Option.some.injEq] at h
      subst h
      have : ¬ t = ch := fun h' => hc h'.symm
      simp [upd, this]
  all_goals first
    | (simp only [Option.map_some, Option.some.injEq] at h; subst h; simp [upd])
    | (cases hs : leave (w t) with
       | none => simp [hs] at h
       | some c' => simp only [hs, Option.map_some, Option.some.injEq] at h; subst h; simp [upd])
    | (rename_i k
       cases hs : leaveAt (w t) k with
       | none => simp [hs] at h
       | some c' => simp only [hs, Option.map_some, Option.some.injEq] at h; subst h; simp [upd])

theorem stepW_other {w w1 : World} {s t : Nat} {e : Ev} (h : stepW w s e = some w1) (hst : s ≠ t)
    (hsp : e ≠ Ev.spawnThread t ∧ e ≠ Ev.spawnTask t) : w1 t = w t := by
  have hts : ¬ t = s := fun h' => hst h'.symm
  cases e
  case spawnThread ch =>
    simp only [stepW] at h
    by_cases hc : ch = s
    · simp [hc] at h
    · simp only [hc, if_false, Option.some.injEq] at h
      subst h
      have : ¬ t = ch := by
        intro h'; subst h'; exact hsp.1 rfl
      simp [upd, this]
  case spawnTask ch =>
    simp only [stepW] at h
    by_cases hc : ch = s
    · simp [hc] at h
    · simp only [hc, if_false, Option.some.injEq] at h
      subst h
      have : ¬ t = ch := by
        intro h'; subst h'; exact hsp.2 rfl
      simp [upd, this]
  all_goals
    (rw [stepW_nonspawn _ _ _ (by intro ch; simp) (by intro ch; simp)] at h
     obtain ⟨c', _, rfl⟩ := Option.map_eq_some_iff.mp h
     simp [upd, hts])

/-- ★ isolation under EVERY interleaving: whatever the schedule (any list of thread-tagged events), the
observations of thread `t` are exactly those of its own events run alone from its own starting
context — nothing any other thread or task does is visible to it. -/
theorem thread_isolation (es : List (Nat × Ev)) (w : World) (tr : List (Nat × Obs))
    (h : traceW w es = some tr) (t : Nat) (hns : NoSpawnOnto t es) :
    trace (w t) (proj t es) = some (projObs t tr) := by
  induction es generalizing w tr with
  | nil => simp [traceW] at h; subst h; simp [proj, projObs, trace]
  | cons p es ih =>
    obtain ⟨s, e⟩ := p
    simp only [traceW] at h
    cases hs : stepW w s e with
    | none => simp [hs] at h
    | some w1 =>
      simp only [hs] at h
      cases ht : traceW w1 es with
      | none => simp [ht] at h
      | some tr1 =>
        simp only [ht, Option.map_some, Option.some.injEq] at h
        subst h
        have hns' : NoSpawnOnto t es := fun p hp => hns p (List.mem_cons_of_mem _ hp)
        have := ih w1 tr1 ht hns'
        by_cases hst : s = t
        · subst hst
          have hself := stepW_self hs
          simp only [proj, projObs, List.filter_cons, beq_self_eq_true, if_true, List.map_cons, trace, hself]
          simp only [proj, projObs] at this
          rw [this]; rfl
        · have hne : (s == t) = false := by simp [hst]
          have hoth := stepW_other hs hst (hns (s, e) (List.mem_cons_self ..))
          simp only [proj, projObs, List.filter_cons, hne, Bool.false_eq_true, if_false]
          rw [← hoth]
          simpa [proj, projObs] using this

/-- ★ an asyncio task starts from a COPY of the creating context: for every schedule that follows, the
child observes its own events run from the parent's value at creation time (with no open block),
and the parent observes its own events run from its own context — the child's writes are invisible
to the parent and the parent's later writes are invisible to the child. -/
theorem task_copy_semantics (a ch : Nat) (es : List (Nat × Ev)) (w : World) (tr : List (Nat × Obs))
    (h : traceW w ((a, Ev.spawnTask ch) :: es) = some tr)
    (hch : NoSpawnOnto ch es) (ha : NoSpawnOnto a es) :
    a ≠ ch
    ∧ trace ⟨(w a).cur, []⟩ (proj ch es) = some (projObs ch tr)
    ∧ trace (w a) (proj a ((a, Ev.spawnTask ch) :: es)) = some (projObs a tr) := by
  have hne : a ≠ ch := by
    intro hEq; subst hEq
    simp [traceW, stepW] at h
  have hne' : ¬ ch = a := fun h' => hne h'.symm
  refine ⟨hne, ?_, ?_⟩
  · simp only [traceW, stepW, hne', if_false] at h
    cases ht : traceW (upd w ch ⟨(w a).cur, []⟩) es with
    | none => simp [ht] at h
    | some tr1 =>
      simp only [ht, Option.map_some, Option.some.injEq] at h
      subst h
      have := thread_isolation es _ tr1 ht ch hch
      have hb : (a == ch) = false := by simp [hne]
      simpa [upd, projObs, List.filter_cons, hb] using this
  · apply thread_isolation _ w tr h a
    intro p hp
    rcases List.mem_cons.mp hp with hp | hp
    · subst hp
      refine ⟨by simp, ?_⟩
      intro hEq
      exact hne' (by injection hEq)
    · exact ha p hp

/-- state form of isolation (every schedule): thread `t` ends exactly where its own events, run alone, leave it -/
theorem thread_isolation_state (es : List (Nat × Ev)) (w w' : World) (h : runW w es = some w') (t : Nat)
    (hns : NoSpawnOnto t es) : run (w t) (proj t es) = some (w' t) := by
  induction es generalizing w with
  | nil => simp [runW] at h; subst h; simp [proj, run]
  | cons p es ih =>
    obtain ⟨s, e⟩ := p
    simp only [runW] at h
    cases hs : stepW w s e with
    | none => simp [hs] at h
    | some w1 =>
      simp only [hs, Option.bind_some] at h
      have hns' : NoSpawnOnto t es := fun p hp => hns p (List.mem_cons_of_mem _ hp)
      have := ih w1 h hns'
      by_cases hst : s = t
      · subst hst
        have hself := stepW_self hs
        simp only [proj, List.filter_cons, beq_self_eq_true, if_true, List.map_cons, run, hself, Option.bind_some]
        simpa [proj] using this
      · have hne : (s == t) = false := by simp [hst]
        have hoth := stepW_other hs hst (hns (s, e) (List.mem_cons_self ..))
        simp only [proj, List.filter_cons, hne, Bool.false_eq_true, if_false]
        rw [← hoth]
        simpa [proj] using this

theorem traceW_append (w : World) (a b : List (Nat × Ev)) :
    traceW w (a ++ b) =
      (traceW w a).bind (fun ta => (runW w a).bind (fun w' => (traceW w' b).map (fun tb => ta ++ tb))) := by
  induction a generalizing w with
  | nil => simp [traceW, runW]
  | cons p es ih =>
    obtain ⟨s, e⟩ := p
    simp only [List.cons_append, traceW, runW]
    cases h : stepW w s e with
    | none => simp
    | some w1 =>
      simp only [ih, Option.bind_some]
      cases traceW w1 es <;> cases runW w1 es <;> simp [Function.comp_def]

/-- ★ the general form: a task may be created at ANY point of ANY schedule (`pre` arbitrary, the parent
inside any number of blocks).  Whatever follows, the child observes its own events run from the value
the parent had at that moment; and that value is the one the parent's own history alone produces. -/
theorem task_created_anywhere (pre post : List (Nat × Ev)) (a ch : Nat) (w : World) (tr : List (Nat × Obs))
    (h : traceW w (pre ++ (a, Ev.spawnTask ch) :: post) = some tr)
    (hch : NoSpawnOnto ch post) (ha : NoSpawnOnto a pre) :
    ∃ ca tpre tpost, run (w a) (proj a pre) = some ca ∧ traceW w pre = some tpre ∧ tr = tpre ++ tpost
      ∧ trace ⟨ca.cur, []⟩ (proj ch post) = some (projObs ch tpost) := by
  rw [traceW_append] at h
  cases hp : traceW w pre with
  | none => simp [hp] at h
  | some tpre =>
    cases hr : runW w pre with
    | none => simp [hp, hr] at h
    | some w1 =>
      simp only [hp, hr, Option.bind_some] at h
      cases hq : traceW w1 ((a, Ev.spawnTask ch) :: post) with
      | none => simp [hq] at h
      | some tpost =>
        simp only [hq, Option.map_some, Option.some.injEq] at h
        refine ⟨w1 a, tpre, tpost, thread_isolation_state pre w w1 hr a ha, rfl, h.symm, ?_⟩
        have hne : ¬ ch = a := by
          intro hEq; subst hEq
          simp [traceW, stepW] at hq
        simp only [traceW, stepW, hne, if_false] at hq
        cases ht : traceW (upd w1 ch ⟨(w1 a).cur, []⟩) post with
        | none => simp [ht] at hq
        | some tr1 =>
          simp only [ht, Option.map_some, Option.some.injEq] at hq
          subst hq
          have := thread_isolation post _ tr1 ht ch hch
          have hb : (a == ch) = false := by
            have : ¬ a = ch := fun h' => hne h'.symm
            simp [this]
          simpa [upd, projObs, List.filter_cons, hb] using this

/-- a new thread starts from the default, whatever is in force in the thread that starts it, and for
every schedule that follows the two do not see each other -/
theorem thread_starts_fresh (a ch : Nat) (es : List (Nat × Ev)) (w : World) (tr : List (Nat × Obs))
    (h : traceW w ((a, Ev.spawnThread ch) :: es) = some tr)
    (hch : NoSpawnOnto ch es) (ha : NoSpawnOnto a es) :
    a ≠ ch
    ∧ trace Ctx.init (proj ch es) = some (projObs ch tr)
    ∧ trace (w a) (proj a ((a, Ev.spawnThread ch) :: es)) = some (projObs a tr) := by
  have hne : a ≠ ch := by
    intro hEq; subst hEq
    simp [traceW, stepW] at h
  have hne' : ¬ ch = a := fun h' => hne h'.symm
  refine ⟨hne, ?_, ?_⟩
  · simp only [traceW, stepW, hne', if_false] at h
    cases ht : traceW (upd w ch Ctx.init) es with
    | none => simp [ht] at h
    | some tr1 =>
      simp only [ht, Option.map_some, Option.some.injEq] at h
      subst h
      have := thread_isolation es _ tr1 ht ch hch
      have hb : (a == ch) = false := by simp [hne]
      simpa [upd, projObs, List.filter_cons, hb] using this
  · apply thread_isolation _ w tr h a
    intro p hp
    rcases List.mem_cons.mp hp with hp | hp
    · subst hp
      refine ⟨?_, by simp⟩
      intro hEq
      exact hne' (by injection hEq)
    · exact ha p hp

/-! ### non-vacuity and the excluded case -/

/-- depth 4, mixed codes, all three ways of leaving, atoms in between -/
example : Balanced [.enter .p, .get, .enter (.unk 0), .enter .o, .arith .add, .enter .i, .genClose, .raise,
    .exit, .get, .exit] := by
  have h4 : Balanced [Ev.enter .i, .genClose] := Balanced.wrap .i .genClose rfl Balanced.nil
  have h3 : Balanced [Ev.enter .o, .arith .add, .enter .i, .genClose, .raise] :=
    Balanced.wrap .o .raise rfl (Balanced.append (Balanced.atom (.arith .add) rfl) h4)
  have h2 := Balanced.wrap (.unk 0) .exit rfl h3
  have h1 := Balanced.wrap .p .exit rfl
    (Balanced.append (Balanced.atom .get rfl) (Balanced.append h2 (Balanced.atom .get rfl)))
  simpa using h1

example : run ⟨.i, [.o]⟩ [.enter .p, .enter (.unk 0), .raise, .enter .o, .genClose, .exit] = some ⟨.i, [.o]⟩ := by
  decide

/-- a schedule of two threads and a task satisfying the hypotheses of the isolation theorems -/
example : ∃ tr, traceW World.init [(0, .enter .p), (0, .spawnTask 1), (0, .spawnThread 2), (1, .get), (2, .get),
    (1, .enter .o), (0, .get), (2, .enter .i), (1, .arith .sub), (0, .exit), (1, .get), (1, .exit), (2, .raise)]
    = some tr ∧ (tr.map (fun p => p.2.code)) = [.p, .p, .p, .p, .f, .o, .p, .i, .o, .f, .o, .p, .f] := by
  refine ⟨_, rfl, ?_⟩
  decide

/-- the task is created while the parent is inside a block: the child keeps seeing `p` after the parent left -/
example : ∃ tr, traceW World.init ([(0, .enter .p)] ++ (0, .spawnTask 1) :: [(1, .get), (0, .exit), (1, .get), (0, .get)])
    = some tr ∧ (projObs 1 tr).map (·.code) = [.p, .p] ∧ (projObs 0 tr).map (·.code) = [.p, .p, .f, .f] :=
  ⟨_, rfl, by decide, by decide⟩

example : NoSpawnOnto 1 [(1, .get), (0, .enter .p), (1, .enter .o)] := by
  intro p hp
  simp at hp
  rcases hp with h | h | h <;> subst h <;> simp

/-- NOT nesting (excluded by `Balanced`): two generators suspended inside their blocks in ONE context
and closed in the order they were opened.  Python's token semantics makes the setting leak (`p`
stays in force although every block has been left); the model reproduces it and the tie checks it
against the real interpreter, but it is not counted as a finding. -/
theorem nonlifo_example :
    run Ctx.init [.enter .p, .enter .o, .exitAt 1, .exitAt 0] = some ⟨.p, []⟩ := by
  decide

/-! ### manager objects built before they are entered (deferred entry) -/

/-- the store of built managers after a history -/
def storeAfter (st : Store) : List EvM → Store
  | [] => st
  | .build m d :: es => storeAfter ((m, d) :: st) es
  | _ :: es => storeAfter st es

theorem resolveH_append (st : Store) (a b : List EvM) :
    resolveH st (a ++ b) =
      (resolveH st a).bind (fun ea => (resolveH (storeAfter st a) b).map (fun eb => ea ++ eb)) := by
  induction a generalizing st with
  | nil => simp [resolveH, storeAfter]
  | cons e es ih =>
    cases e with
    | base e =>
      simp only [List.cons_append, resolveH, storeAfter, ih]
      cases resolveH st es <;> simp [Function.comp_def]
    | build m d =>
      simp only [List.cons_append, resolveH, storeAfter, ih]
      cases resolveH ((m, d) :: st) es <;> simp [Function.comp_def]
    | enterM m =>
      simp only [List.cons_append, resolveH, storeAfter]
      cases st.lookup m with
      | none => simp
      | some d =>
        simp only [ih]
        cases resolveH st es <;> simp [Function.comp_def]

/-- well-nested histories in which a block may also be opened by entering a manager built earlier
(at any earlier point, under any ambient setting, possibly by another thread) -/
inductive BalancedM : List EvM → Prop where
  | nil : BalancedM []
  | atom (e : Ev) (h : e.isAtom = true) : BalancedM [.base e]
  | build (m : Nat) (d : Code) : BalancedM [.build m d]
  | wrap (d : Code) (x : Ev) (hx : x.isExit = true) {es : List EvM} :
      BalancedM es → BalancedM (.base (.enter d) :: (es ++ [.base x]))
  | wrapM (m : Nat) (x : Ev) (hx : x.isExit = true) {es : List EvM} :
      BalancedM es → BalancedM (.enterM m :: (es ++ [.base x]))
  | append {a b : List EvM} : BalancedM a → BalancedM b → BalancedM (a ++ b)

theorem balancedM_resolve {hm : List EvM} (h : BalancedM hm) :
    ∀ (st : Store) (es : List Ev), resolveH st hm = some es → Balanced es := by
  induction h with
  | nil => intro st es hr; simp [resolveH] at hr; subst hr; exact Balanced.nil
  | atom e he => intro st es hr; simp [resolveH] at hr; subst hr; exact Balanced.atom e he
  | build m d => intro st es hr; simp [resolveH] at hr; subst hr; exact Balanced.atom .get rfl
  | @wrap d x hx body hb ih =>
    intro st es hr
    simp only [resolveH, resolveH_append] at hr
    cases h0 : resolveH st body with
    | none => simp [h0] at hr
    | some e0 =>
      simp [h0, resolveH] at hr
      subst hr
      exact Balanced.wrap d x hx (ih st e0 h0)
  | @wrapM m x hx body hb ih =>
    intro st es hr
    simp only [resolveH] at hr
    cases hl : st.lookup m with
    | none => simp [hl] at hr
    | some d =>
      simp only [hl, resolveH_append] at hr
      cases h0 : resolveH st body with
      | none => simp [h0] at hr
      | some e0 =>
        simp [h0, resolveH] at hr
        subst hr
        exact Balanced.wrap d x hx (ih st e0 h0)
  | @append a b ha hb iha ihb =>
    intro st es hr
    rw [resolveH_append] at hr
    cases h0 : resolveH st a with
    | none => simp [h0] at hr
    | some ea =>
      cases h1 : resolveH (storeAfter st a) b with
      | none => simp [h0, h1] at hr
      | some eb =>
        simp [h0, h1] at hr
        subst hr
        exact Balanced.append (iha st ea h0) (ihb _ eb h1)

/-- ★ restoration with deferred entry: whenever managers were built (any store `st` at the start, any builds in
between), after a well-nested history the setting in force before it is in force again -/
theorem deferred_entry_restores {hm : List EvM} (h : BalancedM hm) (st : Store) (es : List Ev)
    (hr : resolveH st hm = some es) (c : Ctx) : run c es = some c :=
  balanced_restores (balancedM_resolve h st es hr) c

/-- ★ the value restored is the one in force when the manager is ENTERED (not when it was built): for a manager
`m` built with code `d` at any earlier time, the block `enterM m · H · x` run from context `c` shows `d` inside
and `c.cur` — the value at entry — right after leaving. -/
theorem deferred_entry_observation (m : Nat) (d : Code) (x : Ev) (hx : x.isExit = true) {body : List EvM}
    (h : BalancedM body) (st : Store) (hl : st.lookup m = some d) (es : List Ev)
    (hr : resolveH st (.enterM m :: (body ++ [.base x])) = some es) (c : Ctx) :
    ∃ tr, trace c es = some tr ∧ tr.head?.map (·.code) = some d ∧ tr.getLast?.map (·.code) = some c.cur := by
  simp only [resolveH, hl, resolveH_append] at hr
  cases h0 : resolveH st body with
  | none => simp [h0] at hr
  | some e0 =>
    simp [h0, resolveH] at hr
    subst hr
    exact restored_observation d x hx (balancedM_resolve h st e0 h0) c

/-- building a manager neither reads nor writes the context -/
theorem build_is_observation_only (st : Store) (m : Nat) (d : Code) (c : Ctx) :
    (resolveH st [.build m d]).bind (run c) = some c := by
  simp [resolveH, run, stepCtx]

theorem resolve_map (t : Nat) (st : Store) (hm : List EvM) :
    resolve st (hm.map (fun e => (t, e))) = (resolveH st hm).map (fun es => es.map (fun e => (t, e))) := by
  induction hm generalizing st with
  | nil => simp [resolve, resolveH]
  | cons e es ih =>
    cases e with
    | base e => simp only [List.map_cons, resolve, resolveH, ih]; cases resolveH st es <;> simp
    | build m d =>
      simp only [List.map_cons, resolve, resolveH, ih]; cases resolveH ((m, d) :: st) es <;> simp
    | enterM m =>
      simp only [List.map_cons, resolve, resolveH]
      cases st.lookup m with
      | none => simp
      | some d => simp only [ih]; cases resolveH st es <;> simp

/-- ★ isolation with deferred entry, every schedule: managers may be built by any thread and entered by any other;
each thread still observes exactly its own (resolved) events run alone -/
theorem thread_isolation_deferred (es : List (Nat × EvM)) (w : World) (tr : List (Nat × Obs))
    (h : traceWM w es = some tr) :
    ∃ es', resolve [] es = some es' ∧
      ∀ t, NoSpawnOnto t es' → trace (w t) (proj t es') = some (projObs t tr) := by
  unfold traceWM at h
  cases hr : resolve [] es with
  | none => simp [hr] at h
  | some es' =>
    simp only [hr, Option.bind_some] at h
    exact ⟨es', rfl, fun t hns => thread_isolation es' w tr h t hns⟩

/-- the scenario of pre-built managers: both built under `f`, the inner one entered under `i`; leaving the inner
block gives `i` back (not the `f` in force when it was built) -/
example : ((resolveH [] [.build 0 .i, .build 1 .p, .enterM 0, .enterM 1, .base .get, .base .exit, .base .get,
      .base .raise, .base .get]).bind (trace Ctx.init)).map (fun tr => tr.map (fun o => o.code))
    = some [.f, .f, .i, .p, .p, .i, .i, .f, .f] := by
  decide

example : BalancedM [.build 0 .i, .build 1 .p, .enterM 0, .enterM 1, .base .get, .base .exit, .base .get,
    .base .raise, .base .get] := by
  have h1 : BalancedM [EvM.enterM 1, .base .get, .base .exit] :=
    BalancedM.wrapM 1 .exit rfl (BalancedM.atom .get rfl)
  have h0 := BalancedM.wrapM 0 .raise rfl (BalancedM.append h1 (BalancedM.atom .get rfl))
  have := BalancedM.append (BalancedM.build 0 .i) (BalancedM.append (BalancedM.build 1 .p)
    (BalancedM.append h0 (BalancedM.atom .get rfl)))
  simpa using this

/-- a manager built by thread 0 inside its `o` block and entered by thread 1 -/
example : (traceWM World.init [(0, .base (.enter .o)), (0, .build 7 .p), (0, .base (.spawnThread 1)), (1, .enterM 7),
      (0, .base .exit), (1, .base .exit), (1, .base .get), (0, .base .get)]).map (·.map (fun p => (p.1, p.2.code)))
    = some [(0, .o), (0, .o), (0, .o), (1, .p), (0, .f), (1, .f), (1, .f), (0, .f)] := by
  decide

end Pun.DepCtx
