import Pun.Props.C19
import Pun.Gen.TmcmcGen
namespace Pun.Gen
theorem tmcmcConsts_eq : tmcmcConsts = Pun.Tmcmc.consts := by decide +kernel
end Pun.Gen
