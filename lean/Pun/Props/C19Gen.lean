import Pun.Props.C19
import Pun.Gen.TmcmcGen
/-!
# C19, generated part: the literal constants of `compute_beta_update_evidence` *as the source has them now*

`Pun/Gen/TmcmcGen.lean` is regenerated from `calibration/tmcmc.py` on every run
(`max_beta = 2.0`, `0.95 * prev_ESS`, floor `50`, tolerance `1e-8`, midpoint factor `0.5`,
clamp `>= 1 ⇒ 1`).  Here the hypotheses of the generic theorems of `Pun.Props.C19` are discharged
for those constants, and the constants are proved equal to the ones the executable model uses.
-/
set_option linter.unusedSimpArgs false
set_option linter.unusedVariables false
namespace Pun.Gen
open Pun.Tmcmc

/-- the model the driver executes uses exactly the constants of the source -/
theorem tmcmcConsts_eq : tmcmcConsts = consts := by decide +kernel

/-- the midpoint factor and the clamp of the source are the ones hard-wired in `loopO` / `computeBeta` -/
theorem tmcmc_half_clamp : tmcmcHalf = 1 / 2 ∧ tmcmcClampAt = 1 ∧ tmcmcClampTo = 1 := by decide +kernel

theorem tmcmc_tol_pos : 0 < tmcmcConsts.tol := by decide +kernel

/-- for every exponent `old < 1` the loop body runs (no `UnboundLocalError` inside `while beta < 1`) -/
theorem tmcmc_wide (old : Rat) (h : old < 1) : tmcmcConsts.tol < tmcmcConsts.maxBeta - old := by
  have h1 : tmcmcConsts.tol = 1 / 100000000 := by decide +kernel
  have h2 : tmcmcConsts.maxBeta = 2 := by decide +kernel
  rw [h1, h2]; linarith

/-- 64 units of fuel cover the bracket `[old, 2]` for every `old ≥ 0` (28 halvings reach `1e-8`) -/
theorem tmcmc_fuel (old : Rat) (h : 0 ≤ old) : tmcmcConsts.maxBeta - old ≤ tmcmcConsts.tol * 2 ^ fuel := by
  have h1 : tmcmcConsts.tol = 1 / 100000000 := by decide +kernel
  have h2 : tmcmcConsts.maxBeta = 2 := by decide +kernel
  rw [h1, h2]; norm_num [fuel]; linarith

/-- with the source's constants: inside the stage loop (`old < 1`) the call never hits the unbound
variable, and a returned exponent satisfies `old < β ≤ 1` -/
theorem tmcmc_progress (ess : Rat → Ans) (old prev : Rat) (hold : old < 1) :
    computeBeta tmcmcConsts ess old prev ≠ .raise .Unbound ∧
    ∀ b e cl, computeBeta tmcmcConsts ess old prev = .done b e cl → old < b ∧ b ≤ 1 := by
  constructor
  · intro h
    exact (unbound_iff tmcmcConsts ess old prev).mp h (tmcmc_wide old hold)
  · intro b e cl h
    exact ⟨beta_strictly_increases tmcmcConsts ess old prev b e cl (le_of_lt tmcmc_tol_pos) hold h,
           beta_le_one tmcmcConsts ess old prev b e cl h⟩

/-- with the source's constants and `0 ≤ old`: the fuelled loop is the `while` loop, and the
unclamped result is optimal within `1e-8` for every antitone ESS -/
theorem tmcmc_optimal (ess : Rat → Ans) (E : Rat → Rat) (hE : ∀ b e, ess b = .val e → e = E b)
    (hanti : Antitone E) (old prev b e : Rat) (hold : 0 ≤ old)
    (h : computeBeta tmcmcConsts ess old prev = .done b e false) :
    e = E b ∧ (E b = rN tmcmcConsts prev ∨
      ((∀ x, old < x → x ≤ b - tmcmcConsts.tol → rN tmcmcConsts prev < E x) ∧
       (∀ x, b + tmcmcConsts.tol ≤ x → x < tmcmcConsts.maxBeta → E x < rN tmcmcConsts prev))) :=
  bisect_optimal tmcmcConsts ess E hE hanti old prev b e tmcmc_tol_pos (tmcmc_fuel old hold) h

theorem tmcmc_clamp_justified (ess : Rat → Ans) (E : Rat → Rat) (hE : ∀ b e, ess b = .val e → e = E b)
    (hanti : Antitone E) (old prev b e : Rat) (hold : 0 ≤ old)
    (h : computeBeta tmcmcConsts ess old prev = .done b e true) :
    b = 1 ∧ ∀ x, old < x → x ≤ 1 - tmcmcConsts.tol → rN tmcmcConsts prev ≤ E x :=
  bisect_clamp_justified tmcmcConsts ess E hE hanti old prev b e tmcmc_tol_pos (tmcmc_fuel old hold) h

/-- the target of the source: `rN = max(19/20 · prev, 50)` -/
theorem tmcmc_rN (prev : Rat) : rN tmcmcConsts prev = max (19 / 20 * prev) 50 := by
  have : tmcmcConsts = consts := tmcmcConsts_eq
  rw [this]; rfl

/-- the statement for the executed stage loop with the source's constants -/
theorem tmcmc_run_statement (InS : List Rat → Prop) (priorF likF : List Rat → EV)
    (envs : List StageEnv) (β prev : Rat) (ps : List Particle) (tr : List (Rat × List Particle)) (fin : Bool)
    (hβ : β ≤ 1) (hpop : PopOK InS priorF likF β ps) (hmv : ∀ e ∈ envs, MovesOK InS priorF likF e.moves)
    (h : runLoop tmcmcConsts envs β prev ps = .ok tr fin) :
    List.IsChain StepOK (β :: tr.map (·.1)) ∧
    (∀ e ∈ tr, e.2.length = ps.length ∧ ∀ p ∈ e.2, InS p.x) ∧
    (fin = true → (tr.map (·.1)).getLast? = some 1) :=
  run_statement InS priorF likF tmcmcConsts (le_of_lt tmcmc_tol_pos) envs β prev ps tr fin hβ hpop hmv h

end Pun.Gen
