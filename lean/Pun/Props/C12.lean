import Pun.Lemmas.Iso
/-! # C12 — inclusion isotonicity (theorems under construction) -/
namespace Pun.Iso
end Pun.Iso
