import Pun.Lemmas.Iso
import Pun.Props.C01
/-!
# C12 — inclusion isotonicity: widening an input never narrows an output

All statements are about the functions the model driver executes (`Pun.Arith.binop`, `Pun.PBox.*`,
`Pun.Iso.ITree.eval`, `PTree.eval`, `stacking`, `alphaCut`, `slicing`), for ALL rational operands and
every number of steps.  `X ⊑ X'` is `PSub X X'` (`pbSub` is its executable form, `pbSub_iff`);
for intervals `VSub`.  "Dually, the result for a sub-box is contained in the result for the box" is
the same implication read from right to left.

Intervals (section `Intervals`):
* `ibin_spec`   every defined `l op r` (Interval or number on either side, `+ − × ÷`) is the EXACT image of
                its operands (sound, endpoints attained) — from the C01 theorems;
* `ibin_iso`    hence one operation is inclusion isotone whenever both runs are defined; `ineg_iso`;
* `itree_iso`   ★ a nested expression of ANY depth (repeated variables, constants) is inclusion isotone;
* `ivUnary_iso` endpoint image of an increasing unary map (exp, log, sqrt: parameters).

P-boxes (section `PBoxes`; `Lemmas/Iso.lean` has the rule-level facts `iso_frechetOp`, `iso_perfectOp`,
`iso_oppositeOp`, `iso_independentOp`, `iso_naiveOp`, `sortR_mono`, `condense_mono`, `add_iso`):
* `add_iso`, `sub_iso`        ★ every dependency f, p, o, i;
* `mul_iso_poi`               ★ perfect / opposite / independent, all signs (four-corner rule);
* `mul_iso_f_pos`             Frechet product of non-negative operands;
* `mul_iso_f_signed`          Frechet product for every combination of one-signed operands (non-negative / non-positive,
                              operands touching zero included) by conjugation with the negation;
* `neg_iso`, `numRight_iso`, `numLeft_iso`, `unary_iso`, `env_iso`, `imp_iso`  ★;
* `recip_iso`, `div_iso_poi`, `div_iso_f`, `numLeft_div_iso`  reciprocal, `X.div(Y, d)` under every dependency and
                              `c / X`, for a divisor of one strict sign (under `f` the dividend one-signed as well);
* `ptree_iso_partial`         nested p-box expressions of any depth over those nodes.
Each says: both runs return (the constructor accepts), both results are well formed, and they are nested.

Mixed propagation (section `Mixed`):
* `alphaCut_iso`  ★ the cut index depends on the level only (`iso_slicing` of the design);
* `levelValue_mono` / `stackBound_mono` (in `Lemmas/Iso.lean`) ★ the generalised inverse of the cumulated mass is
  monotone in the focal endpoints (`geninv_antitone`); `stacking_iso`;
* `slicing_iso`   ★ slicing with a fixed number of slices and the direct interval strategy;
* `rowImages_iso`, `imc_iso`  interval Monte Carlo for ANY rows of levels, provided both runs use the same rows (that a
  dependency object draws the same rows on every call is a runtime fact: oracle).

NOT proved (kept as `C12Statement` / `C12DivStatement`, checked by the correspondence and the oracle only): the
Frechet product (and quotient) when an operand STRADDLES zero — the naive ∩ Balch branch — or when the sign class
changes between `X` and `X'` (e.g. `X ≤ 0`, `X'` straddling).  `naiveOp` and `imp` are isotone (`iso_naiveOp`,
`imp_iso`), but `balchprod` is not a composition of isotone pieces: it shifts by `y0 = lo(Y)`, and `Y ↦ Y − lo(Y)` is
not isotone (widening `Y` lowers `y0`, which RAISES the left bound of `Y − y0`), so a proof needs the algebra of
Balch's decomposition, not composition.  Not modelled here: sin/cos/tanh/abs/powers (C05),
vertex and subinterval propagation (C13; they are NOT isotone in general — see the known findings).
-/
set_option linter.unusedSimpArgs false
set_option linter.unusedVariables false
namespace Pun.Iso

section Intervals
open Pun Pun.Arith

/-! ## nested interval expressions -/

/-- exact arithmetic on reals -/
def ap : BinOp → Rat → Rat → Rat
  | .add, x, y => x + y
  | .sub, x, y => x - y
  | .mul, x, y => x * y
  | .div, x, y => x / y

/-- the set an operand stands for -/
def Mem (x : Rat) : Opd → Prop
  | .N c => x = c
  | .I a b => a ≤ x ∧ x ≤ b
  | _ => False

def Valid : Opd → Prop
  | .N _ => True
  | .I a b => a ≤ b
  | _ => False

def isN : Opd → Bool
  | .N _ => true
  | _ => false

/-- containment of values: equal numbers, nested intervals -/
def VSub : Opd → Opd → Prop
  | .N c, .N c' => c = c'
  | .I a b, .I a' b' => a' ≤ a ∧ b ≤ b'
  | _, _ => False

/-- `v` is the exact image of `x × y` under `op`: sound, and its endpoints are attained -/
structure ExactImg (op : BinOp) (x y v : Opd) : Prop where
  valid : Valid v
  kind : isN v = (isN x && isN y)
  sound : ∀ p q, Mem p x → Mem q y → Mem (ap op p q) v
  lo : ∀ a b, v = .I a b → ∃ p q, Mem p x ∧ Mem q y ∧ ap op p q = a
  hi : ∀ a b, v = .I a b → ∃ p q, Mem p x ∧ Mem q y ∧ ap op p q = b
  pt : ∀ c, v = .N c → ∃ p q, Mem p x ∧ Mem q y ∧ ap op p q = c

theorem binop_II_add (a b c d : Rat) (h1 : a ≤ b) (h2 : c ≤ d) :
    binop .add (.I a b) (.I c d) = .ok (.I (a + c) (b + d)) := by
  have : a + c ≤ b + d := by linarith
  simp [binop, opdIV, forward, bzip, bshape, bget, IV.ofI, mkIV, bind, Except.bind, this, pure, Except.pure]

theorem binop_II_sub (a b c d : Rat) (h1 : a ≤ b) (h2 : c ≤ d) :
    binop .sub (.I a b) (.I c d) = .ok (.I (a - d) (b - c)) := by
  have : a - d ≤ b - c := by linarith
  simp [binop, opdIV, forward, bzip, bshape, bget, IV.ofI, mkIV, bind, Except.bind, this, pure, Except.pure]

theorem binop_II_mul (a b c d : Rat) (h1 : a ≤ b) (h2 : c ≤ d) :
    binop .mul (.I a b) (.I c d) =
      .ok (.I (min4 (a*c) (a*d) (b*c) (b*d)) (max4 (a*c) (a*d) (b*c) (b*d))) := by
  have hv : min4 (a*c) (a*d) (b*c) (b*d) ≤ max4 (a*c) (a*d) (b*c) (b*d) := by
    have := mul_hull a b c d a c (le_refl _) h1 (le_refl _) h2
    exact le_trans this.1 this.2
  simp [binop, opdIV, forward, multiply, IV.scalar, bshape, IV.ofI, mulTable_exact a b c d h1 h2, finishTable, mkIV,
    bind, Except.bind, hv, pure, Except.pure]

theorem binop_II_div_zero (a b c d : Rat) (hz : c ≤ 0 ∧ 0 ≤ d) :
    binop .div (.I a b) (.I c d) = .error .ZeroDivision := by
  simp [binop, opdIV, forward, divide, straddles, IV.ofI, hz.1, hz.2, bind, Except.bind]

theorem binop_II_div (a b c d : Rat) (h1 : a ≤ b) (h2 : c ≤ d) (h0 : 0 < c ∨ d < 0) :
    ∃ l h, binop .div (.I a b) (.I c d) = .ok (.I l h) ∧ l ≤ h ∧
      (∀ x y, a ≤ x → x ≤ b → c ≤ y → y ≤ d → l ≤ x / y ∧ x / y ≤ h) ∧
      (∃ x y, a ≤ x ∧ x ≤ b ∧ c ≤ y ∧ y ≤ d ∧ x / y = l) ∧
      (∃ x y, a ≤ x ∧ x ≤ b ∧ c ≤ y ∧ y ≤ d ∧ x / y = h) := by
  obtain ⟨l, h, htab, hs, hl, hh⟩ := divTable_sound a b c d h1 h2 h0
  have hv : l ≤ h := by
    have := hs a c (le_refl _) h1 (le_refl _) h2
    exact le_trans this.1 this.2
  refine ⟨l, h, ?_, hv, hs, hl, hh⟩
  have hst : ¬ (c ≤ 0 ∧ 0 ≤ d) := by
    rintro ⟨p, q⟩; rcases h0 with h | h <;> linarith
  have hst' : (decide (c ≤ 0) && decide (0 ≤ d)) = false := by
    simp only [Bool.and_eq_false_iff, decide_eq_false_iff_not]
    by_cases hc : c ≤ 0
    · right; exact fun hd => hst ⟨hc, hd⟩
    · left; exact hc
  simp [binop, opdIV, forward, divide, straddles, IV.ofI, IV.scalar, bshape, hst', htab, unopt, finishTable, mkIV, hv,
    bind, Except.bind, pure, Except.pure]

/-- Interval with Interval -/
theorem spec_II (op : BinOp) (a b c d : Rat) (h1 : a ≤ b) (h2 : c ≤ d) (v : Opd)
    (h : ibin op (.I a b) (.I c d) = .ok v) : ExactImg op (.I a b) (.I c d) v := by
  have e : ibin op (.I a b) (.I c d) = binop op (.I a b) (.I c d) := rfl
  rw [e] at h
  cases op with
  | add =>
    rw [binop_II_add a b c d h1 h2] at h
    cases h
    exact ⟨by simp [Valid]; linarith, rfl,
      fun p q hp hq => by simp only [Mem, ap] at *; constructor <;> linarith,
      fun x y hxy => by cases hxy; exact ⟨a, c, ⟨le_refl _, h1⟩, ⟨le_refl _, h2⟩, rfl⟩,
      fun x y hxy => by cases hxy; exact ⟨b, d, ⟨h1, le_refl _⟩, ⟨h2, le_refl _⟩, rfl⟩,
      fun c' hc => by cases hc⟩
  | sub =>
    rw [binop_II_sub a b c d h1 h2] at h
    cases h
    exact ⟨by simp [Valid]; linarith, rfl,
      fun p q hp hq => by simp only [Mem, ap] at *; constructor <;> linarith,
      fun x y hxy => by cases hxy; exact ⟨a, d, ⟨le_refl _, h1⟩, ⟨h2, le_refl _⟩, rfl⟩,
      fun x y hxy => by cases hxy; exact ⟨b, c, ⟨h1, le_refl _⟩, ⟨le_refl _, h2⟩, rfl⟩,
      fun c' hc => by cases hc⟩
  | mul =>
    obtain ⟨l, hh, htab, hs, hlo, hhi⟩ := mul_exact_image a b c d h1 h2
    rw [mulTable_exact a b c d h1 h2] at htab
    have e1 : min4 (a*c) (a*d) (b*c) (b*d) = l := congrArg Prod.fst (Option.some.inj htab)
    have e2 : max4 (a*c) (a*d) (b*c) (b*d) = hh := congrArg Prod.snd (Option.some.inj htab)
    rw [binop_II_mul a b c d h1 h2, e1, e2] at h
    cases h
    have hv : l ≤ hh := by have := hs a c (le_refl _) h1 (le_refl _) h2; exact le_trans this.1 this.2
    exact ⟨hv, rfl, fun p q hp hq => hs p q hp.1 hp.2 hq.1 hq.2,
      fun x y hxy => by
        cases hxy; obtain ⟨p, q, k1, k2, k3, k4, k5⟩ := hlo; exact ⟨p, q, ⟨k1, k2⟩, ⟨k3, k4⟩, k5⟩,
      fun x y hxy => by
        cases hxy; obtain ⟨p, q, k1, k2, k3, k4, k5⟩ := hhi; exact ⟨p, q, ⟨k1, k2⟩, ⟨k3, k4⟩, k5⟩,
      fun c' hc => by cases hc⟩
  | div =>
    by_cases hz : c ≤ 0 ∧ 0 ≤ d
    · rw [binop_II_div_zero a b c d hz] at h; cases h
    · have h0 : 0 < c ∨ d < 0 := by
        by_contra hn
        simp only [not_or, not_lt] at hn
        exact hz hn
      obtain ⟨l, hh, e', hv, hs, hlo, hhi⟩ := binop_II_div a b c d h1 h2 h0
      rw [e'] at h
      cases h
      exact ⟨hv, rfl, fun p q hp hq => hs p q hp.1 hp.2 hq.1 hq.2,
        fun x y hxy => by
          cases hxy; obtain ⟨p, q, k1, k2, k3, k4, k5⟩ := hlo; exact ⟨p, q, ⟨k1, k2⟩, ⟨k3, k4⟩, k5⟩,
        fun x y hxy => by
          cases hxy; obtain ⟨p, q, k1, k2, k3, k4, k5⟩ := hhi; exact ⟨p, q, ⟨k1, k2⟩, ⟨k3, k4⟩, k5⟩,
        fun c' hc => by cases hc⟩

theorem exactImg_num (op : BinOp) (x y : Rat) : ExactImg op (.N x) (.N y) (.N (ap op x y)) := by
  refine ⟨trivial, rfl, ?_, ?_, ?_, ?_⟩
  · intro p q hp hq
    simp only [Mem] at *
    subst hp; subst hq; rfl
  · intro a b e; cases e
  · intro a b e; cases e
  · intro c e
    cases e
    exact ⟨x, y, rfl, rfl, rfl⟩

/-- number with number -/
theorem spec_NN (op : BinOp) (x y : Rat) (v : Opd) (h : ibin op (.N x) (.N y) = .ok v) :
    ExactImg op (.N x) (.N y) v := by
  simp only [ibin, numBin] at h
  cases op with
  | add => cases h; exact exactImg_num .add x y
  | sub => cases h; exact exactImg_num .sub x y
  | mul => cases h; exact exactImg_num .mul x y
  | div =>
    simp only at h
    split at h
    · cases h
    · cases h; exact exactImg_num .div x y



theorem binop_IN (op : BinOp) (a b c : Rat) : binop op (.I a b) (.N c) = forward op (IV.ofI a b) (.N c) := by
  simp [binop, opdIV]

theorem binop_NI (op : BinOp) (a b c : Rat) : binop op (.N c) (.I a b) = reflected op (.N c) (IV.ofI a b) := by
  simp [binop, opdIV]

/-- Interval with number -/
theorem spec_IN (op : BinOp) (a b c : Rat) (h1 : a ≤ b) (v : Opd)
    (h : ibin op (.I a b) (.N c) = .ok v) : ExactImg op (.I a b) (.N c) v := by
  have e : ibin op (.I a b) (.N c) = binop op (.I a b) (.N c) := rfl
  rw [e, binop_IN] at h
  cases op with
  | add =>
    have hv : a + c ≤ b + c := by linarith
    have : forward .add (IV.ofI a b) (.N c) = .ok (.I (a + c) (b + c)) := by simp [forward, IV.ofI, mkIV, hv]
    rw [this] at h; cases h
    refine ⟨hv, rfl, ?_, ?_, ?_, ?_⟩
    · intro p q hp hq; simp only [Mem, ap] at *; subst hq; constructor <;> linarith
    · intro x y hxy; cases hxy; exact ⟨a, c, ⟨le_refl _, h1⟩, rfl, rfl⟩
    · intro x y hxy; cases hxy; exact ⟨b, c, ⟨h1, le_refl _⟩, rfl, rfl⟩
    · intro c' hc; cases hc
  | sub =>
    have hv : a - c ≤ b - c := by linarith
    have : forward .sub (IV.ofI a b) (.N c) = .ok (.I (a - c) (b - c)) := by simp [forward, IV.ofI, mkIV, hv]
    rw [this] at h; cases h
    refine ⟨hv, rfl, ?_, ?_, ?_, ?_⟩
    · intro p q hp hq; simp only [Mem, ap] at *; subst hq; constructor <;> linarith
    · intro x y hxy; cases hxy; exact ⟨a, c, ⟨le_refl _, h1⟩, rfl, rfl⟩
    · intro x y hxy; cases hxy; exact ⟨b, c, ⟨h1, le_refl _⟩, rfl, rfl⟩
    · intro c' hc; cases hc
  | mul =>
    obtain ⟨l, hh, e', hs, hends⟩ := mulNum_exact a b c h1
    have : forward .mul (IV.ofI a b) (.N c) = mulNum (IV.ofI a b) c := rfl
    rw [this, e'] at h; cases h
    have hv : l ≤ hh := by have := hs a (le_refl _) h1; exact le_trans this.1 this.2
    refine ⟨hv, rfl, ?_, ?_, ?_, ?_⟩
    · intro p q hp hq; simp only [Mem, ap] at *; subst hq; exact hs p hp.1 hp.2
    · intro x y hxy; cases hxy
      rcases hends with ⟨e1, _⟩ | ⟨e1, _⟩
      · exact ⟨a, c, ⟨le_refl _, h1⟩, rfl, e1.symm⟩
      · exact ⟨b, c, ⟨h1, le_refl _⟩, rfl, e1.symm⟩
    · intro x y hxy; cases hxy
      rcases hends with ⟨_, e2⟩ | ⟨_, e2⟩
      · exact ⟨b, c, ⟨h1, le_refl _⟩, rfl, e2.symm⟩
      · exact ⟨a, c, ⟨le_refl _, h1⟩, rfl, e2.symm⟩
    · intro c' hc; cases hc
  | div =>
    have hd : forward .div (IV.ofI a b) (.N c) = divNum (IV.ofI a b) c := rfl
    rw [hd] at h
    by_cases hc0 : c = 0
    · subst hc0; rw [divNum_zero_raises] at h; cases h
    · obtain ⟨l, hh, e', hs, hends⟩ := divNum_exact a b c h1 hc0
      rw [e'] at h; cases h
      have hv : l ≤ hh := by have := hs a (le_refl _) h1; exact le_trans this.1 this.2
      refine ⟨hv, rfl, ?_, ?_, ?_, ?_⟩
      · intro p q hp hq; simp only [Mem, ap] at *; subst hq; exact hs p hp.1 hp.2
      · intro x y hxy; cases hxy
        rcases hends with ⟨e1, _⟩ | ⟨e1, _⟩
        · exact ⟨a, c, ⟨le_refl _, h1⟩, rfl, e1.symm⟩
        · exact ⟨b, c, ⟨h1, le_refl _⟩, rfl, e1.symm⟩
      · intro x y hxy; cases hxy
        rcases hends with ⟨_, e2⟩ | ⟨_, e2⟩
        · exact ⟨b, c, ⟨h1, le_refl _⟩, rfl, e2.symm⟩
        · exact ⟨a, c, ⟨le_refl _, h1⟩, rfl, e2.symm⟩
      · intro c' hc; cases hc

/-- number with Interval (the reflected operators) -/
theorem spec_NI (op : BinOp) (a b c : Rat) (h1 : a ≤ b) (v : Opd)
    (h : ibin op (.N c) (.I a b) = .ok v) : ExactImg op (.N c) (.I a b) v := by
  have e : ibin op (.N c) (.I a b) = binop op (.N c) (.I a b) := rfl
  rw [e, binop_NI] at h
  cases op with
  | add =>
    have hv : a + c ≤ b + c := by linarith
    have : reflected .add (.N c) (IV.ofI a b) = .ok (.I (a + c) (b + c)) := by simp [reflected, forward, IV.ofI, mkIV, hv]
    rw [this] at h; cases h
    refine ⟨hv, rfl, ?_, ?_, ?_, ?_⟩
    · intro p q hp hq; simp only [Mem, ap] at *; subst hp; constructor <;> linarith
    · intro x y hxy; cases hxy; exact ⟨c, a, rfl, ⟨le_refl _, h1⟩, by simp [ap]; ring⟩
    · intro x y hxy; cases hxy; exact ⟨c, b, rfl, ⟨h1, le_refl _⟩, by simp [ap]; ring⟩
    · intro c' hc; cases hc
  | sub =>
    obtain ⟨e', hs⟩ := rsub_exact a b c h1
    rw [e'] at h; cases h
    have hv : c - b ≤ c - a := by linarith
    refine ⟨hv, rfl, ?_, ?_, ?_, ?_⟩
    · intro p q hp hq; simp only [Mem, ap] at *; subst hp; exact hs q hq.1 hq.2
    · intro x y hxy; cases hxy; exact ⟨c, b, rfl, ⟨h1, le_refl _⟩, rfl⟩
    · intro x y hxy; cases hxy; exact ⟨c, a, rfl, ⟨le_refl _, h1⟩, rfl⟩
    · intro c' hc; cases hc
  | mul =>
    obtain ⟨l, hh, e', hs, hends⟩ := mulNum_exact a b c h1
    have : reflected .mul (.N c) (IV.ofI a b) = mulNum (IV.ofI a b) c := rfl
    rw [this, e'] at h; cases h
    have hv : l ≤ hh := by have := hs a (le_refl _) h1; exact le_trans this.1 this.2
    refine ⟨hv, rfl, ?_, ?_, ?_, ?_⟩
    · intro p q hp hq; simp only [Mem, ap] at *; subst hp; rw [mul_comm]; exact hs q hq.1 hq.2
    · intro x y hxy; cases hxy
      rcases hends with ⟨e1, _⟩ | ⟨e1, _⟩
      · exact ⟨c, a, rfl, ⟨le_refl _, h1⟩, by simp only [ap]; rw [mul_comm]; exact e1.symm⟩
      · exact ⟨c, b, rfl, ⟨h1, le_refl _⟩, by simp only [ap]; rw [mul_comm]; exact e1.symm⟩
    · intro x y hxy; cases hxy
      rcases hends with ⟨_, e2⟩ | ⟨_, e2⟩
      · exact ⟨c, b, rfl, ⟨h1, le_refl _⟩, by simp only [ap]; rw [mul_comm]; exact e2.symm⟩
      · exact ⟨c, a, rfl, ⟨le_refl _, h1⟩, by simp only [ap]; rw [mul_comm]; exact e2.symm⟩
    · intro c' hc; cases hc
  | div =>
    by_cases hz : a ≤ 0 ∧ 0 ≤ b
    · rw [rdiv_straddle_raises a b c hz] at h; cases h
    · have h0 : 0 < a ∨ b < 0 := by
        by_contra hn
        simp only [not_or, not_lt] at hn
        exact hz hn
      obtain ⟨l, hh, e', hs, hends⟩ := rdiv_exact a b c h1 h0
      rw [e'] at h; cases h
      have hv : l ≤ hh := by have := hs a (le_refl _) h1; exact le_trans this.1 this.2
      refine ⟨hv, rfl, ?_, ?_, ?_, ?_⟩
      · intro p q hp hq; simp only [Mem, ap] at *; subst hp; exact hs q hq.1 hq.2
      · intro x y hxy; cases hxy
        rcases hends with ⟨e1, _⟩ | ⟨e1, _⟩
        · exact ⟨c, b, rfl, ⟨h1, le_refl _⟩, e1.symm⟩
        · exact ⟨c, a, rfl, ⟨le_refl _, h1⟩, e1.symm⟩
      · intro x y hxy; cases hxy
        rcases hends with ⟨_, e2⟩ | ⟨_, e2⟩
        · exact ⟨c, a, rfl, ⟨le_refl _, h1⟩, e2.symm⟩
        · exact ⟨c, b, rfl, ⟨h1, le_refl _⟩, e2.symm⟩
      · intro c' hc; cases hc



theorem ibin_spec (op : BinOp) (x y v : Opd) (vx : Valid x) (vy : Valid y) (h : ibin op x y = .ok v) :
    ExactImg op x y v := by
  cases x with
  | N c =>
    cases y with
    | N d => exact spec_NN op c d v h
    | I a b => exact spec_NI op a b c vy v h
    | _ => exact absurd vy (by simp [Valid])
  | I a b =>
    cases y with
    | N d => exact spec_IN op a b d vx v h
    | I c d => exact spec_II op a b c d vx vy v h
    | _ => exact absurd vy (by simp [Valid])
  | _ => exact absurd vx (by simp [Valid])

theorem Mem_of_VSub {x x' : Opd} (h : VSub x x') (p : Rat) (hp : Mem p x) : Mem p x' := by
  cases x with
  | N c =>
    cases x' with
    | N c' => simp only [VSub, Mem] at *; rw [hp, h]
    | _ => simp [VSub] at h
  | I a b =>
    cases x' with
    | I a' b' => simp only [VSub, Mem] at *; exact ⟨le_trans h.1 hp.1, le_trans hp.2 h.2⟩
    | _ => simp [VSub] at h
  | _ => simp [Mem] at hp

theorem isN_of_VSub {x x' : Opd} (h : VSub x x') : isN x = isN x' := by
  cases x <;> cases x' <;> simp [VSub, isN] at *

/-- **one interval operation is inclusion isotone** (when both runs are defined): exact image ⇒ isotone -/
theorem ibin_iso (op : BinOp) {x x' y y' v v' : Opd} (vx : Valid x) (vx' : Valid x') (vy : Valid y) (vy' : Valid y')
    (hx : VSub x x') (hy : VSub y y') (h : ibin op x y = .ok v) (h' : ibin op x' y' = .ok v') :
    VSub v v' ∧ Valid v ∧ Valid v' := by
  have S := ibin_spec op x y v vx vy h
  have S' := ibin_spec op x' y' v' vx' vy' h'
  refine ⟨?_, S.valid, S'.valid⟩
  have hk : isN v = isN v' := by rw [S.kind, S'.kind, isN_of_VSub hx, isN_of_VSub hy]
  cases v with
  | N c =>
    cases v' with
    | N c' =>
      obtain ⟨p, q, hp, hq, e⟩ := S.pt c rfl
      have := S'.sound p q (Mem_of_VSub hx p hp) (Mem_of_VSub hy q hq)
      simp only [Mem] at this
      simp only [VSub]; rw [← e, this]
    | I a' b' => simp [isN] at hk
    | _ => exact absurd S'.valid (by simp [Valid])
  | I a b =>
    cases v' with
    | N c' => simp [isN] at hk
    | I a' b' =>
      obtain ⟨p, q, hp, hq, e⟩ := S.lo a b rfl
      obtain ⟨p2, q2, hp2, hq2, e2⟩ := S.hi a b rfl
      have k1 := S'.sound p q (Mem_of_VSub hx p hp) (Mem_of_VSub hy q hq)
      have k2 := S'.sound p2 q2 (Mem_of_VSub hx p2 hp2) (Mem_of_VSub hy q2 hq2)
      simp only [Mem] at k1 k2
      simp only [VSub]
      rw [e] at k1; rw [e2] at k2
      exact ⟨k1.1, k2.2⟩
    | _ => exact absurd S'.valid (by simp [Valid])
  | _ => exact absurd S.valid (by simp [Valid])

theorem ineg_iso {x x' v v' : Opd} (vx : Valid x) (vx' : Valid x') (hx : VSub x x')
    (h : ineg x = .ok v) (h' : ineg x' = .ok v') : VSub v v' ∧ Valid v ∧ Valid v' := by
  cases x with
  | N c =>
    cases x' with
    | N c' =>
      simp only [ineg] at h h'
      cases h; cases h'
      simp only [VSub] at hx ⊢
      exact ⟨by rw [hx], trivial, trivial⟩
    | _ => simp [VSub] at hx
  | I a b =>
    cases x' with
    | I a' b' =>
      simp only [Valid] at vx vx'
      simp only [VSub] at hx
      have e1 : ineg (.I a b) = .ok (.I (-b) (-a)) := by
        have : -b ≤ -a := by linarith
        simp [ineg, Arith.neg, mkIV, this]
      have e2 : ineg (.I a' b') = .ok (.I (-b') (-a')) := by
        have : -b' ≤ -a' := by linarith
        simp [ineg, Arith.neg, mkIV, this]
      rw [e1] at h; rw [e2] at h'
      cases h; cases h'
      simp only [VSub, Valid]
      exact ⟨⟨by linarith [hx.2], by linarith [hx.1]⟩, by linarith, by linarith⟩
    | _ => simp [VSub] at hx
  | _ => exact absurd vx (by simp [Valid])

/-- boxes: nested side by side, every side valid -/
def BoxSub (box box' : List (Rat × Rat)) : Prop :=
  List.Forall₂ (fun p p' => p'.1 ≤ p.1 ∧ p.2 ≤ p'.2) box box'

def BoxValid (box : List (Rat × Rat)) : Prop := ∀ p ∈ box, p.1 ≤ p.2

theorem bind_ok {α β : Type} {x : Except Err α} {f : α → Except Err β} {b : β}
    (h : (x >>= f) = .ok b) : ∃ a, x = .ok a ∧ f a = .ok b := by
  cases x with
  | error e => simp [bind, Except.bind] at h
  | ok a => exact ⟨a, rfl, by simpa [bind, Except.bind] using h⟩

theorem boxSub_get {box box' : List (Rat × Rat)} (h : BoxSub box box') (i : Nat) (p p' : Rat × Rat)
    (hp : box[i]? = some p) (hp' : box'[i]? = some p') : p'.1 ≤ p.1 ∧ p.2 ≤ p'.2 := by
  induction h generalizing i with
  | nil => simp at hp
  | cons hab _ ih =>
    cases i with
    | zero => simp at hp hp'; subst hp; subst hp'; exact hab
    | succ j => simp at hp hp'; exact ih j hp hp'

/-- **a nested interval expression of any depth is inclusion isotone** (`iso_expr` of the design):
whenever both evaluations return, the value for the sub-box is contained in the value for the box -/
theorem itree_iso (t : ITree) {box box' : List (Rat × Rat)} (hv : BoxValid box) (hv' : BoxValid box')
    (hb : BoxSub box box') : ∀ v v', t.eval box = .ok v → t.eval box' = .ok v' → VSub v v' ∧ Valid v ∧ Valid v' := by
  induction t with
  | var i =>
    intro v v' h h'
    simp only [ITree.eval] at h h'
    cases hp : box[i]? with
    | none => simp [hp] at h
    | some p =>
      cases hp' : box'[i]? with
      | none => simp [hp'] at h'
      | some p' =>
        simp only [hp] at h; simp only [hp'] at h'
        cases h; cases h'
        have := boxSub_get hb i p p' hp hp'
        exact ⟨this, hv p (List.mem_of_getElem? hp), hv' p' (List.mem_of_getElem? hp')⟩
  | num c =>
    intro v v' h h'
    simp only [ITree.eval] at h h'
    cases h; cases h'
    exact ⟨rfl, trivial, trivial⟩
  | bin op a b iha ihb =>
    intro v v' h h'
    simp only [ITree.eval] at h h'
    obtain ⟨x, ex, h2⟩ := bind_ok h
    obtain ⟨y, ey, h3⟩ := bind_ok h2
    obtain ⟨x', ex', h2'⟩ := bind_ok h'
    obtain ⟨y', ey', h3'⟩ := bind_ok h2'
    obtain ⟨sx, vx, vx'⟩ := iha x x' ex ex'
    obtain ⟨sy, vy, vy'⟩ := ihb y y' ey ey'
    exact ibin_iso op vx vx' vy vy' sx sy h3 h3'
  | neg a iha =>
    intro v v' h h'
    simp only [ITree.eval] at h h'
    obtain ⟨x, ex, h2⟩ := bind_ok h
    obtain ⟨x', ex', h2'⟩ := bind_ok h'
    obtain ⟨sx, vx, vx'⟩ := iha x x' ex ex'
    exact ineg_iso vx vx' sx h2 h2'




/-- `Interval(f(lo), f(hi))` for an increasing unary map `φ` (exp, sqrt, log on their domain) -/
theorem ivUnary_iso (φ : Rat → Rat) (hφ : ∀ x y, x ≤ y → φ x ≤ φ y) (a b a' b' : Rat) (hab : a ≤ b)
    (ha : a' ≤ a) (hb : b ≤ b') :
    ivUnary (φ a) (φ b) = .ok (.I (φ a) (φ b)) ∧ ivUnary (φ a') (φ b') = .ok (.I (φ a') (φ b')) ∧
    VSub (.I (φ a) (φ b)) (.I (φ a') (φ b')) := by
  have h1 : φ a ≤ φ b := hφ _ _ hab
  have h2 : φ a' ≤ φ b' := hφ _ _ (le_trans ha (le_trans hab hb))
  exact ⟨by simp [ivUnary, mkIV, h1], by simp [ivUnary, mkIV, h2], hφ _ _ ha, hφ _ _ hb⟩

/-! non-vacuity: `x0*x0 + x1` on a box and a sub-box (repeated variable, sign change inside) -/
def isIvl (r : Except Err Opd) (l h : Rat) : Bool :=
  match r with
  | .ok (.I a b) => decide (a = l) && decide (b = h)
  | _ => false

example : isIvl ((ITree.bin .add (.bin .mul (.var 0) (.var 0)) (.var 1)).eval [(-1, 2), (0, 1)]) (-2) 5 = true := by
  decide +kernel
example : isIvl ((ITree.bin .add (.bin .mul (.var 0) (.var 0)) (.var 1)).eval [(0, 1), (1/2, 1/2)]) (1/2) (3/2) = true := by
  decide +kernel
example : BoxSub [(0, 1), (1/2, 1/2)] [(-1, 2), (0, 1)] :=
  List.Forall₂.cons ⟨by norm_num, by norm_num⟩ (List.Forall₂.cons ⟨by norm_num, by norm_num⟩ List.Forall₂.nil)
example : binop .div (.I 1 2) (.I (-1) 1) = .error .ZeroDivision := binop_II_div_zero 1 2 (-1) 1 (by norm_num)

end Intervals

section PBoxes
open Pun List Pun.PBox

/-- the shape of every public isotonicity statement: both runs return, results well formed and nested -/
def IsoRes (n : Nat) (r r' : Except Err PB) : Prop :=
  ∃ R R', r = .ok R ∧ r' = .ok R' ∧ PSub R R' ∧ WF n R ∧ WF n R'

theorem add_isoRes (n : Nat) (d : Dep) (hd : d ≠ .unknown) {X X' Y Y' : PB}
    (wX : WF n X) (wX' : WF n X') (wY : WF n Y) (wY' : WF n Y') (hX : PSub X X') (hY : PSub Y Y') :
    IsoRes n (add n d X Y) (add n d X' Y') := add_iso n d hd wX wX' wY wY' hX hY

/-- **`X.mul(Y, dependency)` is isotone under perfect, opposite and independent dependence**, all signs -/
theorem mul_iso_poi (n : Nat) (d : Dep) (hd : d = .p ∨ d = .o ∨ d = .i) {X X' Y Y' : PB}
    (wX : WF n X) (wX' : WF n X') (wY : WF n Y) (wY' : WF n Y') (hX : PSub X X') (hY : PSub Y Y') :
    IsoRes n (mul n d X Y) (mul n d X' Y') := by
  rcases hd with h | h | h <;> subst h
  · exact public_of_facts n n (Or.inl rfl) (perfectOp_facts _ n wX wY) (perfectOp_facts _ n wX' wY')
      (iso_perfectOp _ hull_mul wX.valid wY.valid hX hY)
  · exact public_of_facts n n (Or.inl rfl) (oppositeOp_facts _ n wX wY) (oppositeOp_facts _ n wX' wY')
      (iso_oppositeOp _ hull_mul wX.valid wY.valid hX hY)
  · exact public_of_facts n (n * n) (sq_cases n) (independentOp_facts _ n wX wY) (independentOp_facts _ n wX' wY')
      (iso_independentOp _ hull_mul wX.valid wY.valid hX hY)

/-! ### negation, subtraction -/

theorem neg_anti : ∀ x y : Rat, x ≤ y → -y ≤ -x := fun _ _ h => neg_le_neg h

theorem neg_ok (n : Nat) {X : PB} (wX : WF n X) :
    neg n X = .ok ⟨sortR (X.right.reverse.map (- ·)), sortR (X.left.reverse.map (- ·))⟩ ∧
    WF n ⟨sortR (X.right.reverse.map (- ·)), sortR (X.left.reverse.map (- ·))⟩ := by
  have hl : (sortR (X.right.reverse.map (- ·))).length = n := by simp [sortR_length, wX.rlen]
  have hr : (sortR (X.left.reverse.map (- ·))).length = n := by simp [sortR_length, wX.llen]
  have hle : LE (sortR (X.right.reverse.map (- ·))) (sortR (X.left.reverse.map (- ·))) :=
    sortR_mono (LE.map_anti neg_anti wX.valid.reverse)
  exact ⟨mk_ok n true _ _ hl hr (sortR_sorted _) (sortR_sorted _) hle, ⟨hl, hr, sortR_sorted _, sortR_sorted _, hle⟩⟩

/-- **negation is isotone** -/
theorem neg_iso (n : Nat) {X X' : PB} (wX : WF n X) (wX' : WF n X') (hX : PSub X X') :
    IsoRes n (neg n X) (neg n X') := by
  obtain ⟨e, w⟩ := neg_ok n wX
  obtain ⟨e', w'⟩ := neg_ok n wX'
  refine ⟨_, _, e, e', ⟨?_, ?_⟩, w, w'⟩
  · exact sortR_mono (LE.map_anti neg_anti hX.2.reverse)
  · exact sortR_mono (LE.map_anti neg_anti hX.1.reverse)

theorem swapPO_ne_unknown {d : Dep} (hd : d ≠ .unknown) : swapPO d ≠ .unknown := by
  cases d <;> simp [swapPO] at * 

/-- **`X.sub(Y, dependency)` is isotone** under every dependency (`-Y`, then `add` with `p ↔ o` swapped) -/
theorem sub_iso (n : Nat) (d : Dep) (hd : d ≠ .unknown) {X X' Y Y' : PB}
    (wX : WF n X) (wX' : WF n X') (wY : WF n Y) (wY' : WF n Y') (hX : PSub X X') (hY : PSub Y Y') :
    IsoRes n (sub n d X Y) (sub n d X' Y') := by
  obtain ⟨N, N', e, e', hN, wN, wN'⟩ := neg_iso n wY wY' hY
  obtain ⟨R, R', f, f', hR, wR, wR'⟩ := add_iso n (swapPO d) (swapPO_ne_unknown hd) wX wX' wN wN' hX hN
  exact ⟨R, R', by simp [sub, e, f, bind, Except.bind], by simp [sub, e', f', bind, Except.bind], hR, wR, wR'⟩

/-! ### a real number as the other operand -/

/-- `pbox_number_ops` with an increasing map of the bounds -/
theorem numberOp_iso_mono (n : Nat) (f : Rat → Rat → Rat) (c : Rat) (hf : ∀ x y, x ≤ y → f x c ≤ f y c)
    {X X' : PB} (wX : WF n X) (wX' : WF n X') (hX : PSub X X') :
    IsoRes n (numberOp n f X c) (numberOp n f X' c) := by
  have key : ∀ {P : PB}, WF n P → numberOp n f P c = .ok ⟨sortR (P.left.map (f · c)), sortR (P.right.map (f · c))⟩ ∧
      WF n ⟨sortR (P.left.map (f · c)), sortR (P.right.map (f · c))⟩ := by
    intro P wP
    have hl : (sortR (P.left.map (f · c))).length = n := by simp [sortR_length, wP.llen]
    have hr : (sortR (P.right.map (f · c))).length = n := by simp [sortR_length, wP.rlen]
    have hle : LE (sortR (P.left.map (f · c))) (sortR (P.right.map (f · c))) := sortR_mono (LE.map hf wP.valid)
    exact ⟨mk_ok n true _ _ hl hr (sortR_sorted _) (sortR_sorted _) hle, ⟨hl, hr, sortR_sorted _, sortR_sorted _, hle⟩⟩
  obtain ⟨e, w⟩ := key wX
  obtain ⟨e', w'⟩ := key wX'
  exact ⟨_, _, e, e', ⟨sortR_mono (LE.map hf hX.1), sortR_mono (LE.map hf hX.2)⟩, w, w'⟩

/-- `pbox_number_ops` with a decreasing map of the bounds: the constructor switches the two lists -/
theorem numberOp_iso_anti (n : Nat) (f : Rat → Rat → Rat) (c : Rat) (hf : ∀ x y, x ≤ y → f y c ≤ f x c)
    {X X' : PB} (wX : WF n X) (wX' : WF n X') (hX : PSub X X') :
    IsoRes n (numberOp n f X c) (numberOp n f X' c) := by
  have key : ∀ {P : PB}, WF n P → numberOp n f P c = .ok ⟨sortR (P.right.map (f · c)), sortR (P.left.map (f · c))⟩ ∧
      WF n ⟨sortR (P.right.map (f · c)), sortR (P.left.map (f · c))⟩ := by
    intro P wP
    have hl : (sortR (P.left.map (f · c))).length = n := by simp [sortR_length, wP.llen]
    have hr : (sortR (P.right.map (f · c))).length = n := by simp [sortR_length, wP.rlen]
    have hge : LE (sortR (P.right.map (f · c))) (sortR (P.left.map (f · c))) := sortR_mono (LE.map_anti hf wP.valid)
    exact ⟨mk_ok_switched n _ _ hl hr (sortR_sorted _) (sortR_sorted _) hge, ⟨hr, hl, sortR_sorted _, sortR_sorted _, hge⟩⟩
  obtain ⟨e, w⟩ := key wX
  obtain ⟨e', w'⟩ := key wX'
  exact ⟨_, _, e, e', ⟨sortR_mono (LE.map_anti hf hX.2), sortR_mono (LE.map_anti hf hX.1)⟩, w, w'⟩

/-- multiplication by a constant of either sign -/
theorem numberOp_mul_iso (n : Nat) (c : Rat) {X X' : PB} (wX : WF n X) (wX' : WF n X') (hX : PSub X X') :
    IsoRes n (numberOp n (· * ·) X c) (numberOp n (· * ·) X' c) := by
  rcases le_total 0 c with h | h
  · exact numberOp_iso_mono n _ c (fun x y hxy => mul_le_mul_of_nonneg_right hxy h) wX wX' hX
  · exact numberOp_iso_anti n _ c (fun x y hxy => mul_le_mul_of_nonpos_right hxy h) wX wX' hX

/-- **`X op c` is isotone** for `+ − ×` and for `÷` by a non-zero number -/
theorem numRight_iso (n : Nat) (o : Op) (c : Rat) (hc : o = .div → c ≠ 0) {X X' : PB}
    (wX : WF n X) (wX' : WF n X') (hX : PSub X X') : IsoRes n (numRight n o X c) (numRight n o X' c) := by
  cases o with
  | add => exact numberOp_iso_mono n _ c (fun x y h => by simpa using h) wX wX' hX
  | sub => exact numberOp_iso_mono n _ (-c) (fun x y h => by simpa using h) wX wX' hX
  | mul => exact numberOp_mul_iso n c wX wX' hX
  | div =>
    have := hc rfl
    simp only [numRight, this, if_false]
    exact numberOp_mul_iso n (1 / c) wX wX' hX

/-- **`c op X` is isotone** for `+ − ×` -/
theorem numLeft_iso (n : Nat) (o : Op) (c : Rat) (ho : o ≠ .div) {X X' : PB}
    (wX : WF n X) (wX' : WF n X') (hX : PSub X X') : IsoRes n (numLeft n o c X) (numLeft n o c X') := by
  cases o with
  | add => exact numberOp_iso_mono n _ c (fun x y h => by simpa using h) wX wX' hX
  | sub =>
    obtain ⟨N, N', e, e', hN, wN, wN'⟩ := neg_iso n wX wX' hX
    obtain ⟨R, R', f, f', hR, wR, wR'⟩ := numberOp_iso_mono n (· + ·) c (fun x y h => by simpa using h) wN wN' hN
    exact ⟨R, R', by simp [numLeft, e, f, bind, Except.bind], by simp [numLeft, e', f', bind, Except.bind], hR, wR, wR'⟩
  | mul => exact numberOp_mul_iso n c wX wX' hX
  | div => exact absurd rfl ho

/-! ### unary maps, envelope, imposition -/

/-- **`_unary_template(f)` with an increasing `f`** (exp, sqrt, log on their domains) -/
theorem unary_iso (n : Nat) (φ : Rat → Rat) (hφ : ∀ x y, x ≤ y → φ x ≤ φ y) {X X' : PB}
    (wX : WF n X) (wX' : WF n X') (hX : PSub X X') :
    IsoRes n (unaryTemplate n (X.left.map φ) (X.right.map φ)) (unaryTemplate n (X'.left.map φ) (X'.right.map φ)) := by
  have key : ∀ {P : PB}, WF n P → unaryTemplate n (P.left.map φ) (P.right.map φ) = .ok ⟨P.left.map φ, P.right.map φ⟩ ∧
      WF n ⟨P.left.map φ, P.right.map φ⟩ := by
    intro P wP
    have hl : (P.left.map φ).length = n := by simp [wP.llen]
    have hr : (P.right.map φ).length = n := by simp [wP.rlen]
    have sl : (P.left.map φ).Pairwise (· ≤ ·) := by
      rw [List.pairwise_map]; exact wP.lsorted.imp (fun h => hφ _ _ h)
    have sr : (P.right.map φ).Pairwise (· ≤ ·) := by
      rw [List.pairwise_map]; exact wP.rsorted.imp (fun h => hφ _ _ h)
    exact ⟨mk_ok n false _ _ hl hr sl sr (LE.map hφ wP.valid), ⟨hl, hr, sl, sr, LE.map hφ wP.valid⟩⟩
  obtain ⟨e, w⟩ := key wX
  obtain ⟨e', w'⟩ := key wX'
  exact ⟨_, _, e, e', ⟨LE.map hφ hX.1, LE.map hφ hX.2⟩, w, w'⟩

theorem min_mono2 : Mono2 min := fun _ _ _ _ h1 h2 => min_le_min h1 h2
theorem max_mono2 : Mono2 max := fun _ _ _ _ h1 h2 => max_le_max h1 h2

theorem zipWith_sorted (f : Rat → Rat → Rat) (hf : Mono2 f) (a b : List Rat) (sa : a.Pairwise (· ≤ ·))
    (sb : b.Pairwise (· ≤ ·)) : (List.zipWith f a b).Pairwise (· ≤ ·) := by
  rw [List.pairwise_iff_getElem]
  intro i j hi hj hij
  simp only [List.length_zipWith, lt_min_iff] at hi hj
  simp only [List.getElem_zipWith]
  exact hf _ _ _ _ ((List.pairwise_iff_getElem.mp sa) i j hi.1 hj.1 hij) ((List.pairwise_iff_getElem.mp sb) i j hi.2 hj.2 hij)

theorem zipWith_min_le_max {a A b B : List Rat} (h1 : LE a A) (h2 : LE b B) :
    LE (List.zipWith min a b) (List.zipWith max A B) := by
  induction h1 generalizing b B with
  | nil => simp
  | cons hxy _ ih =>
    cases h2 with
    | nil => simp
    | cons hcd htl =>
      simp only [List.zipWith_cons_cons]
      exact List.Forall₂.cons (le_trans (min_le_left _ _) (le_trans hxy (le_max_left _ _))) (ih htl)

/-- **envelope is isotone** -/
theorem env_iso (n : Nat) {X X' Y Y' : PB} (wX : WF n X) (wX' : WF n X') (wY : WF n Y) (wY' : WF n Y')
    (hX : PSub X X') (hY : PSub Y Y') : IsoRes n (env n X Y) (env n X' Y') := by
  have key : ∀ {P Q : PB}, WF n P → WF n Q → env n P Q = .ok ⟨List.zipWith min P.left Q.left, List.zipWith max P.right Q.right⟩ ∧
      WF n ⟨List.zipWith min P.left Q.left, List.zipWith max P.right Q.right⟩ := by
    intro P Q wP wQ
    have hl : (List.zipWith min P.left Q.left).length = n := by simp [wP.llen, wQ.llen]
    have hr : (List.zipWith max P.right Q.right).length = n := by simp [wP.rlen, wQ.rlen]
    have sl := zipWith_sorted min min_mono2 _ _ wP.lsorted wQ.lsorted
    have sr := zipWith_sorted max max_mono2 _ _ wP.rsorted wQ.rsorted
    have hle := zipWith_min_le_max wP.valid wQ.valid
    exact ⟨mk_ok n false _ _ hl hr sl sr hle, ⟨hl, hr, sl, sr, hle⟩⟩
  obtain ⟨e, w⟩ := key wX wY
  obtain ⟨e', w'⟩ := key wX' wY'
  exact ⟨_, _, e, e', ⟨LE.zipWith min_mono2 hX.1 hY.1, LE.zipWith max_mono2 hX.2 hY.2⟩, w, w'⟩

theorem anyGt_false_of_LE {u d : List Rat} (h : LE u d) : (u.zip d).any (fun p => decide (p.1 > p.2)) = false :=
  noCross_of_LE h

theorem LE_of_anyGt_false {u d : List Rat} (hlen : u.length = d.length)
    (h : (u.zip d).any (fun p => decide (p.1 > p.2)) = false) : LE u d := by
  induction u generalizing d with
  | nil => cases d with
    | nil => exact List.Forall₂.nil
    | cons _ _ => simp at hlen
  | cons a s ih =>
    cases d with
    | nil => simp at hlen
    | cons b t =>
      simp only [List.zip_cons_cons, List.any_cons, Bool.or_eq_false_iff, decide_eq_false_iff_not, not_lt] at h
      exact List.Forall₂.cons h.1 (ih (by simpa using hlen) h.2)

/-- **imposition is isotone**: when the narrower operands have an imposition, so do the wider ones, and it contains it -/
theorem imp_iso (n : Nat) {X X' Y Y' : PB} (wX : WF n X) (wX' : WF n X') (wY : WF n Y) (wY' : WF n Y')
    (hX : PSub X X') (hY : PSub Y Y') (R : PB) (h : imp n X Y = .ok R) :
    IsoRes n (imp n X Y) (imp n X' Y') := by
  have key : ∀ {P Q : PB}, WF n P → WF n Q → LE (List.zipWith max P.left Q.left) (List.zipWith min P.right Q.right) →
      imp n P Q = .ok ⟨List.zipWith max P.left Q.left, List.zipWith min P.right Q.right⟩ ∧
      WF n ⟨List.zipWith max P.left Q.left, List.zipWith min P.right Q.right⟩ := by
    intro P Q wP wQ hle
    have hl : (List.zipWith max P.left Q.left).length = n := by simp [wP.llen, wQ.llen]
    have hr : (List.zipWith min P.right Q.right).length = n := by simp [wP.rlen, wQ.rlen]
    have sl := zipWith_sorted max max_mono2 _ _ wP.lsorted wQ.lsorted
    have sr := zipWith_sorted min min_mono2 _ _ wP.rsorted wQ.rsorted
    refine ⟨?_, ⟨hl, hr, sl, sr, hle⟩⟩
    simp only [imp, anyGt_false_of_LE hle, Bool.false_eq_true, if_false]
    exact mk_ok n true _ _ hl hr sl sr hle
  -- the narrower pair is compatible because its imposition exists
  have hc : LE (List.zipWith max X.left Y.left) (List.zipWith min X.right Y.right) := by
    apply LE_of_anyGt_false (by simp [wX.llen, wY.llen, wX.rlen, wY.rlen])
    by_contra hne
    simp only [imp, Bool.not_eq_false] at h hne
    simp [hne] at h
  have hc' : LE (List.zipWith max X'.left Y'.left) (List.zipWith min X'.right Y'.right) :=
    LE.trans (LE.zipWith max_mono2 hX.1 hY.1) (LE.trans hc (LE.zipWith min_mono2 hX.2 hY.2))
  obtain ⟨e, w⟩ := key wX wY hc
  obtain ⟨e', w'⟩ := key wX' wY' hc'
  exact ⟨_, _, e, e', ⟨LE.zipWith max_mono2 hX.1 hY.1, LE.zipWith min_mono2 hX.2 hY.2⟩, w, w'⟩



/-! ### Frechet product of non-negative operands -/

/-- non-negative operand with a positive upper end -/
structure PosBox (P : PB) : Prop where
  lnn : ∀ v ∈ P.left, 0 ≤ v
  rnn : ∀ v ∈ P.right, 0 ≤ v
  hipos : 0 < hi P

theorem straddlesZero_false_of_nonneg {P : PB} (h : ∀ v ∈ P.left, 0 ≤ v) : straddlesZero P = false := by
  unfold straddlesZero
  have : ¬ minL 0 P.left < 0 := by
    by_cases hne : P.left = []
    · simp [hne, minL]
    · exact not_lt.mpr (h _ (minL_spec 0 P.left hne).1)
  simp [this]

theorem frechetMul_pos (n : Nat) {X Y : PB} (pX : PosBox X) (pY : PosBox Y) :
    frechetMul n X Y = mk n false (frechetOp mulPos X Y).1 (frechetOp mulPos X Y).2 := by
  have e : frechetOp (· * ·) X Y = frechetOp mulPos X Y := by
    unfold frechetOp
    rw [frechetLeftRaw_mul_eq X.left Y.left pX.lnn pY.lnn, frechetRightRaw_mul_eq X.right Y.right pX.rnn pY.rnn]
  have hx : ¬ hi X ≤ 0 := not_le.mpr pX.hipos
  have hy : ¬ hi Y ≤ 0 := not_le.mpr pY.hipos
  simp only [frechetMul, straddlesZero_false_of_nonneg pX.lnn, straddlesZero_false_of_nonneg pY.lnn, Bool.or_self,
    Bool.false_eq_true, if_false, frechetMulNoStraddle, hx, hy, decide_false, classicFrechet, e]

/-- **`X.mul(Y, 'f')` is isotone on non-negative operands** (the monotone quadrant; other sign classes go through
negation, the zero-straddling ones through the naive ∩ Balch branch: tie and oracle only) -/
theorem mul_iso_f_pos (n : Nat) {X X' Y Y' : PB}
    (wX : WF n X) (wX' : WF n X') (wY : WF n Y) (wY' : WF n Y') (pX : PosBox X) (pX' : PosBox X') (pY : PosBox Y)
    (pY' : PosBox Y') (hX : PSub X X') (hY : PSub Y Y') : IsoRes n (mul n .f X Y) (mul n .f X' Y') := by
  simp only [mul, frechetMul_pos n pX pY, frechetMul_pos n pX' pY']
  exact public_of_facts n n (Or.inl rfl) (frechetOp_facts _ mulPos_mono2 n wX wY) (frechetOp_facts _ mulPos_mono2 n wX' wY')
    (iso_frechetOp _ mulPos_mono2 hX hY)

/-! ### nested p-box expressions -/

/-- the nodes whose isotonicity is proved for ALL well-formed operands -/
def PTree.Proven : PTree → Prop
  | .var _ => True
  | .bin o d a b => (((o = .add ∨ o = .sub) ∧ d ≠ .unknown) ∨ (o = .mul ∧ (d = .p ∨ d = .o ∨ d = .i))) ∧ a.Proven ∧ b.Proven
  | .numR o a c => (o = .div → c ≠ 0) ∧ a.Proven
  | .numL o _ a => o ≠ .div ∧ a.Proven
  | .neg a => a.Proven
  | .env a b => a.Proven ∧ b.Proven
  | .imp a b => a.Proven ∧ b.Proven

theorem isoRes_pick {n : Nat} {r r' : Except Err PB} (h : IsoRes n r r') (R : PB) (e : r = .ok R) :
    ∃ R', r' = .ok R' ∧ PSub R R' ∧ WF n R ∧ WF n R' := by
  obtain ⟨R0, R0', e0, e0', hs, w, w'⟩ := h
  rw [e0] at e
  cases e
  exact ⟨R0', e0', hs, w, w'⟩

theorem vars_get {n : Nat} {vars vars' : List PB} (h : List.Forall₂ PSub vars vars') (hw : ∀ P ∈ vars, WF n P)
    (hw' : ∀ P ∈ vars', WF n P) (i : Nat) (P : PB) (hp : vars[i]? = some P) :
    ∃ P', vars'[i]? = some P' ∧ PSub P P' ∧ WF n P ∧ WF n P' := by
  induction h generalizing i with
  | nil => simp at hp
  | @cons a a' t t' hab _ ih =>
    cases i with
    | zero =>
      simp at hp; subst hp
      exact ⟨a', by simp, hab, hw a (by simp), hw' a' (by simp)⟩
    | succ j =>
      simp at hp
      obtain ⟨P', e, r⟩ := ih (fun Q hQ => hw Q (by simp [hQ])) (fun Q hQ => hw' Q (by simp [hQ])) j hp
      exact ⟨P', by simpa using e, r⟩

/-- **nested p-box expressions of any depth are isotone** over the proven nodes: `add`/`sub` under every dependency,
`mul` under perfect / opposite / independent dependence, number operands, negation, envelope, imposition.
If the run on the contained operands returns, so does the run on the containing ones, and its result contains it. -/
theorem ptree_iso_partial (n : Nat) (t : PTree) (ht : t.Proven) {vars vars' : List PB}
    (h : List.Forall₂ PSub vars vars') (hw : ∀ P ∈ vars, WF n P) (hw' : ∀ P ∈ vars', WF n P) :
    ∀ R, t.eval n vars = .ok R → ∃ R', t.eval n vars' = .ok R' ∧ PSub R R' ∧ WF n R ∧ WF n R' := by
  induction t with
  | var i =>
    intro R e
    simp only [PTree.eval] at e ⊢
    cases hp : vars[i]? with
    | none => simp [hp] at e
    | some P =>
      simp only [hp] at e
      have hPR : P = R := by injection e
      subst hPR
      obtain ⟨P', e', r⟩ := vars_get h hw hw' i P hp
      exact ⟨P', by simp [e'], r⟩
  | bin o d a b iha ihb =>
    intro R e
    simp only [PTree.eval] at e ⊢
    obtain ⟨x, ex, e2⟩ := bind_ok e
    obtain ⟨y, ey, e3⟩ := bind_ok e2
    obtain ⟨x', ex', sx, wx, wx'⟩ := iha ht.2.1 x ex
    obtain ⟨y', ey', sy, wy, wy'⟩ := ihb ht.2.2 y ey
    have key : IsoRes n (binop n o d x y) (binop n o d x' y') := by
      rcases ht.1 with ⟨ho, hd⟩ | ⟨ho, hd⟩
      · rcases ho with ho | ho <;> subst ho
        · exact add_iso n d hd wx wx' wy wy' sx sy
        · exact sub_iso n d hd wx wx' wy wy' sx sy
      · subst ho; exact mul_iso_poi n d hd wx wx' wy wy' sx sy
    obtain ⟨R', eR', r⟩ := isoRes_pick key R e3
    exact ⟨R', by simp [ex', ey', eR', bind, Except.bind], r⟩
  | numR o a c iha =>
    intro R e
    simp only [PTree.eval] at e ⊢
    obtain ⟨x, ex, e2⟩ := bind_ok e
    obtain ⟨x', ex', sx, wx, wx'⟩ := iha ht.2 x ex
    obtain ⟨R', eR', r⟩ := isoRes_pick (numRight_iso n o c ht.1 wx wx' sx) R e2
    exact ⟨R', by simp [ex', eR', bind, Except.bind], r⟩
  | numL o c a iha =>
    intro R e
    simp only [PTree.eval] at e ⊢
    obtain ⟨x, ex, e2⟩ := bind_ok e
    obtain ⟨x', ex', sx, wx, wx'⟩ := iha ht.2 x ex
    obtain ⟨R', eR', r⟩ := isoRes_pick (numLeft_iso n o c ht.1 wx wx' sx) R e2
    exact ⟨R', by simp [ex', eR', bind, Except.bind], r⟩
  | neg a iha =>
    intro R e
    simp only [PTree.eval] at e ⊢
    obtain ⟨x, ex, e2⟩ := bind_ok e
    obtain ⟨x', ex', sx, wx, wx'⟩ := iha ht x ex
    obtain ⟨R', eR', r⟩ := isoRes_pick (neg_iso n wx wx' sx) R e2
    exact ⟨R', by simp [ex', eR', bind, Except.bind], r⟩
  | env a b iha ihb =>
    intro R e
    simp only [PTree.eval] at e ⊢
    obtain ⟨x, ex, e2⟩ := bind_ok e
    obtain ⟨y, ey, e3⟩ := bind_ok e2
    obtain ⟨x', ex', sx, wx, wx'⟩ := iha ht.1 x ex
    obtain ⟨y', ey', sy, wy, wy'⟩ := ihb ht.2 y ey
    obtain ⟨R', eR', r⟩ := isoRes_pick (env_iso n wx wx' wy wy' sx sy) R e3
    exact ⟨R', by simp [ex', ey', eR', bind, Except.bind], r⟩
  | imp a b iha ihb =>
    intro R e
    simp only [PTree.eval] at e ⊢
    obtain ⟨x, ex, e2⟩ := bind_ok e
    obtain ⟨y, ey, e3⟩ := bind_ok e2
    obtain ⟨x', ex', sx, wx, wx'⟩ := iha ht.1 x ex
    obtain ⟨y', ey', sy, wy, wy'⟩ := ihb ht.2 y ey
    obtain ⟨R', eR', r⟩ := isoRes_pick (imp_iso n wx wx' wy wy' sx sy R e3) R e3
    exact ⟨R', by simp [ex', ey', eR', bind, Except.bind], r⟩


/-! non-vacuity: two-step operands, a strict widening, every dependency computes -/
example : WF 2 ⟨[1, 2], [2, 4]⟩ := ⟨rfl, rfl, by decide, by decide, by decide⟩
example : PSub ⟨[1, 2], [2, 4]⟩ ⟨[0, 2], [3, 5]⟩ := by constructor <;> decide
example : IsoRes 2 (add 2 .f ⟨[1, 2], [2, 4]⟩ ⟨[-1, 0], [0, 3]⟩) (add 2 .f ⟨[0, 2], [3, 5]⟩ ⟨[-1, 0], [0, 3]⟩) :=
  add_iso 2 .f (by simp) ⟨rfl, rfl, by decide, by decide, by decide⟩ ⟨rfl, rfl, by decide, by decide, by decide⟩
    ⟨rfl, rfl, by decide, by decide, by decide⟩ ⟨rfl, rfl, by decide, by decide, by decide⟩
    (by constructor <;> decide) (PSub.refl _)
example : IsoRes 2 (mul 2 .o ⟨[1, 2], [2, 4]⟩ ⟨[-1, 0], [0, 3]⟩) (mul 2 .o ⟨[0, 2], [3, 5]⟩ ⟨[-1, 0], [0, 3]⟩) :=
  mul_iso_poi 2 .o (Or.inr (Or.inl rfl)) ⟨rfl, rfl, by decide, by decide, by decide⟩ ⟨rfl, rfl, by decide, by decide, by decide⟩
    ⟨rfl, rfl, by decide, by decide, by decide⟩ ⟨rfl, rfl, by decide, by decide, by decide⟩
    (by constructor <;> decide) (PSub.refl _)
example : PosBox ⟨[1, 2], [2, 4]⟩ := ⟨by decide, by decide, by decide +kernel⟩
example : (PTree.bin .sub .p (.env (.var 0) (.var 1)) (.numR .mul (.var 1) (-2))).Proven := by
  simp [PTree.Proven]

end PBoxes

section Recip
open Pun List Pun.PBox

/-! ### reciprocal and division (divisor of one sign) -/

theorem LE.map_anti_on {f : Rat → Rat} (p : Rat → Prop) (hf : ∀ x y, p x → p y → x ≤ y → f y ≤ f x)
    {l l' : List Rat} (h : LE l l') (hl : ∀ x ∈ l, p x) (hl' : ∀ x ∈ l', p x) : LE (l'.map f) (l.map f) := by
  induction h with
  | nil => exact List.Forall₂.nil
  | @cons a b s t hab _ ih =>
    exact List.Forall₂.cons (hf _ _ (hl a (by simp)) (hl' b (by simp)) hab)
      (ih (fun x hx => hl x (by simp [hx])) (fun x hx => hl' x (by simp [hx])))

theorem sorted_map_rev_anti {f : Rat → Rat} (p : Rat → Prop) (hf : ∀ x y, p x → p y → x ≤ y → f y ≤ f x)
    (l : List Rat) (s : l.Pairwise (· ≤ ·)) (hl : ∀ x ∈ l, p x) : (l.reverse.map f).Pairwise (· ≤ ·) := by
  rw [List.pairwise_map, List.pairwise_reverse]
  exact (List.Pairwise.and_mem.mp s).imp (fun ⟨ha, hb, hab⟩ => hf _ _ (hl _ ha) (hl _ hb) hab)

theorem hasZero_false_of {l : List Rat} (h : ∀ x ∈ l, x ≠ 0) : hasZero l = false := by
  simp only [hasZero, List.any_eq_false, beq_iff_eq]
  exact fun x hx => h x hx

/-- a sign on which `1/x` is decreasing: all positive, or all negative -/
structure SignP (p : Rat → Prop) : Prop where
  anti : ∀ x y, p x → p y → x ≤ y → 1 / y ≤ 1 / x
  ne0 : ∀ x, p x → x ≠ 0

theorem signP_pos : SignP (fun x => 0 < x) :=
  ⟨fun x y hx hy hxy => one_div_le_one_div_of_le hx hxy, fun x hx => ne_of_gt hx⟩

theorem signP_neg : SignP (fun x => x < 0) :=
  ⟨fun x y hx hy hxy => (one_div_le_one_div_of_neg hy hx).mpr hxy, fun x hx => ne_of_lt hx⟩

theorem recip_ok (n : Nat) (p : Rat → Prop) (sp : SignP p) {X : PB} (wX : WF n X)
    (hl : ∀ v ∈ X.left, p v) (hr : ∀ v ∈ X.right, p v) :
    recip n X = .ok ⟨X.right.reverse.map (1 / ·), X.left.reverse.map (1 / ·)⟩ ∧
    WF n ⟨X.right.reverse.map (1 / ·), X.left.reverse.map (1 / ·)⟩ := by
  have l1 : (X.right.reverse.map (1 / ·)).length = n := by simp [wX.rlen]
  have l2 : (X.left.reverse.map (1 / ·)).length = n := by simp [wX.llen]
  have s1 := sorted_map_rev_anti p sp.anti X.right wX.rsorted hr
  have s2 := sorted_map_rev_anti p sp.anti X.left wX.lsorted hl
  have hle : LE (X.right.reverse.map (1 / ·)) (X.left.reverse.map (1 / ·)) :=
    LE.map_anti_on p sp.anti wX.valid.reverse (fun x hx => hl x (List.mem_reverse.mp hx))
      (fun x hx => hr x (List.mem_reverse.mp hx))
  refine ⟨?_, ⟨l1, l2, s1, s2, hle⟩⟩
  have z1 := hasZero_false_of (fun x hx => sp.ne0 x (hl x hx))
  have z2 := hasZero_false_of (fun x hx => sp.ne0 x (hr x hx))
  have z0 := straddlesZero_false_of_anti X p hl hr sp.anti
  simp only [recip, z0, z1, z2, Bool.or_self, Bool.false_eq_true, if_false]
  exact mk_ok n false _ _ l1 l2 s1 s2 hle

theorem mem_of_LE_left {l l' : List Rat} (h : LE l' l) (p : Rat → Prop) (hp : ∀ x y, p x → x ≤ y → p y)
    (hl' : ∀ v ∈ l', p v) : ∀ v ∈ l, p v := by
  induction h with
  | nil => simp
  | @cons a b s t hab _ ih =>
    intro v hv
    rcases List.mem_cons.mp hv with e | hv'
    · subst e; exact hp a _ (hl' a (by simp)) hab
    · exact ih (fun x hx => hl' x (by simp [hx])) v hv'

/-- **the reciprocal is isotone** for operands of one sign -/
theorem recip_iso (n : Nat) (p : Rat → Prop) (sp : SignP p) {X X' : PB} (wX : WF n X) (wX' : WF n X')
    (hX : PSub X X') (hl : ∀ v ∈ X.left, p v) (hr : ∀ v ∈ X.right, p v) (hl' : ∀ v ∈ X'.left, p v)
    (hr' : ∀ v ∈ X'.right, p v) : IsoRes n (recip n X) (recip n X') := by
  obtain ⟨e, w⟩ := recip_ok n p sp wX hl hr
  obtain ⟨e', w'⟩ := recip_ok n p sp wX' hl' hr'
  refine ⟨_, _, e, e', ⟨?_, ?_⟩, w, w'⟩
  · exact LE.map_anti_on p sp.anti hX.2.reverse (fun x hx => hr x (List.mem_reverse.mp hx))
      (fun x hx => hr' x (List.mem_reverse.mp hx))
  · exact LE.map_anti_on p sp.anti hX.1.reverse (fun x hx => hl' x (List.mem_reverse.mp hx))
      (fun x hx => hl x (List.mem_reverse.mp hx))

/-- **`X.div(Y, dependency)` is isotone under perfect, opposite and independent dependence** for a divisor of one
sign: reciprocal, `1 * (1/Y)`, then the product under the swapped dependency -/
theorem div_iso_poi (n : Nat) (d : Dep) (hd : d = .p ∨ d = .o ∨ d = .i) (p : Rat → Prop) (sp : SignP p)
    {X X' Y Y' : PB} (wX : WF n X) (wX' : WF n X') (wY : WF n Y) (wY' : WF n Y') (hX : PSub X X') (hY : PSub Y Y')
    (hl : ∀ v ∈ Y.left, p v) (hr : ∀ v ∈ Y.right, p v) (hl' : ∀ v ∈ Y'.left, p v) (hr' : ∀ v ∈ Y'.right, p v) :
    IsoRes n (div n d X Y) (div n d X' Y') := by
  obtain ⟨r, r', e, e', hr0, wr, wr'⟩ := recip_iso n p sp wY wY' hY hl hr hl' hr'
  obtain ⟨q, q', f, f', hq, wq, wq'⟩ := numberOp_mul_iso n 1 wr wr' hr0
  have hd' : swapPO d = .p ∨ swapPO d = .o ∨ swapPO d = .i := by
    rcases hd with h | h | h <;> subst h <;> simp [swapPO]
  have key := mul_iso_poi n (swapPO d) hd' wX wX' wq wq' hX hq
  simp only [div, e, e', f, f', bind, Except.bind]
  exact key

example : IsoRes 2 (div 2 .p ⟨[1, 2], [2, 4]⟩ ⟨[1, 2], [3, 3]⟩) (div 2 .p ⟨[0, 2], [3, 5]⟩ ⟨[1/2, 2], [3, 4]⟩) :=
  div_iso_poi 2 .p (Or.inl rfl) _ signP_pos ⟨rfl, rfl, by decide, by decide, by decide⟩
    ⟨rfl, rfl, by decide, by decide, by decide⟩ ⟨rfl, rfl, by decide, by decide, by decide⟩
    ⟨rfl, rfl, by decide +kernel, by decide, by decide +kernel⟩ (by constructor <;> decide) (by constructor <;> decide +kernel)
    (by decide) (by decide) (by decide +kernel) (by decide)

end Recip

section Signed
open Pun List Pun.PBox

/-! ### the Frechet product for every sign class that does not straddle zero (negation conjugation) -/

def NonNegB (P : PB) : Prop := (∀ v ∈ P.left, 0 ≤ v) ∧ (∀ v ∈ P.right, 0 ≤ v)
def NonPosB (P : PB) : Prop := (∀ v ∈ P.left, v ≤ 0) ∧ (∀ v ∈ P.right, v ≤ 0)

theorem hi_nonpos {P : PB} (h : NonPosB P) : hi P ≤ 0 := by
  unfold hi
  cases hr : P.right.getLast? with
  | none =>
    have : P.right = [] := List.getLast?_eq_none_iff.mp hr
    simp [this]
  | some v =>
    have hm : v ∈ P.right := List.mem_of_getLast? hr
    rw [List.getLastD_eq_getLast?, hr]
    exact h.2 v hm

theorem straddlesZero_false_of_nonpos {P : PB} (h : NonPosB P) : straddlesZero P = false := by
  unfold straddlesZero
  have : ¬ maxL 0 P.right > 0 := by
    by_cases hne : P.right = []
    · simp [hne, maxL]
    · exact not_lt.mpr (h.2 _ (maxL_spec 0 P.right hne).1)
  simp [this]

/-- the classic Frechet product of non-negative operands is isotone (no condition on the upper end) -/
theorem classicFrechet_mul_iso (n : Nat) {A A' B B' : PB} (wA : WF n A) (wA' : WF n A') (wB : WF n B) (wB' : WF n B')
    (nA : NonNegB A) (nA' : NonNegB A') (nB : NonNegB B) (nB' : NonNegB B') (hA : PSub A A') (hB : PSub B B') :
    IsoRes n (classicFrechet n (· * ·) A B) (classicFrechet n (· * ·) A' B') := by
  have e : ∀ {P Q : PB}, NonNegB P → NonNegB Q → frechetOp (· * ·) P Q = frechetOp mulPos P Q := by
    intro P Q hP hQ
    unfold frechetOp
    rw [frechetLeftRaw_mul_eq P.left Q.left hP.1 hQ.1, frechetRightRaw_mul_eq P.right Q.right hP.2 hQ.2]
  simp only [classicFrechet, e nA nB, e nA' nB']
  exact public_of_facts n n (Or.inl rfl) (frechetOp_facts _ mulPos_mono2 n wA wB) (frechetOp_facts _ mulPos_mono2 n wA' wB')
    (iso_frechetOp _ mulPos_mono2 hA hB)

theorem neg_nonneg_of_nonpos (n : Nat) {X R : PB} (wX : WF n X) (h : NonPosB X) (e : neg n X = .ok R) : NonNegB R := by
  rw [(neg_ok n wX).1] at e
  cases e
  constructor
  · intro v hv
    have := (sortR_perm _).mem_iff.mp hv
    simp only [List.mem_map, List.mem_reverse] at this
    obtain ⟨a, ha, rfl⟩ := this
    linarith [h.2 a ha]
  · intro v hv
    have := (sortR_perm _).mem_iff.mp hv
    simp only [List.mem_map, List.mem_reverse] at this
    obtain ⟨a, ha, rfl⟩ := this
    linarith [h.1 a ha]

/-- sign class of an operand as the dispatch of `frechet_pbox_mul` sees it -/
inductive Sg (P : PB) : Bool → Prop
  | neg : NonPosB P → Sg P true
  | pos : PosBox P → Sg P false

theorem Sg.hi_iff {P : PB} {b : Bool} (h : Sg P b) : decide (hi P ≤ 0) = b := by
  cases h with
  | neg hn => simp [hi_nonpos hn]
  | pos hp => simp [not_le.mpr hp.hipos]

theorem Sg.noStraddle {P : PB} {b : Bool} (h : Sg P b) : straddlesZero P = false := by
  cases h with
  | neg hn => exact straddlesZero_false_of_nonpos hn
  | pos hp => exact straddlesZero_false_of_nonneg hp.lnn

/-- `|P|` for a one-signed operand: `-P` in the negative class, `P` itself otherwise — isotone, well formed, non-negative -/
theorem absPart_iso (n : Nat) {X X' : PB} {b : Bool} (wX : WF n X) (wX' : WF n X') (sX : Sg X b) (sX' : Sg X' b)
    (hX : PSub X X') :
    ∃ A A', (if hi X ≤ 0 then neg n X else pure X) = Except.ok A ∧ (if hi X' ≤ 0 then neg n X' else pure X') = Except.ok A' ∧
      PSub A A' ∧ WF n A ∧ WF n A' ∧ NonNegB A ∧ NonNegB A' := by
  cases sX with
  | neg hn =>
    cases sX' with
    | neg hn' =>
      obtain ⟨A, A', e, e', hs, w, w'⟩ := neg_iso n wX wX' hX
      refine ⟨A, A', by simp [hi_nonpos hn, e], by simp [hi_nonpos hn', e'], hs, w, w',
        neg_nonneg_of_nonpos n wX hn e, neg_nonneg_of_nonpos n wX' hn' e'⟩
  | pos hp =>
    cases sX' with
    | pos hp' =>
      refine ⟨X, X', by simp [not_le.mpr hp.hipos, pure, Except.pure], by simp [not_le.mpr hp'.hipos, pure, Except.pure],
        hX, wX, wX', ⟨hp.lnn, hp.rnn⟩, ⟨hp'.lnn, hp'.rnn⟩⟩

/-- **`X.mul(Y, 'f')` is isotone for every combination of one-signed operands** (non-negative with a positive upper
end, or non-positive — including operands that touch zero): positive × positive directly, the other three classes by
conjugation with the negation, as `nagative_frechet_pbox` does -/
theorem mul_iso_f_signed (n : Nat) {X X' Y Y' : PB} {bx b_y : Bool}
    (wX : WF n X) (wX' : WF n X') (wY : WF n Y) (wY' : WF n Y')
    (sX : Sg X bx) (sX' : Sg X' bx) (sY : Sg Y b_y) (sY' : Sg Y' b_y) (hX : PSub X X') (hY : PSub Y Y') :
    IsoRes n (mul n .f X Y) (mul n .f X' Y') := by
  obtain ⟨A, A', eA, eA', hA, wA, wA', nA, nA'⟩ := absPart_iso n wX wX' sX sX' hX
  obtain ⟨B, B', eB, eB', hB, wB, wB', nB, nB'⟩ := absPart_iso n wY wY' sY sY' hY
  obtain ⟨R, R', eR, eR', hR, wR, wR'⟩ := classicFrechet_mul_iso n wA wA' wB wB' nA nA' nB nB' hA hB
  have hx := sX.hi_iff; have hx' := sX'.hi_iff; have hy := sY.hi_iff; have hy' := sY'.hi_iff
  by_cases hany : bx = true ∨ b_y = true
  · -- the negative branch on both sides
    have d1 : (decide (hi X ≤ 0) || decide (hi Y ≤ 0)) = true := by rw [hx, hy]; simpa using hany
    have d1' : (decide (hi X' ≤ 0) || decide (hi Y' ≤ 0)) = true := by rw [hx', hy']; simpa using hany
    have key : ∀ {P Q A B R : PB}, straddlesZero P = false → straddlesZero Q = false →
        (decide (hi P ≤ 0) || decide (hi Q ≤ 0)) = true →
        (if hi P ≤ 0 then neg n P else pure P) = Except.ok A → (if hi Q ≤ 0 then neg n Q else pure Q) = Except.ok B →
        classicFrechet n (· * ·) A B = Except.ok R →
        mul n .f P Q = (if (decide (hi P ≤ 0)).xor (decide (hi Q ≤ 0)) then neg n R else pure R) := by
      intro P Q A B R s1 s2 dd e1 e2 e3
      simp only [mul, frechetMul, s1, s2, Bool.or_self, Bool.false_eq_true, if_false, frechetMulNoStraddle]
      rw [if_pos dd]
      unfold negativeFrechet
      rw [if_pos dd]
      by_cases hp : hi P ≤ 0 <;> by_cases hq : hi Q ≤ 0 <;>
        simp only [hp, hq, if_true, if_false, pure, Except.pure] at e1 e2 ⊢ <;>
        simp only [e1, e2, e3, bind, Except.bind, pure, Except.pure] <;>
        (try cases e1) <;> (try cases e2) <;> simp only [e3]
    have m1 := key sX.noStraddle sY.noStraddle d1 eA eB eR
    have m1' := key sX'.noStraddle sY'.noStraddle d1' eA' eB' eR'
    rw [m1, m1', hx, hy, hx', hy']
    by_cases hxor : (bx.xor b_y) = true
    · simp only [hxor, if_true]
      exact neg_iso n wR wR' hR
    · simp only [hxor, Bool.false_eq_true, if_false]
      exact ⟨R, R', rfl, rfl, hR, wR, wR'⟩
  · -- positive × positive
    have hbx : bx = false := by cases bx <;> simp at hany ⊢
    have hby : b_y = false := by cases b_y <;> simp at hany ⊢
    subst hbx; subst hby
    cases sX with
    | pos pX =>
    cases sX' with
    | pos pX' =>
    cases sY with
    | pos pY =>
    cases sY' with
    | pos pY' => exact mul_iso_f_pos n wX wX' wY wY' pX pX' pY pY' hX hY

end Signed
section DivF
open Pun List Pun.PBox

/-! ### `c / X` and division under Frechet, divisor of one sign -/

/-- **`c / X` is isotone** for an operand of one sign (reciprocal, then the product with the number) -/
theorem numLeft_div_iso (n : Nat) (c : Rat) (p : Rat → Prop) (sp : SignP p) {X X' : PB} (wX : WF n X) (wX' : WF n X')
    (hX : PSub X X') (hl : ∀ v ∈ X.left, p v) (hr : ∀ v ∈ X.right, p v) (hl' : ∀ v ∈ X'.left, p v)
    (hr' : ∀ v ∈ X'.right, p v) : IsoRes n (numLeft n .div c X) (numLeft n .div c X') := by
  obtain ⟨r, r', e, e', hr0, wr, wr'⟩ := recip_iso n p sp wX wX' hX hl hr hl' hr'
  obtain ⟨q, q', f, f', hq, wq, wq'⟩ := numberOp_mul_iso n c wr wr' hr0
  exact ⟨q, q', by simp [numLeft, e, f, bind, Except.bind], by simp [numLeft, e', f', bind, Except.bind], hq, wq, wq'⟩

theorem numberOp_one_ok (n : Nat) {P : PB} (wP : WF n P) :
    numberOp n (· * ·) P 1 = .ok ⟨sortR (P.left.map (· * 1)), sortR (P.right.map (· * 1))⟩ := by
  have hf : ∀ x y : Rat, x ≤ y → x * 1 ≤ y * 1 := fun x y h => by simpa using h
  have hl : (sortR (P.left.map (· * 1))).length = n := by simp [sortR_length, wP.llen]
  have hr : (sortR (P.right.map (· * 1))).length = n := by simp [sortR_length, wP.rlen]
  have hle : LE (sortR (P.left.map (· * 1))) (sortR (P.right.map (· * 1))) := sortR_mono (LE.map hf wP.valid)
  exact mk_ok n true _ _ hl hr (sortR_sorted _) (sortR_sorted _) hle

/-- the sign of `1 * (1/Y)` is the sign of `Y` -/
theorem recip_one_sign (n : Nat) (hn : 0 < n) (p : Rat → Prop) (sp : SignP p) (b : Bool)
    (hb : (b = false ∧ ∀ x, p x ↔ 0 < x) ∨ (b = true ∧ ∀ x, p x ↔ x < 0))
    {Y r q : PB} (wY : WF n Y) (hl : ∀ v ∈ Y.left, p v) (hr : ∀ v ∈ Y.right, p v)
    (e : recip n Y = .ok r) (wr : WF n r) (f : numberOp n (· * ·) r 1 = .ok q) : Sg q b := by
  rw [(recip_ok n p sp wY hl hr).1] at e
  cases e
  rw [numberOp_one_ok n wr] at f
  cases f
  have memL : ∀ v ∈ sortR ((Y.right.reverse.map (1 / ·)).map (· * 1)), ∃ a ∈ Y.right, v = 1 / a := by
    intro v hv
    have := (sortR_perm _).mem_iff.mp hv
    simp only [List.mem_map, List.mem_reverse] at this
    obtain ⟨w, ⟨a, ha, rfl⟩, rfl⟩ := this
    exact ⟨a, ha, by ring⟩
  have memR : ∀ v ∈ sortR ((Y.left.reverse.map (1 / ·)).map (· * 1)), ∃ a ∈ Y.left, v = 1 / a := by
    intro v hv
    have := (sortR_perm _).mem_iff.mp hv
    simp only [List.mem_map, List.mem_reverse] at this
    obtain ⟨w, ⟨a, ha, rfl⟩, rfl⟩ := this
    exact ⟨a, ha, by ring⟩
  rcases hb with ⟨hb, hp⟩ | ⟨hb, hp⟩ <;> subst hb
  · have posL : ∀ v ∈ sortR ((Y.right.reverse.map (1 / ·)).map (· * 1)), 0 < v := by
      intro v hv; obtain ⟨a, ha, rfl⟩ := memL v hv; exact one_div_pos.mpr ((hp a).mp (hr a ha))
    have posR : ∀ v ∈ sortR ((Y.left.reverse.map (1 / ·)).map (· * 1)), 0 < v := by
      intro v hv; obtain ⟨a, ha, rfl⟩ := memR v hv; exact one_div_pos.mpr ((hp a).mp (hl a ha))
    refine Sg.pos ⟨fun v hv => le_of_lt (posL v hv), fun v hv => le_of_lt (posR v hv), ?_⟩
    unfold hi
    simp only
    have hne : sortR ((Y.left.reverse.map (1 / ·)).map (· * 1)) ≠ [] := by
      intro h0
      have : (sortR ((Y.left.reverse.map (1 / ·)).map (· * 1))).length = n := by simp [sortR_length, wY.llen]
      rw [h0] at this; simp at this; omega
    rw [List.getLastD_eq_getLast?, List.getLast?_eq_some_getLast hne]
    exact posR _ (List.getLast_mem hne)
  · refine Sg.neg ⟨fun v hv => ?_, fun v hv => ?_⟩
    · obtain ⟨a, ha, rfl⟩ := memL v hv; exact le_of_lt (one_div_neg.mpr ((hp a).mp (hr a ha)))
    · obtain ⟨a, ha, rfl⟩ := memR v hv; exact le_of_lt (one_div_neg.mpr ((hp a).mp (hl a ha)))

/-- **`X.div(Y, 'f')` is isotone** for a one-signed dividend class and a divisor of one strict sign:
reciprocal, `1 * (1/Y)`, then the Frechet product (`p ↔ o` swap leaves `f` alone) -/
theorem div_iso_f (n : Nat) (hn : 0 < n) (p : Rat → Prop) (sp : SignP p) (b : Bool)
    (hb : (b = false ∧ ∀ x, p x ↔ 0 < x) ∨ (b = true ∧ ∀ x, p x ↔ x < 0)) {bx : Bool}
    {X X' Y Y' : PB} (wX : WF n X) (wX' : WF n X') (wY : WF n Y) (wY' : WF n Y') (sX : Sg X bx) (sX' : Sg X' bx)
    (hX : PSub X X') (hY : PSub Y Y')
    (hl : ∀ v ∈ Y.left, p v) (hr : ∀ v ∈ Y.right, p v) (hl' : ∀ v ∈ Y'.left, p v) (hr' : ∀ v ∈ Y'.right, p v) :
    IsoRes n (div n .f X Y) (div n .f X' Y') := by
  obtain ⟨r, r', e, e', hr0, wr, wr'⟩ := recip_iso n p sp wY wY' hY hl hr hl' hr'
  obtain ⟨q, q', f, f', hq, wq, wq'⟩ := numberOp_mul_iso n 1 wr wr' hr0
  have sq := recip_one_sign n hn p sp b hb wY hl hr e wr f
  have sq' := recip_one_sign n hn p sp b hb wY' hl' hr' e' wr' f'
  have key := mul_iso_f_signed n wX wX' wq wq' sX sX' sq sq' hX hq
  simp only [div, e, e', f, f', bind, Except.bind, swapPO]
  exact key

end DivF

section SignedExamples
open Pun List Pun.PBox
/-! non-vacuity: a strictly negative operand widened until it touches zero (`hi = 0`), times a positive one -/
example : Sg ⟨[-2, -2], [-1, -1/2]⟩ true := Sg.neg ⟨by decide +kernel, by decide +kernel⟩
example : Sg ⟨[-2, -2], [-1, 0]⟩ true := Sg.neg ⟨by decide +kernel, by decide +kernel⟩
example : Sg ⟨[1, 2], [2, 3]⟩ false := Sg.pos ⟨by decide, by decide, by decide +kernel⟩
example : IsoRes 2 (mul 2 .f ⟨[1, 2], [2, 3]⟩ ⟨[-2, -2], [-1, -1/2]⟩) (mul 2 .f ⟨[1, 2], [2, 3]⟩ ⟨[-2, -2], [-1, 0]⟩) :=
  mul_iso_f_signed 2 ⟨rfl, rfl, by decide, by decide, by decide⟩ ⟨rfl, rfl, by decide, by decide, by decide⟩
    ⟨rfl, rfl, by decide, by decide +kernel, by decide +kernel⟩ ⟨rfl, rfl, by decide, by decide, by decide⟩
    (Sg.pos ⟨by decide, by decide, by decide +kernel⟩) (Sg.pos ⟨by decide, by decide, by decide +kernel⟩)
    (Sg.neg ⟨by decide +kernel, by decide +kernel⟩) (Sg.neg ⟨by decide +kernel, by decide +kernel⟩)
    (PSub.refl _) (by constructor <;> decide +kernel)
example : IsoRes 2 (numLeft 2 .div 3 ⟨[1, 2], [2, 4]⟩) (numLeft 2 .div 3 ⟨[1/2, 2], [3, 5]⟩) :=
  numLeft_div_iso 2 3 _ signP_pos ⟨rfl, rfl, by decide, by decide, by decide⟩
    ⟨rfl, rfl, by decide +kernel, by decide, by decide +kernel⟩ (by constructor <;> decide +kernel)
    (by decide) (by decide) (by decide +kernel) (by decide)
end SignedExamples

section Mixed
open Pun Pun.PBox

/-! ## alpha-cuts, stacking, slicing -/

theorem mapM_forall₂ {α β : Type} (f f' : α → Except Err β) (S : α → α → Prop) (R : β → β → Prop)
    {l l' : List α} (hl : List.Forall₂ S l l')
    (h : ∀ a a', S a a' → ∀ b b', f a = .ok b → f' a' = .ok b' → R b b') :
    ∀ bs bs', l.mapM f = .ok bs → l'.mapM f' = .ok bs' → List.Forall₂ R bs bs' := by
  induction hl with
  | nil =>
    intro bs bs' e e'
    simp only [List.mapM_nil, pure, Except.pure] at e e'
    cases e; cases e'; exact List.Forall₂.nil
  | @cons a a' t t' hS _ ih =>
    intro bs bs' e e'
    rw [List.mapM_cons] at e e'
    obtain ⟨b, eb, e2⟩ := bind_ok e
    obtain ⟨r, er, e3⟩ := bind_ok e2
    obtain ⟨b', eb', e2'⟩ := bind_ok e'
    obtain ⟨r', er', e3'⟩ := bind_ok e2'
    simp only [pure, Except.pure] at e3 e3'
    cases e3; cases e3'
    exact List.Forall₂.cons (h a a' hS b b' eb eb') (ih r r' er er')

/-- **the cut index depends on the level and the grid only**; the cut of a wider p-box at the same level is wider -/
theorem alphaCut_iso (pv : List Rat) (a : Rat) {P P' : PB} (hP : PSub P P') (c c' : Rat × Rat)
    (e : alphaCut pv P a = .ok c) (e' : alphaCut pv P' a = .ok c') :
    (c'.1 ≤ c.1 ∧ c.2 ≤ c'.2) ∧ c.1 ≤ c.2 ∧ c'.1 ≤ c'.2 := by
  unfold alphaCut at e e'
  simp only at e e'
  cases hl : P.left[nearestIdx pv a]? with
  | none => simp [hl] at e
  | some l =>
  cases hr : P.right[nearestIdx pv a]? with
  | none => simp [hl, hr] at e
  | some r =>
  cases hl' : P'.left[nearestIdx pv a]? with
  | none => simp [hl'] at e'
  | some l' =>
  cases hr' : P'.right[nearestIdx pv a]? with
  | none => simp [hl', hr'] at e'
  | some r' =>
    simp only [hl, hr] at e
    simp only [hl', hr'] at e'
    split at e
    · rename_i hv
      split at e'
      · rename_i hv'
        cases e; cases e'
        obtain ⟨i1, h1⟩ := List.getElem?_eq_some_iff.mp hl
        obtain ⟨i2, h2⟩ := List.getElem?_eq_some_iff.mp hr
        obtain ⟨i3, h3⟩ := List.getElem?_eq_some_iff.mp hl'
        obtain ⟨i4, h4⟩ := List.getElem?_eq_some_iff.mp hr'
        have k1 := hP.1.getElem _ i3 i1
        have k2 := hP.2.getElem _ i2 i4
        rw [h1, h3] at k1; rw [h2, h4] at k2
        exact ⟨⟨k1, k2⟩, hv, hv'⟩
      · cases e'
    · cases e

theorem zip_forall₂ {vars vars' : List PB} (h : List.Forall₂ PSub vars vars') (row : List Rat) :
    List.Forall₂ (fun (x x' : PB × Rat) => PSub x.1 x'.1 ∧ x.2 = x'.2) (vars.zip row) (vars'.zip row) := by
  induction h generalizing row with
  | nil => simp
  | cons hab _ ih =>
    cases row with
    | nil => simp
    | cons a r => simp only [List.zip_cons_cons]; exact List.Forall₂.cons ⟨hab, rfl⟩ (ih r)

theorem forall₂_and_valid {box box' : List (Rat × Rat)}
    (h : List.Forall₂ (fun c c' => (c'.1 ≤ c.1 ∧ c.2 ≤ c'.2) ∧ c.1 ≤ c.2 ∧ c'.1 ≤ c'.2) box box') :
    BoxSub box box' ∧ BoxValid box ∧ BoxValid box' := by
  induction h with
  | nil => exact ⟨List.Forall₂.nil, fun _ h => by simp at h, fun _ h => by simp at h⟩
  | @cons c c' t t' hc _ ih =>
    obtain ⟨i1, i2, i3⟩ := ih
    refine ⟨List.Forall₂.cons hc.1 i1, ?_, ?_⟩
    · intro p hp
      rcases List.mem_cons.mp hp with e | hp'
      · subst e; exact hc.2.1
      · exact i2 p hp'
    · intro p hp
      rcases List.mem_cons.mp hp with e | hp'
      · subst e; exact hc.2.2
      · exact i3 p hp'

theorem cutBox_iso (pv : List Rat) {vars vars' : List PB} (h : List.Forall₂ PSub vars vars') (row : List Rat)
    (box box' : List (Rat × Rat)) (e : cutBox pv vars row = .ok box) (e' : cutBox pv vars' row = .ok box') :
    BoxSub box box' ∧ BoxValid box ∧ BoxValid box' := by
  unfold cutBox at e e'
  apply forall₂_and_valid
  refine mapM_forall₂ _ _ _ _ (zip_forall₂ h row) ?_ box box' e e'
  intro x x' hx c c' hc hc'
  rw [← hx.2] at hc'
  exact alphaCut_iso pv x.2 hx.1 c c' hc hc'

theorem asIvl_iso {v v' : Arith.Opd} (h : VSub v v') (hv : Valid v) (hv' : Valid v') (c c' : Rat × Rat)
    (e : asIvl v = .ok c) (e' : asIvl v' = .ok c') : (c'.1 ≤ c.1 ∧ c.2 ≤ c'.2) ∧ c.1 ≤ c.2 ∧ c'.1 ≤ c'.2 := by
  cases v with
  | N x =>
    cases v' with
    | N x' =>
      simp only [asIvl] at e e'; cases e; cases e'
      simp only [VSub] at h; subst h
      exact ⟨⟨le_refl _, le_refl _⟩, le_refl _, le_refl _⟩
    | _ => simp [VSub] at h
  | I a b =>
    cases v' with
    | I a' b' =>
      simp only [asIvl] at e e'; cases e; cases e'
      exact ⟨h, hv, hv'⟩
    | _ => simp [VSub] at h
  | _ => exact absurd hv (by simp [Valid])

theorem forall₂_eq_self {α : Type} (l : List α) : List.Forall₂ (· = ·) l l := List.forall₂_refl l

/-- the focal intervals handed to `stacking` are nested, row by row — for ANY list of level rows, as long as it is
the same list in both runs -/
theorem rowImages_iso (pv : List Rat) (rows : List (List Rat)) (t : ITree) {vars vars' : List PB}
    (h : List.Forall₂ PSub vars vars') (im im' : List (Rat × Rat))
    (e : rowImages pv rows t vars = .ok im) (e' : rowImages pv rows t vars' = .ok im') :
    List.Forall₂ (fun c c' => (c'.1 ≤ c.1 ∧ c.2 ≤ c'.2) ∧ c.1 ≤ c.2 ∧ c'.1 ≤ c'.2) im im' := by
  unfold rowImages at e e'
  refine mapM_forall₂ _ _ (· = ·) _ (forall₂_eq_self _) ?_ im im' e e'
  intro row row' hrow c c' hc hc'
  subst hrow
  obtain ⟨box, eb, h2⟩ := bind_ok hc
  obtain ⟨v, ev, h3⟩ := bind_ok h2
  obtain ⟨box', eb', h2'⟩ := bind_ok hc'
  obtain ⟨v', ev', h3'⟩ := bind_ok h2'
  obtain ⟨bs, bv, bv'⟩ := cutBox_iso pv h row box box' eb eb'
  obtain ⟨sv, vv, vv'⟩ := itree_iso t bv bv' bs v v' ev ev'
  exact asIvl_iso sv vv vv' c c' h3 h3'

theorem sliceImages_iso (pv levels : List Rat) (t : ITree) {vars vars' : List PB} (h : List.Forall₂ PSub vars vars')
    (im im' : List (Rat × Rat)) (e : sliceImages pv levels t vars = .ok im) (e' : sliceImages pv levels t vars' = .ok im') :
    List.Forall₂ (fun c c' => (c'.1 ≤ c.1 ∧ c.2 ≤ c'.2) ∧ c.1 ≤ c.2 ∧ c'.1 ≤ c'.2) im im' := by
  unfold sliceImages at e e'
  rw [← h.length_eq] at e'
  exact rowImages_iso pv _ t h im im' e e'

theorem split_images {im im' : List (Rat × Rat)}
    (h : List.Forall₂ (fun c c' => (c'.1 ≤ c.1 ∧ c.2 ≤ c'.2) ∧ c.1 ≤ c.2 ∧ c'.1 ≤ c'.2) im im') :
    LE (im'.map Prod.fst) (im.map Prod.fst) ∧ LE (im.map Prod.snd) (im'.map Prod.snd) ∧
    LE (im.map Prod.fst) (im.map Prod.snd) ∧ LE (im'.map Prod.fst) (im'.map Prod.snd) := by
  induction h with
  | nil => simp
  | cons hc _ ih =>
    obtain ⟨i1, i2, i3, i4⟩ := ih
    simp only [List.map_cons]
    exact ⟨List.Forall₂.cons hc.1.1 i1, List.Forall₂.cons hc.1.2 i2, List.Forall₂.cons hc.2.1 i3, List.Forall₂.cons hc.2.2 i4⟩

/-- **stacking is isotone**: same weights `≥ 0`, grid levels `> 0`; wider focal intervals give a wider p-box -/
theorem stacking_iso (g lo hi lo' hi' wts : List Rat) (hw : ∀ w ∈ wts, 0 ≤ w) (hg : ∀ p ∈ g, 0 < p)
    (hl : LE lo' lo) (hh : LE hi hi') (hv : LE lo hi) (hv' : LE lo' hi') (R R' : PB)
    (e : stacking g lo hi wts = .ok R) (e' : stacking g lo' hi' wts = .ok R') : PSub R R' := by
  have key : ∀ {a b : List Rat} {Q : PB}, LE a b → stacking g a b wts = .ok Q →
      Q = ⟨stackBound g a wts, stackBound g b wts⟩ := by
    intro a b Q hab hq
    have hle := stackBound_mono (g := g) hab hw hg
    unfold stacking at hq
    split at hq
    · cases hq
    · split at hq
      · cases hq
      · split at hq
        · cases hq
        · split at hq
          · cases hq
          · simp only at hq
            split at hq
            · rename_i hge
              have := allGe_eq_of_LE hle hge
              cases hq
              simp only [PB.mk.injEq]
              exact ⟨this.symm, this⟩
            · cases hq; rfl
  rw [key hv e, key hv' e']
  exact ⟨stackBound_mono hl hw hg, stackBound_mono hh hw hg⟩

/-- **mixed propagation (`slicing`, direct interval strategy) with a fixed number of slices is isotone**:
the level grid does not depend on the operands, every cut of a wider p-box is wider, the response
expression is inclusion isotone, and stacking is monotone in the focal intervals -/
theorem slicing_iso (pv levels : List Rat) (t : ITree) (w : Rat) (hw : 0 ≤ w) (hg : ∀ p ∈ pv, 0 < p)
    {vars vars' : List PB} (h : List.Forall₂ PSub vars vars') (R R' : PB)
    (e : slicing pv levels t vars w = .ok R) (e' : slicing pv levels t vars' w = .ok R') : PSub R R' := by
  unfold slicing at e e'
  obtain ⟨im, ei, h2⟩ := bind_ok e
  obtain ⟨im', ei', h2'⟩ := bind_ok e'
  have hf := sliceImages_iso pv levels t h im im' ei ei'
  obtain ⟨s1, s2, s3, s4⟩ := split_images hf
  have hlen : im'.length = im.length := hf.length_eq.symm
  rw [hlen] at h2'
  exact stacking_iso pv _ _ _ _ _ (fun x hx => by rw [List.eq_of_mem_replicate hx]; exact hw) hg s1 s2 s3 s4 R R' h2 h2'


/-! non-vacuity: three focal intervals with weights 1/4, 1/4, 1/2 on the grid {1/4, 1/2, 3/4, 1}, then widened -/
example : LE (stackBound [1/4, 1/2, 3/4, 1] [0, 3, 1] [1/4, 1/4, 1/2]) (stackBound [1/4, 1/2, 3/4, 1] [1, 3, 2] [1/4, 1/4, 1/2]) :=
  stackBound_mono (by decide +kernel) (by decide +kernel) (by decide +kernel)
example : alphaCut [1/10, 1/2, 9/10] ⟨[1, 2, 3], [2, 3, 4]⟩ (3/5) = .ok (2, 3) := by decide +kernel
example : nearestIdx [1/10, 1/2, 9/10] (3/10) = 0 := by decide +kernel   -- a tie: `argmin` keeps the first

/-- **interval Monte Carlo with the same level rows in both runs is isotone** (the rows are what the dependency
object draws: `u_sample(n_sam, random_state)`; reproducibility of that draw is a runtime fact checked by the oracle) -/
theorem imc_iso (pv : List Rat) (rows : List (List Rat)) (t : ITree) (w : Rat) (hw : 0 ≤ w) (hg : ∀ p ∈ pv, 0 < p)
    {vars vars' : List PB} (h : List.Forall₂ PSub vars vars') (R R' : PB)
    (e : imc pv rows t vars w = .ok R) (e' : imc pv rows t vars' w = .ok R') : PSub R R' := by
  unfold imc at e e'
  obtain ⟨im, ei, h2⟩ := bind_ok e
  obtain ⟨im', ei', h2'⟩ := bind_ok e'
  have hf := rowImages_iso pv rows t h im im' ei ei'
  obtain ⟨s1, s2, s3, s4⟩ := split_images hf
  have hlen : im'.length = im.length := hf.length_eq.symm
  rw [hlen] at h2'
  exact stacking_iso pv _ _ _ _ _ (fun x hx => by rw [List.eq_of_mem_replicate hx]; exact hw) hg s1 s2 s3 s4 R R' h2 h2'

end Mixed

/-! ## the full statement and what is missing -/

section Statement
open Pun Pun.PBox

/-- division-free nested p-box expressions (a number divisor must be non-zero) -/
def PTree.NoDiv : PTree → Prop
  | .var _ => True
  | .bin o d a b => o ≠ .div ∧ d ≠ .unknown ∧ a.NoDiv ∧ b.NoDiv
  | .numR o a c => (o = .div → c ≠ 0) ∧ a.NoDiv
  | .numL o _ a => o ≠ .div ∧ a.NoDiv
  | .neg a => a.NoDiv
  | .env a b => a.NoDiv ∧ b.NoDiv
  | .imp a b => a.NoDiv ∧ b.NoDiv

/-- **C12 for p-box expressions at full strength** (division apart): every nested expression, every dependency
including the Frechet product of operands of any sign.  `ptree_iso_partial` proves it for the trees whose
products are under perfect / opposite / independent dependence (`PTree.Proven`); `mul_iso_f_signed` adds the Frechet
product of one-signed operands of every sign combination (also touching zero).  MISSING: the Frechet product with a
zero-straddling operand (naive ∩ Balch) and pairs whose sign class differs between `X` and `X'`. -/
def C12Statement : Prop :=
  ∀ (n : Nat) (t : PTree), t.NoDiv → ∀ (vars vars' : List PB), List.Forall₂ PSub vars vars' →
    (∀ P ∈ vars, WF n P) → (∀ P ∈ vars', WF n P) →
    ∀ R R', t.eval n vars = .ok R → t.eval n vars' = .ok R' → PSub R R'

/-- **C12 for division** `X.div(Y, d)` with a divisor of one sign.  `div_iso_poi` proves it under perfect / opposite /
independent dependence, `div_iso_f` under Frechet for a one-signed dividend, `numLeft_div_iso` for `c / X`.
MISSING: `d = f` with a dividend that straddles zero (the naive ∩ Balch branch of the product). -/
def C12DivStatement : Prop :=
  ∀ (n : Nat) (d : Dep), d ≠ .unknown → ∀ (X X' Y Y' : PB), WF n X → WF n X' → WF n Y → WF n Y' →
    ((∀ v ∈ Y'.left, 0 < v) ∨ (∀ v ∈ Y'.right, v < 0)) → PSub X X' → PSub Y Y' →
    ∀ R R', div n d X Y = .ok R → div n d X' Y' = .ok R' → PSub R R'

theorem proven_noDiv (t : PTree) (h : t.Proven) : t.NoDiv := by
  induction t with
  | var i => trivial
  | bin o d a b iha ihb =>
    obtain ⟨hn, ha, hb⟩ := h
    refine ⟨?_, ?_, iha ha, ihb hb⟩
    · rcases hn with ⟨ho, _⟩ | ⟨ho, _⟩
      · rcases ho with ho | ho <;> subst ho <;> simp
      · subst ho; simp
    · rcases hn with ⟨_, hd⟩ | ⟨_, hd⟩
      · exact hd
      · rcases hd with hd | hd | hd <;> subst hd <;> simp
  | numR o a c iha => exact ⟨h.1, iha h.2⟩
  | numL o c a iha => exact ⟨h.1, iha h.2⟩
  | neg a iha => exact iha h
  | env a b iha ihb => exact ⟨iha h.1, ihb h.2⟩
  | imp a b iha ihb => exact ⟨iha h.1, ihb h.2⟩

/-- the proved part of `C12Statement`, in its shape -/
theorem c12_partial (n : Nat) (t : PTree) (ht : t.Proven) (vars vars' : List PB) (h : List.Forall₂ PSub vars vars')
    (hw : ∀ P ∈ vars, WF n P) (hw' : ∀ P ∈ vars', WF n P) (R R' : PB)
    (e : t.eval n vars = .ok R) (e' : t.eval n vars' = .ok R') : PSub R R' := by
  obtain ⟨R0, e0, hs, _, _⟩ := ptree_iso_partial n t ht h hw hw' R e
  rw [e0] at e'
  cases e'
  exact hs

end Statement

end Pun.Iso
