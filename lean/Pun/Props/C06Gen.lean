import Pun.Gen.NumOpsGen
import Pun.Props.C06
/-!
# C06 — the source text of the number operations equals the hand model

`Pun/Gen/NumOpsGen.lean` is regenerated on every run from `pba/pbox_abc.py`
(`harness/pv/translator/numops.py`): `pbox_number_ops`, `__neg__`, `reciprocal`, `_unary_template`, the number
branches of `add sub mul div pow` and the infix / reflected operators.  Here each generated definition is proved
equal to the hand model's (`numberOp`, `neg`, `recip`, `unaryTemplate`, `numRight`, `numLeftK`, `powNat`), for every
p-box, constant and number of steps.  The generated definitions are finite compositions of the model's primitives, so
the proofs are definitional unfolding (`rfl`) plus `x - c = x + -c`, with a case split over the four operations
(a proof over a finite table, lifted to the unbounded theorems of `Pun.Props.C06` by these equalities).
The last section re-states the property's identities and step theorems for what the source says now.
-/
set_option linter.unusedSimpArgs false
set_option linter.unusedVariables false
namespace Pun.PBox.Num
open Pun Pun.PBox
open Pun.Gen

/-- `pbox_number_ops` as written = `numberOp` -/
theorem gen_numberOps_eq (steps : Nat) (f : Rat → Rat → Rat) (p : PB) (n : Rat) :
    NumOps.numberOps steps f p n = numberOp steps f p n := rfl

/-- `__neg__` as written = `neg` -/
theorem gen_neg_eq (steps : Nat) (p : PB) : NumOps.neg steps p = neg steps p := rfl

/-- `reciprocal` as written (straddle guard, exchange and flip of the bounds) = `recip` -/
theorem gen_recip_eq (steps : Nat) (p : PB) : NumOps.recip steps p = recip steps p := rfl

/-- `_unary_template(f)` as written = `unaryTemplate` on the two mapped bounds, order kept -/
theorem gen_unaryTemplate_eq (steps : Nat) (f : Rat → Rat) (p : PB) :
    NumOps.unaryTemplate steps f p = unaryTemplate steps (p.left.map f) (p.right.map f) := rfl

/-- the number branch of `pow` (natural exponent) = `powNat` -/
theorem gen_powNat_eq (steps : Nat) (p : PB) (k : Nat) : NumOps.powNat steps p k = powNat steps p k := rfl

theorem numberOp_sub_eq (steps : Nat) (p : PB) (c : Rat) :
    numberOp steps (· - ·) p c = numberOp steps (· + ·) p (-c) := by
  have e : (fun x : Rat => x - c) = (fun x => x + -c) := funext (fun x => sub_eq_add_neg x c)
  show mk steps true (sortR (p.left.map (fun x => x - c))) (sortR (p.right.map (fun x => x - c))) =
    mk steps true (sortR (p.left.map (fun x => x + -c))) (sortR (p.right.map (fun x => x + -c)))
  rw [e]

/-- `P op c`: `__add__ __sub__ __mul__ __truediv__` and the number branches they reach = `numRight` -/
theorem gen_numRight_eq (steps : Nat) (o : Op) (p : PB) (c : Rat) :
    NumOps.numRight steps o p c = numRight steps o p c := by
  cases o with
  | add => rfl
  | sub => exact numberOp_sub_eq steps p c
  | mul => rfl
  | div => rfl

/-- `c op P`: `__radd__ __rsub__ __rmul__ __rtruediv__` (incl. the bare `except` → `NotImplemented` → `TypeError`)
= `numLeftK`, whatever the kind of the constant -/
theorem gen_numLeft_eq (steps : Nat) (k : CKind) (o : Op) (c : Rat) (p : PB) :
    NumOps.numLeft steps o c p = numLeftK steps k o c p := by
  cases o with
  | add => rfl
  | sub => rfl
  | mul => rfl
  | div => rfl

/-- … and, for Python constants, `numRightK` (the kind matters only for `P / 0`) -/
theorem gen_numRight_eqK (steps : Nat) (k : CKind) (o : Op) (p : PB) (c : Rat) (h : o ≠ .div ∨ c ≠ 0) :
    NumOps.numRight steps o p c = numRightK steps k o p c := by
  rw [gen_numRight_eq, numRightK_eq steps k o p c h]

/-! ## the property, for what the source says now -/

/-- −(−P) = P for the `__neg__` in the source -/
theorem gen_neg_neg (n : Nat) (P : PB) (h : WF n P) : (NumOps.neg n P >>= NumOps.neg n) = .ok P :=
  neg_neg_box n P h

/-- c − P = −(P − c) for the `__rsub__`, `__sub__`, `__neg__` in the source -/
theorem gen_rsub_eq (n : Nat) (c : Rat) (P : PB) (h : WF n P) :
    NumOps.numLeft n .sub c P = (NumOps.numRight n .sub P c >>= NumOps.neg n) := by
  rw [gen_numLeft_eq n .pyFloat, gen_numRight_eq, numLeftK_eq n .pyFloat .sub c P (by decide)]
  exact rsub_eq n c P h

/-- c / P = c · (1/P) for the `__rtruediv__`, `__rmul__`, `reciprocal` in the source (support excludes zero) -/
theorem gen_rdiv_eq (n : Nat) (c : Rat) (P : PB) (h : WF n P) (hz : 0 < lo P ∨ hi P < 0) :
    NumOps.numLeft n .div c P = (NumOps.numLeft n .div 1 P >>= fun Q => NumOps.numLeft n .mul c Q) := by
  have key : ∀ d : Rat, NumOps.numLeft n .div d P = numLeft n .div d P := by
    intro d
    rw [gen_numLeft_eq n .pyFloat]
    rcases le_total 0 d with hd | hd
    · have s := rdiv_steps_nonneg n d P h hz hd
      rw [numLeftK_div_ok n _ d P _ s, s]
    · have s := rdiv_steps_nonpos n d P h hz hd
      rw [numLeftK_div_ok n _ d P _ s, s]
  have e1 := key c
  have e2 := key 1
  have e3 : (fun Q => NumOps.numLeft n .mul c Q) = (fun Q => numLeft n .mul c Q) := by
    funext Q; rfl
  rw [e1, e2, e3]
  exact rdiv_eq n c P h hz

/-- steps of `P * c`, `c ≤ 0`, through the source's `__mul__` → `mul` → `pbox_number_ops`: exchanged and reversed -/
theorem gen_mul_steps_neg (n : Nat) (P : PB) (c : Rat) (h : WF n P) (hc : c ≤ 0) :
    NumOps.numRight n .mul P c = .ok ⟨P.right.reverse.map (· * c), P.left.reverse.map (· * c)⟩ := by
  rw [gen_numRight_eq]; exact numMul_steps_neg n P c h hc

/-- steps of `1/P` through the source's `reciprocal` -/
theorem gen_recip_steps (n : Nat) (P : PB) (h : WF n P) (hz : 0 < lo P ∨ hi P < 0) :
    NumOps.recip n P = .ok ⟨P.right.reverse.map (1 / ·), P.left.reverse.map (1 / ·)⟩ :=
  recip_steps n P h hz

/-- `P / 0` is an error in the source's routing of `div` -/
theorem gen_div_zero (n : Nat) (P : PB) : NumOps.numRight n .div P 0 = .error .ZeroDivision := rfl

example := gen_neg_neg 2 exP exP_wf
example := gen_rsub_eq 2 7 exP exP_wf
example := gen_rdiv_eq 2 (-3) exP exP_wf (Or.inl exP_pos)
example := gen_mul_steps_neg 2 exP (-3) exP_wf (by norm_num)
example := gen_recip_steps 2 exN exN_wf (Or.inr exN_neg)

end Pun.PBox.Num
