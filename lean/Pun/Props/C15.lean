import Pun.Model.UN
import Mathlib.Tactic.Ring
set_option linter.unusedSimpArgs false
set_option linter.unusedVariables false
namespace Pun.UN

theorem Dim.mul_comm' (a b : Dim) : a.mul b = b.mul a := by
  cases a; cases b; simp [Dim.mul, Rat.add_comm]

end Pun.UN
