import Pun.Model.UN
import Mathlib.Tactic.Ring
import Mathlib.Tactic.FieldSimp
import Mathlib.Tactic.Linarith
import Mathlib.Algebra.Order.Field.Basic
/-!
# C15 — UncertainNumber arithmetic equals construct arithmetic; units obey unit algebra

* unit algebra laws of `Dim` and of pint's quantity operators `qOp`;
* `number_rule_*` : what `pass_down_units` does with a bare number is the rule of the statement;
* `un_op_spec` : for EVERY construct algebra `alg`, every operator and every operand pair of
  the quantifier, the class's dispatch (`pyBin`: forward method, reflected methods as coded,
  `bin_ops`, `pass_down_units`) returns exactly the specified table `specBin`
  (same operation on the converted constructs, unit from `unitSpec`), errors included;
* `step_spec`, `hist_spec` : the same for histories — any sequence of operators applied to the
  number derived from the previous result (`derive`: class, construct, magnitude, dimension of
  the result and nothing else); `exponent_by_reflected_sub` : `X ** (c − V)`;
* `PBn.rsub_mirror`, `neg_eq_zero_sub`, `rsub_pointwise`, `rdiv_pointwise_*` : on quantile lists,
  `c − U = −(U − c)`, `−U = 0 − U`, and `c − U`, `c / U` are pointwise `c − x`, `c / x` with the
  bounds exchanged and the probability levels reversed (zero-straddling divisor rejected).
-/
set_option linter.unusedSimpArgs false
set_option linter.unusedVariables false
namespace Pun.UN

/-! ## unit algebra -/
namespace Dim
@[ext] theorem ext' {a b : Dim} (h1 : a.m = b.m) (h2 : a.s = b.s) (h3 : a.kg = b.kg) : a = b := by
  cases a; cases b; simp_all

theorem mul_comm (a b : Dim) : a.mul b = b.mul a := by
  apply ext' <;> simp only [mul] <;> ring
theorem mul_assoc (a b c : Dim) : (a.mul b).mul c = a.mul (b.mul c) := by
  apply ext' <;> simp only [mul] <;> ring
theorem mul_one (a : Dim) : a.mul one = a := by
  apply ext' <;> simp only [mul, one] <;> ring
theorem div_mul_cancel (a b : Dim) : (a.div b).mul b = a := by
  apply ext' <;> simp only [mul, div] <;> ring
theorem mul_div_cancel (a b : Dim) : (a.mul b).div b = a := by
  apply ext' <;> simp only [mul, div] <;> ring
theorem div_self (a : Dim) : a.div a = one := by
  apply ext' <;> simp only [div, one] <;> ring
theorem div_eq_mul_inv (a b : Dim) : a.div b = a.mul (one.div b) := by
  apply ext' <;> simp only [mul, div, one] <;> ring
theorem pow_add (a : Dim) (j k : Rat) : a.pow (j + k) = (a.pow j).mul (a.pow k) := by
  apply ext' <;> simp only [mul, pow] <;> ring
theorem pow_mul (a : Dim) (j k : Rat) : a.pow (j * k) = (a.pow j).pow k := by
  apply ext' <;> simp only [pow] <;> ring
theorem pow_one (a : Dim) : a.pow 1 = a := by
  apply ext' <;> simp only [pow] <;> ring
theorem pow_zero (a : Dim) : a.pow 0 = one := by
  apply ext' <;> simp only [pow, one] <;> ring
theorem pow_two (a : Dim) : a.pow 2 = a.mul a := by
  apply ext' <;> simp only [pow, mul] <;> ring
theorem pow_neg_one (a : Dim) : a.pow (-1) = one.div a := by
  apply ext' <;> simp only [pow, div, one] <;> ring
theorem one_pow (k : Rat) : one.pow k = one := by
  apply ext' <;> simp only [pow, one] <;> ring
theorem mul_pow (a b : Dim) (k : Rat) : (a.mul b).pow k = (a.pow k).mul (b.pow k) := by
  apply ext' <;> simp only [pow, mul] <;> ring
end Dim

/-- sums and differences of quantities exist exactly for equal dimensions, and keep it -/
theorem add_requires_eq (a b d : Dim) (k : Rat) : qOp .add a b k = .ok d ↔ (a = b ∧ d = a) := by
  unfold qOp
  by_cases h : a = b
  · subst h; simp [eq_comm]
  · simp [h]
theorem sub_requires_eq (a b d : Dim) (k : Rat) : qOp .sub a b k = .ok d ↔ (a = b ∧ d = a) := by
  unfold qOp
  by_cases h : a = b
  · subst h; simp [eq_comm]
  · simp [h]
/-- adding quantities of different dimension is an error -/
theorem add_incompatible (a b : Dim) (k : Rat) (h : a ≠ b) :
    qOp .add a b k = .error .dimensionality ∧ qOp .sub a b k = .error .dimensionality := by
  simp [qOp, h]
example : qOp .add ⟨1, 0, 0⟩ ⟨0, 1, 0⟩ 0 = .error .dimensionality := by decide +kernel
example : qOp .add ⟨1, -1, 0⟩ ⟨1, -1, 0⟩ 0 = .ok ⟨1, -1, 0⟩ := by decide +kernel

/-- an exponent that carries a dimension is an error -/
theorem pow_requires_dimensionless (a b : Dim) (k : Rat) (h : b ≠ Dim.one) :
    qOp .pow a b k = .error .dimensionality := by
  simp [qOp, h]

variable {C : Type}

/-! ## the number rule (`pass_down_units`, number branch) -/
theorem number_rule_forward (u : UNv C) (c : Rat) (op : Op) :
    passDownUnits u (.num c) op false = unitSpec op (some u.dim) none c := by
  cases op <;> simp [passDownUnits, numDim, qOp, unitSpec, Dim.mul_one]
  · apply Dim.ext' <;> simp [Dim.div, Dim.one]

theorem number_rule_reflected (u : UNv C) (c : Rat) (op : Op) :
    passDownUnits u (.num c) op true = unitSpec op none (some u.dim) u.nom := by
  cases op <;> simp [passDownUnits, numDim, qOp, unitSpec, Dim.one_pow]
  · rw [Dim.mul_comm, Dim.mul_one]

/-- spelled out: `U * c`, `U / c` keep the unit; `U ± c` keep it; `U ** c` scales the exponents;
`c / U` inverts it; `c ** U` needs a dimensionless `U` -/
theorem number_rule_values (u : UNv C) (c : Rat) :
    passDownUnits u (.num c) .mul false = .ok u.dim ∧
    passDownUnits u (.num c) .div false = .ok u.dim ∧
    passDownUnits u (.num c) .add false = .ok u.dim ∧
    passDownUnits u (.num c) .sub false = .ok u.dim ∧
    passDownUnits u (.num c) .sub true = .ok u.dim ∧
    passDownUnits u (.num c) .pow false = .ok (u.dim.pow c) ∧
    passDownUnits u (.num c) .div true = .ok (Dim.one.div u.dim) ∧
    (u.dim ≠ Dim.one → passDownUnits u (.num c) .pow true = .error .dimensionality) ∧
    (u.dim = Dim.one → passDownUnits u (.num c) .pow true = .ok Dim.one) := by
  simp only [number_rule_forward, number_rule_reflected, unitSpec, if_true, true_and]
  constructor
  · intro h; simp [h]
  · intro h; simp [h]

/-! ## the class's table is the specified table -/

/-- operand pairs of the quantifier: an uncertain number on the left with anything on the
right, or a plain number on the left of an uncertain number -/
def InScope : Opd C → Opd C → Prop
  | .un _, _ => True
  | .num _, .un _ => True
  | _, _ => False

/-- **C15**: the operators of the class, as coded (forward methods, reflected methods by
delegation / `reflected=True`, `bin_ops`, `pass_down_units`), compute exactly the specified
table, for every construct algebra, operator, essence, unit and number; errors included. -/
theorem un_op_spec (alg : CAlg C) (op : Op) (l r : Opd C) (h : InScope l r) :
    pyBin alg op l r = some (specBin alg op l r) := by
  cases l with
  | un u =>
    cases r with
    | un v =>
      cases op <;>
        simp [pyBin, dunder, binOps, specBin, consSpec, passDownUnits, dimOf, expoOf, qOp, unitSpec,
          binEss, essSpec, passDownMag, magOp, magOf]
    | num c =>
      have hu := number_rule_forward u c op
      simp [pyBin, dunder, binOps, specBin, consSpec, dimOf, expoOf, hu, binEss, essSpec, passDownMag, magOf]
    | cons => simp [pyBin, dunder, binOps, specBin, consSpec]; rfl
    | other => simp [pyBin, dunder, binOps, specBin, consSpec]; rfl
  | num c =>
    cases r with
    | un u =>
      have hf := fun o => number_rule_forward u c o
      have hr := fun o => number_rule_reflected u c o
      cases op
      · -- c + U  :=  U + c  (magnitudes: nominal + c = c + nominal)
        simp [pyBin, rdunder, dunder, binOps, specBin, consSpec, dimOf, expoOf, hf, unitSpec,
          binEss, essSpec, passDownMag, magOp, magOf, add_comm]
      · simp only [pyBin, rdunder, binOps, specBin, consSpec, dimOf, expoOf, hr]
        cases he : u.ess <;> simp [binEss, essSpec, passDownMag, magOf, numEss, he]
      · simp [pyBin, rdunder, dunder, binOps, specBin, consSpec, dimOf, expoOf, hf, unitSpec,
          binEss, essSpec, passDownMag, magOp, magOf, mul_comm]
      · simp only [pyBin, rdunder, binOps, specBin, consSpec, dimOf, expoOf, hr]
        cases he : u.ess <;> simp [binEss, essSpec, passDownMag, magOf, numEss, he]
      · simp [pyBin, rdunder, rpow, specBin, consSpec, dimOf, expoOf, hr, essSpec, passDownMag, magOf]
    | num _ => exact absurd h (by simp [InScope])
    | cons => exact absurd h (by simp [InScope])
    | other => exact absurd h (by simp [InScope])
  | cons => exact absurd h (by simp [InScope])
  | other => exact absurd h (by simp [InScope])

example : InScope (C := Term) (.num 2) (.un ⟨.interval, .B, 3/2, ⟨1, 0, 0⟩⟩) := trivial
example : pyBin termAlg .div (.num 2) (.un ⟨.dss, .B, 3/2, ⟨1, 0, 0⟩⟩)
    = some (.ok ⟨.pbox, .nc .div 2 (.conv .B), 2 / (3/2), Dim.one.div ⟨1, 0, 0⟩⟩) := rfl

/-- unary minus: the negated construct, same unit -/
theorem neg_spec (alg : CAlg C) (u : UNv C) :
    pyNeg alg u = (alg.neg u.ess u.cons).map (fun c => ⟨numEss u.ess, c, -u.nom, u.dim⟩) := by
  unfold pyNeg
  cases alg.neg u.ess u.cons <;> rfl

/-- consequences read off the table: the result of `U op V` has the product / quotient / common
dimension, whatever the constructs are -/
theorem unit_of_product (alg : CAlg C) (u v : UNv C) (x : Res C)
    (h : pyBin alg .mul (.un u) (.un v) = some (.ok x)) : x.dim = u.dim.mul v.dim := by
  simp only [pyBin, dunder, binOps, passDownUnits, qOp] at h
  cases hc : alg.binCC .mul (alg.conv u.ess u.cons) (alg.conv v.ess v.cons) <;> simp_all [bind, Except.bind, pure, Except.pure]
  rw [← h]

theorem unit_of_quotient (alg : CAlg C) (u v : UNv C) (x : Res C)
    (h : pyBin alg .div (.un u) (.un v) = some (.ok x)) : x.dim = u.dim.div v.dim := by
  simp only [pyBin, dunder, binOps, passDownUnits, qOp] at h
  cases hc : alg.binCC .div (alg.conv u.ess u.cons) (alg.conv v.ess v.cons) <;> simp_all [bind, Except.bind, pure, Except.pure]
  rw [← h]

/-- adding uncertain numbers of different dimension is an error whenever the constructs
themselves can be added -/
theorem add_incompatible_is_error (alg : CAlg C) (u v : UNv C) (hd : u.dim ≠ v.dim) (x : Res C) :
    pyBin alg .add (.un u) (.un v) ≠ some (.ok x) ∧ pyBin alg .sub (.un u) (.un v) ≠ some (.ok x) := by
  constructor <;>
  · simp only [pyBin, dunder, binOps, passDownUnits, qOp, hd, if_false]
    cases alg.binCC _ (alg.conv u.ess u.cons) (alg.conv v.ess v.cons) <;>
      simp [bind, Except.bind, pure, Except.pure]

/-! ## histories: a second (third, …) operation on a derived uncertain number -/

/-- the derived number is the class, construct, magnitude and dimension of the result; nothing
else of the operands is carried into it -/
theorem derive_carries (r : Res C) :
    (derive r).ess = r.ess ∧ (derive r).cons = r.cons ∧ (derive r).nom = r.nom ∧ (derive r).dim = r.dim :=
  ⟨rfl, rfl, rfl, rfl⟩

/-- every further operator applied to an uncertain number (original or derived) follows the
specified table: `acc op r`, `c op acc`, `acc op acc`, `-acc` -/
theorem step_spec (alg : CAlg C) (u : UNv C) (s : Step C) : codeStep alg u s = specStep alg u s := by
  cases s with
  | opR op r =>
    have h := un_op_spec alg op (.un u) r trivial
    simpa [pyBin, codeStep, specStep] using h
  | opL op c =>
    have h := un_op_spec alg op (.num c) (.un u) trivial
    simpa [pyBin, codeStep, specStep] using h
  | self op =>
    have h := un_op_spec alg op (.un u) (.un u) trivial
    simpa [pyBin, codeStep, specStep] using h
  | neg => exact neg_spec alg u

/-- **C15 for histories**: any sequence of operators, each applied to the number derived from
the previous result, computes what the specified table computes step by step — for every
construct algebra, every start, every sequence, errors included -/
theorem hist_spec (alg : CAlg C) (u : UNv C) (steps : List (Step C)) :
    runHist (codeStep alg) u steps = runHist (specStep alg) u steps := by
  induction steps generalizing u with
  | nil => rfl
  | cons s rest ih =>
    simp only [runHist, step_spec]
    cases specStep alg u s with
    | error e => rfl
    | ok r => exact ih (derive r)

/-- a chain through `**`: the exponent `c − V` built by reflected subtraction from a
dimensionless `V` has magnitude `c − nominal V`, so `X ** (c − V)` has dimension
`dim X ^ (c − nominal V)` (not `dim X ^ (nominal V − c)`) -/
theorem exponent_by_reflected_sub (alg : CAlg C) (x v : UNv C) (c : Rat) (hv : v.dim = Dim.one)
    (e r : Res C) (h1 : pyBin alg .sub (.num c) (.un v) = some (.ok e))
    (h2 : pyBin alg .pow (.un x) (.un (derive e)) = some (.ok r)) :
    e.nom = c - v.nom ∧ e.dim = Dim.one ∧ r.dim = x.dim.pow (c - v.nom) := by
  rw [un_op_spec alg .sub (.num c) (.un v) trivial] at h1
  rw [un_op_spec alg .pow (.un x) (.un (derive e)) trivial] at h2
  simp only [specBin, dimOf, expoOf, unitSpec, magOp, magOf, Option.some.injEq] at h1 h2
  cases hc : consSpec alg .sub (.num c) (.un v) with
  | error _ => simp [hc, bind, Except.bind] at h1
  | ok c1 =>
    simp only [hc, bind, Except.bind, pure, Except.pure, Except.ok.injEq] at h1
    subst h1
    simp only [derive, hv, if_true] at h2 ⊢
    cases hc2 : consSpec alg .pow (.un x) (.un ⟨essSpec .sub (.num c) (.un v), c1, c - v.nom, Dim.one⟩) with
    | error _ => simp [derive, hc2, bind, Except.bind] at h2
    | ok c2 =>
      simp only [derive, hc2, bind, Except.bind, pure, Except.pure, Except.ok.injEq] at h2
      subst h2
      simp

example : pyBin termAlg .sub (.num 3) (.un ⟨.interval, .B, 1, Dim.one⟩)
    = some (.ok ⟨.interval, .nc .sub 3 .B, 3 - 1, Dim.one⟩) := rfl

example : runHist (codeStep termAlg) ⟨.interval, .A, 3/2, ⟨1, 0, 0⟩⟩ [.opR .add (.num 1), .neg, .opL .sub 10]
    = .ok ⟨.interval, .nc .sub 10 (.neg (.cn .add .A 1)), 10 - -(3/2 + 1), ⟨1, 0, 0⟩⟩ := rfl

/-! ## mirror images on quantile lists -/
namespace PBn

theorem rsub_mirror (c : Rat) (p : PBn) : rsubN c p = neg (subN p c) := by
  simp only [rsubN, neg, addN, subN, List.map_reverse, List.map_map]
  congr 2 <;> (apply List.map_congr_left; intro x _; simp only [Function.comp]; ring)

/-- `c − U` pointwise: `c − x`, bounds exchanged, probability levels reversed -/
theorem rsub_pointwise (c : Rat) (p : PBn) :
    rsubN c p = ⟨(p.right.map (c - ·)).reverse, (p.left.map (c - ·)).reverse⟩ := by
  simp only [rsubN, neg, addN, List.map_reverse, List.map_map]
  congr 2 <;> (apply List.map_congr_left; intro x _; simp only [Function.comp]; ring)

theorem neg_eq_zero_sub (p : PBn) : neg p = rsubN 0 p := by
  rw [rsub_pointwise]
  simp only [neg]
  congr 2 <;> (apply List.map_congr_left; intro x _; ring)

theorem neg_neg (p : PBn) : neg (neg p) = p := by
  cases p
  simp [neg, List.map_reverse, List.map_map, Function.comp_def]

/-- `U − c = U + (−c)` and `−(c − U) = U − c` -/
theorem sub_eq_add_neg (p : PBn) (c : Rat) : subN p c = addN p (-c) := by
  simp only [subN, addN]
  congr 1 <;> (apply List.map_congr_left; intro x _; ring)
theorem neg_rsub (c : Rat) (p : PBn) : neg (rsubN c p) = subN p c := by
  rw [rsub_mirror, neg_neg]

/-- `c / U` pointwise for a positive number: `c / x`, bounds exchanged, levels reversed -/
theorem rdiv_pointwise_nonneg (c : Rat) (p : PBn) (hc : 0 ≤ c) (hp : p.nonzero = true) :
    rdivN c p = some ⟨(p.right.map (c / ·)).reverse, (p.left.map (c / ·)).reverse⟩ := by
  simp only [rdivN, hp, if_true, mulN, hc, recip, List.map_reverse, List.map_map]
  congr 3 <;> (apply List.map_congr_left; intro x _; simp only [Function.comp]; ring)

/-- for a negative number the two exchanges cancel -/
theorem rdiv_pointwise_neg (c : Rat) (p : PBn) (hc : c < 0) (hp : p.nonzero = true) :
    rdivN c p = some ⟨p.left.map (c / ·), p.right.map (c / ·)⟩ := by
  have : ¬ (0 ≤ c) := not_le.mpr hc
  simp only [rdivN, hp, if_true, mulN, this, if_false, recip, List.map_reverse, List.map_map,
    List.reverse_reverse]
  congr 3 <;> (funext x; simp only [Function.comp]; ring)

/-- a zero-straddling divisor is rejected -/
theorem rdiv_straddle (c : Rat) (p : PBn) (hp : p.nonzero = false) : rdivN c p = none := by
  simp [rdivN, hp]

example : rdivN 2 ⟨[1, 2], [2, 4]⟩ = some ⟨[1/2, 1], [1, 2]⟩ := by decide +kernel
example : rsubN 5 ⟨[1, 2], [2, 4]⟩ = ⟨[1, 3], [3, 4]⟩ := by decide +kernel
example : (⟨[1, 2], [2, 4]⟩ : PBn).nonzero = true := by decide +kernel

end PBn
end Pun.UN
