import Pun.Props.C10
import Pun.Gen.FreeGen
/-!
# C10, generated part: the closed-form bound formulas *as the source has them now*

`Pun/Gen/FreeGen.lean` is regenerated from `pba/pbox_free.py` and `pba/params.py` on every run
(`harness/pv/translator/free.py`): level lists and element formulas of `min_mean`, `mean_std`, `min_max_mean`, the
two `np.where` masks of `min_max_median` (evaluated on `Params.p_values`), the inner call of `max_mean`.
Each generated definition is proved equal to the corresponding piece of the hand model `Pun.Model.Free`, so the
theorems of `Props/C10` are about the formulas the source contains today: a changed index range, level, sign,
comparison or operand in the source makes one of these proofs fail.
-/
set_option linter.unusedSimpArgs false
set_option linter.unusedVariables false
namespace Pun.Gen.Free
open Pun Pun.Free

theorem steps_eq : steps = 200 := by decide

/-! ## min_mean -/

theorem min_mean_jjj_eq (m μ : ℚ) : min_mean_jjj m μ = (List.range 199).map lvR := by
  unfold min_mean_jjj; decide +kernel

theorem min_mean_right_eq (m μ : ℚ) : min_mean_right m μ = minMeanRight m μ := by
  unfold min_mean_right minMeanRight
  rw [min_mean_jjj_eq, List.map_map]; rfl

/-! ## max_mean -/

theorem max_mean_eq (M μ : ℚ) :
    maxMean M μ = (match minMean (max_mean_inner M μ).1 (max_mean_inner M μ).2 with
      | .ok p => negPB p
      | .error e => .error e) := rfl

/-! ## mean_std (`np.sqrt` is the abstract `sq`; the hand model's tables are `sq` at the source's arguments) -/

theorem mean_std_iii_eq (μ σ : ℚ) : mean_std_iii μ σ = (List.range 199).map lvI := by
  unfold mean_std_iii; decide +kernel

theorem mean_std_jjj_eq (μ σ : ℚ) : mean_std_jjj μ σ = (List.range 199).map lvR := by
  unfold mean_std_jjj; decide +kernel

theorem mean_std_left_eq (sq : ℚ → ℚ) (μ σ : ℚ) :
    mean_std_left sq μ σ = meanStdLeft (fun k => sq (1 / lvI k - 1)) μ σ := by
  unfold mean_std_left meanStdLeft
  rw [mean_std_iii_eq, List.map_map]; rfl

theorem mean_std_right_eq (sq : ℚ → ℚ) (μ σ : ℚ) :
    mean_std_right sq μ σ = meanStdRight (fun k => sq (lvR k / (1 - lvR k))) μ σ := by
  unfold mean_std_right meanStdRight
  rw [mean_std_jjj_eq, List.map_map]; rfl

/-! ## min_max_mean (the hand model additionally raises `ZeroDivisionError` where Python divides by zero) -/

theorem min_max_mean_mid_eq (a b μ : ℚ) : min_max_mean_mid a b μ = (b - μ) / (b - a) := rfl

theorem min_max_mean_ii_eq (a b μ : ℚ) : min_max_mean_ii a b μ = (List.range 200).map lvL := by
  unfold min_max_mean_ii; decide +kernel

theorem min_max_mean_jj_eq (a b μ : ℚ) : min_max_mean_jj a b μ = (List.range 200).map lvR := by
  unfold min_max_mean_jj; decide +kernel

theorem min_max_mean_left_agrees (a b μ : ℚ) (k : Nat) (hk : k < 200) (v : ℚ)
    (h : mmmLeftAt a b μ (min_max_mean_mid a b μ) k = .ok v) : (min_max_mean_left a b μ)[k]? = some v := by
  unfold min_max_mean_left
  rw [min_max_mean_ii_eq, List.map_map, range_map_get _ hk]
  unfold mmmLeftAt at h
  simp only [Function.comp] at h ⊢
  by_cases h1 : lvL k ≤ min_max_mean_mid a b μ
  · rw [if_pos h1] at h ⊢; cases h; rfl
  · rw [if_neg h1] at h ⊢
    by_cases h0 : lvL k = 0
    · rw [if_pos h0] at h; cases h
    · rw [if_neg h0] at h; cases h; rfl

theorem min_max_mean_right_agrees (a b μ : ℚ) (k : Nat) (hk : k < 200) (v : ℚ)
    (h : mmmRightAt a b μ (min_max_mean_mid a b μ) k = .ok v) : (min_max_mean_right a b μ)[k]? = some v := by
  unfold min_max_mean_right
  rw [min_max_mean_jj_eq, List.map_map, range_map_get _ hk]
  unfold mmmRightAt at h
  simp only [Function.comp] at h ⊢
  by_cases h1 : min_max_mean_mid a b μ ≤ lvR k
  · rw [if_pos h1] at h ⊢; cases h; rfl
  · rw [if_neg h1] at h ⊢
    by_cases h0 : 1 - lvR k = 0
    · rw [if_pos h0] at h; cases h
    · rw [if_neg h0] at h; cases h; rfl

/-! ## min_max_median: the masks `p_values < 0.5`, `p_values >= 0.5` on `linspace(.001,.999,200)` -/

theorem min_max_median_left_eq (a b med : ℚ) : min_max_median_left a b med = medianLeft a med := rfl
theorem min_max_median_right_eq (a b med : ℚ) : min_max_median_right a b med = medianRight b med := rfl

end Pun.Gen.Free
