import Pun.Model.WellFormed
/-! C04 theorems (in progress) -/
namespace Pun.WF
end Pun.WF
