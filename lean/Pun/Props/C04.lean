import Pun.Lemmas.WellFormed
import Mathlib.Algebra.BigOperators.Group.Finset.Basic
import Mathlib.Algebra.BigOperators.Ring.Finset
import Mathlib.Algebra.Order.BigOperators.Group.Finset
import Mathlib.Tactic.Ring
import Mathlib.Tactic.Positivity
/-!
# C04 — every p-box value handed to the user is well formed

All statements are about the functions the model driver executes (`Pun.WF.mkN`, `Pun.WF.eval`, the shared
`Pun.PBox` operations), for bounds of ANY length and histories of ANY depth.

* `steps_exact`, `steps_total`, `steps_empty`, `condense_keeps_ends` — `bound_steps_check` returns exactly the
  configured number of steps from every non-empty bound (longer: condensation keeping both ends; shorter: 'next'
  interpolation), and raises on an empty one;
* `nan_rejected` — NaN (an element no comparison accepts) anywhere in a bound makes the constructor raise;
* `constructor_wf` — whatever `Staircase(left, right)` returns, for ANY arrays or lists, is well formed;
* `binop_wf`, `num_wf`, `rnum_wf`, `neg_wf'`, `recip_wf'`, `unary_wf`, `env_wf'`, `imp_wf'` — every node kind maps
  well-formed operands to a well-formed result *by itself* (before the constructor's order check);
* `guard_never_fires` — hence the order check of the constructor never raises inside arithmetic: a history
  evaluates the same with (`eval`) and without (`evalNG`) the re-check on arithmetic nodes;
* `eval_wf` — every history that returns a value returns a well-formed box whose reported range
  `[min(left), max(right)]` is `[left[0], right[n-1]]`;
* `mean_in_support`, `var_le_quarter_range` — any finite distribution on `[a, b]` has mean in `[a, b]` and variance
  at most `(b-a)²/4` (Popoviciu): the limits the oracle applies to the reported moment bounds, and what the repaired
  last-resort branch of `_init_moments` reports.

Not proved (tie + oracle only): the numerical moment code (LP, ECDF fallback), operations outside the model
(`pow`, `min`/`max`, `sin`/`cos`/`tanh`, condensation, DSS round trip) — there the fixed constructor's order check
(`constructor_wf`) is what guarantees the result.
-/
set_option linter.unusedSimpArgs false
set_option linter.unusedVariables false
set_option linter.dupNamespace false
namespace Pun.WF
open Pun Pun.PBox List

/-! ## exact number of steps -/

/-- **★ steps_exact** -/
theorem steps_exact (c : Cfg) (b b' : List NR) (h : boundStepsN c b = .ok b') : b'.length = c.steps :=
  boundStepsN_length h

theorem steps_total (c : Cfg) (b : List NR) (hb : b ≠ []) : ∃ b', boundStepsN c b = .ok b' ∧ b'.length = c.steps := by
  obtain ⟨b', h⟩ := boundStepsN_total c hb
  exact ⟨b', h, boundStepsN_length h⟩

/-- an empty bound raises `IndexError` (for a positive number of steps) -/
theorem steps_empty (c : Cfg) (h : 0 < c.steps) : boundStepsN c [] = .error .Index := by
  unfold boundStepsN stretchN
  simp [h]

/-- condensation keeps the first and the last entry of the bound -/
theorem condense_keeps_ends (len n : Nat) (hn : 2 ≤ n) :
    condenseIdx len n 0 = 0 ∧ condenseIdx len n (n - 1) = len - 1 := by
  unfold condenseIdx
  have h1 : ¬ n ≤ 1 := by omega
  simp only [h1, if_false, Nat.zero_mul, Nat.zero_div, true_and]
  exact Nat.mul_div_cancel_left _ (by omega)

example : condenseIdx 997 200 199 = 996 := by decide +kernel
example : boundStepsN ⟨3, 1/1000, 999/1000⟩ [some 5, some 7] = .ok [some 5, some 7, some 7] := by decide +kernel
example : boundStepsN ⟨2, 1/1000, 999/1000⟩ [some 1, none, some 4, some 9] = .ok [some 1, some 9] := by decide +kernel

/-! ## NaN -/

/-- **★ nan_rejected**: a NaN anywhere in a bound of the configured length (at least two steps) makes the
constructor raise, through the monotonicity test -/
theorem nan_rejected (c : Cfg) (h2 : 2 ≤ c.steps) (lists : Bool) (l r : List NR)
    (hl : l.length = c.steps) (hr : r.length = c.steps) (hn : none ∈ l ∨ none ∈ r) :
    ∃ e, mkN c lists l r = .error e := by
  unfold mkN
  cases hsw : switchN lists l r with
  | error e => exact ⟨e, rfl⟩
  | ok sw =>
    simp only [bind, Except.bind]
    cases sw with
    | true => exact ⟨.Other, by simpa using mkCore_nan h2 hr hl hn.symm⟩
    | false => exact ⟨.Other, by simpa using mkCore_nan h2 hl hr hn⟩

example : mkN ⟨3, 1/1000, 999/1000⟩ false [some 1, none, some 3] [some 2, some 3, some 4] = .error .Other := by
  decide +kernel

/-! ## the constructor -/

/-- **★ constructor_wf** -/
theorem constructor_wf (c : Cfg) (lists : Bool) (l r : List NR) (P : PB) (h : mkN c lists l r = .ok P) :
    WF c.steps P := mkN_wf h

-- accepted, swapped as a whole, rejected when the bounds cross
example : mkN ⟨2, 1/1000, 999/1000⟩ false [some 1, some 2] [some 2, some 3] = .ok ⟨[1, 2], [2, 3]⟩ := by decide +kernel
example : mkN ⟨2, 1/1000, 999/1000⟩ false [some 2, some 3] [some 1, some 2] = .ok ⟨[1, 2], [2, 3]⟩ := by decide +kernel
example : mkN ⟨2, 1/1000, 999/1000⟩ false [some 1, some 4] [some 2, some 3] = .error .Other := by decide +kernel
example : WF 2 ⟨[1, 2], [2, 3]⟩ := ⟨rfl, rfl, by decide, by decide, by repeat constructor⟩

/-! ## every node kind keeps operands well formed (★ op_wf) -/

/-- add / sub / mul / div between two p-boxes under every dependency code -/
theorem binop_wf (n : Nat) (o : Op) (d : Dep) (x y P : PB) (hx : WF n x) (hy : WF n y)
    (h : binopC n o d x y = .ok P) : WF n P := binopC_wf n o d x y P hx hy h

theorem num_wf (n : Nat) (o : Op) (c : Rat) (x P : PB) (hx : WF n x) (h : numRight n o x c = .ok P) : WF n P :=
  numRight_wf n o c x P hx h

theorem rnum_wf (n : Nat) (o : Op) (c : Rat) (x P : PB) (hx : WF n x) (h : numLeftC n o c x = .ok P) : WF n P :=
  numLeftC_wf n o c x P hx h

theorem neg_wf' (n : Nat) (x P : PB) (hx : WF n x) (h : PBox.neg n x = .ok P) : WF n P := neg_wf n x P hx h

theorem recip_wf' (n : Nat) (x P : PB) (hx : WF n x) (h : PBox.recip n x = .ok P) : WF n P := recip_wf n x P hx h

/-- exp / sqrt / log for ANY non-decreasing function in place of the tabulated one -/
theorem unary_wf (n : Nat) (k : UKind) (t : List (Rat × Rat)) (ht : (t.map Prod.snd).Pairwise (· ≤ ·))
    (x P : PB) (hx : WF n x) (h : unaryK n k t x = .ok P) : WF n P :=
  unaryK_wf n k t (tabAp_mono t ht) x P hx h

example : ([((1 : Rat), (2 : Rat)), (3, 5)].map Prod.snd).Pairwise (· ≤ ·) := by decide

theorem env_wf' (n : Nat) (x y P : PB) (hx : WF n x) (hy : WF n y) (h : PBox.env n x y = .ok P) : WF n P :=
  env_wf n x y P hx hy h

theorem imp_wf' (n : Nat) (x y P : PB) (hx : WF n x) (hy : WF n y) (h : PBox.imp n x y = .ok P) : WF n P :=
  imp_wf n x y P hx.toWFS hy.toWFS h

/-! ## histories -/

theorem guardLE_of_wf {n : Nat} {z : PB} (h : WF n z) : guardLE z = .ok z := by
  unfold guardLE
  have : anyGt z.left z.right = false := (anyGt_false_iff (by rw [h.llen, h.rlen])).mpr h.le
  simp [this]

theorem guardLE_ok {z P : PB} (h : guardLE z = .ok P) : P = z ∧ anyGt z.left z.right = false := by
  unfold guardLE at h
  split at h
  · cases h
  · rename_i hg
    cases h
    exact ⟨rfl, by simpa using hg⟩

/-- a guarded node: the guard changes nothing when the node's result is well formed -/
theorem bind_guard_eq {n : Nat} (m : Except Err PB) (hm : ∀ z, m = .ok z → WF n z) : (m >>= guardLE) = m := by
  cases m with
  | error e => rfl
  | ok z => exact guardLE_of_wf (hm z rfl)

/-- **histories without the re-check are well formed** (any depth) -/
theorem evalNG_wf (c : Cfg) : ∀ (e : Expr) (P : PB), evalNG c e = .ok P → WF c.steps P := by
  intro e
  induction e with
  | leaf lists l r => intro P h; exact mkN_wf h
  | bin o d a b iha ihb =>
    intro P h
    unfold evalNG at h
    obtain ⟨x, hx, h⟩ := bind_ok_inv h
    obtain ⟨y, hy, h⟩ := bind_ok_inv h
    exact binopC_wf _ o d x y P (iha x hx) (ihb y hy) h
  | num o a k iha =>
    intro P h
    unfold evalNG at h
    obtain ⟨x, hx, h⟩ := bind_ok_inv h
    exact numRight_wf _ o k x P (iha x hx) h
  | rnum o k a iha =>
    intro P h
    unfold evalNG at h
    obtain ⟨x, hx, h⟩ := bind_ok_inv h
    exact numLeftC_wf _ o k x P (iha x hx) h
  | neg a iha =>
    intro P h
    unfold evalNG at h
    obtain ⟨x, hx, h⟩ := bind_ok_inv h
    exact neg_wf _ x P (iha x hx) h
  | recip a iha =>
    intro P h
    unfold evalNG at h
    obtain ⟨x, hx, h⟩ := bind_ok_inv h
    exact recip_wf _ x P (iha x hx) h
  | unary k t a iha =>
    intro P h
    unfold evalNG at h
    obtain ⟨x, hx, h⟩ := bind_ok_inv h
    obtain ⟨z, hz, h⟩ := bind_ok_inv h
    obtain ⟨rfl, hg⟩ := guardLE_ok h
    -- the unary template ends in a constructor call (length, monotone); the order check gives the rest
    have wz : WFS c.steps P := by
      unfold unaryK at hz
      cases k with
      | exp => exact mk_wfs hz
      | sqrt =>
        simp only at hz
        split at hz
        · cases hz
        · exact mk_wfs hz
      | log =>
        simp only at hz
        split at hz
        · cases hz
        · split at hz
          · cases hz
          · exact mk_wfs hz
    exact ⟨wz.llen, wz.rlen, wz.lsorted, wz.rsorted, (anyGt_false_iff (by rw [wz.llen, wz.rlen])).mp hg⟩
  | env a b iha ihb =>
    intro P h
    unfold evalNG at h
    obtain ⟨x, hx, h⟩ := bind_ok_inv h
    obtain ⟨y, hy, h⟩ := bind_ok_inv h
    exact env_wf _ x y P (iha x hx) (ihb y hy) h
  | imp a b iha ihb =>
    intro P h
    unfold evalNG at h
    obtain ⟨x, hx, h⟩ := bind_ok_inv h
    obtain ⟨y, hy, h⟩ := bind_ok_inv h
    exact imp_wf _ x y P (iha x hx).toWFS (ihb y hy).toWFS h

/-- **★ guard_never_fires**: the constructor's order check never raises inside arithmetic, negation,
reciprocal, envelope or imposition — evaluating a history with the check after every node (`eval`, the code as
it is) or only at leaves and unary maps (`evalNG`) gives the same value or the same exception -/
theorem guard_never_fires (c : Cfg) : ∀ e : Expr, eval c e = evalNG c e := by
  intro e
  induction e with
  | leaf lists l r => rfl
  | bin o d a b iha ihb =>
    unfold eval evalNG
    rw [iha, ihb]
    cases hx : evalNG c a with
    | error e => rfl
    | ok x =>
      cases hy : evalNG c b with
      | error e => rfl
      | ok y =>
        exact bind_guard_eq (n := c.steps) _ (fun z hz => binopC_wf _ o d x y z (evalNG_wf c a x hx) (evalNG_wf c b y hy) hz)
  | num o a k iha =>
    unfold eval evalNG
    rw [iha]
    cases hx : evalNG c a with
    | error e => rfl
    | ok x => exact bind_guard_eq (n := c.steps) _ (fun z hz => numRight_wf _ o k x z (evalNG_wf c a x hx) hz)
  | rnum o k a iha =>
    unfold eval evalNG
    rw [iha]
    cases hx : evalNG c a with
    | error e => rfl
    | ok x => exact bind_guard_eq (n := c.steps) _ (fun z hz => numLeftC_wf _ o k x z (evalNG_wf c a x hx) hz)
  | neg a iha =>
    unfold eval evalNG
    rw [iha]
    cases hx : evalNG c a with
    | error e => rfl
    | ok x => exact bind_guard_eq (n := c.steps) _ (fun z hz => neg_wf _ x z (evalNG_wf c a x hx) hz)
  | recip a iha =>
    unfold eval evalNG
    rw [iha]
    cases hx : evalNG c a with
    | error e => rfl
    | ok x => exact bind_guard_eq (n := c.steps) _ (fun z hz => recip_wf _ x z (evalNG_wf c a x hx) hz)
  | unary k t a iha =>
    unfold eval evalNG
    rw [iha]
  | env a b iha ihb =>
    unfold eval evalNG
    rw [iha, ihb]
    cases hx : evalNG c a with
    | error e => rfl
    | ok x =>
      cases hy : evalNG c b with
      | error e => rfl
      | ok y =>
        exact bind_guard_eq (n := c.steps) _ (fun z hz => env_wf _ x y z (evalNG_wf c a x hx) (evalNG_wf c b y hy) hz)
  | imp a b iha ihb =>
    unfold eval evalNG
    rw [iha, ihb]
    cases hx : evalNG c a with
    | error e => rfl
    | ok x =>
      cases hy : evalNG c b with
      | error e => rfl
      | ok y =>
        exact bind_guard_eq (n := c.steps) _
          (fun z hz => imp_wf _ x y z (evalNG_wf c a x hx).toWFS (evalNG_wf c b y hy).toWFS hz)

/-- the reported range `Interval(min(left), max(right))` of a well-formed box is `[left[0], right[n-1]]` -/
theorem range_eq {n : Nat} {P : PB} (h : WF n P) : initRange P = (PBox.lo P, PBox.hi P) := by
  unfold initRange PBox.lo PBox.hi
  congr 1
  · cases hl : P.left with
    | nil => rfl
    | cons a t =>
      have hs := h.lsorted
      rw [hl] at hs
      have hne : (a :: t) ≠ [] := by simp
      obtain ⟨hm, hlb⟩ := minL_spec 0 (a :: t) hne
      simp only [headD_cons]
      apply le_antisymm (hlb a (by simp))
      rcases mem_cons.mp hm with e | hm'
      · rw [e]
      · exact (pairwise_cons.mp hs).1 _ hm'
  · by_cases hr : P.right = []
    · rw [hr]; rfl
    · obtain ⟨hm, hub⟩ := maxL_spec 0 P.right hr
      apply le_antisymm (le_getLastD h.rsorted hm)
      apply hub
      rw [getLastD_eq hr]; exact getElem_mem _

/-- **★ eval_wf**: a history of any depth either raises or returns a well-formed box — exactly `steps`
entries in each bound, both non-decreasing, `left ≤ right` at every step (NaN-free by construction of the
value) — whose reported range is `[left[0], right[n-1]]` -/
theorem eval_wf (c : Cfg) (e : Expr) (P : PB) (h : eval c e = .ok P) :
    WF c.steps P ∧ initRange P = (PBox.lo P, PBox.hi P) := by
  rw [guard_never_fires] at h
  have w := evalNG_wf c e P h
  exact ⟨w, range_eq w⟩

-- non-vacuity: a history that evaluates (leaf + number)
example : eval ⟨2, 1/1000, 999/1000⟩ (.leaf false [some 1, some 2] [some 2, some 3]) = .ok ⟨[1, 2], [2, 3]⟩ := by
  decide +kernel

/-! ## moment limits used by the oracle (○) -/

open Finset in
/-- the mean of a finite distribution on `[a, b]` lies in `[a, b]` -/
theorem mean_in_support {m : Nat} (w x : Fin m → Rat) (a b : Rat) (hw : ∀ i, 0 ≤ w i) (h1 : ∑ i, w i = 1)
    (hx : ∀ i, a ≤ x i ∧ x i ≤ b) : a ≤ ∑ i, w i * x i ∧ ∑ i, w i * x i ≤ b := by
  constructor
  · calc a = ∑ i, w i * a := by rw [← Finset.sum_mul, h1, one_mul]
      _ ≤ ∑ i, w i * x i := Finset.sum_le_sum (fun i _ => mul_le_mul_of_nonneg_left (hx i).1 (hw i))
  · calc ∑ i, w i * x i ≤ ∑ i, w i * b := Finset.sum_le_sum (fun i _ => mul_le_mul_of_nonneg_left (hx i).2 (hw i))
      _ = b := by rw [← Finset.sum_mul, h1, one_mul]

open Finset in
/-- Popoviciu: the variance of a finite distribution on `[a, b]` is at most `(b - a)² / 4` (and non-negative) -/
theorem var_le_quarter_range {m : Nat} (w x : Fin m → Rat) (a b : Rat) (hw : ∀ i, 0 ≤ w i) (h1 : ∑ i, w i = 1)
    (hx : ∀ i, a ≤ x i ∧ x i ≤ b) :
    0 ≤ ∑ i, w i * (x i - ∑ j, w j * x j) ^ 2 ∧
    ∑ i, w i * (x i - ∑ j, w j * x j) ^ 2 ≤ (b - a) ^ 2 / 4 := by
  set μ := ∑ j, w j * x j with hμ
  set c := (a + b) / 2 with hc
  constructor
  · exact Finset.sum_nonneg (fun i _ => mul_nonneg (hw i) (sq_nonneg _))
  · -- spread around the midpoint = variance + (μ - c)²
    have key : ∑ i, w i * (x i - c) ^ 2 = ∑ i, w i * (x i - μ) ^ 2 + (μ - c) ^ 2 := by
      have e : ∀ i, w i * (x i - c) ^ 2 = w i * (x i - μ) ^ 2 + ((μ - c) * 2 * (w i * x i) - (μ - c) * (c + μ) * w i) := by
        intro i; ring
      rw [Finset.sum_congr rfl (fun i _ => e i), Finset.sum_add_distrib, Finset.sum_sub_distrib,
        ← Finset.mul_sum, ← Finset.mul_sum, h1, ← hμ]
      ring
    have bound : ∑ i, w i * (x i - c) ^ 2 ≤ ∑ i, w i * ((b - a) ^ 2 / 4) := by
      apply Finset.sum_le_sum
      intro i _
      apply mul_le_mul_of_nonneg_left _ (hw i)
      have h2 : (b - a) ^ 2 / 4 - (x i - c) ^ 2 = (x i - a) * (b - x i) := by rw [hc]; ring
      have h3 : 0 ≤ (x i - a) * (b - x i) := mul_nonneg (by linarith [(hx i).1]) (by linarith [(hx i).2])
      linarith
    have tot : ∑ i, w i * ((b - a) ^ 2 / 4) = (b - a) ^ 2 / 4 := by rw [← Finset.sum_mul, h1, one_mul]
    have := sq_nonneg (μ - c)
    linarith

-- non-vacuity: a distribution meeting the hypotheses (two points on the ends, which attains the variance limit)
open Finset in
example : ∃ (w x : Fin 2 → Rat), (∀ i, 0 ≤ w i) ∧ ∑ i, w i = 1 ∧ (∀ i, (0 : Rat) ≤ x i ∧ x i ≤ 2) :=
  ⟨fun _ => 1 / 2, fun i => if i = 0 then 0 else 2, fun _ => by norm_num, by norm_num [Finset.sum_const],
    fun i => by simp only []; split <;> norm_num⟩

end Pun.WF
