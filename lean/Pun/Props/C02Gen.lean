import Pun.Gen.FrechetGen
import Pun.Lemmas.FrechetInterp
/-!
# C02 / C03 — the loop of `frechet_op`, regenerated from the source, is the hand model

`Pun.Gen.Frechet.spec` is what `harness/pv/translator/frechet.py` read in `operation.frechet_op` on this run:
the index ranges `j, k, jj, kk` (affine in the loop variable and the number of steps), the reductions, the
bound arrays, the two sorts and the order of the returned pair.  The theorem below proves, for every pair
of operands whose four bound arrays have one common length `n` (any `n`) and every binary operation, that
executing that specification gives exactly `Pun.PBox.frechetOp` — the function about which validity,
tightness and enclosure are proved in `Props/C02.lean` (and which `Props/C03.lean` compares the other
rules with).  A source edit that changes a range, a reduction, a bound or a sort breaks this proof.
-/
namespace Pun.C02Gen
open Pun Pun.PBox Pun.FrechetInterp Pun.Gen.Frechet

theorem left_half_eq (op : Rat → Rat → Rat) (x y : PB) (h : y.left.length = x.left.length) :
    half spec.left op x y = frechetLeftRaw op x.left y.left := by
  unfold half frechetLeftRaw
  apply List.map_congr_left
  intro i hi
  have hi' : i < x.left.length := List.mem_range.mp hi
  simp only [spec, Side.of, Red.ap, Aff.eval]
  have e1 : (0 : Int) + 0 * (i : Int) + 0 * (x.left.length : Int) = 0 := by ring
  have e2 : (1 : Int) + 1 * (i : Int) + 0 * (x.left.length : Int) = (i : Int) + 1 := by ring
  have e3 : (0 : Int) + 1 * (i : Int) + 0 * (x.left.length : Int) = (i : Int) := by ring
  have e4 : (-1 : Int) + 0 * (i : Int) + 0 * (x.left.length : Int) = -1 := by ring
  rw [e1, e2, e3, e4, gather_take x.left i hi', gather_take_rev y.left i (by omega)]

theorem right_half_eq (op : Rat → Rat → Rat) (x y : PB) (h : y.right.length = x.right.length) :
    half spec.right op x y = frechetRightRaw op x.right y.right := by
  unfold half frechetRightRaw
  apply List.map_congr_left
  intro i hi
  have hi' : i < x.right.length := List.mem_range.mp hi
  simp only [spec, Side.of, Red.ap, Aff.eval]
  have e1 : (0 : Int) + 1 * (i : Int) + 0 * (x.right.length : Int) = (i : Int) := by ring
  have e2 : (0 : Int) + 0 * (i : Int) + 1 * (x.right.length : Int) = (x.right.length : Int) := by ring
  have e3 : (-1 : Int) + 0 * (i : Int) + 1 * (x.right.length : Int) = (x.right.length : Int) - 1 := by ring
  have e4 : (-1 : Int) + 1 * (i : Int) + 0 * (x.right.length : Int) = (i : Int) - 1 := by ring
  rw [e1, e2, e3, e4, gather_up x.right i (by omega)]
  have := gather_down y.right i (by omega)
  rw [h] at this
  rw [this]

/-- **the regenerated `frechet_op` is the model's `frechetOp`**, for operands of any common length -/
theorem frechetGen_eq_model (op : Rat → Rat → Rat) (x y : PB)
    (hl : y.left.length = x.left.length) (hr : y.right.length = x.right.length) :
    frechetGen spec op x y = frechetOp op x y := by
  unfold frechetGen frechetOp
  rw [left_half_eq op x y hl, right_half_eq op x y hr]
  simp [spec]

/-- the hypotheses are met by two 3-step boxes; the generated loop computes the model's value there -/
example : frechetGen spec (· + ·) ⟨[1, 2, 4], [2, 3, 6]⟩ ⟨[0, 1, 1], [1, 2, 5]⟩
    = frechetOp (· + ·) ⟨[1, 2, 4], [2, 3, 6]⟩ ⟨[0, 1, 1], [1, 2, 5]⟩ :=
  frechetGen_eq_model _ _ _ rfl rfl

end Pun.C02Gen
