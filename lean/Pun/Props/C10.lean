import Pun.Model.Free
namespace Pun.Free
theorem placeholder_c10 : (1 : Nat) = 1 := rfl
end Pun.Free
