import Pun.Model.Free
import Pun.Lemmas.FreeLaw
import Mathlib.Data.List.Sort
set_option linter.unusedSimpArgs false
set_option linter.unusedVariables false
/-!
# C10 — distribution-free p-boxes enclose every distribution meeting the constraints

Laws are finite discrete (`Pun.Law`); `q` is a `p`-quantile iff `P(X<q) ≤ p ≤ P(X≤q)`; step `k` covers the
levels `(k/200, (k+1)/200)`.  Every theorem is about the functions of `Pun.Model.Free` that the driver executes.
Proved: enclosure for min_max, min_mean, max_mean, mean_std (mean_var = mean_std on the supplied root),
min_max_mean, min_max_median; sharpness by the Markov and Cantelli two-point laws; the dispatcher table.
min_max_mean_std (`minMaxMeanStd_encloses`, all three components of the recurrence; `minMaxMeanStd_total`),
min_max_mode for every unimodal law (`modeStatement_holds`).
-/
namespace Pun.Free
open Pun Pun.Law

theorem stretch_get {l L : List Rat} (h : stretch l = .ok L) {k : Nat} (hk : k < l.length) :
    L[k]? = l[k]? := by
  unfold stretch at h
  split at h
  · cases h; rfl
  · split at h
    · split at h
      · cases h; rw [List.getElem?_append_left hk]
      · cases h
    · cases h

theorem stretch_length {l L : List Rat} (h : stretch l = .ok L) : L.length = 200 := by
  unfold stretch at h
  split at h
  · cases h; assumption
  · split at h
    · split at h
      · cases h; simp; omega
      · cases h
    · cases h

theorem allGe_get : ∀ {l r : List Rat}, allGe l r = true → ∀ {k : Nat} {a b : Rat},
    l[k]? = some a → r[k]? = some b → b ≤ a
  | [], _, _, k, _, _, ha, _ => by simp at ha
  | _ :: _, [], _, k, _, _, _, hb => by simp at hb
  | a :: as, b :: bs, h, 0, _, _, ha, hb => by
      simp [allGe] at h; simp at ha hb; subst ha hb; exact h.1
  | a :: as, b :: bs, h, k+1, _, _, ha, hb => by
      simp [allGe] at h; simp at ha hb; exact allGe_get h.2 ha hb

def swOf (cmp : Cmp) (l r : List Rat) : Bool :=
  match cmp with
  | .elementwise => allGe l r
  | .lexi => lexGe l r

theorem staircase_ok {cmp : Cmp} {l r L R : List Rat} (h : staircase cmp l r = .ok (L, R)) :
    stretch (if swOf cmp l r then r else l) = .ok L ∧ stretch (if swOf cmp l r then l else r) = .ok R ∧
      isIncreasing L = true ∧ isIncreasing R = true := by
  cases cmp <;>
  · unfold staircase at h
    simp only [swOf]
    simp only at h
    split at h
    · rename_i l' r' h1 h2
      split at h
      · rename_i hinc
        cases h
        simp at hinc
        exact ⟨h1, h2, hinc.1, hinc.2⟩
      · cases h
    · cases h
    · cases h

/-- elementwise switch: whatever the switch does, the left bound only moves down and the right bound up -/
theorem staircase_elementwise_widen {l r L R : List Rat} (h : staircase .elementwise l r = .ok (L, R))
    {k : Nat} {a b : Rat} (hl : l[k]? = some a) (hr : r[k]? = some b) :
    ∃ A B, L[k]? = some A ∧ R[k]? = some B ∧ A ≤ a ∧ b ≤ B := by
  obtain ⟨h1, h2, -, -⟩ := staircase_ok h
  have hkl : k < l.length := by
    by_contra hc; rw [List.getElem?_eq_none (by omega)] at hl; cases hl
  have hkr : k < r.length := by
    by_contra hc; rw [List.getElem?_eq_none (by omega)] at hr; cases hr
  by_cases hsw : allGe l r = true
  · simp [swOf, hsw] at h1 h2
    exact ⟨b, a, by rw [stretch_get h1 hkr, hr], by rw [stretch_get h2 hkl, hl], allGe_get hsw hl hr, allGe_get hsw hl hr⟩
  · simp [swOf, hsw] at h1 h2
    exact ⟨a, b, by rw [stretch_get h1 hkl, hl], by rw [stretch_get h2 hkr, hr], le_refl _, le_refl _⟩

theorem lexGe_false_of_head : ∀ {l r : List Rat} {a b : Rat}, l[0]? = some a → r[0]? = some b → a < b →
    lexGe l r = false
  | [], _, _, _, ha, _, _ => by simp at ha
  | _ :: _, [], _, _, _, hb, _ => by simp at hb
  | x :: xs, y :: ys, a, b, ha, hb, hab => by
      simp at ha hb; subst ha hb
      have hne : ¬ x = y := ne_of_lt hab
      simp [lexGe, hne, not_le.mpr hab]

/-- list switch: no switch (or a switch of two equal lists) leaves the bounds in place -/
theorem staircase_lexi_get {l r L R : List Rat} (h : staircase .lexi l r = .ok (L, R))
    (hns : lexGe l r = false ∨ l = r) {k : Nat} (hkl : k < l.length) (hkr : k < r.length) :
    L[k]? = l[k]? ∧ R[k]? = r[k]? := by
  obtain ⟨h1, h2, -, -⟩ := staircase_ok h
  rcases hns with hns | hns
  · simp [swOf, hns] at h1 h2
    exact ⟨stretch_get h1 hkl, stretch_get h2 hkr⟩
  · subst hns
    simp at h1 h2
    exact ⟨stretch_get h1 hkl, stretch_get h2 hkr⟩

theorem range_map_get (f : Nat → Rat) {n k : Nat} (hk : k < n) : ((List.range n).map f)[k]? = some (f k) := by
  simp [hk]

theorem replicate_get (a : Rat) {n k : Nat} (hk : k < n) : (List.replicate n a)[k]? = some a := by
  rw [List.getElem?_replicate]; simp [hk]

theorem lvR_lt_one {k : Nat} (hk : k < 199) : lvR k < 1 := by
  unfold lvR
  have : (k : Rat) < 199 := by exact_mod_cast hk
  rw [div_lt_one (by norm_num)]; linarith

theorem lvL_nonneg (k : Nat) : 0 ≤ lvL k := by
  unfold lvL; positivity

theorem lvR_pos (k : Nat) : 0 < lvR k := by
  unfold lvR; positivity

theorem mean_ge_min {ι : Type*} [Fintype ι] (w x : ι → ℚ) (hw : IsLaw w) (m : ℚ) (hm : ∀ i, m ≤ x i) :
    m ≤ mean w x := by
  unfold mean
  have : m = ∑ i, w i * m := by rw [← Finset.sum_mul, hw.2]; ring
  rw [this]
  apply Finset.sum_le_sum; intro i _
  exact mul_le_mul_of_nonneg_left (hm i) (hw.1 i)

theorem isIncreasing_pairwise : ∀ {l : List ℚ}, isIncreasing l = true → l.Pairwise (· ≤ ·)
  | [], _ => List.Pairwise.nil
  | [a], _ => by simp
  | a :: b :: t, h => by
      simp [isIncreasing] at h
      have ih := isIncreasing_pairwise h.2
      have ih' := List.pairwise_cons.mp ih
      rw [List.pairwise_cons]
      refine ⟨?_, ih⟩
      intro x hx
      rcases List.mem_cons.mp hx with he | hm
      · rw [he]; exact h.1
      · exact le_trans h.1 (ih'.1 x hm)

theorem sortR_of_sorted {l : List ℚ} (h : l.Pairwise (· ≤ ·)) : sortR l = l := by
  unfold sortR
  exact List.mergeSort_eq_self (· ≤ ·) h

/-- the list `__neg__` builds from an increasing bound: reversed, negated, and `sorted` changes nothing -/
theorem sortR_neg_reverse {l : List ℚ} (h : isIncreasing l = true) :
    sortR (l.reverse.map (fun x => -x)) = l.reverse.map (fun x => -x) := by
  apply sortR_of_sorted
  rw [List.pairwise_map, List.pairwise_reverse]
  exact (isIncreasing_pairwise h).imp (by intro a b hab; linarith)

theorem neg_reverse_get {l : List ℚ} {k : Nat} (hk : k < l.length) :
    (l.reverse.map (fun x => -x))[k]? = (l[l.length - 1 - k]?).map (fun x => -x) := by
  rw [List.getElem?_map, List.getElem?_reverse hk]

/-- lists of equal length with `l ≤ r` elementwise: Python's `l >= r` is false unless they are equal -/
theorem lexGe_of_le : ∀ {l r : List ℚ}, l.length = r.length → (∀ (k : Nat) (a b : ℚ), l[k]? = some a → r[k]? = some b → a ≤ b) →
    lexGe l r = false ∨ l = r
  | [], [], _, _ => Or.inr rfl
  | [], _ :: _, h, _ => by simp at h
  | _ :: _, [], h, _ => by simp at h
  | a :: as, b :: bs, h, hle => by
      have hab : a ≤ b := hle 0 a b (by simp) (by simp)
      by_cases he : a = b
      · subst he
        have := lexGe_of_le (l := as) (r := bs) (by simpa using h)
          (fun k x y hx hy => hle (k+1) x y (by simpa using hx) (by simpa using hy))
        rcases this with h1 | h1
        · left; simp [lexGe, h1]
        · right; rw [h1]
      · left
        have : a < b := lt_of_le_of_ne hab he
        simp [lexGe, he, not_le.mpr this]

/-! ## min_max -/

theorem minMax_encloses (a b : ℚ) {L R : List ℚ} (h : minMax a b = .ok (L, R))
    {ι : Type*} [Fintype ι] (w x : ι → ℚ) (hw : IsLaw w) (ha : ∀ i, a ≤ x i) (hb : ∀ i, x i ≤ b)
    (k : Nat) (hk : k < 200) (p q : ℚ) (hp0 : lvL k < p) (hp1 : p < lvR k) (hq : IsQuantile w x p q) :
    ∃ A B, L[k]? = some A ∧ R[k]? = some B ∧ A ≤ q ∧ q ≤ B := by
  unfold minMax at h
  split at h
  · cases h
  · have hp : 0 < p := lt_of_le_of_lt (lvL_nonneg k) hp0
    have hp' : p < 1 := by
      have : lvR k ≤ 1 := by
        unfold lvR; have : (k : Rat) + 1 ≤ 200 := by exact_mod_cast hk
        rw [div_le_one (by norm_num)]; exact this
      linarith
    obtain ⟨A, B, hA, hB, hAa, hbB⟩ := staircase_elementwise_widen h
      (k := k) (a := a) (b := b) (replicate_get a hk) (replicate_get b hk)
    exact ⟨A, B, hA, hB, le_trans hAa (quantile_ge_min w x a p q ha hp hq.2),
      le_trans (quantile_le_max w x hw.2 b p q hb hp' hq.1) hbB⟩

/-! ## min_mean (Markov) -/

theorem markovR_mono (m μ p j : ℚ) (hmμ : m ≤ μ) (hpj : p ≤ j) (hj : j < 1) :
    m + (μ - m) / (1 - p) ≤ markovR m μ j := by
  unfold markovR
  have h1 : 0 < 1 - j := by linarith
  have h2 : 0 < 1 - p := by linarith
  have : (μ - m) / (1 - p) ≤ (μ - m) / (1 - j) :=
    div_le_div_of_nonneg_left (by linarith) h1 (by linarith)
  linarith

/-- ★ every law with support `≥ m` and mean `μ` has all its quantiles at levels strictly inside step `k`
between the bounds of `min_mean(m, μ)`; the right bound of the last step (unbounded tail) is exempt -/
theorem minMean_encloses (m μ : ℚ) {L R : List ℚ} (h : minMean m μ = .ok (L, R))
    {ι : Type*} [Fintype ι] (w x : ι → ℚ) (hw : IsLaw w) (hm : ∀ i, m ≤ x i) (hμ : mean w x = μ)
    (k : Nat) (hk : k < 199) (p q : ℚ) (hp0 : lvL k < p) (hp1 : p < lvR k) (hq : IsQuantile w x p q) :
    ∃ A B, L[k]? = some A ∧ R[k]? = some B ∧ A ≤ q ∧ q ≤ B := by
  unfold minMean at h
  have hp : 0 < p := lt_of_le_of_lt (lvL_nonneg k) hp0
  have hj := lvR_lt_one hk
  have hmμ : m ≤ μ := hμ ▸ mean_ge_min w x hw m hm
  obtain ⟨A, B, hA, hB, hAa, hbB⟩ := staircase_elementwise_widen h
    (k := k) (a := m) (b := markovR m μ (lvR k)) (replicate_get m hk) (range_map_get _ hk)
  refine ⟨A, B, hA, hB, le_trans hAa (quantile_ge_min w x m p q hm hp hq.2), le_trans ?_ hbB⟩
  have := markov_quantile w x hw.1 hw.2 m μ p q hm hμ (by linarith) hq.1
  exact le_trans this (markovR_mono m μ p (lvR k) hmμ (le_of_lt hp1) hj)


/-! ## max_mean = negation of min_mean -/

theorem stretch_get_last {l L : List Rat} (h : stretch l = .ok L) (hl : l.length = 199) :
    L[199]? = l[198]? := by
  unfold stretch at h
  rw [if_neg (by omega), if_pos hl] at h
  split at h
  · rename_i x hx
    cases h
    rw [List.getElem?_append_right (by omega)]
    simp [hl]
    rw [List.getLast?_eq_getElem?] at hx
    simp [hl] at hx
    exact hx.symm
  · cases h

theorem staircase_elementwise_widen_last {l r L R : List Rat} (h : staircase .elementwise l r = .ok (L, R))
    (hll : l.length = 199) (hrl : r.length = 199) {a b : Rat} (hl : l[198]? = some a) (hr : r[198]? = some b) :
    ∃ A B, L[199]? = some A ∧ R[199]? = some B ∧ A ≤ a ∧ b ≤ B := by
  obtain ⟨h1, h2, -, -⟩ := staircase_ok h
  by_cases hsw : allGe l r = true
  · simp [swOf, hsw] at h1 h2
    exact ⟨b, a, by rw [stretch_get_last h1 hrl, hr], by rw [stretch_get_last h2 hll, hl], allGe_get hsw hl hr, allGe_get hsw hl hr⟩
  · simp [swOf, hsw] at h1 h2
    exact ⟨a, b, by rw [stretch_get_last h1 hll, hl], by rw [stretch_get_last h2 hrl, hr], le_refl _, le_refl _⟩

/-- shape of `min_mean(m, μ)` for `m ≤ μ`: 200 increasing values on both sides, left at most `m`, right at least
the Markov value of the step (the last step repeats step 198) -/
theorem minMean_shape (m μ : ℚ) (hmμ : m ≤ μ) {L R : List ℚ} (h : minMean m μ = .ok (L, R)) :
    L.length = 200 ∧ R.length = 200 ∧ isIncreasing L = true ∧ isIncreasing R = true ∧
    ∀ i, i < 200 → ∃ A B, L[i]? = some A ∧ R[i]? = some B ∧ A ≤ m ∧ m ≤ B ∧
      (i < 199 → markovR m μ (lvR i) ≤ B) := by
  unfold minMean at h
  obtain ⟨h1, h2, hi1, hi2⟩ := staircase_ok h
  refine ⟨stretch_length h1, stretch_length h2, hi1, hi2, ?_⟩
  have hge : ∀ i, i < 199 → m ≤ markovR m μ (lvR i) := by
    intro i hi
    unfold markovR
    have : 0 ≤ (μ - m) / (1 - lvR i) := div_nonneg (by linarith) (by linarith [lvR_lt_one hi])
    linarith
  intro i hi
  by_cases hi' : i < 199
  · obtain ⟨A, B, hA, hB, hAa, hbB⟩ := staircase_elementwise_widen h
      (k := i) (a := m) (b := markovR m μ (lvR i)) (replicate_get m hi') (range_map_get _ hi')
    exact ⟨A, B, hA, hB, hAa, le_trans (hge i hi') hbB, fun _ => hbB⟩
  · have : i = 199 := by omega
    subst this
    obtain ⟨A, B, hA, hB, hAa, hbB⟩ := staircase_elementwise_widen_last h (List.length_replicate) (by simp only [minMeanRight, List.length_map, List.length_range])
      (a := m) (b := markovR m μ (lvR 198)) (replicate_get m (by norm_num)) (range_map_get _ (by norm_num))
    exact ⟨A, B, hA, hB, hAa, le_trans (hge 198 (by norm_num)) hbB, fun h => absurd h (by omega)⟩

/-- ★ `max_mean(M, μ)`: every law with support `≤ M` and mean `μ` is enclosed at every step; the left bound of the
first step (unbounded tail) is exempt -/
theorem maxMean_encloses (M μ : ℚ) {L R : List ℚ} (h : maxMean M μ = .ok (L, R))
    {ι : Type*} [Fintype ι] (w x : ι → ℚ) (hw : IsLaw w) (hM : ∀ i, x i ≤ M) (hμ : mean w x = μ)
    (k : Nat) (hk : k < 200) (p q : ℚ) (hp0 : lvL k < p) (hp1 : p < lvR k) (hq : IsQuantile w x p q) :
    (∃ B, R[k]? = some B ∧ q ≤ B) ∧ (1 ≤ k → ∃ A, L[k]? = some A ∧ A ≤ q) := by
  have hμM : μ ≤ M := by
    have := mean_ge_min w (fun i => - x i) hw (-M) (fun i => by simp; exact hM i)
    have e : mean w (fun i => - x i) = - mean w x := by
      unfold mean; rw [← Finset.sum_neg_distrib]; apply Finset.sum_congr rfl; intro i _; ring
    rw [e, hμ] at this; linarith
  unfold maxMean at h
  split at h
  · rename_i p0 h0
    obtain ⟨L0, R0⟩ := p0
    obtain ⟨hL0, hR0, hiL, hiR, hsh⟩ := minMean_shape (-M) (-μ) (by linarith) h0
    unfold negPB at h
    simp only at h
    rw [sortR_neg_reverse hiR, sortR_neg_reverse hiL] at h
    have hk' : 199 - k < 200 := by omega
    obtain ⟨A0, B0, hA0, hB0, hA0m, hmB0, hmk⟩ := hsh (199 - k) hk'
    have hlenl : (R0.reverse.map (fun x => -x)).length = 200 := by simp [hR0]
    have hlenr : (L0.reverse.map (fun x => -x)).length = 200 := by simp [hL0]
    have hns : lexGe (R0.reverse.map (fun x => -x)) (L0.reverse.map (fun x => -x)) = false ∨
        R0.reverse.map (fun x => -x) = L0.reverse.map (fun x => -x) := by
      apply lexGe_of_le (by rw [hlenl, hlenr])
      intro i a b ha hb
      have hi : i < 200 := by
        by_contra hc; rw [List.getElem?_eq_none (by omega)] at ha; cases ha
      rw [neg_reverse_get (by omega)] at ha hb
      rw [hR0] at ha; rw [hL0] at hb
      obtain ⟨A1, B1, hA1, hB1, hA1m, hmB1, -⟩ := hsh (200 - 1 - i) (by omega)
      rw [hB1] at ha; rw [hA1] at hb
      simp at ha hb; subst ha hb; linarith
    obtain ⟨h1, h2⟩ := staircase_lexi_get h hns (k := k) (by omega) (by omega)
    rw [neg_reverse_get (by omega), hR0] at h1
    rw [neg_reverse_get (by omega), hL0] at h2
    have e199 : 200 - 1 - k = 199 - k := by omega
    rw [e199, hB0] at h1
    rw [e199, hA0] at h2
    have hp : 0 < p := lt_of_le_of_lt (lvL_nonneg k) hp0
    have hR1 : lvR k ≤ 1 := by
      unfold lvR; have : (k : Rat) + 1 ≤ 200 := by exact_mod_cast hk
      rw [div_le_one (by norm_num)]; exact this
    constructor
    · refine ⟨-A0, by rw [h2]; rfl, ?_⟩
      have := quantile_le_max w x hw.2 M p q hM (by linarith) hq.1
      linarith
    · intro hk1
      refine ⟨-B0, by rw [h1]; rfl, ?_⟩
      have hmk' := hmk (by omega)
      have hlv : 1 - lvR (199 - k) = lvL k := by
        unfold lvR lvL
        have : ((199 - k : Nat) : ℚ) = 199 - (k : ℚ) := by
          rw [Nat.cast_sub (by omega)]; norm_num
        rw [this]; ring
      have hlpos : 0 < lvL k := by
        unfold lvL; have : (0 : ℚ) < k := by exact_mod_cast hk1
        positivity
      unfold markovR at hmk'
      rw [hlv] at hmk'
      have hml := markov_quantile_lower w x hw.1 hw.2 M μ p q hM hμ hp hq.2
      have : (M - μ) / p ≤ (M - μ) / lvL k :=
        div_le_div_of_nonneg_left (by linarith) hlpos (le_of_lt hp0)
      have e : (-μ - -M) / lvL k = (M - μ) / lvL k := by ring
      rw [e] at hmk'
      linarith
  · cases h

/-! ## mean_std (Cantelli)

The supplied values stand for square roots.  An exact root is in general irrational, so enclosure is stated for
every non-negative value whose square is *at least* the argument (the root itself, or the root rounded up);
sharpness (`meanStd_left_attained`) is stated for the levels at which the value is an exact root. -/

def RootSpecL (tL : Nat → ℚ) : Prop := ∀ k, k < 199 → 0 ≤ tL k ∧ 1 / lvI k - 1 ≤ tL k * tL k
def RootSpecR (tR : Nat → ℚ) : Prop := ∀ k, k < 199 → 0 ≤ tR k ∧ lvR k / (1 - lvR k) ≤ tR k * tR k

theorem meanStd_noswap (tL tR : Nat → ℚ) (hL : RootSpecL tL) (hR : RootSpecR tR) (μ σ : ℚ) (hσ : 0 ≤ σ) :
    lexGe (meanStdLeft tL μ σ) (meanStdRight tR μ σ) = false ∨ meanStdLeft tL μ σ = meanStdRight tR μ σ := by
  by_cases h0 : σ = 0
  · right; subst h0; simp [meanStdLeft, meanStdRight]
  · left
    have hσ' : 0 < σ := lt_of_le_of_ne hσ (Ne.symm h0)
    obtain ⟨hl0, hl1⟩ := hL 0 (by norm_num)
    obtain ⟨hr0, -⟩ := hR 0 (by norm_num)
    have hpos : 0 < tL 0 := by
      rcases eq_or_lt_of_le hl0 with he | hlt
      · rw [← he] at hl1; simp [lvI] at hl1
      · exact hlt
    apply lexGe_false_of_head (a := μ - σ * tL 0) (b := μ + σ * tR 0)
    · exact range_map_get _ (by norm_num)
    · exact range_map_get _ (by norm_num)
    · have : 0 < σ * tL 0 := mul_pos hσ' hpos
      have : 0 ≤ σ * tR 0 := mul_nonneg hσ hr0
      linarith

/-- ★ Cantelli: every law with mean `μ` and variance `σ²` is enclosed by `mean_std(μ, σ)` at every step whose
bound is finite by the mathematics (left: `1 ≤ k`, right: `k < 199`) -/
theorem meanStd_encloses (tL tR : Nat → ℚ) (hL : RootSpecL tL) (hR : RootSpecR tR) (μ σ : ℚ) (hσ : 0 ≤ σ)
    {L R : List ℚ} (h : meanStd tL tR μ σ = .ok (L, R))
    {ι : Type*} [Fintype ι] (w x : ι → ℚ) (hw : IsLaw w) (hμ : mean w x = μ) (hV : var w x = σ ^ 2)
    (k : Nat) (hk : k < 199) (p q : ℚ) (hp0 : lvL k < p) (hp1 : p < lvR k) (hq : IsQuantile w x p q) :
    (∃ B, R[k]? = some B ∧ q ≤ B) ∧ (1 ≤ k → ∃ A, L[k]? = some A ∧ A ≤ q) := by
  unfold meanStd at h
  have hlen1 : k < (meanStdLeft tL μ σ).length := by simp [meanStdLeft, hk]
  have hlen2 : k < (meanStdRight tR μ σ).length := by simp [meanStdRight, hk]
  obtain ⟨h1, h2⟩ := staircase_lexi_get h (meanStd_noswap tL tR hL hR μ σ hσ) hlen1 hlen2
  have hV' : ∑ i, w i * (x i - μ) ^ 2 = σ ^ 2 := by rw [← hμ]; exact hV
  have hμ' : ∑ i, w i * x i = μ := hμ
  constructor
  · refine ⟨μ + σ * tR k, ?_, ?_⟩
    · rw [h2]; exact range_map_get _ hk
    · exact cantelli_right_bound w x hw.1 hw.2 μ σ (tR k) (lvR k) p q hμ' hV' hσ (hR k hk).1 (hR k hk).2
        (lvR_lt_one hk) (le_of_lt hp1) hq.1
  · intro hk1
    refine ⟨μ - σ * tL k, ?_, ?_⟩
    · rw [h1]; exact range_map_get _ hk
    · have hI : lvI k = lvL k := by unfold lvI lvL; rw [if_neg (by omega)]
      have hpos : 0 < lvI k := by
        rw [hI]; unfold lvL
        have : (0 : ℚ) < k := by exact_mod_cast hk1
        positivity
      exact cantelli_left_bound w x hw.1 hw.2 μ σ (tL k) (lvI k) p q hμ' hV' hσ (hL k hk).1 (hL k hk).2
        hpos (by rw [hI]; exact le_of_lt hp0) hq.2

/-! ## min_max_mean -/

theorem mapM_ok_get {α β : Type} (f : α → Except Err β) : ∀ (xs : List α) (l : List β), xs.mapM f = .ok l →
    ∀ (k : Nat) (x : α), xs[k]? = some x → ∃ v, f x = .ok v ∧ l[k]? = some v
  | [], l, _, k, x, hx => by simp at hx
  | y :: ys, l, h, k, x, hx => by
      rw [List.mapM_cons] at h
      cases hfy : f y with
      | error e => simp [hfy, bind, Except.bind] at h
      | ok v =>
        cases hrec : ys.mapM f with
        | error e => simp [hfy, hrec, bind, Except.bind] at h
        | ok vs =>
          simp [hfy, hrec, bind, Except.bind, pure, Except.pure] at h
          subst h
          cases k with
          | zero => simp at hx; subst hx; exact ⟨v, hfy, by simp⟩
          | succ k =>
            simp at hx
            obtain ⟨v', hv1, hv2⟩ := mapM_ok_get f ys vs hrec k x hx
            exact ⟨v', hv1, by simpa using hv2⟩

/-- ★ range + mean: every law on `[a,b]` with mean `μ` is enclosed at every step, whichever side of the
mid-point switch the step falls -/
theorem minMaxMean_encloses (a b μ : ℚ) {L R : List ℚ} (h : minMaxMean a b μ = .ok (L, R))
    {ι : Type*} [Fintype ι] (w x : ι → ℚ) (hw : IsLaw w) (ha : ∀ i, a ≤ x i) (hb : ∀ i, x i ≤ b)
    (hμ : mean w x = μ)
    (k : Nat) (hk : k < 200) (p q : ℚ) (hp0 : lvL k < p) (hp1 : p < lvR k) (hq : IsQuantile w x p q) :
    ∃ A B, L[k]? = some A ∧ R[k]? = some B ∧ A ≤ q ∧ q ≤ B := by
  unfold minMaxMean at h
  split at h
  · cases h
  · simp only at h
    split at h
    · rename_i l r hl hr
      have hp : 0 < p := lt_of_le_of_lt (lvL_nonneg k) hp0
      have hR1 : lvR k ≤ 1 := by
        unfold lvR; have : (k : Rat) + 1 ≤ 200 := by exact_mod_cast hk
        rw [div_le_one (by norm_num)]; exact this
      have hp' : p < 1 := by linarith
      have hrange : (List.range 200)[k]? = some k := by simp [hk]
      obtain ⟨vl, hvl, hlk⟩ := mapM_ok_get _ _ _ hl k k hrange
      obtain ⟨vr, hvr, hrk⟩ := mapM_ok_get _ _ _ hr k k hrange
      obtain ⟨A, B, hA, hB, hAa, hbB⟩ := staircase_elementwise_widen h hlk hrk
      have hqa : a ≤ q := quantile_ge_min w x a p q ha hp hq.2
      have hqb : q ≤ b := quantile_le_max w x hw.2 b p q hb hp' hq.1
      have haμ : a ≤ μ := hμ ▸ mean_ge_min w x hw a ha
      have hμb : μ ≤ b := by
        have := mean_ge_min w (fun i => - x i) hw (-b) (fun i => by simp; exact hb i)
        have e : mean w (fun i => - x i) = - mean w x := by
          unfold mean; rw [← Finset.sum_neg_distrib]; apply Finset.sum_congr rfl; intro i _; ring
        rw [e, hμ] at this; linarith
      refine ⟨A, B, hA, hB, le_trans hAa ?_, le_trans ?_ hbB⟩
      · -- left value
        unfold mmmLeftAt at hvl
        simp only at hvl
        split at hvl
        · cases hvl; exact hqa
        · split at hvl
          · cases hvl
          · rename_i hi0
            cases hvl
            have hipos : 0 < lvL k := lt_of_le_of_ne (lvL_nonneg k) (Ne.symm hi0)
            have hml := markov_quantile_lower w x hw.1 hw.2 b μ p q hb hμ hp hq.2
            have : (b - μ) / p ≤ (b - μ) / lvL k :=
              div_le_div_of_nonneg_left (by linarith) hipos (le_of_lt hp0)
            have e : (μ - b) / lvL k + b = b - (b - μ) / lvL k := by ring
            rw [e]
            exact max_le hqa (by linarith)
      · -- right value
        unfold mmmRightAt at hvr
        simp only at hvr
        split at hvr
        · cases hvr; exact hqb
        · split at hvr
          · cases hvr
          · rename_i hj1
            cases hvr
            have hjlt : lvR k < 1 := lt_of_le_of_ne hR1 (fun he => hj1 (by rw [he]; ring))
            have hm := markov_quantile w x hw.1 hw.2 a μ p q ha hμ hp' hq.1
            have := markovR_mono a μ p (lvR k) haμ (le_of_lt hp1) hjlt
            unfold markovR at this
            exact le_min hqb (by linarith)
    · cases h
    · cases h

/-- the mid-point switch selects the larger of the two lower bounds: for `0 < i`,
`i ≤ mid ↔ b - (b-μ)/i ≤ a` -/
theorem mmm_switch (a b μ i : ℚ) (hab : a < b) (hi : 0 < i) :
    i ≤ (b - μ) / (b - a) ↔ (μ - b) / i + b ≤ a := by
  have hba : 0 < b - a := by linarith
  rw [le_div_iff₀ hba]
  have e : (μ - b) / i + b ≤ a ↔ (μ - b) / i ≤ a - b := by constructor <;> intro h <;> linarith
  rw [e, div_le_iff₀ hi]
  constructor <;> intro h <;> nlinarith

/-! ## min_max_median -/

/-- ★ median: every law on `[a,b]` having `med` as a median is enclosed at every step -/
theorem minMaxMedian_encloses (a b med : ℚ) (hab : a ≠ b) {L R : List ℚ} (h : minMaxMedian a b med = .ok (L, R))
    {ι : Type*} [Fintype ι] (w x : ι → ℚ) (hw : IsLaw w) (ha : ∀ i, a ≤ x i) (hb : ∀ i, x i ≤ b)
    (hmed : IsQuantile w x (1 / 2) med)
    (k : Nat) (hk : k < 200) (p q : ℚ) (hp0 : lvL k < p) (hp1 : p < lvR k) (hq : IsQuantile w x p q) :
    ∃ A B, L[k]? = some A ∧ R[k]? = some B ∧ A ≤ q ∧ q ≤ B := by
  unfold minMaxMedian at h
  rw [if_neg hab] at h
  split at h
  · cases h
  · have hp : 0 < p := lt_of_le_of_lt (lvL_nonneg k) hp0
    have hR1 : lvR k ≤ 1 := by
      unfold lvR; have : (k : Rat) + 1 ≤ 200 := by exact_mod_cast hk
      rw [div_le_one (by norm_num)]; exact this
    have hp' : p < 1 := by linarith
    have hqa : a ≤ q := quantile_ge_min w x a p q ha hp hq.2
    have hqb : q ≤ b := quantile_le_max w x hw.2 b p q hb hp' hq.1
    by_cases hk1 : k < 100
    · have hl : (medianLeft a med)[k]? = some a := by
        unfold medianLeft; rw [List.getElem?_append_left (by simp [hk1])]; exact replicate_get a hk1
      have hr : (medianRight b med)[k]? = some med := by
        unfold medianRight; rw [List.getElem?_append_left (by simp [hk1])]; exact replicate_get med hk1
      obtain ⟨A, B, hA, hB, hAa, hbB⟩ := staircase_elementwise_widen h hl hr
      have : p < 1 / 2 := by
        have : lvR k ≤ 1 / 2 := by
          unfold lvR; have : (k : Rat) + 1 ≤ 100 := by exact_mod_cast hk1
          rw [div_le_iff₀ (by norm_num)]; linarith
        linarith
      exact ⟨A, B, hA, hB, le_trans hAa hqa, le_trans (median_upper w x hw.1 med p q hmed.2 this hq.1) hbB⟩
    · have hk2 : 100 ≤ k := by omega
      have hl : (medianLeft a med)[k]? = some med := by
        unfold medianLeft; rw [List.getElem?_append_right (by simp [hk2])]
        simp only [List.length_replicate]; exact replicate_get med (by omega)
      have hr : (medianRight b med)[k]? = some b := by
        unfold medianRight; rw [List.getElem?_append_right (by simp [hk2])]
        simp only [List.length_replicate]; exact replicate_get b (by omega)
      obtain ⟨A, B, hA, hB, hAa, hbB⟩ := staircase_elementwise_widen h hl hr
      have : 1 / 2 < p := by
        have : (1 : ℚ) / 2 ≤ lvL k := by
          unfold lvL; have : (100 : ℚ) ≤ k := by exact_mod_cast hk2
          rw [le_div_iff₀ (by norm_num)]; linarith
        linarith
      exact ⟨A, B, hA, hB, le_trans hAa (median_lower w x hw.1 med p q hmed.1 this hq.2), le_trans hqb hbB⟩


/-! ## sharpness: the extremal two-point laws reach the bounds one step further out -/

/-- ★ the Markov two-point law `{m : (k+1)/200, right[k] : rest}` meets the constraints of `min_mean(m, μ)` and has
`right[k]` as its quantile at every level of the next step (and beyond): the right bound is within one
probability step of an admissible law -/
theorem minMean_right_attained (m μ : ℚ) (hmμ : m ≤ μ) (k : Nat) (hk : k < 199) :
    ∃ w x : Bool → ℚ, IsLaw w ∧ (∀ b, m ≤ x b) ∧ mean w x = μ ∧
      (minMeanRight m μ)[k]? = some (x true) ∧ ∀ p, lvR k ≤ p → p ≤ 1 → IsQuantile w x p (x true) := by
  obtain ⟨h1, h2, h3, h4⟩ := markov_two_point m μ (lvR k) hmμ (le_of_lt (lvR_pos k)) (lvR_lt_one hk)
  refine ⟨w2 (lvR k), x2 m (m + (μ - m) / (1 - lvR k)), h1, h3, h2, ?_, ?_⟩
  · unfold minMeanRight; rw [range_map_get _ hk]; simp [x2, markovR, add_comm]
  · intro p hp0 hp1; simpa [x2] using h4 p hp0 hp1

/-- ★ the Cantelli two-point law reaches `left[k]` of `mean_std` at every level up to `k/200`, whenever the
supplied value is an exact root at that level -/
theorem meanStd_left_attained (tL : Nat → ℚ) (μ σ : ℚ) (hσ : 0 ≤ σ) (k : Nat) (hk1 : 1 ≤ k) (hk : k < 199)
    (ht : 0 ≤ tL k ∧ tL k * tL k = 1 / lvI k - 1) :
    ∃ w x : Bool → ℚ, IsLaw w ∧ mean w x = μ ∧ var w x = σ ^ 2 ∧
      (meanStdLeft tL μ σ)[k]? = some (x false) ∧ ∀ p, 0 ≤ p → p ≤ lvL k → IsQuantile w x p (x false) := by
  have hI : lvI k = lvL k := by unfold lvI lvL; rw [if_neg (by omega)]
  have hpos : 0 < lvL k := by
    unfold lvL; have : (0 : ℚ) < k := by exact_mod_cast hk1
    positivity
  have hlt : lvL k < 1 := by
    unfold lvL; have : (k : ℚ) < 199 := by exact_mod_cast hk
    rw [div_lt_one (by norm_num)]; linarith
  rw [hI] at ht
  have htpos : 0 < tL k := by
    rcases eq_or_lt_of_le ht.1 with he | h
    · exfalso
      have h2 := ht.2
      rw [← he] at h2
      have : 1 < 1 / lvL k := by rw [lt_div_iff₀ hpos]; linarith
      linarith
    · exact h
  obtain ⟨h1, h2, h3, h4⟩ := cantelli_two_point μ σ (tL k) (lvL k) hσ htpos ht.2 hpos hlt
  refine ⟨w2 (lvL k), x2 (μ - σ * tL k) (μ + σ / tL k), h1, h2, h3, ?_, ?_⟩
  · unfold meanStdLeft; rw [range_map_get _ hk]; simp [x2]
  · intro p hp0 hp1; simpa [x2] using h4 p hp0 hp1

/-! ## known_properties: the dispatcher table -/

def keysOf (fam mx me md mn mo sd vr : Bool) : List Key :=
  (if fam then [Key.family] else []) ++ (if mx then [Key.maximum] else []) ++ (if me then [Key.mean] else []) ++
  (if md then [Key.median] else []) ++ (if mn then [Key.minimum] else []) ++ (if mo then [Key.mode] else []) ++
  (if sd then [Key.std] else []) ++ (if vr then [Key.var] else [])

theorem presentKeys_eq (A : Args) : presentKeys A =
    keysOf A.family A.maximum.isSome A.mean.isSome A.median.isSome A.minimum.isSome A.mode.isSome A.std.isSome
      A.var.isSome := rfl

/-- the property's table as a function of the *set* of supplied constraints (family absent): the ten named
combinations and nothing else build a distribution-free p-box -/
def tableSpec (mx me md mn mo sd vr : Bool) : Handler :=
  match mx, me, md, mn, mo, sd, vr with
  | true, false, false, true, false, false, false => .minMax
  | false, true, false, true, false, false, false => .minMean
  | true, true, false, false, false, false, false => .maxMean
  | false, true, false, false, false, true, false => .meanStd
  | false, true, false, false, false, false, true => .meanVar
  | true, true, false, true, false, false, false => .minMaxMean
  | true, false, false, true, true, false, false => .minMaxMode
  | true, false, true, true, false, false, false => .minMaxMedian
  | true, true, false, true, false, true, false => .minMaxMeanStd
  | true, true, false, true, false, false, true => .minMaxMeanVar
  | _, _, _, _, _, _, _ => .default

/-- ★ all 128 subsets of the numeric constraints are routed as the table says -/
theorem dispatcher_table : ∀ mx me md mn mo sd vr : Bool,
    route (keysOf false mx me md mn mo sd vr) = tableSpec mx me md mn mo sd vr := by decide

/-- with `family=` no combination reaches a distribution-free constructor (it is handed to the parametric
parsers, raises `TypeError` for ("family","maximum","minimum"), or is unsupported) -/
theorem dispatcher_family : ∀ mx me md mn mo sd vr : Bool,
    route (keysOf true mx me md mn mo sd vr) ∈
      [Handler.parseMoments, Handler.truncParseMoments, Handler.minMaxWithFamily, Handler.default] := by decide

/-- each value reaches the parameter of the same name -/
theorem knownProperties_minMean (S : Sup) (a μ : ℚ) :
    knownProperties S { minimum := some a, mean := some μ } = (minMean a μ).map Out.pbox := rfl
theorem knownProperties_maxMean (S : Sup) (b μ : ℚ) :
    knownProperties S { maximum := some b, mean := some μ } = (maxMean b μ).map Out.pbox := rfl
theorem knownProperties_minMax (S : Sup) (a b : ℚ) :
    knownProperties S { minimum := some a, maximum := some b } = (minMax a b).map Out.pbox := rfl
theorem knownProperties_meanStd (S : Sup) (μ σ : ℚ) :
    knownProperties S { mean := some μ, std := some σ } = (meanStd S.tL S.tR μ σ).map Out.pbox := rfl
theorem knownProperties_meanVar (S : Sup) (μ v : ℚ) :
    knownProperties S { mean := some μ, var := some v } = (meanVar S.tL S.tR μ v S.sv).map Out.pbox := rfl
theorem knownProperties_minMaxMean (S : Sup) (a b μ : ℚ) :
    knownProperties S { minimum := some a, maximum := some b, mean := some μ } = (minMaxMean a b μ).map Out.pbox := rfl
theorem knownProperties_minMaxMode (S : Sup) (a b M : ℚ) :
    knownProperties S { minimum := some a, maximum := some b, mode := some M } = (minMaxMode a b M).map Out.pbox := rfl
theorem knownProperties_minMaxMedian (S : Sup) (a b M : ℚ) :
    knownProperties S { minimum := some a, maximum := some b, median := some M } = (minMaxMedian a b M).map Out.pbox := rfl
theorem knownProperties_minMaxMeanStd (S : Sup) (a b μ σ : ℚ) :
    knownProperties S { minimum := some a, maximum := some b, mean := some μ, std := some σ } =
      (minMaxMeanStd S.roots a b μ σ).map Out.pbox := rfl
theorem knownProperties_minMaxMeanVar (S : Sup) (a b μ v : ℚ) :
    knownProperties S { minimum := some a, maximum := some b, mean := some μ, var := some v } =
      (minMaxMeanVar S.roots a b μ v S.sv).map Out.pbox := rfl

/-! ## min_max_mode: every unimodal law (distribution function convex below the mode, concave above it) -/

/-- full statement (proved below, `modeStatement_holds`): every law on `[a,b]` whose distribution function is convex
below the mode `M` and concave above it has its quantiles inside the bounds.  `F` is the distribution function,
`q` a `p`-quantile iff `F y ≤ p` for all `y < q` and `p ≤ F q`. -/
def ModeStatement : Prop :=
  ∀ (a b M : ℚ) (L R : List ℚ), a < b → a ≤ M → M ≤ b → minMaxMode a b M = .ok (L, R) →
  ∀ F : ℚ → ℚ, Monotone F → (∀ x, x < a → F x = 0) → (∀ x, b ≤ x → F x = 1) →
    (∀ x y t, x < M → y < M → 0 ≤ t → t ≤ 1 → F (t * x + (1 - t) * y) ≤ t * F x + (1 - t) * F y) →
    (∀ x y t, M < x → M < y → 0 ≤ t → t ≤ 1 → t * F x + (1 - t) * F y ≤ F (t * x + (1 - t) * y)) →
  ∀ (k : Nat) (p q : ℚ), k < 200 → lvL k < p → p < lvR k → (∀ y, y < q → F y ≤ p) → p ≤ F q →
    ∃ A B, L[k]? = some A ∧ R[k]? = some B ∧ A ≤ q ∧ q ≤ B

/-- shape, and sharpness: the p-box contains the quantile functions `a + p (M-a)` and `M + p (b-M)` of the two extremal
unimodal laws (uniform on `[a,M]` and on `[M,b]`) at every level inside each step, with equality at the step's
own level (so the bounds are attained) -/
theorem minMaxMode_uniforms (a b M : ℚ) (hab : a < b) (haM : a ≤ M) (hMb : M ≤ b) {L R : List ℚ}
    (h : minMaxMode a b M = .ok (L, R)) (k : Nat) (hk : k < 200) (p : ℚ) (hp0 : lvL k < p) (hp1 : p < lvR k) :
    ∃ A B, L[k]? = some A ∧ R[k]? = some B ∧
      A ≤ a + p * (M - a) ∧ a + p * (M - a) ≤ B ∧ A ≤ M + p * (b - M) ∧ M + p * (b - M) ≤ B ∧
      A ≤ a + lvL k * (M - a) ∧ M + lvR k * (b - M) ≤ B := by
  unfold minMaxMode at h
  rw [if_neg (ne_of_lt hab), if_neg (not_lt.mpr (le_of_lt hab))] at h
  obtain ⟨A, B, hA, hB, hAa, hbB⟩ := staircase_elementwise_widen h
    (k := k) (a := lvL k * (M - a) + a) (b := lvR k * (b - M) + M)
    (by unfold modeLeft; exact range_map_get _ hk) (by unfold modeRight; exact range_map_get _ hk)
  have hl0 := lvL_nonneg k
  have hR1 : lvR k ≤ 1 := by
    unfold lvR; have : (k : Rat) + 1 ≤ 200 := by exact_mod_cast hk
    rw [div_le_one (by norm_num)]; exact this
  have h1 : 0 ≤ M - a := by linarith
  have h2 : 0 ≤ b - M := by linarith
  refine ⟨A, B, hA, hB, ?_, ?_, ?_, ?_, ?_, ?_⟩ <;> nlinarith

/-- a distribution function that is convex below `M` and vanishes below `a` lies under the chord of the uniform law
on `[a,M]`: `p ≤ F q` forces `p (M-a) ≤ q-a` -/
theorem unimodal_left (a b M : ℚ) (hab : a < b) (haM : a ≤ M) (hMb : M ≤ b) (F : ℚ → ℚ) (hmono : Monotone F)
    (hF0 : ∀ x, x < a → F x = 0) (hF1 : ∀ x, b ≤ x → F x = 1)
    (hcvx : ∀ x y t, x < M → y < M → 0 ≤ t → t ≤ 1 → F (t * x + (1 - t) * y) ≤ t * F x + (1 - t) * F y)
    (p q : ℚ) (hp0 : 0 < p) (hp1 : p ≤ 1) (hq : p ≤ F q) : p * (M - a) ≤ q - a := by
  by_cases hqM : M ≤ q
  · nlinarith
  · have hqM' : q < M := not_le.mp hqM
    have hqa : a ≤ q := by
      by_contra hc
      rw [hF0 q (not_le.mp hc)] at hq; linarith
    have hMa : 0 < M - a := by linarith
    by_contra hlt
    have hδ : 0 < p * (M - a) - (q - a) := by linarith [not_le.mp hlt]
    set ε := min (p * (M - a) - (q - a)) (M - q) / 2 with hε
    have hε0 : 0 < ε := by rw [hε]; have := lt_min hδ (by linarith : 0 < M - q); linarith
    have hε1 : ε < p * (M - a) - (q - a) := by
      rw [hε]; have := min_le_left (p * (M - a) - (q - a)) (M - q); linarith [lt_min hδ (by linarith : 0 < M - q)]
    have hε2 : ε < M - q := by
      rw [hε]; have := min_le_right (p * (M - a) - (q - a)) (M - q); linarith [lt_min hδ (by linarith : 0 < M - q)]
    have ht0 : 0 ≤ (M - ε - q) / (M - a) := div_nonneg (by linarith) (le_of_lt hMa)
    have ht1 : (M - ε - q) / (M - a) ≤ 1 := by rw [div_le_one hMa]; linarith
    have hc := hcvx (a - ε) (M - ε) ((M - ε - q) / (M - a)) (by linarith) (by linarith) ht0 ht1
    have e : (M - ε - q) / (M - a) * (a - ε) + (1 - (M - ε - q) / (M - a)) * (M - ε) = q := by
      field_simp; ring
    rw [e, hF0 (a - ε) (by linarith)] at hc
    have hFy : F (M - ε) ≤ 1 := by rw [← hF1 b le_rfl]; exact hmono (by linarith)
    have h1t : 0 ≤ 1 - (M - ε - q) / (M - a) := by linarith
    have : F q ≤ 1 - (M - ε - q) / (M - a) := by
      calc F q ≤ (M - ε - q) / (M - a) * 0 + (1 - (M - ε - q) / (M - a)) * F (M - ε) := hc
        _ ≤ (1 - (M - ε - q) / (M - a)) * 1 := by nlinarith
        _ = 1 - (M - ε - q) / (M - a) := by ring
    have e2 : 1 - (M - ε - q) / (M - a) = (q - a + ε) / (M - a) := by field_simp; ring
    rw [e2] at this
    have : p ≤ (q - a + ε) / (M - a) := le_trans hq this
    rw [le_div_iff₀ hMa] at this
    linarith

/-- mirror image above the mode: `F y ≤ p` for all `y < q` forces `q - M ≤ p (b-M)` -/
theorem unimodal_right (a b M : ℚ) (hab : a < b) (haM : a ≤ M) (hMb : M ≤ b) (F : ℚ → ℚ) (hmono : Monotone F)
    (hF0 : ∀ x, x < a → F x = 0) (hF1 : ∀ x, b ≤ x → F x = 1)
    (hccv : ∀ x y t, M < x → M < y → 0 ≤ t → t ≤ 1 → t * F x + (1 - t) * F y ≤ F (t * x + (1 - t) * y))
    (p q : ℚ) (hp0 : 0 ≤ p) (hp1 : p < 1) (hq : ∀ y, y < q → F y ≤ p) : q - M ≤ p * (b - M) := by
  by_cases hqM : q ≤ M
  · nlinarith
  · have hqM' : M < q := not_le.mp hqM
    have hqb : q ≤ b := by
      by_contra hc
      have := hq b (not_le.mp hc)
      rw [hF1 b le_rfl] at this; linarith
    have hbM : 0 < b - M := by linarith
    by_contra hlt
    have hδ : 0 < (q - M) - p * (b - M) := by linarith [not_le.mp hlt]
    set ε := min ((q - M) - p * (b - M)) (q - M) / 4 with hε
    have hm := lt_min hδ (by linarith : 0 < q - M)
    have hε0 : 0 < ε := by rw [hε]; linarith
    have hε1 : 2 * ε < (q - M) - p * (b - M) := by
      rw [hε]; have := min_le_left ((q - M) - p * (b - M)) (q - M); linarith
    have hε2 : 2 * ε < q - M := by
      rw [hε]; have := min_le_right ((q - M) - p * (b - M)) (q - M); linarith
    have ht0 : 0 ≤ (b + 2 * ε - q) / (b - M) := div_nonneg (by linarith) (le_of_lt hbM)
    have ht1 : (b + 2 * ε - q) / (b - M) ≤ 1 := by rw [div_le_one hbM]; linarith
    have hc := hccv (M + ε) (b + ε) ((b + 2 * ε - q) / (b - M)) (by linarith) (by linarith) ht0 ht1
    have e : (b + 2 * ε - q) / (b - M) * (M + ε) + (1 - (b + 2 * ε - q) / (b - M)) * (b + ε) = q - ε := by
      field_simp; ring
    rw [e, hF1 (b + ε) (by linarith)] at hc
    have hFx : 0 ≤ F (M + ε) := by rw [← hF0 (a - 1) (by linarith)]; exact hmono (by linarith)
    have hle := hq (q - ε) (by linarith)
    have h1 : 1 - (b + 2 * ε - q) / (b - M) ≤ p := by nlinarith
    have e2 : 1 - (b + 2 * ε - q) / (b - M) = (q - M - 2 * ε) / (b - M) := by field_simp; ring
    rw [e2, div_le_iff₀ hbM] at h1
    linarith

/-- ★ `min_max_mode`: every law on `[a,b]` that is unimodal about `M` (distribution function convex below the mode
and concave above it — Khinchin's definition, which covers every mixture of uniforms with one end at `M` and an
atom at `M`) has its quantiles inside the bounds at every step -/
theorem modeStatement_holds : ModeStatement := by
  intro a b M L R hab haM hMb h F hmono hF0 hF1 hcvx hccv k p q hk hp0 hp1 hqlo hqhi
  have hl0 := lvL_nonneg k
  have hR1 : lvR k ≤ 1 := by
    unfold lvR; have : (k : Rat) + 1 ≤ 200 := by exact_mod_cast hk
    rw [div_le_one (by norm_num)]; exact this
  have hp : 0 < p := by linarith
  have hp' : p < 1 := by linarith
  obtain ⟨A, B, hA, hB, -, -, -, -, hAl, hBr⟩ :=
    minMaxMode_uniforms a b M hab haM hMb h k hk p hp0 hp1
  have h1 := unimodal_left a b M hab haM hMb F hmono hF0 hF1 hcvx p q hp (le_of_lt hp') hqhi
  have h2 := unimodal_right a b M hab haM hMb F hmono hF0 hF1 hccv p q (le_of_lt hp) hp' hqlo
  refine ⟨A, B, hA, hB, le_trans hAl ?_, le_trans ?_ hBr⟩
  · have : lvL k * (M - a) ≤ p * (M - a) := mul_le_mul_of_nonneg_right (le_of_lt hp0) (by linarith)
    linarith
  · have : p * (b - M) ≤ lvR k * (b - M) := mul_le_mul_of_nonneg_right (le_of_lt hp1) (by linarith)
    linarith


/-! ## min_max_mean_std: every component of the recurrence is a classical bound

On the unit scale `Y = (X-min)/(max-min)`, mean `m`, variance `s²`, level `p`:
* `x2 = m ∓ s√(1/p-1)` — Cantelli (one-sided Chebyshev);
* `x6 = 1-(1-m)/p`, resp. `m/(1-p)` — Markov at the far end of the range;
* `x3 = g(x4)`, `g(t) = (p+s²+t²-1)/(t+p-1)` — the second-moment bound: on `[0,1]`, `y(y-q) ≤ (1-q)·1{y>q}`, so
  `E[Y²] - q m ≤ (1-q)(1-p)`, i.e. `q ≥ g(m)`; the code evaluates `g` at `x4 = max(m, 1-p+√x5)`, the minimiser of
  `g` on `(1-p, ∞)` clamped to `≥ m`, where `g(x4) ≤ g(m)`: a valid (weaker) bound.  Right side: mirror image.
All three are valid; so are the clamps to `[0,1]` and the running max / min of the repair. -/

/-- what enclosure needs of the supplied roots of `min_max_mean_std`: the Cantelli roots may be rounded up,
the root of `x5` may be rounded down (each in the direction that keeps the component a valid bound) -/
structure RootsOK (Rt : Roots) (sl : ℚ) : Prop where
  t1 : ∀ k, 1 ≤ k → k < 200 → 0 ≤ Rt.t1 k ∧ 1 / lvL k - 1 ≤ Rt.t1 k * Rt.t1 k
  t2 : ∀ k, 1 ≤ k → k < 200 → 0 ≤ Rt.t2 k ∧ 1 / (1 / lvL k - 1) ≤ Rt.t2 k * Rt.t2 k
  s5 : ∀ k, k ≤ 200 → 0 ≤ x5At sl k → 0 ≤ Rt.s5 k ∧ Rt.s5 k * Rt.s5 k ≤ x5At sl k

theorem lvL_pos_iff {j : Nat} : 0 < lvL j ↔ 1 ≤ j := by
  unfold lvL
  constructor
  · intro h
    by_contra hc
    have : j = 0 := by omega
    subst this; simp at h
  · intro h
    have : (0 : ℚ) < j := by exact_mod_cast h
    positivity

theorem lvL_succ (i : Nat) : lvL (i + 1) = lvR i := by
  unfold lvL lvR; push_cast; ring

/-- `x3`, left: the second-moment bound at the upper end of the range, evaluated at any `u ∈ [m, 1-p+√x5]` -/
theorem x3_left_le {ι : Type*} [Fintype ι] (w y : ι → ℚ) (hw : IsLaw w) (h0 : ∀ i, 0 ≤ y i) (h1 : ∀ i, y i ≤ 1)
    (m s p q u : ℚ) (hm : ∑ i, w i * y i = m) (hV : ∑ i, w i * (y i - m) ^ 2 = s ^ 2)
    (hq0 : 0 ≤ q) (hq1 : q ≤ 1) (hℓ : p ≤ atMost w y q) (hmp : 1 < m + p)
    (hu : u = m ∨ (m ≤ u ∧ (u - (1 - p)) ^ 2 ≤ p * p + s * s - p)) :
    (p + s * s + u * u - 1) / (u + p - 1) ≤ q := by
  have hE := second_moment w y hw.2 m (s ^ 2) hm hV
  have hsm := second_moment_lower w y hw.1 hw.2 h0 h1 q p hq0 hq1 hℓ
  rw [hE, hm] at hsm
  have hmd : 0 < m - (1 - p) := by linarith
  have hgm : ((p + s ^ 2 - 1) + m ^ 2) / (m - (1 - p)) ≤ q := by
    rw [div_le_iff₀ hmd]; nlinarith
  rcases hu with hu | ⟨hmu, hr⟩
  · subst hu
    have e : (p + s * s + u * u - 1) / (u + p - 1) = ((p + s ^ 2 - 1) + u ^ 2) / (u - (1 - p)) := by
      congr 1 <;> ring
    rw [e]; exact hgm
  · have e : (p + s * s + u * u - 1) / (u + p - 1) = ((p + s ^ 2 - 1) + u ^ 2) / (u - (1 - p)) := by
      congr 1 <;> ring
    rw [e]
    refine le_trans (ratio_antitone (p + s ^ 2 - 1) (1 - p) m u (by linarith) hmu ?_) hgm
    have : p + s ^ 2 - 1 + (1 - p) ^ 2 = p * p + s * s - p := by ring
    rw [this]; exact hr

/-- `x3`, right: mirror image -/
theorem x3_right_ge {ι : Type*} [Fintype ι] (w y : ι → ℚ) (hw : IsLaw w) (h0 : ∀ i, 0 ≤ y i) (h1 : ∀ i, y i ≤ 1)
    (m s p q u : ℚ) (hm : ∑ i, w i * y i = m) (hV : ∑ i, w i * (y i - m) ^ 2 = s ^ 2)
    (hq0 : 0 ≤ q) (hq1 : q ≤ 1) (hℓ : below w y q ≤ p) (hmp : m + p < 1)
    (hu : u = m ∨ (u ≤ m ∧ ((1 - p) - u) ^ 2 ≤ p * p + s * s - p)) :
    q ≤ (p + s * s + u * u - 1) / (u + p - 1) - 1 := by
  have hE := second_moment w y hw.2 m (s ^ 2) hm hV
  have hsm := second_moment_upper w y hw.1 hw.2 h0 h1 q p hq0 hq1 hℓ
  rw [hE, hm] at hsm
  have hmd : 0 < (1 - p) - m := by linarith
  have hgm : q ≤ ((p + s ^ 2 - 1) + m ^ 2) / (m - (1 - p)) - 1 := by
    have e : ((p + s ^ 2 - 1) + m ^ 2) / (m - (1 - p)) - 1 = (m - (s ^ 2 + m ^ 2)) / ((1 - p) - m) := by
      have h1 : m - (1 - p) ≠ 0 := by linarith
      have h2 : (1 - p) - m ≠ 0 := by linarith
      field_simp; ring
    rw [e, le_div_iff₀ hmd]; nlinarith
  have e : (p + s * s + u * u - 1) / (u + p - 1) = ((p + s ^ 2 - 1) + u ^ 2) / (u - (1 - p)) := by
    congr 1 <;> ring
  rw [e]
  rcases hu with hu | ⟨hum, hr⟩
  · subst hu; exact hgm
  · refine le_trans hgm (sub_le_sub_right (ratio_antitone' (p + s ^ 2 - 1) (1 - p) m u (by linarith) hum ?_) 1)
    have : p + s ^ 2 - 1 + (1 - p) ^ 2 = p * p + s * s - p := by ring
    rw [this]; exact hr

/-- every component of the left recurrence is a lower bound of every quantile above level `j/200`:
`x2` Cantelli, `x6` Markov at the upper end of the range, `x3` the second-moment bound -/
theorem mmmsLeftUnit_le (Rt : Roots) (m s : ℚ) (hs : 0 ≤ s) (hR : RootsOK Rt s)
    {ι : Type*} [Fintype ι] (w y : ι → ℚ) (hw : IsLaw w) (h0 : ∀ i, 0 ≤ y i) (h1 : ∀ i, y i ≤ 1)
    (hm : ∑ i, w i * y i = m) (hV : ∑ i, w i * (y i - m) ^ 2 = s ^ 2)
    (j : Nat) (hj : j < 200) (q : ℚ) (hq0 : 0 ≤ q) (hq1 : q ≤ 1) (hℓ : lvL j ≤ atMost w y q) :
    mmmsLeftUnit Rt m s s j ≤ q := by
  unfold mmmsLeftUnit
  dsimp only
  apply min_le_of_left_le
  refine max_le (max_le (max_le ?_ ?_) ?_) hq0
  · -- x2: Cantelli
    split_ifs with hp
    · exact hq0
    · have hp' : 0 < lvL j := not_le.mp hp
      obtain ⟨ht0, ht1⟩ := hR.t1 j (lvL_pos_iff.mp hp') hj
      exact cantelli_left_bound w y hw.1 hw.2 m s (Rt.t1 j) (lvL j) (lvL j) q hm hV hs ht0 ht1 hp' le_rfl hℓ
  · -- x3: second-moment bound
    by_cases hmp : m + lvL j ≤ 1
    · rw [if_pos hmp]; exact hq0
    · rw [if_neg hmp]
      apply x3_left_le w y hw h0 h1 m s (lvL j) q _ hm hV hq0 hq1 hℓ (not_le.mp hmp)
      by_cases h5 : x5At s j ≥ 0
      · rw [if_pos h5]
        obtain ⟨hs0, hs1⟩ := hR.s5 j (le_of_lt hj) h5
        by_cases hlt : 1 - lvL j + Rt.s5 j < m
        · rw [if_pos hlt]; exact Or.inl rfl
        · rw [if_neg hlt]
          right
          refine ⟨not_lt.mp hlt, ?_⟩
          have : (1 - lvL j + Rt.s5 j - (1 - lvL j)) ^ 2 = Rt.s5 j * Rt.s5 j := by ring
          rw [this]; unfold x5At at hs1; exact hs1
      · rw [if_neg h5]; exact Or.inl rfl
  · -- x6: Markov at the upper end
    split_ifs with hp
    · exact hq0
    · rw [not_or] at hp
      have hp' : 0 < lvL j := not_le.mp hp.1
      have := markov_quantile_lower w y hw.1 hw.2 1 m (lvL j) q h1 hm hp' hℓ
      have e : (m - 1) / lvL j + 1 = 1 - (1 - m) / lvL j := by ring
      rw [e]; exact this

/-- every component of the right recurrence is an upper bound of every quantile below level `(i+1)/200` -/
theorem mmmsRightUnit_ge (Rt : Roots) (m s : ℚ) (hs : 0 ≤ s) (hR : RootsOK Rt s)
    {ι : Type*} [Fintype ι] (w y : ι → ℚ) (hw : IsLaw w) (h0 : ∀ i, 0 ≤ y i) (h1 : ∀ i, y i ≤ 1)
    (hm : ∑ i, w i * y i = m) (hV : ∑ i, w i * (y i - m) ^ 2 = s ^ 2)
    (i : Nat) (hi : i < 200) (q : ℚ) (hq0 : 0 ≤ q) (hq1 : q ≤ 1) (hℓ : below w y q ≤ lvR i) :
    q ≤ mmmsRightUnit Rt m s s i := by
  unfold mmmsRightUnit
  dsimp only
  apply le_max_of_le_left
  refine le_min (le_min (le_min ?_ ?_) ?_) hq1
  · -- x2: Cantelli
    split_ifs with hp
    · exact hq1
    · have hp' : lvR i < 1 := not_le.mp hp
      have hi' : i + 1 < 200 := by
        unfold lvR at hp'
        rw [div_lt_one (by norm_num)] at hp'
        have : ((i + 1 : Nat) : ℚ) < 200 := by push_cast; linarith
        exact_mod_cast this
      obtain ⟨ht0, ht1⟩ := hR.t2 (i + 1) (by omega) hi'
      rw [lvL_succ] at ht1
      have hpos := lvR_pos i
      have e : 1 / (1 / lvR i - 1) = lvR i / (1 - lvR i) := by
        have h1 : lvR i ≠ 0 := ne_of_gt hpos
        have h2 : 1 - lvR i ≠ 0 := by linarith
        field_simp
      rw [e] at ht1
      exact cantelli_right_bound w y hw.1 hw.2 m s (Rt.t2 (i + 1)) (lvR i) (lvR i) q hm hV hs ht0 ht1 hp' le_rfl hℓ
  · -- x3
    by_cases hmp : m + lvR i ≥ 1
    · rw [if_pos hmp]; exact hq1
    · rw [if_neg hmp]
      apply x3_right_ge w y hw h0 h1 m s (lvR i) q _ hm hV hq0 hq1 hℓ (not_le.mp hmp)
      by_cases h5 : x5At s (i + 1) ≥ 0
      · rw [if_pos h5]
        obtain ⟨hs0, hs1⟩ := hR.s5 (i + 1) (by omega) h5
        by_cases hgt : 1 - lvR i - Rt.s5 (i + 1) > m
        · rw [if_pos hgt]; exact Or.inl rfl
        · rw [if_neg hgt]
          right
          refine ⟨not_lt.mp hgt, ?_⟩
          have : (1 - lvR i - (1 - lvR i - Rt.s5 (i + 1))) ^ 2 = Rt.s5 (i + 1) * Rt.s5 (i + 1) := by ring
          rw [this]; unfold x5At at hs1; rw [lvL_succ] at hs1; exact hs1
      · rw [if_neg h5]; exact Or.inl rfl
  · -- x6: Markov at the lower end
    split_ifs with hp
    · exact hq1
    · rw [not_or] at hp
      have hp' : lvR i < 1 := not_le.mp hp.2
      have := markov_quantile w y hw.1 hw.2 0 m (lvR i) q h0 hm hp' hℓ
      simpa using this


/-! ### the running maximum / minimum return values that were already there -/

theorem cummaxFrom_length : ∀ (xs : List ℚ) (m : ℚ), (cummaxFrom m xs).length = xs.length
  | [], _ => rfl
  | y :: ys, m => by simp [cummaxFrom, cummaxFrom_length ys]

theorem cummax_length (l : List ℚ) : (cummax l).length = l.length := by
  cases l with
  | nil => rfl
  | cons y ys => simp [cummax, cummaxFrom_length]

theorem cumminFrom_length : ∀ (xs : List ℚ) (m : ℚ), (cumminFrom m xs).length = xs.length
  | [], _ => rfl
  | y :: ys, m => by simp [cumminFrom, cumminFrom_length ys]

theorem cummaxFrom_mem : ∀ (xs : List ℚ) (m : ℚ) (k : Nat) (v : ℚ), (cummaxFrom m xs)[k]? = some v →
    v = m ∨ ∃ j, j ≤ k ∧ xs[j]? = some v
  | [], _, k, v, h => by simp [cummaxFrom] at h
  | y :: ys, m, 0, v, h => by
      simp [cummaxFrom] at h
      rcases max_choice m y with hc | hc
      · left; rw [← h, hc]
      · right; exact ⟨0, le_refl _, by simp [← h, hc]⟩
  | y :: ys, m, k + 1, v, h => by
      simp [cummaxFrom] at h
      rcases cummaxFrom_mem ys (max m y) k v h with hv | ⟨j, hj, hjv⟩
      · rcases max_choice m y with hc | hc
        · left; rw [hv, hc]
        · right; exact ⟨0, Nat.zero_le _, by simp [hv, hc]⟩
      · right; exact ⟨j + 1, by omega, by simpa using hjv⟩

/-- `np.maximum.accumulate`: the value at `k` is one of the raw values at an index `≤ k` -/
theorem cummax_mem (l : List ℚ) (k : Nat) (v : ℚ) (h : (cummax l)[k]? = some v) :
    ∃ j, j ≤ k ∧ l[j]? = some v := by
  cases l with
  | nil => simp [cummax] at h
  | cons y ys =>
    cases k with
    | zero => simp [cummax] at h; exact ⟨0, le_refl _, by simp [h]⟩
    | succ k =>
      simp [cummax] at h
      rcases cummaxFrom_mem ys y k v h with hv | ⟨j, hj, hjv⟩
      · exact ⟨0, Nat.zero_le _, by simp [hv]⟩
      · exact ⟨j + 1, by omega, by simpa using hjv⟩

theorem cumminFrom_mem : ∀ (xs : List ℚ) (m : ℚ) (k : Nat) (v : ℚ), (cumminFrom m xs)[k]? = some v →
    v = m ∨ ∃ j, j ≤ k ∧ xs[j]? = some v
  | [], _, k, v, h => by simp [cumminFrom] at h
  | y :: ys, m, 0, v, h => by
      simp [cumminFrom] at h
      rcases min_choice m y with hc | hc
      · left; rw [← h, hc]
      · right; exact ⟨0, le_refl _, by simp [← h, hc]⟩
  | y :: ys, m, k + 1, v, h => by
      simp [cumminFrom] at h
      rcases cumminFrom_mem ys (min m y) k v h with hv | ⟨j, hj, hjv⟩
      · rcases min_choice m y with hc | hc
        · left; rw [hv, hc]
        · right; exact ⟨0, Nat.zero_le _, by simp [hv, hc]⟩
      · right; exact ⟨j + 1, by omega, by simpa using hjv⟩

theorem cumminRev_length (l : List ℚ) : (cumminRev l).length = l.length := by
  unfold cumminRev
  cases hr : l.reverse with
  | nil => simp at hr; simp [hr]
  | cons x xs =>
    have : l.length = xs.length + 1 := by rw [← List.length_reverse, hr]; simp
    simp [cumminFrom_length, this]

/-- `np.minimum.accumulate(R[::-1])[::-1]`: the value at `k` is one of the raw values at an index `≥ k` -/
theorem cumminRev_mem (l : List ℚ) (k : Nat) (v : ℚ) (h : (cumminRev l)[k]? = some v) :
    ∃ j, k ≤ j ∧ l[j]? = some v := by
  unfold cumminRev at h
  cases hr : l.reverse with
  | nil => rw [hr] at h; simp at h
  | cons x xs =>
    rw [hr] at h
    simp only at h
    have hlen : l.length = xs.length + 1 := by rw [← List.length_reverse, hr]; simp
    have hclen : (x :: cumminFrom x xs).length = xs.length + 1 := by simp [cumminFrom_length]
    have hk : k < xs.length + 1 := by
      by_contra hc
      rw [List.getElem?_eq_none (by rw [List.length_reverse, hclen]; omega)] at h; cases h
    rw [List.getElem?_reverse (by rw [hclen]; exact hk), hclen] at h
    -- value at index n-1-k of x :: cumminFrom x xs is a raw value of the reversed list at an index ≤ n-1-k
    have key : ∃ j', j' ≤ xs.length + 1 - 1 - k ∧ (x :: xs)[j']? = some v := by
      cases hidx : xs.length + 1 - 1 - k with
      | zero => rw [hidx] at h; simp at h; exact ⟨0, le_refl _, by simp [h]⟩
      | succ n =>
        rw [hidx] at h; simp at h
        rcases cumminFrom_mem xs x n v h with hv | ⟨j, hj, hjv⟩
        · exact ⟨0, Nat.zero_le _, by simp [hv]⟩
        · exact ⟨j + 1, by omega, by simpa using hjv⟩
    obtain ⟨j', hj', hj'v⟩ := key
    have hj'lt : j' < l.reverse.length := by
      by_contra hc
      rw [← hr, List.getElem?_eq_none (by omega)] at hj'v; cases hj'v
    rw [← hr, List.getElem?_reverse (by simpa using hj'lt)] at hj'v
    refine ⟨l.length - 1 - j', ?_, hj'v⟩
    rw [hlen]; omega

theorem lvL_mono {j k : Nat} (h : j ≤ k) : lvL j ≤ lvL k := by
  unfold lvL
  have : (j : ℚ) ≤ k := by exact_mod_cast h
  exact div_le_div_of_nonneg_right this (by norm_num)

theorem lvR_mono {j k : Nat} (h : j ≤ k) : lvR j ≤ lvR k := by
  unfold lvR
  have : (j : ℚ) ≤ k := by exact_mod_cast h
  exact div_le_div_of_nonneg_right (by linarith) (by norm_num)

/-- ★ `min_max_mean_std` (as repaired): every law on `[a,b]` with mean `μ` and variance `σ²` has all its quantiles at
levels strictly inside step `k` between `left[k]` and `right[k]`, for every step.  Components: `x2` = Cantelli,
`x6` = Markov at the far end of the range, `x3` = the second-moment bound `E[Y(Y-q)] ≤ (1-q)P(Y>q)` on the unit
scale, weakened by evaluating `t ↦ (p+s²+t²-1)/(t+p-1)` at `max(m, 1-p+√x5)` instead of `m`; the clamps to `[0,1]`
and the running max/min keep validity because a quantile lies in the range and quantiles are monotone in the level. -/
theorem minMaxMeanStd_encloses (Rt : Roots) (a b μ σ : ℚ) (hab : a < b) (hR : RootsOK Rt (σ / (b - a)))
    (hσs : σ ≤ Rt.smax) {L R : List ℚ} (h : minMaxMeanStd Rt a b μ σ = .ok (L, R))
    {ι : Type*} [Fintype ι] (w x : ι → ℚ) (hw : IsLaw w) (ha : ∀ i, a ≤ x i) (hb : ∀ i, x i ≤ b)
    (hμ : mean w x = μ) (hV : var w x = σ ^ 2)
    (k : Nat) (hk : k < 200) (p q : ℚ) (hp0 : lvL k < p) (hp1 : p < lvR k) (hq : IsQuantile w x p q) :
    ∃ A B, L[k]? = some A ∧ R[k]? = some B ∧ A ≤ q ∧ q ≤ B := by
  unfold minMaxMeanStd at h
  rw [if_neg (ne_of_lt hab), if_neg (not_lt.mpr (le_of_lt hab))] at h
  split at h
  · cases h
  · split at h
    · cases h
    · rename_i hσg
      rw [not_or] at hσg
      have hσ : 0 ≤ σ := not_lt.mp hσg.1
      dsimp only at h
      rw [if_neg (not_lt.mpr hσs)] at h
      have hran : 0 < b - a := by linarith
      have hp : 0 < p := lt_of_le_of_lt (lvL_nonneg k) hp0
      have hR1 : lvR k ≤ 1 := by
        unfold lvR; have : (k : Rat) + 1 ≤ 200 := by exact_mod_cast hk
        rw [div_le_one (by norm_num)]; exact this
      have hp' : p < 1 := by linarith
      have hqa : a ≤ q := quantile_ge_min w x a p q ha hp hq.2
      have hqb : q ≤ b := quantile_le_max w x hw.2 b p q hb hp' hq.1
      -- the law on the unit scale
      set y : ι → ℚ := fun i => (x i - a) / (b - a) with hy
      have hy0 : ∀ i, 0 ≤ y i := fun i => div_nonneg (by linarith [ha i]) (le_of_lt hran)
      have hy1 : ∀ i, y i ≤ 1 := fun i => by rw [hy]; simp only; rw [div_le_one hran]; linarith [hb i]
      have hμ' : ∑ i, w i * x i = μ := hμ
      have hV' : ∑ i, w i * (x i - μ) ^ 2 = σ ^ 2 := by rw [← hμ]; exact hV
      have hym := mean_scale w x hw.2 a (b - a) μ hμ'
      have hyV := var_scale w x a (b - a) μ σ hV'
      have hs : 0 ≤ σ / (b - a) := div_nonneg hσ (le_of_lt hran)
      have hqY0 : 0 ≤ (q - a) / (b - a) := div_nonneg (by linarith) (le_of_lt hran)
      have hqY1 : (q - a) / (b - a) ≤ 1 := by rw [div_le_one hran]; linarith
      have hback : ∀ u : ℚ, u ≤ (q - a) / (b - a) → u * (b - a) + a ≤ q := by
        intro u hu
        have := mul_le_mul_of_nonneg_right hu (le_of_lt hran)
        rw [div_mul_cancel₀ _ (ne_of_gt hran)] at this; linarith
      have hback' : ∀ u : ℚ, (q - a) / (b - a) ≤ u → q ≤ u * (b - a) + a := by
        intro u hu
        have := mul_le_mul_of_nonneg_right hu (le_of_lt hran)
        rw [div_mul_cancel₀ _ (ne_of_gt hran)] at this; linarith
      -- raw values exist at index k
      have hlenL : (mmmsLeft Rt a (b - a) ((μ - a) / (b - a)) (σ / (b - a)) (σ / (b - a))).length = 200 := by
        unfold mmmsLeft; rw [cummax_length]; simp
      have hlenR : (mmmsRight Rt a (b - a) ((μ - a) / (b - a)) (σ / (b - a)) (σ / (b - a))).length = 200 := by
        unfold mmmsRight; rw [cumminRev_length]; simp
      obtain ⟨vl, hvl⟩ : ∃ v, (mmmsLeft Rt a (b - a) ((μ - a) / (b - a)) (σ / (b - a)) (σ / (b - a)))[k]? = some v :=
        ⟨_, List.getElem?_eq_getElem (by rw [hlenL]; exact hk)⟩
      obtain ⟨vr, hvr⟩ : ∃ v, (mmmsRight Rt a (b - a) ((μ - a) / (b - a)) (σ / (b - a)) (σ / (b - a)))[k]? = some v :=
        ⟨_, List.getElem?_eq_getElem (by rw [hlenR]; exact hk)⟩
      obtain ⟨A, B, hA, hB, hAa, hbB⟩ := staircase_elementwise_widen h hvl hvr
      refine ⟨A, B, hA, hB, le_trans hAa ?_, le_trans ?_ hbB⟩
      · unfold mmmsLeft at hvl
        obtain ⟨j, hjk, hjv⟩ := cummax_mem _ k vl hvl
        have hj : j < 200 := by omega
        rw [range_map_get _ hj] at hjv
        cases hjv
        apply hback
        apply mmmsLeftUnit_le Rt _ _ hs hR w y hw hy0 hy1 hym hyV j hj _ hqY0 hqY1
        rw [hy, atMost_scale w x a (b - a) q hran]
        exact le_trans (lvL_mono hjk) (le_trans (le_of_lt hp0) hq.2)
      · unfold mmmsRight at hvr
        obtain ⟨j, hjk, hjv⟩ := cumminRev_mem _ k vr hvr
        have hj : j < 200 := by
          by_contra hc
          rw [List.getElem?_eq_none (by simp; omega)] at hjv; cases hjv
        rw [range_map_get _ hj] at hjv
        cases hjv
        apply hback'
        apply mmmsRightUnit_ge Rt _ _ hs hR w y hw hy0 hy1 hym hyV j hj _ hqY0 hqY1
        rw [hy, below_scale w x a (b - a) q hran]
        exact le_trans hq.1 (le_trans (le_of_lt hp1) (lvR_mono hjk))


/-- the statement kept from round 1 (exact `x5` roots, Cantelli roots rounded up) -/
def MmmsStatement : Prop :=
  ∀ (Rt : Roots) (a b μ σ : ℚ) (L R : List ℚ), a < b → 0 ≤ σ →
    (0 ≤ Rt.smax ∧ (μ - a) * (b - μ) ≤ Rt.smax * Rt.smax) →
    (∀ k, 1 ≤ k → k < 200 → 0 ≤ Rt.t1 k ∧ 1 / lvL k - 1 ≤ Rt.t1 k * Rt.t1 k) →
    (∀ k, 1 ≤ k → k < 200 → 0 ≤ Rt.t2 k ∧ 1 / (1 / lvL k - 1) ≤ Rt.t2 k * Rt.t2 k) →
    (∀ k, k ≤ 200 → 0 ≤ x5At (σ / (b - a)) k → 0 ≤ Rt.s5 k ∧ Rt.s5 k * Rt.s5 k = x5At (σ / (b - a)) k) →
    minMaxMeanStd Rt a b μ σ = .ok (L, R) →
  ∀ {ι : Type} [Fintype ι] (w x : ι → ℚ), IsLaw w → (∀ i, a ≤ x i) → (∀ i, x i ≤ b) → mean w x = μ → var w x = σ ^ 2 →
  ∀ (k : Nat) (p q : ℚ), k < 200 → lvL k < p → p < lvR k → IsQuantile w x p q →
    ∃ A B, L[k]? = some A ∧ R[k]? = some B ∧ A ≤ q ∧ q ≤ B

/-- ★ it holds -/
theorem mmmsStatement_holds : MmmsStatement := by
  intro Rt a b μ σ L R hab hσ hsm h1 h2 h5 h ι _ w x hw ha hb hμ hV k p q hk hp0 hp1 hq
  have hBD := var_le_range w x hw.1 hw.2 a b μ (σ ^ 2) ha hb hμ (by rw [← hμ]; exact hV)
  have hσs : σ ≤ Rt.smax := by
    by_contra hc
    have hlt : Rt.smax < σ := not_le.mp hc
    have : Rt.smax * Rt.smax < σ ^ 2 := by nlinarith [hsm.1]
    linarith [hsm.2]
  exact minMaxMeanStd_encloses Rt a b μ σ hab
    ⟨h1, h2, fun k hk h0 => ⟨(h5 k hk h0).1, le_of_eq (h5 k hk h0).2⟩⟩ hσs h w x hw ha hb hμ hV k hk p q hp0 hp1 hq

/-! ### the repaired constructor is total on admissible inputs -/

theorem isIncreasing_cummaxFrom : ∀ (xs : List ℚ) (m : ℚ), isIncreasing (m :: cummaxFrom m xs) = true
  | [], m => by simp [cummaxFrom, isIncreasing]
  | y :: ys, m => by
      simp [cummaxFrom, isIncreasing]
      exact isIncreasing_cummaxFrom ys (max m y)

theorem isIncreasing_cummax (l : List ℚ) : isIncreasing (cummax l) = true := by
  cases l with
  | nil => rfl
  | cons y ys => exact isIncreasing_cummaxFrom ys y

theorem cumminFrom_le : ∀ (xs : List ℚ) (m v : ℚ), v ∈ cumminFrom m xs → v ≤ m
  | [], _, _, h => by simp [cumminFrom] at h
  | y :: ys, m, v, h => by
      simp [cumminFrom] at h
      rcases h with h | h
      · rw [h]; exact min_le_left _ _
      · exact le_trans (cumminFrom_le ys _ v h) (min_le_left _ _)

theorem pairwise_cumminFrom : ∀ (xs : List ℚ) (m : ℚ), (m :: cumminFrom m xs).Pairwise (fun a b => b ≤ a)
  | [], m => by simp [cumminFrom]
  | y :: ys, m => by
      rw [List.pairwise_cons]
      refine ⟨fun v hv => cumminFrom_le (y :: ys) m v hv, ?_⟩
      simp only [cumminFrom]
      exact pairwise_cumminFrom ys (min m y)

theorem pairwise_isIncreasing : ∀ {l : List ℚ}, l.Pairwise (· ≤ ·) → isIncreasing l = true
  | [], _ => rfl
  | [a], _ => rfl
  | a :: b :: t, h => by
      rw [List.pairwise_cons] at h
      simp [isIncreasing]
      exact ⟨h.1 b (by simp), pairwise_isIncreasing h.2⟩

theorem isIncreasing_cumminRev (l : List ℚ) : isIncreasing (cumminRev l) = true := by
  unfold cumminRev
  cases hr : l.reverse with
  | nil => rfl
  | cons x xs =>
    apply pairwise_isIncreasing
    rw [List.pairwise_reverse]
    exact pairwise_cumminFrom xs x

theorem staircase_total (cmp : Cmp) (l r : List ℚ) (hl : l.length = 200) (hr : r.length = 200)
    (hil : isIncreasing l = true) (hir : isIncreasing r = true) :
    ∃ L R, staircase cmp l r = .ok (L, R) ∧ L.length = 200 ∧ R.length = 200 := by
  unfold staircase
  by_cases hsw : swOf cmp l r = true
  · refine ⟨r, l, ?_, hr, hl⟩
    cases cmp <;> simp [swOf] at hsw <;> simp [hsw, stretch, hl, hr, hil, hir]
  · refine ⟨l, r, ?_, hl, hr⟩
    cases cmp <;> simp [swOf] at hsw <;> simp [hsw, stretch, hl, hr, hil, hir]

/-- ★ the repair's guarantee: on every admissible input (`a < b`, `a ≤ μ ≤ b`, `0 ≤ σ ≤ smax`) — whatever the
supplied roots and rounding allowance are — `min_max_mean_std` returns a p-box (it can no longer raise "must be increasing") -/
theorem minMaxMeanStd_total (Rt : Roots) (a b μ σ : ℚ) (hab : a < b) (hμ : a ≤ μ ∧ μ ≤ b)
    (hσ : 0 ≤ σ ∧ σ ≤ Rt.smax) (hsl : 0 ≤ Rt.slack) :
    ∃ L R, minMaxMeanStd Rt a b μ σ = .ok (L, R) ∧ L.length = 200 ∧ R.length = 200 := by
  unfold minMaxMeanStd
  rw [if_neg (ne_of_lt hab), if_neg (not_lt.mpr (le_of_lt hab)),
    if_neg (by rw [not_or]; exact ⟨not_lt.mpr hμ.1, not_lt.mpr hμ.2⟩),
    if_neg (by rw [not_or]; exact ⟨not_lt.mpr hσ.1, not_lt.mpr (by nlinarith [hσ.1, hσ.2])⟩)]
  dsimp only
  apply staircase_total
  · unfold mmmsLeft; rw [cummax_length]; simp
  · unfold mmmsRight; rw [cumminRev_length]; simp
  · exact isIncreasing_cummax _
  · exact isIncreasing_cumminRev _

/-! ## non-vacuity: the hypotheses of the theorems above are satisfiable -/

def succeeded : Except Err PB → Bool
  | .ok _ => true
  | .error _ => false

example : succeeded (minMean 0 1) = true := by decide +kernel
-- `maxMean 2 1` succeeds too (observed by the tie on every run); `sorted` (`List.mergeSort`, defined by
-- well-founded recursion) does not reduce in the kernel, so there is no `decide` example for it.
example : succeeded (minMean (-2) (-1)) = true := by decide +kernel
example : succeeded (minMax 0 2) = true := by decide +kernel
example : succeeded (minMaxMean 0 2 1) = true := by decide +kernel
example : succeeded (minMaxMedian 0 2 1) = true := by decide +kernel
example : succeeded (minMaxMode 0 2 1) = true := by decide +kernel
/-- rational upper approximations of the roots exist (here `15 ≥ √199 ≥` every root needed) -/
example : RootSpecL (fun _ => 15) ∧ RootSpecR (fun _ => 15) := by
  constructor
  · intro k hk
    refine ⟨by norm_num, ?_⟩
    unfold lvI; split
    · norm_num
    · rename_i h
      have h1 : (1 : ℚ) ≤ k := by exact_mod_cast Nat.one_le_iff_ne_zero.mpr h
      have : 1 / ((k : ℚ) / 200) ≤ 200 := by
        rw [div_le_iff₀ (by positivity)]
        have : (200 : ℚ) * (k / 200) = k := by ring
        rw [this]; exact h1
      linarith
  · intro k hk
    refine ⟨by norm_num, ?_⟩
    have hlt := lvR_lt_one hk
    have hpos := lvR_pos k
    have h1 : (1 : ℚ) / 200 ≤ 1 - lvR k := by
      unfold lvR; have : (k : ℚ) + 1 ≤ 199 := by exact_mod_cast hk
      rw [le_sub_iff_add_le, ← le_sub_iff_add_le', div_le_iff₀ (by norm_num)]; linarith
    rw [div_le_iff₀ (by linarith)]
    nlinarith
example : succeeded (meanStd (fun _ => 15) (fun _ => 15) 1 (1/2)) = true := by decide +kernel
/-- an exact root: level 100/200, `√(1/(1/2) - 1) = 1` -/
example : (0 : ℚ) ≤ 1 ∧ (1 : ℚ) * 1 = 1 / lvI 100 - 1 := by unfold lvI; norm_num
/-- roots for `min_max_mean_std(0, 2, 1, 1/10)`: `15 ≥` every Cantelli root, and `x5 ≥ 0` only at `p = 0, 1` where
its root is exactly `sl = 1/20` -/
def exRoots : Roots := { smax := 1, t1 := fun _ => 15, t2 := fun _ => 15, s5 := fun _ => 1 / 20 }

example : succeeded (minMaxMeanStd exRoots 0 2 1 (1 / 10)) = true := by decide +kernel

example : RootsOK exRoots ((1 / 10) / (2 - 0)) := by
  refine ⟨?_, ?_, ?_⟩
  · intro k hk1 hk
    refine ⟨by norm_num [exRoots], ?_⟩
    have h1 : (1 : ℚ) ≤ k := by exact_mod_cast hk1
    have : 1 / lvL k ≤ 200 := by
      unfold lvL; rw [div_le_iff₀ (by positivity)]
      have : (200 : ℚ) * (k / 200) = k := by ring
      rw [this]; exact h1
    simp only [exRoots]; linarith
  · intro k hk1 hk
    refine ⟨by norm_num [exRoots], ?_⟩
    have h1 : (1 : ℚ) ≤ k := by exact_mod_cast hk1
    have h2 : (k : ℚ) ≤ 199 := by exact_mod_cast Nat.lt_succ_iff.mp hk
    have hpos : 0 < lvL k := lvL_pos_iff.mpr hk1
    have hd : (1 : ℚ) / 199 ≤ 1 / lvL k - 1 := by
      unfold lvL
      have e : 1 / ((k : ℚ) / 200) - 1 = (200 - k) / k := by
        have : (k : ℚ) ≠ 0 := by linarith
        field_simp
      rw [e, div_le_div_iff₀ (by norm_num) (by linarith)]; linarith
    have : 1 / (1 / lvL k - 1) ≤ 199 := by
      rw [div_le_iff₀ (by linarith)]; nlinarith
    simp only [exRoots]; linarith
  · intro k hk h0
    refine ⟨by norm_num [exRoots], ?_⟩
    simp only [exRoots]
    unfold x5At lvL at h0 ⊢
    by_cases hk0 : k = 0
    · subst hk0; norm_num
    · by_cases hk2 : k = 200
      · subst hk2; norm_num
      · exfalso
        have h1 : (1 : ℚ) ≤ k := by exact_mod_cast Nat.one_le_iff_ne_zero.mpr hk0
        have h2 : (k : ℚ) ≤ 199 := by
          have : k ≤ 199 := by omega
          exact_mod_cast this
        have e : (k : ℚ) / 200 * (k / 200) + 1 / 10 / (2 - 0) * (1 / 10 / (2 - 0)) - k / 200
            = (k * k - 200 * k + 100) / 40000 := by ring
        rw [e] at h0
        have : (k : ℚ) * k - 200 * k + 100 < 0 := by nlinarith
        have := div_neg_of_neg_of_pos this (by norm_num : (0 : ℚ) < 40000)
        linarith

/-- a unimodal law in the sense of `ModeStatement`: the uniform law on `[0,2]` (mode taken at `2`) -/
example : ∃ F : ℚ → ℚ, Monotone F ∧ (∀ x, x < 0 → F x = 0) ∧ (∀ x, 2 ≤ x → F x = 1) ∧
    (∀ x y t, x < 2 → y < 2 → 0 ≤ t → t ≤ 1 → F (t * x + (1 - t) * y) ≤ t * F x + (1 - t) * F y) ∧
    (∀ x y t, (2 : ℚ) < x → 2 < y → 0 ≤ t → t ≤ 1 → t * F x + (1 - t) * F y ≤ F (t * x + (1 - t) * y)) ∧
    F 1 = 1 / 2 := by
  refine ⟨fun x => max 0 (min 1 (x / 2)), ?_, ?_, ?_, ?_, ?_, ?_⟩
  · intro x y h
    exact max_le_max le_rfl (min_le_min le_rfl (div_le_div_of_nonneg_right h (by norm_num)))
  · intro x hx
    have : min 1 (x / 2) ≤ 0 := le_trans (min_le_right _ _) (by linarith)
    exact max_eq_left this
  · intro x hx
    have : min 1 (x / 2) = 1 := min_eq_left (by linarith)
    simp only [this]; norm_num
  · intro x y t hx hy ht0 ht1
    have hz : t * x + (1 - t) * y < 2 := by
      rcases le_total x y with h | h
      · have := mul_le_mul_of_nonneg_left h ht0; linarith
      · have := mul_le_mul_of_nonneg_left h (sub_nonneg.mpr ht1); linarith
    have e1 : ∀ z : ℚ, z < 2 → min 1 (z / 2) = z / 2 := fun z hz => min_eq_right (by linarith)
    simp only [e1 _ hz, e1 _ hx, e1 _ hy]
    have h1 := le_max_right 0 (x / 2)
    have h2 := le_max_right 0 (y / 2)
    have h3 := le_max_left 0 (x / 2)
    have h4 := le_max_left 0 (y / 2)
    apply max_le
    · nlinarith
    · nlinarith
  · intro x y t hx hy ht0 ht1
    have hz : 2 < t * x + (1 - t) * y := by
      rcases le_total x y with h | h
      · have := mul_le_mul_of_nonneg_left h (sub_nonneg.mpr ht1); linarith
      · have := mul_le_mul_of_nonneg_left h ht0; linarith
    have e1 : ∀ z : ℚ, 2 < z → max 0 (min 1 (z / 2)) = 1 := by
      intro z hz
      have : min 1 (z / 2) = 1 := min_eq_left (by linarith)
      rw [this]; norm_num
    simp only [e1 _ hz, e1 _ hx, e1 _ hy]; linarith
  · norm_num

/-- a law meeting the constraints of `min_mean(0, 1)`: the two-point law `{0 : 1/2, 2 : 1/2}` -/
example : IsLaw (w2 (1/2)) ∧ (∀ b, (0 : ℚ) ≤ x2 0 2 b) ∧ mean (w2 (1/2)) (x2 0 2) = 1 := by
  refine ⟨two_isLaw _ (by norm_num) (by norm_num), ?_, ?_⟩
  · intro b; cases b <;> simp [x2]
  · rw [two_mean]; norm_num

end Pun.Free
