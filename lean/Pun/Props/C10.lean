import Pun.Model.Free
import Pun.Lemmas.FreeLaw
import Mathlib.Data.List.Sort
set_option linter.unusedSimpArgs false
set_option linter.unusedVariables false
/-!
# C10 — distribution-free p-boxes enclose every distribution meeting the constraints

Laws are finite discrete (`Pun.Law`); `q` is a `p`-quantile iff `P(X<q) ≤ p ≤ P(X≤q)`; step `k` covers the
levels `(k/200, (k+1)/200)`.  Every theorem is about the functions of `Pun.Model.Free` that the driver executes.
Proved: enclosure for min_max, min_mean, max_mean, mean_std (mean_var = mean_std on the supplied root),
min_max_mean, min_max_median; sharpness by the Markov and Cantelli two-point laws; the dispatcher table.
Partial (stated as such): min_max_mode (`ModeStatement`), min_max_mean_std (`MmmsStatement`).
-/
namespace Pun.Free
open Pun Pun.Law

theorem stretch_get {l L : List Rat} (h : stretch l = .ok L) {k : Nat} (hk : k < l.length) :
    L[k]? = l[k]? := by
  unfold stretch at h
  split at h
  · cases h; rfl
  · split at h
    · split at h
      · cases h; rw [List.getElem?_append_left hk]
      · cases h
    · cases h

theorem stretch_length {l L : List Rat} (h : stretch l = .ok L) : L.length = 200 := by
  unfold stretch at h
  split at h
  · cases h; assumption
  · split at h
    · split at h
      · cases h; simp; omega
      · cases h
    · cases h

theorem allGe_get : ∀ {l r : List Rat}, allGe l r = true → ∀ {k : Nat} {a b : Rat},
    l[k]? = some a → r[k]? = some b → b ≤ a
  | [], _, _, k, _, _, ha, _ => by simp at ha
  | _ :: _, [], _, k, _, _, _, hb => by simp at hb
  | a :: as, b :: bs, h, 0, _, _, ha, hb => by
      simp [allGe] at h; simp at ha hb; subst ha hb; exact h.1
  | a :: as, b :: bs, h, k+1, _, _, ha, hb => by
      simp [allGe] at h; simp at ha hb; exact allGe_get h.2 ha hb

def swOf (cmp : Cmp) (l r : List Rat) : Bool :=
  match cmp with
  | .elementwise => allGe l r
  | .lexi => lexGe l r

theorem staircase_ok {cmp : Cmp} {l r L R : List Rat} (h : staircase cmp l r = .ok (L, R)) :
    stretch (if swOf cmp l r then r else l) = .ok L ∧ stretch (if swOf cmp l r then l else r) = .ok R ∧
      isIncreasing L = true ∧ isIncreasing R = true := by
  cases cmp <;>
  · unfold staircase at h
    simp only [swOf]
    simp only at h
    split at h
    · rename_i l' r' h1 h2
      split at h
      · rename_i hinc
        cases h
        simp at hinc
        exact ⟨h1, h2, hinc.1, hinc.2⟩
      · cases h
    · cases h
    · cases h

/-- elementwise switch: whatever the switch does, the left bound only moves down and the right bound up -/
theorem staircase_elementwise_widen {l r L R : List Rat} (h : staircase .elementwise l r = .ok (L, R))
    {k : Nat} {a b : Rat} (hl : l[k]? = some a) (hr : r[k]? = some b) :
    ∃ A B, L[k]? = some A ∧ R[k]? = some B ∧ A ≤ a ∧ b ≤ B := by
  obtain ⟨h1, h2, -, -⟩ := staircase_ok h
  have hkl : k < l.length := by
    by_contra hc; rw [List.getElem?_eq_none (by omega)] at hl; cases hl
  have hkr : k < r.length := by
    by_contra hc; rw [List.getElem?_eq_none (by omega)] at hr; cases hr
  by_cases hsw : allGe l r = true
  · simp [swOf, hsw] at h1 h2
    exact ⟨b, a, by rw [stretch_get h1 hkr, hr], by rw [stretch_get h2 hkl, hl], allGe_get hsw hl hr, allGe_get hsw hl hr⟩
  · simp [swOf, hsw] at h1 h2
    exact ⟨a, b, by rw [stretch_get h1 hkl, hl], by rw [stretch_get h2 hkr, hr], le_refl _, le_refl _⟩

theorem lexGe_false_of_head : ∀ {l r : List Rat} {a b : Rat}, l[0]? = some a → r[0]? = some b → a < b →
    lexGe l r = false
  | [], _, _, _, ha, _, _ => by simp at ha
  | _ :: _, [], _, _, _, hb, _ => by simp at hb
  | x :: xs, y :: ys, a, b, ha, hb, hab => by
      simp at ha hb; subst ha hb
      have hne : ¬ x = y := ne_of_lt hab
      simp [lexGe, hne, not_le.mpr hab]

/-- list switch: no switch (or a switch of two equal lists) leaves the bounds in place -/
theorem staircase_lexi_get {l r L R : List Rat} (h : staircase .lexi l r = .ok (L, R))
    (hns : lexGe l r = false ∨ l = r) {k : Nat} (hkl : k < l.length) (hkr : k < r.length) :
    L[k]? = l[k]? ∧ R[k]? = r[k]? := by
  obtain ⟨h1, h2, -, -⟩ := staircase_ok h
  rcases hns with hns | hns
  · simp [swOf, hns] at h1 h2
    exact ⟨stretch_get h1 hkl, stretch_get h2 hkr⟩
  · subst hns
    simp at h1 h2
    exact ⟨stretch_get h1 hkl, stretch_get h2 hkr⟩

theorem range_map_get (f : Nat → Rat) {n k : Nat} (hk : k < n) : ((List.range n).map f)[k]? = some (f k) := by
  simp [hk]

theorem replicate_get (a : Rat) {n k : Nat} (hk : k < n) : (List.replicate n a)[k]? = some a := by
  rw [List.getElem?_replicate]; simp [hk]

theorem lvR_lt_one {k : Nat} (hk : k < 199) : lvR k < 1 := by
  unfold lvR
  have : (k : Rat) < 199 := by exact_mod_cast hk
  rw [div_lt_one (by norm_num)]; linarith

theorem lvL_nonneg (k : Nat) : 0 ≤ lvL k := by
  unfold lvL; positivity

theorem lvR_pos (k : Nat) : 0 < lvR k := by
  unfold lvR; positivity

theorem mean_ge_min {ι : Type*} [Fintype ι] (w x : ι → ℚ) (hw : IsLaw w) (m : ℚ) (hm : ∀ i, m ≤ x i) :
    m ≤ mean w x := by
  unfold mean
  have : m = ∑ i, w i * m := by rw [← Finset.sum_mul, hw.2]; ring
  rw [this]
  apply Finset.sum_le_sum; intro i _
  exact mul_le_mul_of_nonneg_left (hm i) (hw.1 i)

theorem isIncreasing_pairwise : ∀ {l : List ℚ}, isIncreasing l = true → l.Pairwise (· ≤ ·)
  | [], _ => List.Pairwise.nil
  | [a], _ => by simp
  | a :: b :: t, h => by
      simp [isIncreasing] at h
      have ih := isIncreasing_pairwise h.2
      have ih' := List.pairwise_cons.mp ih
      rw [List.pairwise_cons]
      refine ⟨?_, ih⟩
      intro x hx
      rcases List.mem_cons.mp hx with he | hm
      · rw [he]; exact h.1
      · exact le_trans h.1 (ih'.1 x hm)

theorem sortR_of_sorted {l : List ℚ} (h : l.Pairwise (· ≤ ·)) : sortR l = l := by
  unfold sortR
  exact List.mergeSort_eq_self (· ≤ ·) h

/-- the list `__neg__` builds from an increasing bound: reversed, negated, and `sorted` changes nothing -/
theorem sortR_neg_reverse {l : List ℚ} (h : isIncreasing l = true) :
    sortR (l.reverse.map (fun x => -x)) = l.reverse.map (fun x => -x) := by
  apply sortR_of_sorted
  rw [List.pairwise_map, List.pairwise_reverse]
  exact (isIncreasing_pairwise h).imp (by intro a b hab; linarith)

theorem neg_reverse_get {l : List ℚ} {k : Nat} (hk : k < l.length) :
    (l.reverse.map (fun x => -x))[k]? = (l[l.length - 1 - k]?).map (fun x => -x) := by
  rw [List.getElem?_map, List.getElem?_reverse hk]

/-- lists of equal length with `l ≤ r` elementwise: Python's `l >= r` is false unless they are equal -/
theorem lexGe_of_le : ∀ {l r : List ℚ}, l.length = r.length → (∀ (k : Nat) (a b : ℚ), l[k]? = some a → r[k]? = some b → a ≤ b) →
    lexGe l r = false ∨ l = r
  | [], [], _, _ => Or.inr rfl
  | [], _ :: _, h, _ => by simp at h
  | _ :: _, [], h, _ => by simp at h
  | a :: as, b :: bs, h, hle => by
      have hab : a ≤ b := hle 0 a b (by simp) (by simp)
      by_cases he : a = b
      · subst he
        have := lexGe_of_le (l := as) (r := bs) (by simpa using h)
          (fun k x y hx hy => hle (k+1) x y (by simpa using hx) (by simpa using hy))
        rcases this with h1 | h1
        · left; simp [lexGe, h1]
        · right; rw [h1]
      · left
        have : a < b := lt_of_le_of_ne hab he
        simp [lexGe, he, not_le.mpr this]

/-! ## min_max -/

theorem minMax_encloses (a b : ℚ) {L R : List ℚ} (h : minMax a b = .ok (L, R))
    {ι : Type*} [Fintype ι] (w x : ι → ℚ) (hw : IsLaw w) (ha : ∀ i, a ≤ x i) (hb : ∀ i, x i ≤ b)
    (k : Nat) (hk : k < 200) (p q : ℚ) (hp0 : lvL k < p) (hp1 : p < lvR k) (hq : IsQuantile w x p q) :
    ∃ A B, L[k]? = some A ∧ R[k]? = some B ∧ A ≤ q ∧ q ≤ B := by
  unfold minMax at h
  split at h
  · cases h
  · have hp : 0 < p := lt_of_le_of_lt (lvL_nonneg k) hp0
    have hp' : p < 1 := by
      have : lvR k ≤ 1 := by
        unfold lvR; have : (k : Rat) + 1 ≤ 200 := by exact_mod_cast hk
        rw [div_le_one (by norm_num)]; exact this
      linarith
    obtain ⟨A, B, hA, hB, hAa, hbB⟩ := staircase_elementwise_widen h
      (k := k) (a := a) (b := b) (replicate_get a hk) (replicate_get b hk)
    exact ⟨A, B, hA, hB, le_trans hAa (quantile_ge_min w x a p q ha hp hq.2),
      le_trans (quantile_le_max w x hw.2 b p q hb hp' hq.1) hbB⟩

/-! ## min_mean (Markov) -/

theorem markovR_mono (m μ p j : ℚ) (hmμ : m ≤ μ) (hpj : p ≤ j) (hj : j < 1) :
    m + (μ - m) / (1 - p) ≤ markovR m μ j := by
  unfold markovR
  have h1 : 0 < 1 - j := by linarith
  have h2 : 0 < 1 - p := by linarith
  have : (μ - m) / (1 - p) ≤ (μ - m) / (1 - j) :=
    div_le_div_of_nonneg_left (by linarith) h1 (by linarith)
  linarith

/-- ★ every law with support `≥ m` and mean `μ` has all its quantiles at levels strictly inside step `k`
between the bounds of `min_mean(m, μ)`; the right bound of the last step (unbounded tail) is exempt -/
theorem minMean_encloses (m μ : ℚ) {L R : List ℚ} (h : minMean m μ = .ok (L, R))
    {ι : Type*} [Fintype ι] (w x : ι → ℚ) (hw : IsLaw w) (hm : ∀ i, m ≤ x i) (hμ : mean w x = μ)
    (k : Nat) (hk : k < 199) (p q : ℚ) (hp0 : lvL k < p) (hp1 : p < lvR k) (hq : IsQuantile w x p q) :
    ∃ A B, L[k]? = some A ∧ R[k]? = some B ∧ A ≤ q ∧ q ≤ B := by
  unfold minMean at h
  have hp : 0 < p := lt_of_le_of_lt (lvL_nonneg k) hp0
  have hj := lvR_lt_one hk
  have hmμ : m ≤ μ := hμ ▸ mean_ge_min w x hw m hm
  obtain ⟨A, B, hA, hB, hAa, hbB⟩ := staircase_elementwise_widen h
    (k := k) (a := m) (b := markovR m μ (lvR k)) (replicate_get m hk) (range_map_get _ hk)
  refine ⟨A, B, hA, hB, le_trans hAa (quantile_ge_min w x m p q hm hp hq.2), le_trans ?_ hbB⟩
  have := markov_quantile w x hw.1 hw.2 m μ p q hm hμ (by linarith) hq.1
  exact le_trans this (markovR_mono m μ p (lvR k) hmμ (le_of_lt hp1) hj)


/-! ## max_mean = negation of min_mean -/

theorem stretch_get_last {l L : List Rat} (h : stretch l = .ok L) (hl : l.length = 199) :
    L[199]? = l[198]? := by
  unfold stretch at h
  rw [if_neg (by omega), if_pos hl] at h
  split at h
  · rename_i x hx
    cases h
    rw [List.getElem?_append_right (by omega)]
    simp [hl]
    rw [List.getLast?_eq_getElem?] at hx
    simp [hl] at hx
    exact hx.symm
  · cases h

theorem staircase_elementwise_widen_last {l r L R : List Rat} (h : staircase .elementwise l r = .ok (L, R))
    (hll : l.length = 199) (hrl : r.length = 199) {a b : Rat} (hl : l[198]? = some a) (hr : r[198]? = some b) :
    ∃ A B, L[199]? = some A ∧ R[199]? = some B ∧ A ≤ a ∧ b ≤ B := by
  obtain ⟨h1, h2, -, -⟩ := staircase_ok h
  by_cases hsw : allGe l r = true
  · simp [swOf, hsw] at h1 h2
    exact ⟨b, a, by rw [stretch_get_last h1 hrl, hr], by rw [stretch_get_last h2 hll, hl], allGe_get hsw hl hr, allGe_get hsw hl hr⟩
  · simp [swOf, hsw] at h1 h2
    exact ⟨a, b, by rw [stretch_get_last h1 hll, hl], by rw [stretch_get_last h2 hrl, hr], le_refl _, le_refl _⟩

/-- shape of `min_mean(m, μ)` for `m ≤ μ`: 200 increasing values on both sides, left at most `m`, right at least
the Markov value of the step (the last step repeats step 198) -/
theorem minMean_shape (m μ : ℚ) (hmμ : m ≤ μ) {L R : List ℚ} (h : minMean m μ = .ok (L, R)) :
    L.length = 200 ∧ R.length = 200 ∧ isIncreasing L = true ∧ isIncreasing R = true ∧
    ∀ i, i < 200 → ∃ A B, L[i]? = some A ∧ R[i]? = some B ∧ A ≤ m ∧ m ≤ B ∧
      (i < 199 → markovR m μ (lvR i) ≤ B) := by
  unfold minMean at h
  obtain ⟨h1, h2, hi1, hi2⟩ := staircase_ok h
  refine ⟨stretch_length h1, stretch_length h2, hi1, hi2, ?_⟩
  have hge : ∀ i, i < 199 → m ≤ markovR m μ (lvR i) := by
    intro i hi
    unfold markovR
    have : 0 ≤ (μ - m) / (1 - lvR i) := div_nonneg (by linarith) (by linarith [lvR_lt_one hi])
    linarith
  intro i hi
  by_cases hi' : i < 199
  · obtain ⟨A, B, hA, hB, hAa, hbB⟩ := staircase_elementwise_widen h
      (k := i) (a := m) (b := markovR m μ (lvR i)) (replicate_get m hi') (range_map_get _ hi')
    exact ⟨A, B, hA, hB, hAa, le_trans (hge i hi') hbB, fun _ => hbB⟩
  · have : i = 199 := by omega
    subst this
    obtain ⟨A, B, hA, hB, hAa, hbB⟩ := staircase_elementwise_widen_last h (List.length_replicate) (by simp only [minMeanRight, List.length_map, List.length_range])
      (a := m) (b := markovR m μ (lvR 198)) (replicate_get m (by norm_num)) (range_map_get _ (by norm_num))
    exact ⟨A, B, hA, hB, hAa, le_trans (hge 198 (by norm_num)) hbB, fun h => absurd h (by omega)⟩

/-- ★ `max_mean(M, μ)`: every law with support `≤ M` and mean `μ` is enclosed at every step; the left bound of the
first step (unbounded tail) is exempt -/
theorem maxMean_encloses (M μ : ℚ) {L R : List ℚ} (h : maxMean M μ = .ok (L, R))
    {ι : Type*} [Fintype ι] (w x : ι → ℚ) (hw : IsLaw w) (hM : ∀ i, x i ≤ M) (hμ : mean w x = μ)
    (k : Nat) (hk : k < 200) (p q : ℚ) (hp0 : lvL k < p) (hp1 : p < lvR k) (hq : IsQuantile w x p q) :
    (∃ B, R[k]? = some B ∧ q ≤ B) ∧ (1 ≤ k → ∃ A, L[k]? = some A ∧ A ≤ q) := by
  have hμM : μ ≤ M := by
    have := mean_ge_min w (fun i => - x i) hw (-M) (fun i => by simp; exact hM i)
    have e : mean w (fun i => - x i) = - mean w x := by
      unfold mean; rw [← Finset.sum_neg_distrib]; apply Finset.sum_congr rfl; intro i _; ring
    rw [e, hμ] at this; linarith
  unfold maxMean at h
  split at h
  · rename_i p0 h0
    obtain ⟨L0, R0⟩ := p0
    obtain ⟨hL0, hR0, hiL, hiR, hsh⟩ := minMean_shape (-M) (-μ) (by linarith) h0
    unfold negPB at h
    simp only at h
    rw [sortR_neg_reverse hiR, sortR_neg_reverse hiL] at h
    have hk' : 199 - k < 200 := by omega
    obtain ⟨A0, B0, hA0, hB0, hA0m, hmB0, hmk⟩ := hsh (199 - k) hk'
    have hlenl : (R0.reverse.map (fun x => -x)).length = 200 := by simp [hR0]
    have hlenr : (L0.reverse.map (fun x => -x)).length = 200 := by simp [hL0]
    have hns : lexGe (R0.reverse.map (fun x => -x)) (L0.reverse.map (fun x => -x)) = false ∨
        R0.reverse.map (fun x => -x) = L0.reverse.map (fun x => -x) := by
      apply lexGe_of_le (by rw [hlenl, hlenr])
      intro i a b ha hb
      have hi : i < 200 := by
        by_contra hc; rw [List.getElem?_eq_none (by omega)] at ha; cases ha
      rw [neg_reverse_get (by omega)] at ha hb
      rw [hR0] at ha; rw [hL0] at hb
      obtain ⟨A1, B1, hA1, hB1, hA1m, hmB1, -⟩ := hsh (200 - 1 - i) (by omega)
      rw [hB1] at ha; rw [hA1] at hb
      simp at ha hb; subst ha hb; linarith
    obtain ⟨h1, h2⟩ := staircase_lexi_get h hns (k := k) (by omega) (by omega)
    rw [neg_reverse_get (by omega), hR0] at h1
    rw [neg_reverse_get (by omega), hL0] at h2
    have e199 : 200 - 1 - k = 199 - k := by omega
    rw [e199, hB0] at h1
    rw [e199, hA0] at h2
    have hp : 0 < p := lt_of_le_of_lt (lvL_nonneg k) hp0
    have hR1 : lvR k ≤ 1 := by
      unfold lvR; have : (k : Rat) + 1 ≤ 200 := by exact_mod_cast hk
      rw [div_le_one (by norm_num)]; exact this
    constructor
    · refine ⟨-A0, by rw [h2]; rfl, ?_⟩
      have := quantile_le_max w x hw.2 M p q hM (by linarith) hq.1
      linarith
    · intro hk1
      refine ⟨-B0, by rw [h1]; rfl, ?_⟩
      have hmk' := hmk (by omega)
      have hlv : 1 - lvR (199 - k) = lvL k := by
        unfold lvR lvL
        have : ((199 - k : Nat) : ℚ) = 199 - (k : ℚ) := by
          rw [Nat.cast_sub (by omega)]; norm_num
        rw [this]; ring
      have hlpos : 0 < lvL k := by
        unfold lvL; have : (0 : ℚ) < k := by exact_mod_cast hk1
        positivity
      unfold markovR at hmk'
      rw [hlv] at hmk'
      have hml := markov_quantile_lower w x hw.1 hw.2 M μ p q hM hμ hp hq.2
      have : (M - μ) / p ≤ (M - μ) / lvL k :=
        div_le_div_of_nonneg_left (by linarith) hlpos (le_of_lt hp0)
      have e : (-μ - -M) / lvL k = (M - μ) / lvL k := by ring
      rw [e] at hmk'
      linarith
  · cases h

/-! ## mean_std (Cantelli)

The supplied values stand for square roots.  An exact root is in general irrational, so enclosure is stated for
every non-negative value whose square is *at least* the argument (the root itself, or the root rounded up);
sharpness (`meanStd_left_attained`) is stated for the levels at which the value is an exact root. -/

def RootSpecL (tL : Nat → ℚ) : Prop := ∀ k, k < 199 → 0 ≤ tL k ∧ 1 / lvI k - 1 ≤ tL k * tL k
def RootSpecR (tR : Nat → ℚ) : Prop := ∀ k, k < 199 → 0 ≤ tR k ∧ lvR k / (1 - lvR k) ≤ tR k * tR k

theorem meanStd_noswap (tL tR : Nat → ℚ) (hL : RootSpecL tL) (hR : RootSpecR tR) (μ σ : ℚ) (hσ : 0 ≤ σ) :
    lexGe (meanStdLeft tL μ σ) (meanStdRight tR μ σ) = false ∨ meanStdLeft tL μ σ = meanStdRight tR μ σ := by
  by_cases h0 : σ = 0
  · right; subst h0; simp [meanStdLeft, meanStdRight]
  · left
    have hσ' : 0 < σ := lt_of_le_of_ne hσ (Ne.symm h0)
    obtain ⟨hl0, hl1⟩ := hL 0 (by norm_num)
    obtain ⟨hr0, -⟩ := hR 0 (by norm_num)
    have hpos : 0 < tL 0 := by
      rcases eq_or_lt_of_le hl0 with he | hlt
      · rw [← he] at hl1; simp [lvI] at hl1
      · exact hlt
    apply lexGe_false_of_head (a := μ - σ * tL 0) (b := μ + σ * tR 0)
    · exact range_map_get _ (by norm_num)
    · exact range_map_get _ (by norm_num)
    · have : 0 < σ * tL 0 := mul_pos hσ' hpos
      have : 0 ≤ σ * tR 0 := mul_nonneg hσ hr0
      linarith

/-- ★ Cantelli: every law with mean `μ` and variance `σ²` is enclosed by `mean_std(μ, σ)` at every step whose
bound is finite by the mathematics (left: `1 ≤ k`, right: `k < 199`) -/
theorem meanStd_encloses (tL tR : Nat → ℚ) (hL : RootSpecL tL) (hR : RootSpecR tR) (μ σ : ℚ) (hσ : 0 ≤ σ)
    {L R : List ℚ} (h : meanStd tL tR μ σ = .ok (L, R))
    {ι : Type*} [Fintype ι] (w x : ι → ℚ) (hw : IsLaw w) (hμ : mean w x = μ) (hV : var w x = σ ^ 2)
    (k : Nat) (hk : k < 199) (p q : ℚ) (hp0 : lvL k < p) (hp1 : p < lvR k) (hq : IsQuantile w x p q) :
    (∃ B, R[k]? = some B ∧ q ≤ B) ∧ (1 ≤ k → ∃ A, L[k]? = some A ∧ A ≤ q) := by
  unfold meanStd at h
  have hlen1 : k < (meanStdLeft tL μ σ).length := by simp [meanStdLeft, hk]
  have hlen2 : k < (meanStdRight tR μ σ).length := by simp [meanStdRight, hk]
  obtain ⟨h1, h2⟩ := staircase_lexi_get h (meanStd_noswap tL tR hL hR μ σ hσ) hlen1 hlen2
  have hV' : ∑ i, w i * (x i - μ) ^ 2 = σ ^ 2 := by rw [← hμ]; exact hV
  have hμ' : ∑ i, w i * x i = μ := hμ
  constructor
  · refine ⟨μ + σ * tR k, ?_, ?_⟩
    · rw [h2]; exact range_map_get _ hk
    · exact cantelli_right_bound w x hw.1 hw.2 μ σ (tR k) (lvR k) p q hμ' hV' hσ (hR k hk).1 (hR k hk).2
        (lvR_lt_one hk) (le_of_lt hp1) hq.1
  · intro hk1
    refine ⟨μ - σ * tL k, ?_, ?_⟩
    · rw [h1]; exact range_map_get _ hk
    · have hI : lvI k = lvL k := by unfold lvI lvL; rw [if_neg (by omega)]
      have hpos : 0 < lvI k := by
        rw [hI]; unfold lvL
        have : (0 : ℚ) < k := by exact_mod_cast hk1
        positivity
      exact cantelli_left_bound w x hw.1 hw.2 μ σ (tL k) (lvI k) p q hμ' hV' hσ (hL k hk).1 (hL k hk).2
        hpos (by rw [hI]; exact le_of_lt hp0) hq.2

/-! ## min_max_mean -/

theorem mapM_ok_get {α β : Type} (f : α → Except Err β) : ∀ (xs : List α) (l : List β), xs.mapM f = .ok l →
    ∀ (k : Nat) (x : α), xs[k]? = some x → ∃ v, f x = .ok v ∧ l[k]? = some v
  | [], l, _, k, x, hx => by simp at hx
  | y :: ys, l, h, k, x, hx => by
      rw [List.mapM_cons] at h
      cases hfy : f y with
      | error e => simp [hfy, bind, Except.bind] at h
      | ok v =>
        cases hrec : ys.mapM f with
        | error e => simp [hfy, hrec, bind, Except.bind] at h
        | ok vs =>
          simp [hfy, hrec, bind, Except.bind, pure, Except.pure] at h
          subst h
          cases k with
          | zero => simp at hx; subst hx; exact ⟨v, hfy, by simp⟩
          | succ k =>
            simp at hx
            obtain ⟨v', hv1, hv2⟩ := mapM_ok_get f ys vs hrec k x hx
            exact ⟨v', hv1, by simpa using hv2⟩

/-- ★ range + mean: every law on `[a,b]` with mean `μ` is enclosed at every step, whichever side of the
mid-point switch the step falls -/
theorem minMaxMean_encloses (a b μ : ℚ) {L R : List ℚ} (h : minMaxMean a b μ = .ok (L, R))
    {ι : Type*} [Fintype ι] (w x : ι → ℚ) (hw : IsLaw w) (ha : ∀ i, a ≤ x i) (hb : ∀ i, x i ≤ b)
    (hμ : mean w x = μ)
    (k : Nat) (hk : k < 200) (p q : ℚ) (hp0 : lvL k < p) (hp1 : p < lvR k) (hq : IsQuantile w x p q) :
    ∃ A B, L[k]? = some A ∧ R[k]? = some B ∧ A ≤ q ∧ q ≤ B := by
  unfold minMaxMean at h
  split at h
  · cases h
  · simp only at h
    split at h
    · rename_i l r hl hr
      have hp : 0 < p := lt_of_le_of_lt (lvL_nonneg k) hp0
      have hR1 : lvR k ≤ 1 := by
        unfold lvR; have : (k : Rat) + 1 ≤ 200 := by exact_mod_cast hk
        rw [div_le_one (by norm_num)]; exact this
      have hp' : p < 1 := by linarith
      have hrange : (List.range 200)[k]? = some k := by simp [hk]
      obtain ⟨vl, hvl, hlk⟩ := mapM_ok_get _ _ _ hl k k hrange
      obtain ⟨vr, hvr, hrk⟩ := mapM_ok_get _ _ _ hr k k hrange
      obtain ⟨A, B, hA, hB, hAa, hbB⟩ := staircase_elementwise_widen h hlk hrk
      have hqa : a ≤ q := quantile_ge_min w x a p q ha hp hq.2
      have hqb : q ≤ b := quantile_le_max w x hw.2 b p q hb hp' hq.1
      have haμ : a ≤ μ := hμ ▸ mean_ge_min w x hw a ha
      have hμb : μ ≤ b := by
        have := mean_ge_min w (fun i => - x i) hw (-b) (fun i => by simp; exact hb i)
        have e : mean w (fun i => - x i) = - mean w x := by
          unfold mean; rw [← Finset.sum_neg_distrib]; apply Finset.sum_congr rfl; intro i _; ring
        rw [e, hμ] at this; linarith
      refine ⟨A, B, hA, hB, le_trans hAa ?_, le_trans ?_ hbB⟩
      · -- left value
        unfold mmmLeftAt at hvl
        simp only at hvl
        split at hvl
        · cases hvl; exact hqa
        · split at hvl
          · cases hvl
          · rename_i hi0
            cases hvl
            have hipos : 0 < lvL k := lt_of_le_of_ne (lvL_nonneg k) (Ne.symm hi0)
            have hml := markov_quantile_lower w x hw.1 hw.2 b μ p q hb hμ hp hq.2
            have : (b - μ) / p ≤ (b - μ) / lvL k :=
              div_le_div_of_nonneg_left (by linarith) hipos (le_of_lt hp0)
            have e : (μ - b) / lvL k + b = b - (b - μ) / lvL k := by ring
            rw [e]
            exact max_le hqa (by linarith)
      · -- right value
        unfold mmmRightAt at hvr
        simp only at hvr
        split at hvr
        · cases hvr; exact hqb
        · split at hvr
          · cases hvr
          · rename_i hj1
            cases hvr
            have hjlt : lvR k < 1 := lt_of_le_of_ne hR1 (fun he => hj1 (by rw [he]; ring))
            have hm := markov_quantile w x hw.1 hw.2 a μ p q ha hμ hp' hq.1
            have := markovR_mono a μ p (lvR k) haμ (le_of_lt hp1) hjlt
            unfold markovR at this
            exact le_min hqb (by linarith)
    · cases h
    · cases h

/-- the mid-point switch selects the larger of the two lower bounds: for `0 < i`,
`i ≤ mid ↔ b - (b-μ)/i ≤ a` -/
theorem mmm_switch (a b μ i : ℚ) (hab : a < b) (hi : 0 < i) :
    i ≤ (b - μ) / (b - a) ↔ (μ - b) / i + b ≤ a := by
  have hba : 0 < b - a := by linarith
  rw [le_div_iff₀ hba]
  have e : (μ - b) / i + b ≤ a ↔ (μ - b) / i ≤ a - b := by constructor <;> intro h <;> linarith
  rw [e, div_le_iff₀ hi]
  constructor <;> intro h <;> nlinarith

/-! ## min_max_median -/

/-- ★ median: every law on `[a,b]` having `med` as a median is enclosed at every step -/
theorem minMaxMedian_encloses (a b med : ℚ) (hab : a ≠ b) {L R : List ℚ} (h : minMaxMedian a b med = .ok (L, R))
    {ι : Type*} [Fintype ι] (w x : ι → ℚ) (hw : IsLaw w) (ha : ∀ i, a ≤ x i) (hb : ∀ i, x i ≤ b)
    (hmed : IsQuantile w x (1 / 2) med)
    (k : Nat) (hk : k < 200) (p q : ℚ) (hp0 : lvL k < p) (hp1 : p < lvR k) (hq : IsQuantile w x p q) :
    ∃ A B, L[k]? = some A ∧ R[k]? = some B ∧ A ≤ q ∧ q ≤ B := by
  unfold minMaxMedian at h
  rw [if_neg hab] at h
  split at h
  · cases h
  · have hp : 0 < p := lt_of_le_of_lt (lvL_nonneg k) hp0
    have hR1 : lvR k ≤ 1 := by
      unfold lvR; have : (k : Rat) + 1 ≤ 200 := by exact_mod_cast hk
      rw [div_le_one (by norm_num)]; exact this
    have hp' : p < 1 := by linarith
    have hqa : a ≤ q := quantile_ge_min w x a p q ha hp hq.2
    have hqb : q ≤ b := quantile_le_max w x hw.2 b p q hb hp' hq.1
    by_cases hk1 : k < 100
    · have hl : (medianLeft a med)[k]? = some a := by
        unfold medianLeft; rw [List.getElem?_append_left (by simp [hk1])]; exact replicate_get a hk1
      have hr : (medianRight b med)[k]? = some med := by
        unfold medianRight; rw [List.getElem?_append_left (by simp [hk1])]; exact replicate_get med hk1
      obtain ⟨A, B, hA, hB, hAa, hbB⟩ := staircase_elementwise_widen h hl hr
      have : p < 1 / 2 := by
        have : lvR k ≤ 1 / 2 := by
          unfold lvR; have : (k : Rat) + 1 ≤ 100 := by exact_mod_cast hk1
          rw [div_le_iff₀ (by norm_num)]; linarith
        linarith
      exact ⟨A, B, hA, hB, le_trans hAa hqa, le_trans (median_upper w x hw.1 med p q hmed.2 this hq.1) hbB⟩
    · have hk2 : 100 ≤ k := by omega
      have hl : (medianLeft a med)[k]? = some med := by
        unfold medianLeft; rw [List.getElem?_append_right (by simp [hk2])]
        simp only [List.length_replicate]; exact replicate_get med (by omega)
      have hr : (medianRight b med)[k]? = some b := by
        unfold medianRight; rw [List.getElem?_append_right (by simp [hk2])]
        simp only [List.length_replicate]; exact replicate_get b (by omega)
      obtain ⟨A, B, hA, hB, hAa, hbB⟩ := staircase_elementwise_widen h hl hr
      have : 1 / 2 < p := by
        have : (1 : ℚ) / 2 ≤ lvL k := by
          unfold lvL; have : (100 : ℚ) ≤ k := by exact_mod_cast hk2
          rw [le_div_iff₀ (by norm_num)]; linarith
        linarith
      exact ⟨A, B, hA, hB, le_trans hAa (median_lower w x hw.1 med p q hmed.1 this hq.2), le_trans hqb hbB⟩


/-! ## sharpness: the extremal two-point laws reach the bounds one step further out -/

/-- ★ the Markov two-point law `{m : (k+1)/200, right[k] : rest}` meets the constraints of `min_mean(m, μ)` and has
`right[k]` as its quantile at every level of the next step (and beyond): the right bound is within one
probability step of an admissible law -/
theorem minMean_right_attained (m μ : ℚ) (hmμ : m ≤ μ) (k : Nat) (hk : k < 199) :
    ∃ w x : Bool → ℚ, IsLaw w ∧ (∀ b, m ≤ x b) ∧ mean w x = μ ∧
      (minMeanRight m μ)[k]? = some (x true) ∧ ∀ p, lvR k ≤ p → p ≤ 1 → IsQuantile w x p (x true) := by
  obtain ⟨h1, h2, h3, h4⟩ := markov_two_point m μ (lvR k) hmμ (le_of_lt (lvR_pos k)) (lvR_lt_one hk)
  refine ⟨w2 (lvR k), x2 m (m + (μ - m) / (1 - lvR k)), h1, h3, h2, ?_, ?_⟩
  · unfold minMeanRight; rw [range_map_get _ hk]; simp [x2, markovR, add_comm]
  · intro p hp0 hp1; simpa [x2] using h4 p hp0 hp1

/-- ★ the Cantelli two-point law reaches `left[k]` of `mean_std` at every level up to `k/200`, whenever the
supplied value is an exact root at that level -/
theorem meanStd_left_attained (tL : Nat → ℚ) (μ σ : ℚ) (hσ : 0 ≤ σ) (k : Nat) (hk1 : 1 ≤ k) (hk : k < 199)
    (ht : 0 ≤ tL k ∧ tL k * tL k = 1 / lvI k - 1) :
    ∃ w x : Bool → ℚ, IsLaw w ∧ mean w x = μ ∧ var w x = σ ^ 2 ∧
      (meanStdLeft tL μ σ)[k]? = some (x false) ∧ ∀ p, 0 ≤ p → p ≤ lvL k → IsQuantile w x p (x false) := by
  have hI : lvI k = lvL k := by unfold lvI lvL; rw [if_neg (by omega)]
  have hpos : 0 < lvL k := by
    unfold lvL; have : (0 : ℚ) < k := by exact_mod_cast hk1
    positivity
  have hlt : lvL k < 1 := by
    unfold lvL; have : (k : ℚ) < 199 := by exact_mod_cast hk
    rw [div_lt_one (by norm_num)]; linarith
  rw [hI] at ht
  have htpos : 0 < tL k := by
    rcases eq_or_lt_of_le ht.1 with he | h
    · exfalso
      have h2 := ht.2
      rw [← he] at h2
      have : 1 < 1 / lvL k := by rw [lt_div_iff₀ hpos]; linarith
      linarith
    · exact h
  obtain ⟨h1, h2, h3, h4⟩ := cantelli_two_point μ σ (tL k) (lvL k) hσ htpos ht.2 hpos hlt
  refine ⟨w2 (lvL k), x2 (μ - σ * tL k) (μ + σ / tL k), h1, h2, h3, ?_, ?_⟩
  · unfold meanStdLeft; rw [range_map_get _ hk]; simp [x2]
  · intro p hp0 hp1; simpa [x2] using h4 p hp0 hp1

/-! ## known_properties: the dispatcher table -/

def keysOf (fam mx me md mn mo sd vr : Bool) : List Key :=
  (if fam then [Key.family] else []) ++ (if mx then [Key.maximum] else []) ++ (if me then [Key.mean] else []) ++
  (if md then [Key.median] else []) ++ (if mn then [Key.minimum] else []) ++ (if mo then [Key.mode] else []) ++
  (if sd then [Key.std] else []) ++ (if vr then [Key.var] else [])

theorem presentKeys_eq (A : Args) : presentKeys A =
    keysOf A.family A.maximum.isSome A.mean.isSome A.median.isSome A.minimum.isSome A.mode.isSome A.std.isSome
      A.var.isSome := rfl

/-- the property's table as a function of the *set* of supplied constraints (family absent): the ten named
combinations and nothing else build a distribution-free p-box -/
def tableSpec (mx me md mn mo sd vr : Bool) : Handler :=
  match mx, me, md, mn, mo, sd, vr with
  | true, false, false, true, false, false, false => .minMax
  | false, true, false, true, false, false, false => .minMean
  | true, true, false, false, false, false, false => .maxMean
  | false, true, false, false, false, true, false => .meanStd
  | false, true, false, false, false, false, true => .meanVar
  | true, true, false, true, false, false, false => .minMaxMean
  | true, false, false, true, true, false, false => .minMaxMode
  | true, false, true, true, false, false, false => .minMaxMedian
  | true, true, false, true, false, true, false => .minMaxMeanStd
  | true, true, false, true, false, false, true => .minMaxMeanVar
  | _, _, _, _, _, _, _ => .default

/-- ★ all 128 subsets of the numeric constraints are routed as the table says -/
theorem dispatcher_table : ∀ mx me md mn mo sd vr : Bool,
    route (keysOf false mx me md mn mo sd vr) = tableSpec mx me md mn mo sd vr := by decide

/-- with `family=` no combination reaches a distribution-free constructor (it is handed to the parametric
parsers, raises `TypeError` for ("family","maximum","minimum"), or is unsupported) -/
theorem dispatcher_family : ∀ mx me md mn mo sd vr : Bool,
    route (keysOf true mx me md mn mo sd vr) ∈
      [Handler.parseMoments, Handler.truncParseMoments, Handler.minMaxWithFamily, Handler.default] := by decide

/-- each value reaches the parameter of the same name -/
theorem knownProperties_minMean (S : Sup) (a μ : ℚ) :
    knownProperties S { minimum := some a, mean := some μ } = (minMean a μ).map Out.pbox := rfl
theorem knownProperties_maxMean (S : Sup) (b μ : ℚ) :
    knownProperties S { maximum := some b, mean := some μ } = (maxMean b μ).map Out.pbox := rfl
theorem knownProperties_minMax (S : Sup) (a b : ℚ) :
    knownProperties S { minimum := some a, maximum := some b } = (minMax a b).map Out.pbox := rfl
theorem knownProperties_meanStd (S : Sup) (μ σ : ℚ) :
    knownProperties S { mean := some μ, std := some σ } = (meanStd S.tL S.tR μ σ).map Out.pbox := rfl
theorem knownProperties_meanVar (S : Sup) (μ v : ℚ) :
    knownProperties S { mean := some μ, var := some v } = (meanVar S.tL S.tR μ v S.sv).map Out.pbox := rfl
theorem knownProperties_minMaxMean (S : Sup) (a b μ : ℚ) :
    knownProperties S { minimum := some a, maximum := some b, mean := some μ } = (minMaxMean a b μ).map Out.pbox := rfl
theorem knownProperties_minMaxMode (S : Sup) (a b M : ℚ) :
    knownProperties S { minimum := some a, maximum := some b, mode := some M } = (minMaxMode a b M).map Out.pbox := rfl
theorem knownProperties_minMaxMedian (S : Sup) (a b M : ℚ) :
    knownProperties S { minimum := some a, maximum := some b, median := some M } = (minMaxMedian a b M).map Out.pbox := rfl
theorem knownProperties_minMaxMeanStd (S : Sup) (a b μ σ : ℚ) :
    knownProperties S { minimum := some a, maximum := some b, mean := some μ, std := some σ } =
      (minMaxMeanStd S.roots a b μ σ).map Out.pbox := rfl
theorem knownProperties_minMaxMeanVar (S : Sup) (a b μ v : ℚ) :
    knownProperties S { minimum := some a, maximum := some b, mean := some μ, var := some v } =
      (minMaxMeanVar S.roots a b μ v S.sv).map Out.pbox := rfl

/-! ## min_max_mode: only the shape and the two extremal uniforms are proved -/

/-- full statement (NOT proved): every law on `[a,b]` whose distribution function is convex below the mode `M`
and concave above it has its quantiles inside the bounds -/
def ModeStatement : Prop :=
  ∀ (a b M : ℚ) (L R : List ℚ), a < b → a ≤ M → M ≤ b → minMaxMode a b M = .ok (L, R) →
  ∀ F : ℚ → ℚ, Monotone F → (∀ x, x < a → F x = 0) → (∀ x, b ≤ x → F x = 1) →
    (∀ x y t, x < M → y < M → 0 ≤ t → t ≤ 1 → F (t * x + (1 - t) * y) ≤ t * F x + (1 - t) * F y) →
    (∀ x y t, M < x → M < y → 0 ≤ t → t ≤ 1 → t * F x + (1 - t) * F y ≤ F (t * x + (1 - t) * y)) →
  ∀ (k : Nat) (p q : ℚ), k < 200 → lvL k < p → p < lvR k → (∀ y, y < q → F y ≤ p) → p ≤ F q →
    ∃ A B, L[k]? = some A ∧ R[k]? = some B ∧ A ≤ q ∧ q ≤ B

/-- proved part: the p-box contains the quantile functions `a + p (M-a)` and `M + p (b-M)` of the two extremal
unimodal laws (uniform on `[a,M]` and on `[M,b]`) at every level inside each step, with equality at the step's
own level (so the bounds are attained) -/
theorem minMaxMode_uniforms_partial (a b M : ℚ) (hab : a < b) (haM : a ≤ M) (hMb : M ≤ b) {L R : List ℚ}
    (h : minMaxMode a b M = .ok (L, R)) (k : Nat) (hk : k < 200) (p : ℚ) (hp0 : lvL k < p) (hp1 : p < lvR k) :
    ∃ A B, L[k]? = some A ∧ R[k]? = some B ∧
      A ≤ a + p * (M - a) ∧ a + p * (M - a) ≤ B ∧ A ≤ M + p * (b - M) ∧ M + p * (b - M) ≤ B ∧
      A ≤ a + lvL k * (M - a) ∧ M + lvR k * (b - M) ≤ B := by
  unfold minMaxMode at h
  rw [if_neg (ne_of_lt hab), if_neg (not_lt.mpr (le_of_lt hab))] at h
  obtain ⟨A, B, hA, hB, hAa, hbB⟩ := staircase_elementwise_widen h
    (k := k) (a := lvL k * (M - a) + a) (b := lvR k * (b - M) + M)
    (by unfold modeLeft; exact range_map_get _ hk) (by unfold modeRight; exact range_map_get _ hk)
  have hl0 := lvL_nonneg k
  have hR1 : lvR k ≤ 1 := by
    unfold lvR; have : (k : Rat) + 1 ≤ 200 := by exact_mod_cast hk
    rw [div_le_one (by norm_num)]; exact this
  have h1 : 0 ≤ M - a := by linarith
  have h2 : 0 ≤ b - M := by linarith
  refine ⟨A, B, hA, hB, ?_, ?_, ?_, ?_, ?_, ?_⟩ <;> nlinarith

/-! ## min_max_mean_std: the statement, and what is proved of it -/

/-- full statement (NOT proved: the `x3` component of the recurrence is not verified) -/
def MmmsStatement : Prop :=
  ∀ (Rt : Roots) (a b μ σ : ℚ) (L R : List ℚ), a < b → 0 ≤ σ →
    (0 ≤ Rt.smax ∧ (μ - a) * (b - μ) ≤ Rt.smax * Rt.smax) →
    (∀ k, 1 ≤ k → k < 200 → 0 ≤ Rt.t1 k ∧ 1 / lvL k - 1 ≤ Rt.t1 k * Rt.t1 k) →
    (∀ k, 1 ≤ k → k < 200 → 0 ≤ Rt.t2 k ∧ 1 / (1 / lvL k - 1) ≤ Rt.t2 k * Rt.t2 k) →
    (∀ k, k ≤ 200 → 0 ≤ x5At (σ / (b - a)) k → 0 ≤ Rt.s5 k ∧ Rt.s5 k * Rt.s5 k = x5At (σ / (b - a)) k) →
    minMaxMeanStd Rt a b μ σ = .ok (L, R) →
  ∀ {ι : Type} [Fintype ι] (w x : ι → ℚ), IsLaw w → (∀ i, a ≤ x i) → (∀ i, x i ≤ b) → mean w x = μ → var w x = σ ^ 2 →
  ∀ (k : Nat) (p q : ℚ), k < 200 → lvL k < p → p < lvR k → IsQuantile w x p q →
    ∃ A B, L[k]? = some A ∧ R[k]? = some B ∧ A ≤ q ∧ q ≤ B

theorem cummaxFrom_sound : ∀ (xs : List ℚ) (m : ℚ) (Q : Nat → ℚ), (∀ i, Q i ≤ Q (i + 1)) → m ≤ Q 0 →
    (∀ (k : Nat) (v : ℚ), xs[k]? = some v → v ≤ Q k) → ∀ (k : Nat) (v : ℚ), (cummaxFrom m xs)[k]? = some v → v ≤ Q k
  | [], _, _, _, _, _, k, v, hv => by simp [cummaxFrom] at hv
  | y :: ys, m, Q, hQ, hm, hx, 0, v, hv => by
      simp [cummaxFrom] at hv; subst hv
      exact max_le hm (hx 0 y (by simp))
  | y :: ys, m, Q, hQ, hm, hx, k + 1, v, hv => by
      simp [cummaxFrom] at hv
      have hmax : max m y ≤ Q 0 := max_le hm (hx 0 y (by simp))
      exact cummaxFrom_sound ys (max m y) (fun i => Q (i + 1)) (fun i => hQ (i + 1)) (le_trans hmax (hQ 0))
        (fun k v hk => hx (k + 1) v (by simpa using hk)) k v hv

/-- proved part (soundness of the repair): a quantile function is monotone, so if the raw left values of the
recurrence are lower bounds of a monotone envelope `Q`, the accumulated values `np.maximum.accumulate` returns are
lower bounds too.  (The raw values themselves are verified only through their `x2` (Cantelli) and `x6`
(range-mean) components, theorems `meanStd_encloses` / `minMaxMean_encloses`; `x3` is not.) -/
theorem mmms_cummax_sound_partial (xs : List ℚ) (Q : Nat → ℚ) (hQ : ∀ i, Q i ≤ Q (i + 1))
    (hx : ∀ (k : Nat) (v : ℚ), xs[k]? = some v → v ≤ Q k) :
    ∀ (k : Nat) (v : ℚ), (cummax xs)[k]? = some v → v ≤ Q k := by
  cases xs with
  | nil => intro k v hv; simp [cummax] at hv
  | cons y ys =>
    intro k v hv
    cases k with
    | zero => simp [cummax] at hv; subst hv; exact hx 0 y (by simp)
    | succ k =>
      simp [cummax] at hv
      exact cummaxFrom_sound ys y (fun i => Q (i + 1)) (fun i => hQ (i + 1)) (le_trans (hx 0 y (by simp)) (hQ 0))
        (fun k v hk => hx (k + 1) v (by simpa using hk)) k v hv

/-! ## non-vacuity: the hypotheses of the theorems above are satisfiable -/

def succeeded : Except Err PB → Bool
  | .ok _ => true
  | .error _ => false

example : succeeded (minMean 0 1) = true := by decide +kernel
-- `maxMean 2 1` succeeds too (observed by the tie on every run); `sorted` (`List.mergeSort`, defined by
-- well-founded recursion) does not reduce in the kernel, so there is no `decide` example for it.
example : succeeded (minMean (-2) (-1)) = true := by decide +kernel
example : succeeded (minMax 0 2) = true := by decide +kernel
example : succeeded (minMaxMean 0 2 1) = true := by decide +kernel
example : succeeded (minMaxMedian 0 2 1) = true := by decide +kernel
example : succeeded (minMaxMode 0 2 1) = true := by decide +kernel
/-- rational upper approximations of the roots exist (here `15 ≥ √199 ≥` every root needed) -/
example : RootSpecL (fun _ => 15) ∧ RootSpecR (fun _ => 15) := by
  constructor
  · intro k hk
    refine ⟨by norm_num, ?_⟩
    unfold lvI; split
    · norm_num
    · rename_i h
      have h1 : (1 : ℚ) ≤ k := by exact_mod_cast Nat.one_le_iff_ne_zero.mpr h
      have : 1 / ((k : ℚ) / 200) ≤ 200 := by
        rw [div_le_iff₀ (by positivity)]
        have : (200 : ℚ) * (k / 200) = k := by ring
        rw [this]; exact h1
      linarith
  · intro k hk
    refine ⟨by norm_num, ?_⟩
    have hlt := lvR_lt_one hk
    have hpos := lvR_pos k
    have h1 : (1 : ℚ) / 200 ≤ 1 - lvR k := by
      unfold lvR; have : (k : ℚ) + 1 ≤ 199 := by exact_mod_cast hk
      rw [le_sub_iff_add_le, ← le_sub_iff_add_le', div_le_iff₀ (by norm_num)]; linarith
    rw [div_le_iff₀ (by linarith)]
    nlinarith
example : succeeded (meanStd (fun _ => 15) (fun _ => 15) 1 (1/2)) = true := by decide +kernel
/-- an exact root: level 100/200, `√(1/(1/2) - 1) = 1` -/
example : (0 : ℚ) ≤ 1 ∧ (1 : ℚ) * 1 = 1 / lvI 100 - 1 := by unfold lvI; norm_num
/-- a law meeting the constraints of `min_mean(0, 1)`: the two-point law `{0 : 1/2, 2 : 1/2}` -/
example : IsLaw (w2 (1/2)) ∧ (∀ b, (0 : ℚ) ≤ x2 0 2 b) ∧ mean (w2 (1/2)) (x2 0 2) = 1 := by
  refine ⟨two_isLaw _ (by norm_num) (by norm_num), ?_, ?_⟩
  · intro b; cases b <;> simp [x2]
  · rw [two_mean]; norm_num

end Pun.Free
