import Pun.Lemmas.Hull
/-!
# C01 — interval `+ − × ÷` return the exact set image

Statements are over all rationals (every finite double is one).  "Exact set
image" = sound for every pointwise pair **and** both endpoints attained.
-/
set_option linter.unusedSimpArgs false
set_option linter.unusedVariables false
namespace Pun.Arith

/-- the nine overwriting guards select exactly the corner hull -/
theorem mulTable_exact (a b c d : Rat) (hab : a ≤ b) (hcd : c ≤ d) :
    mulTable a b c d = some (min4 (a*c) (a*d) (b*c) (b*d), max4 (a*c) (a*d) (b*c) (b*d)) := by
  by_cases ha : 0 ≤ a <;> by_cases hb : b ≤ 0 <;> by_cases hc : 0 ≤ c <;> by_cases hd : d ≤ 0 <;>
  simp only [mulTable, step, ge_iff_le, gt_iff_lt, ← not_le, ha, hb, hc, hd, not_true_eq_false,
    not_false_eq_true, and_true, true_and, and_false, false_and, if_true, if_false] <;>
  (try simp only [not_le] at ha hb hc hd) <;>
  rw [Option.some.injEq, Prod.mk.injEq] <;>
  first
  | (constructor
     · symm
       apply min4_eq
       · first | exact Or.inl rfl | exact Or.inr (Or.inl rfl) | exact Or.inr (Or.inr (Or.inl rfl)) | exact Or.inr (Or.inr (Or.inr rfl))
       all_goals nlinarith
     · symm
       apply max4_eq
       · first | exact Or.inl rfl | exact Or.inr (Or.inl rfl) | exact Or.inr (Or.inr (Or.inl rfl)) | exact Or.inr (Or.inr (Or.inr rfl))
       all_goals nlinarith)
  | (constructor <;> simp only [min4, max4] <;> ac_rfl)

/-- the product table's result is the exact set image: sound and both endpoints attained at corners -/
theorem mul_exact_image (a b c d : Rat) (hab : a ≤ b) (hcd : c ≤ d) :
    ∃ l h, mulTable a b c d = some (l, h) ∧
      (∀ x y, a ≤ x → x ≤ b → c ≤ y → y ≤ d → l ≤ x*y ∧ x*y ≤ h) ∧
      (∃ x y, a ≤ x ∧ x ≤ b ∧ c ≤ y ∧ y ≤ d ∧ x*y = l) ∧
      (∃ x y, a ≤ x ∧ x ≤ b ∧ c ≤ y ∧ y ≤ d ∧ x*y = h) := by
  refine ⟨_, _, mulTable_exact a b c d hab hcd, ?_, ?_, ?_⟩
  · intro x y h1 h2 h3 h4; exact mul_hull a b c d x y h1 h2 h3 h4
  · unfold min4
    rcases min_choice (min (a*c) (a*d)) (min (b*c) (b*d)) with h | h <;> rw [h]
    · rcases min_choice (a*c) (a*d) with h' | h' <;> rw [h']
      · exact ⟨a, c, le_refl _, hab, le_refl _, hcd, rfl⟩
      · exact ⟨a, d, le_refl _, hab, hcd, le_refl _, rfl⟩
    · rcases min_choice (b*c) (b*d) with h' | h' <;> rw [h']
      · exact ⟨b, c, hab, le_refl _, le_refl _, hcd, rfl⟩
      · exact ⟨b, d, hab, le_refl _, hcd, le_refl _, rfl⟩
  · unfold max4
    rcases max_choice (max (a*c) (a*d)) (max (b*c) (b*d)) with h | h <;> rw [h]
    · rcases max_choice (a*c) (a*d) with h' | h' <;> rw [h']
      · exact ⟨a, c, le_refl _, hab, le_refl _, hcd, rfl⟩
      · exact ⟨a, d, le_refl _, hab, hcd, le_refl _, rfl⟩
    · rcases max_choice (b*c) (b*d) with h' | h' <;> rw [h']
      · exact ⟨b, c, hab, le_refl _, le_refl _, hcd, rfl⟩
      · exact ⟨b, d, hab, le_refl _, hcd, le_refl _, rfl⟩

example : mulTable (-1) 2 (-3) 4 = some (-6, 8) := by decide +kernel

/-- a divisor containing zero raises `ZeroDivisionError` -/
theorem div_straddle_raises (a b c d : Rat) (h : c ≤ 0 ∧ 0 ≤ d) : divTable a b c d = none := by
  simp [divTable, h]

/-- and only then -/
theorem div_raises_iff (a b c d : Rat) : divTable a b c d = none ↔ (c ≤ 0 ∧ 0 ≤ d) := by
  unfold divTable; split <;> simp_all

/-- quotient hull: every x/y lies between the returned endpoints, which are attained at corners -/
theorem divTable_sound (a b c d : Rat) (hab : a ≤ b) (hcd : c ≤ d) (h0 : 0 < c ∨ d < 0) :
    ∃ l h, divTable a b c d = some (some (l, h)) ∧
      (∀ x y, a ≤ x → x ≤ b → c ≤ y → y ≤ d → l ≤ x / y ∧ x / y ≤ h) ∧
      (∃ x y, a ≤ x ∧ x ≤ b ∧ c ≤ y ∧ y ≤ d ∧ x / y = l) ∧
      (∃ x y, a ≤ x ∧ x ≤ b ∧ c ≤ y ∧ y ≤ d ∧ x / y = h) := by
  have hguard : ¬ (c ≤ 0 ∧ d ≥ 0) := by
    rintro ⟨h1, h2⟩; rcases h0 with h | h <;> linarith
  rcases h0 with hc | hd
  · have hd : 0 < d := lt_of_lt_of_le hc hcd
    have key : ∀ x y, a ≤ x → x ≤ b → c ≤ y → y ≤ d →
        (0 ≤ a → a / d ≤ x / y ∧ x / y ≤ b / c) ∧
        (a < 0 → 0 < b → a / c ≤ x / y ∧ x / y ≤ b / c) ∧
        (b ≤ 0 → a / c ≤ x / y ∧ x / y ≤ b / d) := by
      intro x y h1 h2 h3 h4
      have hy : 0 < y := lt_of_lt_of_le hc h3
      refine ⟨fun h => ⟨?_, ?_⟩, fun h h' => ⟨?_, ?_⟩, fun h => ⟨?_, ?_⟩⟩ <;>
        rw [div_le_div_iff₀ (by assumption) (by assumption)] <;> nlinarith
    by_cases ha : 0 ≤ a
    · by_cases hb : b ≤ 0
      · have ha0 : a = 0 := le_antisymm (le_trans hab hb) ha
        have hb0 : b = 0 := le_antisymm hb (le_trans ha hab)
        subst ha0; subst hb0
        refine ⟨0 / c, 0 / d, ?_, ?_, ⟨0, c, le_refl _, le_refl _, le_refl _, hcd, rfl⟩, ⟨0, d, le_refl _, le_refl _, hcd, le_refl _, rfl⟩⟩
        · simp [divTable, divCore, step, hguard, not_le.mpr hd, le_of_lt hc, hc]
        · intro x y h1 h2 h3 h4
          have : x = 0 := le_antisymm h2 h1
          subst this; simp
      · refine ⟨a / d, b / c, ?_, fun x y h1 h2 h3 h4 => ((key x y h1 h2 h3 h4).1 ha), ⟨a, d, le_refl _, hab, hcd, le_refl _, rfl⟩, ⟨b, c, hab, le_refl _, le_refl _, hcd, rfl⟩⟩
        simp [divTable, divCore, step, hguard, not_le.mpr hd, hb, ha, hc, not_lt.mpr ha]
    · have ha' : a < 0 := not_le.mp ha
      by_cases hb : b ≤ 0
      · refine ⟨a / c, b / d, ?_, fun x y h1 h2 h3 h4 => ((key x y h1 h2 h3 h4).2.2 hb), ⟨a, c, le_refl _, hab, le_refl _, hcd, rfl⟩, ⟨b, d, hab, le_refl _, hcd, le_refl _, rfl⟩⟩
        simp [divTable, divCore, step, hguard, not_le.mpr hd, hb, le_of_lt hc]
      · have hb' : 0 < b := not_le.mp hb
        refine ⟨a / c, b / c, ?_, fun x y h1 h2 h3 h4 => ((key x y h1 h2 h3 h4).2.1 ha' hb'), ⟨a, c, le_refl _, hab, le_refl _, hcd, rfl⟩, ⟨b, c, hab, le_refl _, le_refl _, hcd, rfl⟩⟩
        simp [divTable, divCore, step, hguard, not_le.mpr hd, hb, ha', hb', hc, ha]
  · have hc : c < 0 := lt_of_le_of_lt hcd hd
    have key : ∀ x y, a ≤ x → x ≤ b → c ≤ y → y ≤ d →
        (0 ≤ a → b / d ≤ x / y ∧ x / y ≤ a / c) ∧
        (a < 0 → 0 < b → b / d ≤ x / y ∧ x / y ≤ a / d) ∧
        (b ≤ 0 → b / c ≤ x / y ∧ x / y ≤ a / d) := by
      intro x y h1 h2 h3 h4
      have hy : y < 0 := lt_of_le_of_lt h4 hd
      refine ⟨fun h => ⟨?_, ?_⟩, fun h h' => ⟨?_, ?_⟩, fun h => ⟨?_, ?_⟩⟩ <;>
        rw [div_le_div_iff_neg (by assumption) (by assumption)] <;> nlinarith
    have hcn : ¬ 0 ≤ c := not_le.mpr hc
    have hcp : ¬ 0 < c := not_lt.mpr (le_of_lt hc)
    by_cases ha : 0 ≤ a
    · by_cases hb : b ≤ 0
      · have ha0 : a = 0 := le_antisymm (le_trans hab hb) ha
        have hb0 : b = 0 := le_antisymm hb (le_trans ha hab)
        subst ha0; subst hb0
        refine ⟨0 / c, 0 / d, ?_, ?_, ⟨0, c, le_refl _, le_refl _, le_refl _, hcd, rfl⟩, ⟨0, d, le_refl _, le_refl _, hcd, le_refl _, rfl⟩⟩
        · simp [divTable, divCore, step, hguard, le_of_lt hd]
        · intro x y h1 h2 h3 h4
          have : x = 0 := le_antisymm h2 h1
          subst this; simp
      · refine ⟨b / d, a / c, ?_, fun x y h1 h2 h3 h4 => ((key x y h1 h2 h3 h4).1 ha), ⟨b, d, hab, le_refl _, hcd, le_refl _, rfl⟩, ⟨a, c, le_refl _, hab, le_refl _, hcd, rfl⟩⟩
        simp [divTable, divCore, step, hguard, le_of_lt hd, hb, ha, not_lt.mpr ha]
    · have ha' : a < 0 := not_le.mp ha
      by_cases hb : b ≤ 0
      · refine ⟨b / c, a / d, ?_, fun x y h1 h2 h3 h4 => ((key x y h1 h2 h3 h4).2.2 hb), ⟨b, c, hab, le_refl _, le_refl _, hcd, rfl⟩, ⟨a, d, le_refl _, hab, hcd, le_refl _, rfl⟩⟩
        simp [divTable, divCore, step, hguard, le_of_lt hd, hb]
      · have hb' : 0 < b := not_le.mp hb
        refine ⟨b / d, a / d, ?_, fun x y h1 h2 h3 h4 => ((key x y h1 h2 h3 h4).2.1 ha' hb'), ⟨b, d, hab, le_refl _, hcd, le_refl _, rfl⟩, ⟨a, d, le_refl _, hab, hcd, le_refl _, rfl⟩⟩
        simp [divTable, divCore, step, hguard, le_of_lt hd, hb, ha', hb', ha]

example : divTable (-1) 2 2 4 = some (some (-1/2, 1)) := by decide +kernel

/-! ### sum, difference, negation: endpoint formulas are the exact image -/

theorem add_exact (a b c d : Rat) (hab : a ≤ b) (hcd : c ≤ d) :
    (∀ x y, a ≤ x → x ≤ b → c ≤ y → y ≤ d → a + c ≤ x + y ∧ x + y ≤ b + d) ∧
    (∃ x y, a ≤ x ∧ x ≤ b ∧ c ≤ y ∧ y ≤ d ∧ x + y = a + c) ∧
    (∃ x y, a ≤ x ∧ x ≤ b ∧ c ≤ y ∧ y ≤ d ∧ x + y = b + d) :=
  ⟨fun x y h1 h2 h3 h4 => ⟨by linarith, by linarith⟩,
   ⟨a, c, le_refl _, hab, le_refl _, hcd, rfl⟩, ⟨b, d, hab, le_refl _, hcd, le_refl _, rfl⟩⟩

theorem sub_exact (a b c d : Rat) (hab : a ≤ b) (hcd : c ≤ d) :
    (∀ x y, a ≤ x → x ≤ b → c ≤ y → y ≤ d → a - d ≤ x - y ∧ x - y ≤ b - c) ∧
    (∃ x y, a ≤ x ∧ x ≤ b ∧ c ≤ y ∧ y ≤ d ∧ x - y = a - d) ∧
    (∃ x y, a ≤ x ∧ x ≤ b ∧ c ≤ y ∧ y ≤ d ∧ x - y = b - c) :=
  ⟨fun x y h1 h2 h3 h4 => ⟨by linarith, by linarith⟩,
   ⟨a, d, le_refl _, hab, hcd, le_refl _, rfl⟩, ⟨b, c, hab, le_refl _, le_refl _, hcd, rfl⟩⟩

theorem neg_exact (a b : Rat) (hab : a ≤ b) :
    neg (.I a b) = .ok (.I (-b) (-a)) ∧ (∀ x, a ≤ x → x ≤ b → -b ≤ -x ∧ -x ≤ -a) := by
  refine ⟨?_, fun x h1 h2 => ⟨by linarith, by linarith⟩⟩
  have : (-b ≤ -a) := by linarith
  simp [neg, mkIV, this]

/-! ### number operands -/

/-- `X * c`: exact for either sign of `c` (scalar interval) -/
theorem mulNum_exact (a b c : Rat) (hab : a ≤ b) :
    ∃ l h, mulNum (IV.ofI a b) c = .ok (.I l h) ∧
      (∀ x, a ≤ x → x ≤ b → l ≤ x * c ∧ x * c ≤ h) ∧
      ((l = a * c ∧ h = b * c) ∨ (l = b * c ∧ h = a * c)) := by
  by_cases hc : c ≥ 0
  · have h1 : a * c ≤ b * c := by nlinarith
    refine ⟨a * c, b * c, by simp [mulNum, hc, IV.ofI, mkIV, h1], fun x hx1 hx2 => ⟨by nlinarith, by nlinarith⟩, Or.inl ⟨rfl, rfl⟩⟩
  · have hc' : c < 0 := not_le.mp hc
    have h1 : b * c ≤ a * c := by nlinarith
    refine ⟨b * c, a * c, by simp [mulNum, hc, IV.ofI, mkIV, h1], fun x hx1 hx2 => ⟨by nlinarith, by nlinarith⟩, Or.inr ⟨rfl, rfl⟩⟩

theorem divNum_zero_raises (s : IV) : divNum s 0 = .error .ZeroDivision := by simp [divNum]

/-- `X / c`, `c ≠ 0`: exact for either sign of `c` -/
theorem divNum_exact (a b c : Rat) (hab : a ≤ b) (hc0 : c ≠ 0) :
    ∃ l h, divNum (IV.ofI a b) c = .ok (.I l h) ∧
      (∀ x, a ≤ x → x ≤ b → l ≤ x / c ∧ x / c ≤ h) ∧
      ((l = a / c ∧ h = b / c) ∨ (l = b / c ∧ h = a / c)) := by
  rcases lt_or_gt_of_ne hc0 with hc | hc
  · have h1 : b / c ≤ a / c := by rw [div_le_div_iff_neg hc hc]; nlinarith
    have hn : ¬ c > 0 := not_lt.mpr (le_of_lt hc)
    refine ⟨b / c, a / c, by simp [divNum, hc0, hn, IV.ofI, mkIV, h1], fun x hx1 hx2 => ⟨?_, ?_⟩, Or.inr ⟨rfl, rfl⟩⟩
    · rw [div_le_div_iff_neg hc hc]; nlinarith
    · rw [div_le_div_iff_neg hc hc]; nlinarith
  · have h1 : a / c ≤ b / c := by rw [div_le_div_iff₀ hc hc]; nlinarith
    refine ⟨a / c, b / c, by simp [divNum, hc0, hc, IV.ofI, mkIV, h1], fun x hx1 hx2 => ⟨?_, ?_⟩, Or.inl ⟨rfl, rfl⟩⟩
    · rw [div_le_div_iff₀ hc hc]; nlinarith
    · rw [div_le_div_iff₀ hc hc]; nlinarith

/-- `c - X` -/
theorem rsub_exact (a b c : Rat) (hab : a ≤ b) :
    reflected .sub (.N c) (IV.ofI a b) = .ok (.I (c - b) (c - a)) ∧
    (∀ x, a ≤ x → x ≤ b → c - b ≤ c - x ∧ c - x ≤ c - a) := by
  refine ⟨?_, fun x h1 h2 => ⟨by linarith, by linarith⟩⟩
  have : c - b ≤ c - a := by linarith
  simp [reflected, rsubNum, IV.ofI, mkIV, this]

/-- `c / X` raises exactly when `0 ∈ X` -/
theorem rdiv_straddle_raises (a b c : Rat) (h : a ≤ 0 ∧ 0 ≤ b) :
    reflected .div (.N c) (IV.ofI a b) = .error .ZeroDivision := by
  simp [reflected, rdivNum, straddles, IV.ofI, h.1, h.2]

/-- `c / X`, `0 ∉ X`: sound, endpoints are the two corner quotients -/
theorem rdiv_exact (a b c : Rat) (hab : a ≤ b) (h0 : 0 < a ∨ b < 0) :
    ∃ l h, reflected .div (.N c) (IV.ofI a b) = .ok (.I l h) ∧
      (∀ x, a ≤ x → x ≤ b → l ≤ c / x ∧ c / x ≤ h) ∧
      ((l = c / b ∧ h = c / a) ∨ (l = c / a ∧ h = c / b)) := by
  have hst : straddles (IV.ofI a b) = false := by
    simp only [straddles, IV.ofI, List.zip_cons_cons, List.zip_nil_right, List.any_cons, List.any_nil,
      Bool.or_false, Bool.and_eq_false_iff, decide_eq_false_iff_not, not_le, ge_iff_le]
    rcases h0 with h | h
    · left; exact h
    · right; exact h
  have key : ∀ x, a ≤ x → x ≤ b → (0 ≤ c → c / b ≤ c / x ∧ c / x ≤ c / a) ∧ (c < 0 → c / a ≤ c / x ∧ c / x ≤ c / b) := by
    intro x h1 h2
    rcases h0 with h | h
    · have hx : 0 < x := lt_of_lt_of_le h h1
      have hb : 0 < b := lt_of_lt_of_le hx h2
      refine ⟨fun hc => ⟨?_, ?_⟩, fun hc => ⟨?_, ?_⟩⟩ <;>
        rw [div_le_div_iff₀ (by assumption) (by assumption)] <;> nlinarith
    · have hx : x < 0 := lt_of_le_of_lt h2 h
      have ha : a < 0 := lt_of_le_of_lt h1 hx
      refine ⟨fun hc => ⟨?_, ?_⟩, fun hc => ⟨?_, ?_⟩⟩ <;>
        rw [div_le_div_iff_neg (by assumption) (by assumption)] <;> nlinarith
  by_cases hc : c ≥ 0
  · have h1 := ((key a (le_refl _) hab).1 hc).1
    refine ⟨c / b, c / a, by simp only [reflected, rdivNum, hst]; simp [hc, IV.ofI, mkIV, h1], fun x hx1 hx2 => (key x hx1 hx2).1 hc, Or.inl ⟨rfl, rfl⟩⟩
  · have hc' : c < 0 := not_le.mp hc
    have h1 := ((key b hab (le_refl _)).2 hc').1
    have h2 : c / a ≤ c / b := by simpa using ((key b hab (le_refl _)).2 hc')
    refine ⟨c / a, c / b, by simp only [reflected, rdivNum, hst]; simp [hc, IV.ofI, mkIV, h2], fun x hx1 hx2 => (key x hx1 hx2).2 hc', Or.inr ⟨rfl, rfl⟩⟩

/-! ### degenerate and zero operands -/

theorem mul_degenerate_point (x y : Rat) : mulTable x x y y = some (x*y, x*y) := by
  rw [mulTable_exact x x y y (le_refl _) (le_refl _)]; simp [min4, max4]

theorem mul_zero_interval (c d : Rat) (hcd : c ≤ d) : mulTable 0 0 c d = some (0, 0) := by
  rw [mulTable_exact 0 0 c d (le_refl _) hcd]; simp [min4, max4]

/-! ### arrays: every shape branch is the scalar table element by element -/

theorem multiply_same_shape_elementwise (l1 h1 l2 h2 : List Rat) (hlen : l1.length = l2.length)
    (hns : ¬ ((IV.ofA l1 h1).scalar && (IV.ofA l2 h2).scalar)) (i : Nat) (hi : i < l1.length) :
    ∃ sh cells, multiply (IV.ofA l1 h1) (IV.ofA l2 h2) = .ok (sh, cells) ∧
      cells[i]? = some (mulTable (l1.getD i 0) (h1.getD i 0) (l2.getD i 0) (h2.getD i 0)) := by
  have hsh : ((IV.ofA l1 h1).sh == (IV.ofA l2 h2).sh) = true := by simp [IV.ofA, hlen]
  refine ⟨_, _, by simp only [multiply, hns, hsh]; rfl, ?_⟩
  simp [IV.ofA, hi]

theorem multiply_scalar_array_elementwise (a b : Rat) (l2 h2 : List Rat) (hn : 2 ≤ l2.length)
    (i : Nat) (hi : i < l2.length) :
    ∃ sh cells, multiply (IV.ofI a b) (IV.ofA l2 h2) = .ok (sh, cells) ∧
      cells[i]? = some (mulTable a b (l2.getD i 0) (h2.getD i 0)) := by
  have h1 : (IV.ofA l2 h2).scalar = false := by
    simp only [IV.scalar, IV.ofA]; simp; omega
  have h2' : ((IV.ofI a b).sh == (IV.ofA l2 h2).sh) = false := by simp [IV.ofI, IV.ofA]
  have h3 : (IV.ofI a b).scalar = true := by simp [IV.scalar, IV.ofI]
  refine ⟨_, _, by simp only [multiply, h1, h2', h3]; rfl, ?_⟩
  simp [IV.ofA, IV.ofI, hi]

theorem multiply_array_scalar_elementwise (l1 h1 : List Rat) (c d : Rat) (hn : 2 ≤ l1.length)
    (i : Nat) (hi : i < l1.length) :
    ∃ sh cells, multiply (IV.ofA l1 h1) (IV.ofI c d) = .ok (sh, cells) ∧
      cells[i]? = some (mulTable (l1.getD i 0) (h1.getD i 0) c d) := by
  have h1' : (IV.ofA l1 h1).scalar = false := by
    simp only [IV.scalar, IV.ofA]; simp; omega
  have h2' : ((IV.ofA l1 h1).sh == (IV.ofI c d).sh) = false := by simp [IV.ofI, IV.ofA]
  have h3 : (IV.ofI c d).scalar = true := by simp [IV.scalar, IV.ofI]
  refine ⟨_, _, by simp only [multiply, h1', h2', h3]; rfl, ?_⟩
  simp [IV.ofA, IV.ofI, hi]

end Pun.Arith
