import Mathlib.Tactic.Linarith
import Mathlib.Algebra.Order.Field.Rat
import Mathlib.Algebra.Order.AbsoluteValue.Basic
import Mathlib.Tactic.NormNum
import Mathlib.Data.Rat.Floor
import Mathlib.Algebra.Order.Floor.Ring
import Mathlib.Tactic.FieldSimp
import Mathlib.Tactic.Positivity
import Pun.Model.Query
import Pun.Props.C08
import Pun.Gen.GridGen
import Pun.Gen.LevelsGen
/-!
# C18 — p-box queries match the bounds

About `Pun.Query.*` / `Pun.Grid.findNearest`, the functions the driver executes; generic in the grid.

* `nearest_minimises` ★  `find_nearest` returns an index of minimal distance, the first such
* `nearest_monotone`  ★  on a sorted array the nearest index is monotone in the value
* `alphacut_spec`     ★  `alpha_cut(a)` = the two bounds at the grid level nearest to `a`
* `discretise_native` ★  `discretise(None | steps)` returns the steps themselves
* `outer_contains_band` ★ every alpha-cut of a band lies inside the band's outer interval
* `pi_widest_contains_narrowest` ★, `pi_widest_monotone` ★
* narrowest style with its documented fall-back, exactly where it is monotone:
  `pi_narrow_monotone_where_exists` ★ (exists at the smaller coverage ⇒ exists at the larger, and nested),
  `pi_narrow_monotone_both_fallback` ★ (exists at neither ⇒ both answers are the widest intervals, nested),
  `pi_fallback_breaks_monotone` (decided counterexample on the source grid for the remaining region; the
  harness replays it on the real code on every run)
* `cdf_bracket`       ○  `cdf(x)` picks the last step whose bound is `≤ x`: `b[k] ≤ x < b[k+1]`
* `condensation_contains` ★ for every grid with neighbour gap `δ > 2(0.001+ε)` and every level table within `ε`
  of `0.001 + 0.998·j/M`; `condensation_contains_source` ★ for the grid of the source and the regenerated tables
  `np.linspace(0.001, 0.999, m)`, every `m = 2..steps` (hypotheses decided by `decide +kernel`)
-/
set_option linter.unusedSimpArgs false
set_option linter.unusedVariables false
namespace Pun.Props.C18
open Pun Pun.Grid Pun.Dss Pun.Query Pun.Props

theorem absR_eq (x : ℚ) : absR x = |x| := by
  unfold absR
  split
  · rw [abs_of_nonneg ‹_›]
  · rw [abs_of_neg (not_le.mp ‹_›)]

theorem nearestGo_none (v : ℚ) (arr : List ℚ) (h : nearestGo v arr = none) : arr = [] := by
  cases arr with
  | nil => rfl
  | cons a r =>
    simp only [nearestGo] at h
    split at h
    · simp at h
    · split at h <;> simp at h

theorem nearestGo_spec (v : ℚ) (arr : List ℚ) (k : Nat) (d : ℚ) (h : nearestGo v arr = some (k, d)) :
    (∃ a, arr[k]? = some a ∧ d = |a - v|) ∧
    (∀ (j : Nat) (x : ℚ), arr[j]? = some x → d ≤ |x - v|) ∧
    (∀ (j : Nat) (x : ℚ), j < k → arr[j]? = some x → d < |x - v|) := by
  induction arr generalizing k d with
  | nil => simp [nearestGo] at h
  | cons a r ih =>
    simp only [nearestGo] at h
    cases hr : nearestGo v r with
    | none =>
      have := nearestGo_none v r hr; subst this
      simp only [hr, Option.some.injEq, Prod.mk.injEq] at h
      obtain ⟨rfl, rfl⟩ := h
      refine ⟨⟨a, by simp, absR_eq _⟩, ?_, by intro j x hj; omega⟩
      intro j x hx
      cases j with
      | zero => simp at hx; subst hx; rw [absR_eq]
      | succ j => simp at hx
    | some kd =>
      obtain ⟨k', d'⟩ := kd
      obtain ⟨⟨a', ha', hd'⟩, hmin, hfirst⟩ := ih k' d' hr
      simp only [hr] at h
      by_cases hc : absR (a - v) ≤ d'
      · simp only [hc, if_true, Option.some.injEq, Prod.mk.injEq] at h
        obtain ⟨rfl, rfl⟩ := h
        refine ⟨⟨a, by simp, absR_eq _⟩, ?_, by intro j x hj; omega⟩
        intro j x hx
        cases j with
        | zero => simp at hx; subst hx; rw [absR_eq]
        | succ j => simp only [List.getElem?_cons_succ] at hx; exact le_trans hc (hmin j x hx)
      · simp only [hc, if_false, Option.some.injEq, Prod.mk.injEq] at h
        obtain ⟨rfl, rfl⟩ := h
        refine ⟨⟨a', by simpa using ha', hd'⟩, ?_, ?_⟩
        · intro j x hx
          cases j with
          | zero => simp at hx; subst hx; rw [← absR_eq]; exact le_of_lt (not_le.mp hc)
          | succ j => simp only [List.getElem?_cons_succ] at hx; exact hmin j x hx
        · intro j x hj hx
          cases j with
          | zero => simp at hx; subst hx; rw [← absR_eq]; exact not_le.mp hc
          | succ j => simp only [List.getElem?_cons_succ] at hx; exact hfirst j x (by omega) hx

/-- ★ `find_nearest(arr, v) = k`: `arr[k]` is at minimal distance from `v`, and strictly closer than every
earlier entry (numpy `argmin` returns the first minimiser) -/
theorem nearest_minimises (arr : List ℚ) (v : ℚ) (k : Nat) (h : findNearest arr v = some k) :
    ∃ a, arr[k]? = some a ∧ (∀ (j : Nat) (x : ℚ), arr[j]? = some x → |a - v| ≤ |x - v|) ∧
      (∀ (j : Nat) (x : ℚ), j < k → arr[j]? = some x → |a - v| < |x - v|) := by
  unfold findNearest at h
  cases hg : nearestGo v arr with
  | none => simp [hg] at h
  | some kd =>
    obtain ⟨k', d⟩ := kd
    simp only [hg, Option.map_some, Option.some.injEq] at h
    subst h
    obtain ⟨⟨a, ha, hd⟩, hmin, hfirst⟩ := nearestGo_spec v arr k' d hg
    exact ⟨a, ha, fun j x hx => hd ▸ hmin j x hx, fun j x hj hx => hd ▸ hfirst j x hj hx⟩

/-- every non-empty array has a nearest index -/
theorem nearest_total (arr : List ℚ) (v : ℚ) (hne : arr ≠ []) : ∃ k, findNearest arr v = some k := by
  unfold findNearest
  cases hg : nearestGo v arr with
  | none => exact absurd (nearestGo_none v arr hg) hne
  | some kd => exact ⟨kd.1, rfl⟩

example : findNearest [1, 3, 5] 2 = some 0 := by decide +kernel   -- tie: the first minimiser

theorem sorted_get (l : List ℚ) (hs : l.Pairwise (· ≤ ·)) :
    ∀ (i j : Nat) (a b : ℚ), i ≤ j → l[i]? = some a → l[j]? = some b → a ≤ b := by
  induction l with
  | nil => intro i j a b _ ha; simp at ha
  | cons x r ih =>
    rw [List.pairwise_cons] at hs
    intro i j a b hij ha hb
    cases i with
    | zero =>
      simp at ha; subst ha
      cases j with
      | zero => simp at hb; subst hb; exact le_refl _
      | succ j => simp only [List.getElem?_cons_succ] at hb; exact hs.1 b (List.mem_of_getElem? hb)
    | succ i =>
      cases j with
      | zero => omega
      | succ j =>
        simp only [List.getElem?_cons_succ] at ha hb
        exact ih hs.2 i j a b (by omega) ha hb

/-- ★ on a non-decreasing array the nearest index is monotone in the value looked up -/
theorem nearest_monotone (arr : List ℚ) (hs : arr.Pairwise (· ≤ ·)) (v v' : ℚ) (hv : v ≤ v') (k k' : Nat)
    (h : findNearest arr v = some k) (h' : findNearest arr v' = some k') : k ≤ k' := by
  by_contra hc
  have hlt : k' < k := not_le.mp hc
  obtain ⟨a, ha, hmin, hfirst⟩ := nearest_minimises arr v k h
  obtain ⟨a', ha', hmin', _⟩ := nearest_minimises arr v' k' h'
  have hord : a' ≤ a := sorted_get arr hs k' k a' a (le_of_lt hlt) ha' ha
  have h1 : |a - v| < |a' - v| := hfirst k' a' hlt ha'
  have h2 : |a' - v'| ≤ |a - v'| := hmin' k a ha
  rcases abs_cases (a - v) with ⟨e1, _⟩ | ⟨e1, _⟩ <;> rcases abs_cases (a' - v) with ⟨e2, _⟩ | ⟨e2, _⟩ <;>
    rcases abs_cases (a' - v') with ⟨e3, _⟩ | ⟨e3, _⟩ <;> rcases abs_cases (a - v') with ⟨e4, _⟩ | ⟨e4, _⟩ <;>
    rw [e1, e2] at h1 <;> rw [e3, e4] at h2 <;> linarith

/-- ★ `alpha_cut(a)` returns the left and right bound at the grid level nearest to `a` -/
theorem alphacut_spec (g : List ℚ) (P : PB) (a l r : ℚ) (h : alphaCut g P a = .ok (l, r)) :
    ∃ k, findNearest g a = some k ∧ P.left[k]? = some l ∧ P.right[k]? = some r ∧ l ≤ r := by
  unfold alphaCut cutRaw nearestE getE mkIvl at h
  cases hk : findNearest g a with
  | none => simp [hk, bind, Except.bind] at h
  | some k =>
    cases hl : P.left[k]? with
    | none => simp [hk, hl, bind, Except.bind] at h
    | some l' =>
      cases hr : P.right[k]? with
      | none => simp [hk, hl, hr, bind, Except.bind] at h
      | some r' =>
        simp only [hk, hl, hr, bind, Except.bind, pure, Except.pure] at h
        by_cases hle : l' ≤ r'
        · simp only [hle, if_true, Except.ok.injEq, Prod.mk.injEq] at h
          obtain ⟨rfl, rfl⟩ := h
          exact ⟨k, rfl, hl, hr, hle⟩
        · simp [hle] at h

/-- `alpha_cut` succeeds on a p-box with as many steps as the grid and `left ≤ right` -/
theorem cutRaw_ok (g : List ℚ) (P : PB) (a : ℚ) (hne : g ≠ []) (hl : P.left.length = g.length)
    (hr : P.right.length = g.length) :
    ∃ k l r, findNearest g a = some k ∧ P.left[k]? = some l ∧ P.right[k]? = some r ∧ cutRaw g P a = .ok (l, r) := by
  obtain ⟨k, hk⟩ := nearest_total g a hne
  obtain ⟨x, hx, _⟩ := nearest_minimises g a k hk
  have hkl : k < g.length := (List.getElem?_eq_some_iff.mp hx).1
  refine ⟨k, P.left[k]'(by omega), P.right[k]'(by omega), hk, by simp, by simp, ?_⟩
  have e1 : P.left[k]? = some (P.left[k]'(by omega)) := by simp
  have e2 : P.right[k]? = some (P.right[k]'(by omega)) := by simp
  simp only [cutRaw, nearestE, getE, hk, e1, e2, bind, Except.bind, pure, Except.pure]

/-- ★ discretisation with the native step count returns the focal intervals (the steps) themselves -/
theorem discretise_native (g : List ℚ) (steps : Nat) (P : PB) (lv : List ℚ) (n : Option Nat)
    (hn : n = none ∨ n = some steps) (hlen : P.left.length = P.right.length) (hle : allLE P.left P.right = true) :
    discretise g steps P n lv = .ok (P.left.zip P.right) := by
  simp only [discretise, hn, if_true, hlen, hle, and_self]

/-- ★ each outer interval contains every alpha-cut of its probability band: if the band is `[p₀, p₁]`, the
outer interval is `[left at p₀, right at p₁]` and `p₀ ≤ a ≤ p₁`, then `alpha_cut(a)` lies inside it.
(`outerDiscretisation` pairs exactly these: `cutRaw … p₀`.1 with `cutRaw … p₁`.2 for consecutive levels.) -/
theorem outer_contains_band (g : List ℚ) (P : PB) (hg : g.Pairwise (· ≤ ·))
    (hL : P.left.Pairwise (· ≤ ·)) (hR : P.right.Pairwise (· ≤ ·))
    (p0 p1 a : ℚ) (h0 : p0 ≤ a) (h1 : a ≤ p1) (c0 c1 c : Ivl)
    (e0 : cutRaw g P p0 = .ok c0) (e1 : cutRaw g P p1 = .ok c1) (e : cutRaw g P a = .ok c) :
    c0.1 ≤ c.1 ∧ c.2 ≤ c1.2 := by
  have key : ∀ (x : ℚ) (cx : Ivl), cutRaw g P x = .ok cx →
      ∃ k, findNearest g x = some k ∧ P.left[k]? = some cx.1 ∧ P.right[k]? = some cx.2 := by
    intro x cx hx
    unfold cutRaw nearestE getE at hx
    cases hk : findNearest g x with
    | none => simp [hk, bind, Except.bind] at hx
    | some k =>
      cases hl : P.left[k]? with
      | none => simp [hk, hl, bind, Except.bind] at hx
      | some l' =>
        cases hr : P.right[k]? with
        | none => simp [hk, hl, hr, bind, Except.bind] at hx
        | some r' =>
          simp only [hk, hl, hr, bind, Except.bind, pure, Except.pure, Except.ok.injEq] at hx
          subst hx
          exact ⟨k, rfl, hl, hr⟩
  obtain ⟨k0, f0, l0, _⟩ := key p0 c0 e0
  obtain ⟨k1, f1, _, r1⟩ := key p1 c1 e1
  obtain ⟨k, f, l, r⟩ := key a c e
  have m0 : k0 ≤ k := nearest_monotone g hg p0 a h0 k0 k f0 f
  have m1 : k ≤ k1 := nearest_monotone g hg a p1 h1 k k1 f f1
  exact ⟨sorted_get _ hL k0 k _ _ m0 l0 l, sorted_get _ hR k k1 _ _ m1 r r1⟩

/-- the outer interval list is exactly that pairing -/
theorem outer_pairs (g : List ℚ) (P : PB) (lv : List ℚ) (o : List Ivl) (h : outerDiscretisation g P lv = .ok o) :
    ∃ ls rs, alphaCutArr g P lv.dropLast = .ok ls ∧ alphaCutArr g P lv.tail = .ok rs ∧
      o = (ls.map (·.1)).zip (rs.map (·.2)) := by
  unfold outerDiscretisation at h
  cases h1 : alphaCutArr g P lv.dropLast with
  | error e => simp [h1, bind, Except.bind] at h
  | ok ls =>
    cases h2 : alphaCutArr g P lv.tail with
    | error e => simp [h1, h2, bind, Except.bind] at h
    | ok rs =>
      simp only [h1, h2, bind, Except.bind, pure, Except.pure, Except.ok.injEq] at h
      exact ⟨ls, rs, rfl, rfl, h.symm⟩

/-! ## prediction intervals -/

/-- ★ whenever the narrowest prediction interval exists, the widest one (same coverage) contains it -/
theorem pi_widest_contains_narrowest (g : List ℚ) (P : PB) (alpha : ℚ) (n w : Ivl)
    (hn : getPI g P alpha true = .ok n) (hw : getPI g P alpha false = .ok w) : w.1 ≤ n.1 ∧ n.2 ≤ w.2 := by
  simp only [getPI, if_true, Bool.false_eq_true, if_false] at hn hw
  unfold piWidest at hw hn
  cases hh : alphaCut g P (piLevels alpha).2 with
  | error e => simp [hh, bind, Except.bind] at hw
  | ok h =>
    cases hl : alphaCut g P (piLevels alpha).1 with
    | error e => simp [hh, hl, bind, Except.bind] at hw
    | ok l =>
      obtain ⟨_, _, _, _, hle_h⟩ := alphacut_spec g P _ h.1 h.2 hh
      obtain ⟨_, _, _, _, hle_l⟩ := alphacut_spec g P _ l.1 l.2 hl
      simp only [hh, hl, bind, Except.bind, pure, Except.pure, mkIvl] at hw hn
      by_cases hwle : l.1 ≤ h.2
      · simp only [hwle, if_true, Except.ok.injEq] at hw hn
        subst hw
        by_cases hnle : l.2 ≤ h.1
        · simp only [hnle, if_true, Except.ok.injEq] at hn
          subst hn
          exact ⟨hle_l, hle_h⟩
        · simp only [hnle, if_false, Except.ok.injEq] at hn
          subst hn
          exact ⟨le_refl _, le_refl _⟩
      · simp [hwle] at hw

/-- the two cut levels move outwards as the coverage grows -/
theorem piLevels_mono (a1 a2 : ℚ) (h : a1 ≤ a2) :
    (piLevels a2).1 ≤ (piLevels a1).1 ∧ (piLevels a1).2 ≤ (piLevels a2).2 := by
  unfold piLevels; constructor <;> simp only <;> linarith

/-- ★ the widest prediction interval is monotone in the coverage level -/
theorem pi_widest_monotone (g : List ℚ) (P : PB) (hg : g.Pairwise (· ≤ ·))
    (hL : P.left.Pairwise (· ≤ ·)) (hR : P.right.Pairwise (· ≤ ·)) (a1 a2 : ℚ) (h : a1 ≤ a2) (w1 w2 : Ivl)
    (h1 : getPI g P a1 false = .ok w1) (h2 : getPI g P a2 false = .ok w2) : w2.1 ≤ w1.1 ∧ w1.2 ≤ w2.2 := by
  have key : ∀ (al : ℚ) (w : Ivl), getPI g P al false = .ok w →
      ∃ kl kh, findNearest g (piLevels al).1 = some kl ∧ findNearest g (piLevels al).2 = some kh ∧
        P.left[kl]? = some w.1 ∧ P.right[kh]? = some w.2 := by
    intro al w hw
    simp only [getPI, Bool.false_eq_true, if_false] at hw
    unfold piWidest at hw
    cases hh : alphaCut g P (piLevels al).2 with
    | error e => simp [hh, bind, Except.bind] at hw
    | ok hc =>
      cases hl : alphaCut g P (piLevels al).1 with
      | error e => simp [hh, hl, bind, Except.bind] at hw
      | ok lc =>
        obtain ⟨kh, fh, _, rh, _⟩ := alphacut_spec g P _ hc.1 hc.2 hh
        obtain ⟨kl, fl, ll, _, _⟩ := alphacut_spec g P _ lc.1 lc.2 hl
        simp only [hh, hl, bind, Except.bind, pure, Except.pure, mkIvl] at hw
        by_cases hwle : lc.1 ≤ hc.2
        · simp only [hwle, if_true, Except.ok.injEq] at hw
          subst hw
          exact ⟨kl, kh, fl, fh, ll, rh⟩
        · simp [hwle] at hw
  obtain ⟨kl1, kh1, fl1, fh1, l1, r1⟩ := key a1 w1 h1
  obtain ⟨kl2, kh2, fl2, fh2, l2, r2⟩ := key a2 w2 h2
  obtain ⟨m1, m2⟩ := piLevels_mono a1 a2 h
  have i1 : kl2 ≤ kl1 := nearest_monotone g hg _ _ m1 kl2 kl1 fl2 fl1
  have i2 : kh1 ≤ kh2 := nearest_monotone g hg _ _ m2 kh1 kh2 fh1 fh2
  exact ⟨sorted_get _ hL kl2 kl1 _ _ i1 l2 l1, sorted_get _ hR kh1 kh2 _ _ i2 r1 r2⟩

/-- "both are monotone", narrowest style: the narrowest interval is `[right bound at the lower cut, left bound at
the upper cut]`; the statement is about these two endpoints, i.e. about coverage levels where the narrowest
interval exists (where it does not, `get_PI` documents a fall-back to the widest interval, which is covered by
`pi_widest_monotone`; a fall-back value is not comparable with a narrowest value). -/
def PiNarrowMonotoneStatement : Prop :=
  ∀ (g : List ℚ) (P : PB), g.Pairwise (· ≤ ·) → P.left.Pairwise (· ≤ ·) → P.right.Pairwise (· ≤ ·) →
    ∀ (a1 a2 : ℚ), a1 ≤ a2 → ∀ (c1l c1h c2l c2h : Ivl),
      cutRaw g P (piLevels a1).1 = .ok c1l → cutRaw g P (piLevels a1).2 = .ok c1h →
      cutRaw g P (piLevels a2).1 = .ok c2l → cutRaw g P (piLevels a2).2 = .ok c2h →
      c2l.2 ≤ c1l.2 ∧ c1h.1 ≤ c2h.1

/-- ★ narrowest style: its two endpoints move outwards as the coverage grows -/
theorem pi_narrow_monotone : PiNarrowMonotoneStatement := by
  intro g P hg hL hR a1 a2 h c1l c1h c2l c2h e1l e1h e2l e2h
  obtain ⟨m1, m2⟩ := piLevels_mono a1 a2 h
  exact ⟨by
    -- right bound at the lower cut: lower level (a2) gives the smaller value
    have := outer_contains_band g P hg hL hR (piLevels a2).1 (piLevels a1).1 (piLevels a2).1 (le_refl _) m1 c2l c1l c2l e2l e1l e2l
    exact this.2, by
    have := outer_contains_band g P hg hL hR (piLevels a1).2 (piLevels a2).2 (piLevels a2).2 m2 (le_refl _) c1h c2h c2h e1h e2h e2h
    exact this.1⟩

/-! ### the narrowest style of `get_PI`, with its documented fall-back: exactly where it is monotone -/

/-- the narrowest prediction interval exists at coverage `a`: the right bound at the lower cut does not exceed
the left bound at the upper cut -/
def NarrowExists (g : List ℚ) (P : PB) (a : ℚ) : Prop :=
  ∃ l h, alphaCut g P (piLevels a).1 = .ok l ∧ alphaCut g P (piLevels a).2 = .ok h ∧ l.2 ≤ h.1

theorem getPI_narrow_spec (g : List ℚ) (P : PB) (a : ℚ) (n : Ivl) (hn : getPI g P a true = .ok n) :
    ∃ l h, alphaCut g P (piLevels a).1 = .ok l ∧ alphaCut g P (piLevels a).2 = .ok h ∧
      ((l.2 ≤ h.1 ∧ n = (l.2, h.1)) ∨ (¬ l.2 ≤ h.1 ∧ getPI g P a false = .ok n)) := by
  simp only [getPI, if_true, Bool.false_eq_true, if_false] at hn ⊢
  cases hh : alphaCut g P (piLevels a).2 with
  | error e => simp [hh, bind, Except.bind] at hn
  | ok h =>
    cases hl : alphaCut g P (piLevels a).1 with
    | error e => simp [hh, hl, bind, Except.bind] at hn
    | ok l =>
      simp only [hh, hl, bind, Except.bind, pure, Except.pure] at hn
      refine ⟨l, h, rfl, rfl, ?_⟩
      by_cases hc : l.2 ≤ h.1
      · simp only [hc, if_true, Except.ok.injEq] at hn
        exact Or.inl ⟨hc, hn.symm⟩
      · simp only [hc, if_false] at hn
        exact Or.inr ⟨hc, hn⟩

/-- the four bounds at the two cut levels move outwards as the coverage grows -/
theorem cuts_mono (g : List ℚ) (P : PB) (hg : g.Pairwise (· ≤ ·)) (hL : P.left.Pairwise (· ≤ ·))
    (hR : P.right.Pairwise (· ≤ ·)) (a1 a2 : ℚ) (h : a1 ≤ a2) (l1 h1 l2 h2 : Ivl)
    (e1 : alphaCut g P (piLevels a1).1 = .ok l1) (e2 : alphaCut g P (piLevels a1).2 = .ok h1)
    (e3 : alphaCut g P (piLevels a2).1 = .ok l2) (e4 : alphaCut g P (piLevels a2).2 = .ok h2) :
    l2.1 ≤ l1.1 ∧ l2.2 ≤ l1.2 ∧ h1.1 ≤ h2.1 ∧ h1.2 ≤ h2.2 := by
  obtain ⟨m1, m2⟩ := piLevels_mono a1 a2 h
  obtain ⟨k1, f1, a1l, a1r, _⟩ := alphacut_spec g P _ l1.1 l1.2 e1
  obtain ⟨k2, f2, a2l, a2r, _⟩ := alphacut_spec g P _ h1.1 h1.2 e2
  obtain ⟨k3, f3, a3l, a3r, _⟩ := alphacut_spec g P _ l2.1 l2.2 e3
  obtain ⟨k4, f4, a4l, a4r, _⟩ := alphacut_spec g P _ h2.1 h2.2 e4
  have i1 : k3 ≤ k1 := nearest_monotone g hg _ _ m1 k3 k1 f3 f1
  have i2 : k2 ≤ k4 := nearest_monotone g hg _ _ m2 k2 k4 f2 f4
  exact ⟨sorted_get _ hL k3 k1 _ _ i1 a3l a1l, sorted_get _ hR k3 k1 _ _ i1 a3r a1r,
    sorted_get _ hL k2 k4 _ _ i2 a2l a4l, sorted_get _ hR k2 k4 _ _ i2 a2r a4r⟩

/-- ★ region 1: if the narrowest interval exists at coverage `a1`, it exists at every larger coverage `a2`, and
`get_PI(a1) ⊆ get_PI(a2)` (narrowest style) -/
theorem pi_narrow_monotone_where_exists (g : List ℚ) (P : PB) (hg : g.Pairwise (· ≤ ·))
    (hL : P.left.Pairwise (· ≤ ·)) (hR : P.right.Pairwise (· ≤ ·)) (a1 a2 : ℚ) (h : a1 ≤ a2) (n1 n2 : Ivl)
    (h1 : getPI g P a1 true = .ok n1) (h2 : getPI g P a2 true = .ok n2) (hex : NarrowExists g P a1) :
    NarrowExists g P a2 ∧ n2.1 ≤ n1.1 ∧ n1.2 ≤ n2.2 := by
  obtain ⟨l1, c1, e1, e2, d1⟩ := getPI_narrow_spec g P a1 n1 h1
  obtain ⟨l2, c2, e3, e4, d2⟩ := getPI_narrow_spec g P a2 n2 h2
  obtain ⟨l1', c1', e1', e2', hx⟩ := hex
  rw [e1, Except.ok.injEq] at e1'; rw [e2, Except.ok.injEq] at e2'
  subst e1'; subst e2'
  obtain ⟨_, q2, q3, _⟩ := cuts_mono g P hg hL hR a1 a2 h l1 c1 l2 c2 e1 e2 e3 e4
  have hx2 : l2.2 ≤ c2.1 := by linarith
  refine ⟨⟨l2, c2, e3, e4, hx2⟩, ?_⟩
  rcases d1 with ⟨_, rfl⟩ | ⟨hn, _⟩
  · rcases d2 with ⟨_, rfl⟩ | ⟨hn2, _⟩
    · exact ⟨q2, q3⟩
    · exact absurd hx2 hn2
  · exact absurd hx hn

/-- ★ region 2: if the narrowest interval does not exist at the larger coverage `a2`, it does not exist at `a1`
either, both answers are the fall-back (widest) intervals, and `get_PI(a1) ⊆ get_PI(a2)` -/
theorem pi_narrow_monotone_both_fallback (g : List ℚ) (P : PB) (hg : g.Pairwise (· ≤ ·))
    (hL : P.left.Pairwise (· ≤ ·)) (hR : P.right.Pairwise (· ≤ ·)) (a1 a2 : ℚ) (h : a1 ≤ a2) (n1 n2 : Ivl)
    (h1 : getPI g P a1 true = .ok n1) (h2 : getPI g P a2 true = .ok n2) (hne : ¬ NarrowExists g P a2) :
    ¬ NarrowExists g P a1 ∧ n2.1 ≤ n1.1 ∧ n1.2 ≤ n2.2 := by
  have hne1 : ¬ NarrowExists g P a1 := fun hex =>
    hne (pi_narrow_monotone_where_exists g P hg hL hR a1 a2 h n1 n2 h1 h2 hex).1
  refine ⟨hne1, ?_⟩
  obtain ⟨l1, c1, e1, e2, d1⟩ := getPI_narrow_spec g P a1 n1 h1
  obtain ⟨l2, c2, e3, e4, d2⟩ := getPI_narrow_spec g P a2 n2 h2
  rcases d1 with ⟨hx, _⟩ | ⟨_, w1⟩
  · exact absurd ⟨l1, c1, e1, e2, hx⟩ hne1
  · rcases d2 with ⟨hx, _⟩ | ⟨_, w2⟩
    · exact absurd ⟨l2, c2, e3, e4, hx⟩ hne
    · exact pi_widest_monotone g P hg hL hR a1 a2 h n1 n2 w1 w2

/-- the p-box of the counterexample: 200 steps, `left[i] = i`, `right[i] = i + 100` -/
def cexBox : PB := ⟨(List.range 200).map (fun i => (i : ℚ)), (List.range 200).map (fun i => (i : ℚ) + 100)⟩

def piPair (g : List ℚ) (P : PB) (a1 a2 : ℚ) : Option (Ivl × Ivl) :=
  match getPI g P a1 true, getPI g P a2 true with
  | .ok n1, .ok n2 => some (n1, n2)
  | _, _ => none

/-- ★ outside those two regions the documented fall-back breaks monotonicity — decided on the model for the grid of
the source (and replayed on the real code by the harness on every run): at coverage 1/8 the narrowest interval does
not exist and `get_PI` answers the widest `[87, 212]`; at coverage 63/64 it exists and is `[101, 198]`, which does
not contain the former. -/
theorem pi_fallback_breaks_monotone :
    piPair Gen.pValues cexBox (1 / 8) (63 / 64) = some ((87, 212), (101, 198)) := by decide +kernel

/-! ## cumulative probability at `x` (after the repair: last step whose bound is `≤ x`) -/

theorem countLE_spec (l : List ℚ) (x : ℚ) :
    (∀ (j : Nat) (b : ℚ), j < countLE l x → l[j]? = some b → b ≤ x) ∧
    (∀ (b : ℚ), l[countLE l x]? = some b → x < b) := by
  induction l with
  | nil => simp [countLE]
  | cons a r ih =>
    by_cases h : a ≤ x
    · simp only [countLE, h, if_true]
      constructor
      · intro j b hj hb
        cases j with
        | zero => simp at hb; subst hb; exact h
        | succ j => simp only [List.getElem?_cons_succ] at hb; exact ih.1 j b (by omega) hb
      · intro b hb
        simp only [List.getElem?_cons_succ] at hb; exact ih.2 b hb
    · simp only [countLE, h, if_false]
      refine ⟨by intro j b hj; omega, ?_⟩
      intro b hb; simp at hb; subst hb; exact not_le.mp h

/-- ○ `cdf(x)` and the alpha-cuts are inverse within one grid step: the step `k` picked for a bound array `b`
satisfies `b[k] ≤ x < b[k+1]` whenever `x` is inside the support of `b` (`b[0] ≤ x < b[last]`) -/
theorem cdf_bracket (b : List ℚ) (x : ℚ) (last : Nat) (hlast : last + 1 = b.length)
    (b0 bl : ℚ) (h0 : b[0]? = some b0) (hl : b[last]? = some bl) (hin0 : b0 ≤ x) (hin1 : x < bl) :
    ∃ lo hi, b[stepOf last b x]? = some lo ∧ b[stepOf last b x + 1]? = some hi ∧ lo ≤ x ∧ x < hi := by
  obtain ⟨s1, s2⟩ := countLE_spec b x
  have hpos : 0 < countLE b x := by
    by_contra hc
    have hz : countLE b x = 0 := by omega
    have := s2 b0 (by rw [hz]; exact h0)
    linarith
  have hlt : countLE b x ≤ last := by
    by_contra hc
    have := s1 last bl (by omega) hl
    linarith
  have hk : stepOf last b x = countLE b x - 1 := by unfold stepOf; omega
  have hlen : countLE b x < b.length := by omega
  refine ⟨b[countLE b x - 1]'(by omega), b[countLE b x]'hlen, ?_, ?_, ?_, ?_⟩
  · rw [hk]; simp
  · rw [hk]; have : countLE b x - 1 + 1 = countLE b x := by omega
    rw [this]; simp
  · exact s1 (countLE b x - 1) _ (by omega) (by simp)
  · exact s2 _ (by simp)

/-! ## condensation contains the original p-box -/

theorem cutRaw_spec (g : List ℚ) (P : PB) (x : ℚ) (cx : Ivl) (hx : cutRaw g P x = .ok cx) :
    ∃ k, findNearest g x = some k ∧ P.left[k]? = some cx.1 ∧ P.right[k]? = some cx.2 := by
  unfold cutRaw nearestE getE at hx
  cases hk : findNearest g x with
  | none => simp [hk, bind, Except.bind] at hx
  | some k =>
    cases hl : P.left[k]? with
    | none => simp [hk, hl, bind, Except.bind] at hx
    | some l' =>
      cases hr : P.right[k]? with
      | none => simp [hk, hl, hr, bind, Except.bind] at hx
      | some r' =>
        simp only [hk, hl, hr, bind, Except.bind, pure, Except.pure, Except.ok.injEq] at hx
        subst hx
        exact ⟨k, rfl, hl, hr⟩

theorem mapE_spec (f : ℚ → Except Err Ivl) (l : List ℚ) (cs : List Ivl) (h : mapE f l = .ok cs) :
    cs.length = l.length ∧ ∀ (j : Nat) (a : ℚ), l[j]? = some a → ∃ c, cs[j]? = some c ∧ f a = .ok c := by
  induction l generalizing cs with
  | nil => simp only [mapE, Except.ok.injEq] at h; subst h; simp
  | cons x r ih =>
    simp only [mapE] at h
    cases hf : f x with
    | error e => simp [hf] at h
    | ok a =>
      cases hm : mapE f r with
      | error e => simp [hf, hm] at h
      | ok l' =>
        simp only [hf, hm, Except.ok.injEq] at h
        subst h
        obtain ⟨hlen, hspec⟩ := ih l' hm
        refine ⟨by simp [hlen], ?_⟩
        intro j b hb
        cases j with
        | zero => simp at hb; subst hb; exact ⟨a, by simp, hf⟩
        | succ j => simp only [List.getElem?_cons_succ] at hb ⊢; exact hspec j b hb

theorem alphaCutArr_spec (g : List ℚ) (P : PB) (lv : List ℚ) (cs : List Ivl) (h : alphaCutArr g P lv = .ok cs) :
    cs.length = lv.length ∧ ∀ (j : Nat) (a : ℚ), lv[j]? = some a → ∃ c, cs[j]? = some c ∧ cutRaw g P a = .ok c := by
  unfold alphaCutArr at h
  cases hm : mapE (cutRaw g P) lv with
  | error e => simp [hm, bind, Except.bind] at h
  | ok cs' =>
    simp only [hm, bind, Except.bind, pure, Except.pure] at h
    split at h
    · simp only [Except.ok.injEq] at h; subst h; exact mapE_spec _ _ _ hm
    · simp at h

/-- the `j`-th outer interval is `[left at level j, right at level j+1]` -/
theorem outer_spec (g : List ℚ) (P : PB) (lv : List ℚ) (o : List Ivl) (M : Nat) (hlen : lv.length = M + 1)
    (h : outerDiscretisation g P lv = .ok o) :
    o.length = M ∧ ∀ (j : Nat) (a b : ℚ), lv[j]? = some a → lv[j + 1]? = some b →
      ∃ c0 c1, cutRaw g P a = .ok c0 ∧ cutRaw g P b = .ok c1 ∧ o[j]? = some (c0.1, c1.2) := by
  obtain ⟨ls, rs, h1, h2, rfl⟩ := outer_pairs g P lv o h
  obtain ⟨l1, s1⟩ := alphaCutArr_spec g P _ ls h1
  obtain ⟨l2, s2⟩ := alphaCutArr_spec g P _ rs h2
  refine ⟨by simp [l1, l2, hlen], ?_⟩
  intro j a b ha hb
  have hj : j + 1 < lv.length := (List.getElem?_eq_some_iff.mp hb).1
  obtain ⟨c0, hc0, e0⟩ := s1 j a (by rw [List.getElem?_dropLast]; simp [ha]; omega)
  obtain ⟨c1, hc1, e1⟩ := s2 j b (by simpa using hb)
  refine ⟨c0, c1, e0, e1, ?_⟩
  rw [List.getElem?_zip_eq_some]
  simp [hc0, hc1]

theorem pairwise_of_get (l : List ℚ)
    (h : ∀ (i j : Nat) (a b : ℚ), i ≤ j → l[i]? = some a → l[j]? = some b → a ≤ b) : l.Pairwise (· ≤ ·) := by
  induction l with
  | nil => simp
  | cons x r ih =>
    rw [List.pairwise_cons]
    refine ⟨?_, ih (fun i j a b hij ha hb => h (i + 1) (j + 1) a b (by omega) (by simpa using ha) (by simpa using hb))⟩
    intro y hy
    obtain ⟨j, hj⟩ := List.mem_iff_getElem?.mp hy
    exact h 0 (j + 1) x y (by omega) (by simp) (by simpa using hj)

/-- adjacent grid levels are at least `δ` apart -/
def GridGap (g : List ℚ) (δ : ℚ) : Prop :=
  ∀ (i : Nat) (a b : ℚ), g[i]? = some a → g[i + 1]? = some b → a + δ ≤ b

theorem gap_far (g : List ℚ) (δ : ℚ) (hδ : 0 ≤ δ) (hgap : GridGap g δ) :
    ∀ (d i : Nat) (a b : ℚ), g[i]? = some a → g[i + 1 + d]? = some b → a + δ ≤ b := by
  intro d
  induction d with
  | zero => intro i a b ha hb; exact hgap i a b ha hb
  | succ d ih =>
    intro i a b ha hb
    have hlt : i + 1 + d < g.length := by
      have := (List.getElem?_eq_some_iff.mp hb).1; omega
    have h1 := ih i a g[i + 1 + d] ha (by simp [hlt])
    have h2 := hgap (i + 1 + d) g[i + 1 + d] b (by simp [hlt]) (by rw [← hb]; congr 1)
    linarith

/-- a level at most `η` above the grid level `g[i]` (with `2η < δ`) has its nearest grid index `≤ i` -/
theorem nearest_le (g : List ℚ) (δ η : ℚ) (hδ : 0 ≤ δ) (hgap : GridGap g δ) (hη0 : 0 ≤ η) (hη : 2 * η < δ)
    (i k : Nat) (p x : ℚ) (hp : g[i]? = some p) (hk : findNearest g x = some k) (hx : x ≤ p + η) : k ≤ i := by
  by_contra hc
  obtain ⟨q, hq, _, hfirst⟩ := nearest_minimises g x k hk
  have hik : i < k := not_le.mp hc
  have hfar : p + δ ≤ q := by
    have : k = i + 1 + (k - i - 1) := by omega
    rw [this] at hq
    exact gap_far g δ hδ hgap _ i p q hp hq
  have h1 := hfirst i p hik hp
  rcases abs_cases (q - x) with ⟨e1, _⟩ | ⟨e1, _⟩ <;> rcases abs_cases (p - x) with ⟨e2, _⟩ | ⟨e2, _⟩ <;>
    rw [e1, e2] at h1 <;> linarith

/-- a level at most `η` below the grid level `g[i]` has its nearest grid index `≥ i` -/
theorem nearest_ge (g : List ℚ) (δ η : ℚ) (hδ : 0 ≤ δ) (hgap : GridGap g δ) (hη0 : 0 ≤ η) (hη : 2 * η < δ)
    (i k : Nat) (p x : ℚ) (hp : g[i]? = some p) (hk : findNearest g x = some k) (hx : p - η ≤ x) : i ≤ k := by
  by_contra hc
  obtain ⟨q, hq, hmin, _⟩ := nearest_minimises g x k hk
  have hki : k < i := not_le.mp hc
  have hfar : q + δ ≤ p := by
    have : i = k + 1 + (i - k - 1) := by omega
    rw [this] at hp
    exact gap_far g δ hδ hgap _ k q p hq hp
  have h1 := hmin i p hp
  rcases abs_cases (q - x) with ⟨e1, _⟩ | ⟨e1, _⟩ <;> rcases abs_cases (p - x) with ⟨e2, _⟩ | ⟨e2, _⟩ <;>
    rw [e1, e2] at h1 <;> linarith

/-- every probability level in `(0,1]` lies in exactly one of `M` equal bands -/
theorem band_exists (p : ℚ) (M : Nat) (hM : 0 < M) (h0 : 0 < p) (h1 : p ≤ 1) :
    ∃ j, j < M ∧ (j : ℚ) / M < p ∧ p ≤ ((j : ℚ) + 1) / M := by
  have hMq : (0 : ℚ) < M := by exact_mod_cast hM
  have hpos : 0 < p * M := mul_pos h0 hMq
  have hk1 : 0 < ⌈p * M⌉₊ := Nat.ceil_pos.mpr hpos
  obtain ⟨j, hj⟩ := Nat.exists_eq_succ_of_ne_zero (Nat.pos_iff_ne_zero.mp hk1)
  have hle : p * M ≤ (⌈p * M⌉₊ : ℚ) := Nat.le_ceil _
  have hlt : (⌈p * M⌉₊ : ℚ) < p * M + 1 := Nat.ceil_lt_add_one (le_of_lt hpos)
  have hkM : ⌈p * M⌉₊ ≤ M := Nat.ceil_le.mpr (by nlinarith)
  rw [hj] at hle hlt hkM
  push_cast at hle hlt
  refine ⟨j, by omega, ?_, ?_⟩
  · rw [div_lt_iff₀ hMq]; linarith
  · rw [le_div_iff₀ hMq]; linarith

/-- the level table is (within `ε`) `0.001 + 0.998·j/M`, `j = 0..M`, in non-decreasing order:
what `np.linspace(0.001, 0.999, M+1)` produces; checked on every table by the harness and, for the
tables `M+1 = 2..steps` of the source, decided in `levels_source_ok` -/
structure LevelsOK (lv : List ℚ) (M : Nat) (ε : ℚ) : Prop where
  len : lv.length = M + 1
  sorted : lv.Pairwise (· ≤ ·)
  close : ∀ (j : Nat) (x : ℚ), lv[j]? = some x → |x - (1 / 1000 + 998 / 1000 * j / M)| ≤ ε

theorem stacking_none (g lo hi : List ℚ) :
    stacking g lo hi none = stacking g lo hi (some (equalW lo.length)) := rfl

/-- ★ condensation to `M` outer pieces (stacked with equal masses) contains the original p-box, for every grid
of levels in `(0,1]` whose neighbours are at least `δ > 2(0.001+ε)` apart and every level table within `ε` of
`0.001 + 0.998·j/M`. -/
theorem condensation_contains (g : List ℚ) (n M : Nat) (δ ε : ℚ) (P C : PB) (lv : List ℚ)
    (hg : C08.GridOK g) (hgn : g.length = n) (hgap : GridGap g δ) (hε : 0 ≤ ε) (hδ : 2 * (1 / 1000 + ε) < δ)
    (hM : 0 < M) (hlv : LevelsOK lv M ε) (hP : C08.WF n P) (hC : condensation g P lv = .ok C) :
    allLE C.left P.left = true ∧ allLE P.right C.right = true := by
  have hδ0 : 0 ≤ δ := by linarith
  have hMq : (0 : ℚ) < M := by exact_mod_cast hM
  unfold condensation at hC
  cases ho : outerDiscretisation g P lv with
  | error e => simp [ho, bind, Except.bind] at hC
  | ok o =>
    simp only [ho, bind, Except.bind] at hC
    obtain ⟨olen, ospec⟩ := outer_spec g P lv o M hlv.len ho
    -- the j-th outer interval in terms of nearest indices
    have oj : ∀ (j : Nat), j < M → ∃ k0 k1 a b l r, lv[j]? = some a ∧ lv[j + 1]? = some b ∧
        findNearest g a = some k0 ∧ findNearest g b = some k1 ∧ P.left[k0]? = some l ∧ P.right[k1]? = some r ∧
        P.right[k0]? ≠ none ∧ P.left[k1]? ≠ none ∧ o[j]? = some (l, r) := by
      intro j hj
      have h1 : j < lv.length := by rw [hlv.len]; omega
      have h2 : j + 1 < lv.length := by rw [hlv.len]; omega
      obtain ⟨c0, c1, e0, e1, hoj⟩ := ospec j lv[j] lv[j + 1] (by simp [h1]) (by simp [h2])
      obtain ⟨k0, f0, l0, r0⟩ := cutRaw_spec g P _ c0 e0
      obtain ⟨k1, f1, l1, r1⟩ := cutRaw_spec g P _ c1 e1
      exact ⟨k0, k1, _, _, c0.1, c1.2, by simp [h1], by simp [h2], f0, f1, l0, r1, by simp [r0], by simp [l1], hoj⟩
    have lo_get : ∀ (j : Nat) (x : ℚ), (o.map (·.1))[j]? = some x → ∃ k a, lv[j]? = some a ∧ findNearest g a = some k ∧ P.left[k]? = some x := by
      intro j x hx
      have hj : j < M := by
        have := (List.getElem?_eq_some_iff.mp hx).1; simpa [olen] using this
      obtain ⟨k0, k1, a, b, l, r, ha, hb, f0, f1, hl, hr, _, _, hoj⟩ := oj j hj
      simp only [List.getElem?_map, hoj, Option.map_some, Option.some.injEq] at hx
      subst hx
      exact ⟨k0, a, ha, f0, hl⟩
    have hi_get : ∀ (j : Nat) (x : ℚ), (o.map (·.2))[j]? = some x → ∃ k b, lv[j + 1]? = some b ∧ findNearest g b = some k ∧ P.right[k]? = some x := by
      intro j x hx
      have hj : j < M := by
        have := (List.getElem?_eq_some_iff.mp hx).1; simpa [olen] using this
      obtain ⟨k0, k1, a, b, l, r, ha, hb, f0, f1, hl, hr, _, _, hoj⟩ := oj j hj
      simp only [List.getElem?_map, hoj, Option.map_some, Option.some.injEq] at hx
      subst hx
      exact ⟨k1, b, hb, f1, hr⟩
    have lo_sorted : (o.map (·.1)).Pairwise (· ≤ ·) := by
      apply pairwise_of_get
      intro i j x y hij hx hy
      obtain ⟨k, a, ha, fk, hl⟩ := lo_get i x hx
      obtain ⟨k', a', ha', fk', hl'⟩ := lo_get j y hy
      have := C08.pairwise_get lv hlv.sorted i j a a' hij ha ha'
      exact sorted_get _ hP.lsorted k k' x y (nearest_monotone g hg.2 a a' this k k' fk fk') hl hl'
    have hi_sorted : (o.map (·.2)).Pairwise (· ≤ ·) := by
      apply pairwise_of_get
      intro i j x y hij hx hy
      obtain ⟨k, a, ha, fk, hl⟩ := hi_get i x hx
      obtain ⟨k', a', ha', fk', hl'⟩ := hi_get j y hy
      have := C08.pairwise_get lv hlv.sorted (i + 1) (j + 1) a a' (by omega) ha ha'
      exact sorted_get _ hP.rsorted k k' x y (nearest_monotone g hg.2 a a' this k k' fk fk') hl hl'
    have lo_hi : allLE (o.map (·.1)) (o.map (·.2)) = true := by
      apply C08.allLE_of_get _ _ (by simp)
      intro j x y hx hy
      have hj : j < M := by
        have := (List.getElem?_eq_some_iff.mp hx).1; simpa [olen] using this
      obtain ⟨k0, k1, a, b, l, r, ha, hb, f0, f1, hl, hr, hr0, _, hoj⟩ := oj j hj
      simp only [List.getElem?_map, hoj, Option.map_some, Option.some.injEq] at hx hy
      subst hx; subst hy
      obtain ⟨r0, hr0'⟩ := Option.ne_none_iff_exists'.mp hr0
      have hab := C08.pairwise_get lv hlv.sorted j (j + 1) a b (by omega) ha hb
      have hk := nearest_monotone g hg.2 a b hab k0 k1 f0 f1
      have h1 : l ≤ r0 := C08.allLE_get hP.le hl hr0'
      have h2 : r0 ≤ r := sorted_get _ hP.rsorted k0 k1 r0 r hk hr0' hr
      linarith
    have hlenlo : (o.map (·.1)).length = M := by simp [olen]
    have hlenhi : (o.map (·.2)).length = M := by simp [olen]
    obtain ⟨C', hC', cl, cr, cspec⟩ := C08.stacking_geninv g (o.map (·.1)) (o.map (·.2)) (equalW M)
      (hlenlo.trans hlenhi.symm) (C08.validW_equal _ M hlenlo hM) lo_hi hg
    rw [stacking_none, hlenlo, hC', Except.ok.injEq] at hC
    subst hC
    -- pointwise comparison
    have point : ∀ (i : Nat) (p : ℚ), g[i]? = some p → ∃ cl cr pl pr, C'.left[i]? = some cl ∧ C'.right[i]? = some cr ∧
        P.left[i]? = some pl ∧ P.right[i]? = some pr ∧ cl ≤ pl ∧ pr ≤ cr := by
      intro i p hp
      have hi : i < n := by rw [← hgn]; exact (List.getElem?_eq_some_iff.mp hp).1
      have hpin := hg.1 p (List.mem_of_getElem? hp)
      obtain ⟨j, hjM, b1, b2⟩ := band_exists p M hM hpin.1 hpin.2
      obtain ⟨a, b, ha, hb, ga, gb⟩ := cspec i p hp
      obtain ⟨k0, k1, x0, x1, l, r, hx0, hx1, f0, f1, hl, hr, _, _, hoj⟩ := oj j hjM
      have hloj : (o.map (·.1))[j]? = some l := by simp [hoj]
      have hhij : (o.map (·.2))[j]? = some r := by simp [hoj]
      have e1 : a = l := ga.unique (C08.sorted_geninv _ M hlenlo lo_sorted j l p hloj b1 b2)
      have e2 : b = r := gb.unique (C08.sorted_geninv _ M hlenhi hi_sorted j r p hhij b1 b2)
      subst e1; subst e2
      have c0 := abs_le.mp (hlv.close j x0 hx0)
      have c1 := abs_le.mp (hlv.close (j + 1) x1 hx1)
      have hjq : (j : ℚ) / M < p := b1
      have hj0 : (0 : ℚ) ≤ (j : ℚ) / M := by positivity
      have hj1 : ((j : ℚ) + 1) / M ≤ 1 := by
        rw [div_le_one hMq]; exact_mod_cast hjM
      have k0i : k0 ≤ i := by
        apply nearest_le g δ (1 / 1000 + ε) hδ0 hgap (by linarith) hδ i k0 p x0 hp f0
        have : (998 : ℚ) / 1000 * j / M = 998 / 1000 * ((j : ℚ) / M) := by ring
        linarith [c0.2]
      have ik1 : i ≤ k1 := by
        apply nearest_ge g δ (1 / 1000 + ε) hδ0 hgap (by linarith) hδ i k1 p x1 hp f1
        have : (998 : ℚ) / 1000 * ((j + 1 : ℕ) : ℚ) / M = 998 / 1000 * (((j : ℚ) + 1) / M) := by push_cast; ring
        linarith [c1.1]
      have hil : i < P.left.length := by rw [hP.llen]; exact hi
      have hir : i < P.right.length := by rw [hP.rlen]; exact hi
      refine ⟨a, b, P.left[i], P.right[i], ha, hb, by simp [hil], by simp [hir], ?_, ?_⟩
      · exact sorted_get _ hP.lsorted k0 i a _ k0i hl (by simp [hil])
      · exact sorted_get _ hP.rsorted i k1 _ b ik1 (by simp [hir]) hr
    constructor
    · apply C08.allLE_of_get _ _ (by rw [cl, hgn, hP.llen])
      intro i x y hx hy
      have hi : i < g.length := by rw [← cl]; exact (List.getElem?_eq_some_iff.mp hx).1
      obtain ⟨c1, c2, p1, p2, h1, h2, h3, h4, h5, h6⟩ := point i g[i] (by simp [hi])
      rw [hx] at h1; rw [hy] at h3
      simp only [Option.some.injEq] at h1 h3; subst h1; subst h3; exact h5
    · apply C08.allLE_of_get _ _ (by rw [cr, hgn, hP.rlen])
      intro i x y hx hy
      have hi : i < g.length := by rw [hgn, ← hP.rlen]; exact (List.getElem?_eq_some_iff.mp hx).1
      obtain ⟨c1, c2, p1, p2, h1, h2, h3, h4, h5, h6⟩ := point i g[i] (by simp [hi])
      rw [hx] at h4; rw [hy] at h2
      simp only [Option.some.injEq] at h2 h4; subst h2; subst h4; exact h6

/-! ### the grid and the level tables of the source satisfy the hypotheses (regenerated, decided on every build) -/

def gapB (δ : ℚ) : List ℚ → Bool
  | a :: b :: r => decide (a + δ ≤ b) && gapB δ (b :: r)
  | _ => true

theorem gapB_spec (δ : ℚ) (g : List ℚ) (h : gapB δ g = true) : GridGap g δ := by
  induction g with
  | nil => intro i a b ha; simp at ha
  | cons x r ih =>
    cases r with
    | nil => intro i a b ha hb; simp at hb
    | cons y r' =>
      simp only [gapB, Bool.and_eq_true, decide_eq_true_eq] at h
      intro i a b ha hb
      cases i with
      | zero => simp at ha hb; subst ha; subst hb; exact h.1
      | succ i => exact ih h.2 i a b (by simpa using ha) (by simpa using hb)

/-- the level check on the numerators (`x = k / D`), in integer arithmetic:
`|1000·M·k − D·(M + 998·j)| · E ≤ 1000·M·D`  ⇔  `|k/D − (1/1000 + 998/1000·j/M)| ≤ 1/E` -/
def closeN (M D E : Nat) : List Nat → Nat → Bool
  | [], _ => true
  | k :: r, j => decide (Int.natAbs ((1000 * M * k : Int) - D * (M + 998 * j)) * E ≤ 1000 * M * D) && closeN M D E r (j + 1)

def sortedN : List Nat → Bool
  | a :: b :: r => decide (a ≤ b) && sortedN (b :: r)
  | _ => true

def toQ (D : Nat) (k : Nat) : ℚ := mkRat (Int.ofNat k) D

theorem toQ_eq (D k : Nat) : toQ D k = (k : ℚ) / D := by
  unfold toQ; rw [Rat.mkRat_eq_div]; simp

theorem closeN_spec (M D E : Nat) (hM : 0 < M) (hD : 0 < D) (hE : 0 < E) (l : List Nat) (i : Nat)
    (h : closeN M D E l i = true) :
    ∀ (j : Nat) (x : ℚ), (l.map (toQ D))[j]? = some x →
      |x - (1 / 1000 + 998 / 1000 * ((i + j : ℕ) : ℚ) / M)| ≤ 1 / (E : ℚ) := by
  induction l generalizing i with
  | nil => intro j x hx; simp at hx
  | cons k r ih =>
    simp only [closeN, Bool.and_eq_true, decide_eq_true_eq] at h
    intro j x hx
    cases j with
    | zero =>
      simp only [List.map_cons, List.getElem?_cons_zero, Option.some.injEq] at hx
      subst hx
      have hMq : (0 : ℚ) < M := by exact_mod_cast hM
      have hDq : (0 : ℚ) < D := by exact_mod_cast hD
      have hEq : (0 : ℚ) < E := by exact_mod_cast hE
      have h1 : ((Int.natAbs ((1000 * M * k : Int) - D * (M + 998 * i)) * E : ℕ) : ℚ) ≤ ((1000 * M * D : ℕ) : ℚ) := by
        exact_mod_cast h.1
      push_cast at h1
      rw [Nat.cast_natAbs] at h1
      push_cast at h1
      simp only [Nat.add_zero]
      rw [toQ_eq]
      have e : (k : ℚ) / D - (1 / 1000 + 998 / 1000 * (i : ℚ) / M) =
          (1000 * M * k - D * (M + 998 * i)) / (1000 * M * D) := by
        field_simp
      rw [e, abs_div, abs_of_pos (by positivity : (0 : ℚ) < 1000 * M * D), div_le_div_iff₀ (by positivity) hEq]
      linarith
    | succ j =>
      have := ih (i + 1) h.2 j x (by simpa using hx)
      have e : i + 1 + j = i + (j + 1) := by omega
      rw [e] at this; exact this

theorem sortedN_spec (D : Nat) (hD : 0 < D) (l : List Nat) (h : sortedN l = true) : sortedB (l.map (toQ D)) = true := by
  induction l with
  | nil => rfl
  | cons a r ih =>
    cases r with
    | nil => rfl
    | cons b r' =>
      simp only [sortedN, Bool.and_eq_true, decide_eq_true_eq] at h
      simp only [List.map_cons, sortedB, Bool.and_eq_true, decide_eq_true_eq]
      refine ⟨?_, by simpa using ih h.2⟩
      rw [toQ_eq, toQ_eq]
      have hDq : (0 : ℚ) < D := by exact_mod_cast hD
      have : (a : ℚ) ≤ b := by exact_mod_cast h.1
      exact div_le_div_of_nonneg_right this (le_of_lt hDq)

def levelsN (t : List Nat) (M D E : Nat) : Bool :=
  decide (t.length = M + 1) && sortedN t && closeN M D E t 0

theorem levelsN_spec (t : List Nat) (M D E : Nat) (hM : 0 < M) (hD : 0 < D) (hE : 0 < E)
    (h : levelsN t M D E = true) : LevelsOK (t.map (toQ D)) M (1 / (E : ℚ)) := by
  simp only [levelsN, Bool.and_eq_true, decide_eq_true_eq] at h
  exact ⟨by simp [h.1.1], C08.pairwise_of_sortedB _ (sortedN_spec D hD t h.1.2),
    fun j x hx => by simpa using closeN_spec M D E hM hD hE t 0 h.2 j x hx⟩

def allLevelsB (E : Nat) : Bool :=
  (List.range (Gen.steps - 1)).all fun i =>
    match Gen.levelNums[i]? with
    | some t => levelsN t (i + 1) Gen.levelDen E
    | none => false

theorem allLevels_ok : allLevelsB 1000000000000 = true := by decide +kernel

theorem levelTable_eq (m : Nat) (h2 : 2 ≤ m) :
    Gen.levelTable m = (Gen.levelNums[m - 2]?).map (fun t => t.map (toQ Gen.levelDen)) := by
  unfold Gen.levelTable; simp only [h2, if_true]; rfl

/-- every table `np.linspace(0.001, 0.999, m)`, `2 ≤ m ≤ steps`, is non-decreasing and within `10⁻¹²` of
`0.001 + 0.998·j/(m-1)` -/
theorem levels_source_ok (m : Nat) (h2 : 2 ≤ m) (hm : m ≤ Gen.steps) :
    ∃ lv, Gen.levelTable m = some lv ∧ LevelsOK lv (m - 1) (1 / 1000000000000) := by
  have h := allLevels_ok
  simp only [allLevelsB, List.all_eq_true, List.mem_range] at h
  have := h (m - 2) (by omega)
  rw [levelTable_eq m h2]
  cases ht : Gen.levelNums[m - 2]? with
  | none => simp [ht] at this
  | some t =>
    simp only [ht] at this
    have e2 : m - 2 + 1 = m - 1 := by omega
    rw [e2] at this
    refine ⟨t.map (toQ Gen.levelDen), rfl, ?_⟩
    have := levelsN_spec t (m - 1) Gen.levelDen 1000000000000 (by omega) (by decide) (by norm_num) this
    simpa using this

theorem pValues_gridGap : GridGap Gen.pValues (1 / 250) := gapB_spec _ _ (by decide +kernel)

/-- ★ for the grid of the source and every piece count `m = 2..steps`: `condensation(m)` of a well-formed p-box
contains it (left bound not above, right bound not below, at every step) -/
theorem condensation_contains_source (m : Nat) (h2 : 2 ≤ m) (hm : m ≤ Gen.steps) (P C : PB) (lv : List ℚ)
    (hP : C08.WF Gen.steps P) (hlv : Gen.levelTable m = some lv) (hC : condensation Gen.pValues P lv = .ok C) :
    allLE C.left P.left = true ∧ allLE P.right C.right = true := by
  obtain ⟨lv', h1, hok⟩ := levels_source_ok m h2 hm
  rw [hlv, Option.some.injEq] at h1; subst h1
  exact condensation_contains Gen.pValues Gen.steps (m - 1) (1 / 250) (1 / 1000000000000) P C lv
    C08.pValues_gridOK C08.pValues_gridStep.1 pValues_gridGap (by norm_num) (by norm_num) (by omega) hok hP hC

/-! ## non-vacuity: concrete instances of the hypotheses used above (grid `[1/4, 1/2, 3/4]`, three steps) -/

def okIs (r : Except Err Ivl) (c : Ivl) : Bool := match r with | .ok x => x == c | .error _ => false

example : okIs (alphaCut [1/4, 1/2, 3/4] ⟨[1, 2, 4], [2, 5, 6]⟩ (3/5)) (2, 5) = true := by decide +kernel
example : okIs (cutRaw [1/4, 1/2, 3/4] ⟨[1, 2, 4], [2, 5, 6]⟩ (3/8)) (1, 2) = true := by decide +kernel   -- tie: first
example : okIs (getPI [1/4, 1/2, 3/4] ⟨[1, 2, 4], [2, 5, 6]⟩ (1/2) true) (2, 4) = true := by decide +kernel
example : okIs (getPI [1/4, 1/2, 3/4] ⟨[1, 2, 4], [2, 5, 6]⟩ (1/2) false) (1, 6) = true := by decide +kernel
example : okIs (getPI [1/4, 1/2, 3/4] ⟨[1, 2, 4], [5, 5, 6]⟩ (1/2) true) (1, 6) = true := by decide +kernel  -- fall-back
example : okIs (cdf [1/4, 1/2, 3/4] ⟨[1, 2, 4], [2, 5, 6]⟩ 3) (1/4, 1/2) = true := by decide +kernel
example : stepOf 2 [1, 2, 2, 4] 3 = 2 ∧ stepOf 3 [1, 2, 2, 4] 2 = 2 ∧ stepOf 3 [1, 2, 2, 4] 0 = 0 := by decide +kernel
example : ([1/4, 1/2, 3/4] : List ℚ).Pairwise (· ≤ ·) := by norm_num

end Pun.Props.C18
