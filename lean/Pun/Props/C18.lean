import Pun.Model.Query
import Pun.Gen.GridGen
namespace Pun.Props.C18
theorem placeholder : True := trivial
end Pun.Props.C18
