import Mathlib.Tactic.Linarith
import Mathlib.Algebra.Order.Field.Rat
import Mathlib.Algebra.Order.AbsoluteValue.Basic
import Mathlib.Tactic.NormNum
import Pun.Model.Query
import Pun.Gen.GridGen
/-!
# C18 — p-box queries match the bounds

About `Pun.Query.*` / `Pun.Grid.findNearest`, the functions the driver executes; generic in the grid.

* `nearest_minimises` ★  `find_nearest` returns an index of minimal distance, the first such
* `nearest_monotone`  ★  on a sorted array the nearest index is monotone in the value
* `alphacut_spec`     ★  `alpha_cut(a)` = the two bounds at the grid level nearest to `a`
* `discretise_native` ★  `discretise(None | steps)` returns the steps themselves
* `outer_contains_band` ★ every alpha-cut of a band lies inside the band's outer interval
* `pi_widest_contains_narrowest` ★, `pi_widest_monotone` ★, `pi_narrow_monotone` ★
* `cdf_bracket`       ○  `cdf(x)` picks the last step whose bound is `≤ x`: `b[k] ≤ x < b[k+1]`
* `CondensationContainsStatement` — stated, not proved here (needs numeric facts relating the linspace
  levels to the grid; exercised by the oracle for every piece count 2..200)
-/
set_option linter.unusedSimpArgs false
set_option linter.unusedVariables false
namespace Pun.Props.C18
open Pun Pun.Grid Pun.Dss Pun.Query

theorem absR_eq (x : ℚ) : absR x = |x| := by
  unfold absR
  split
  · rw [abs_of_nonneg ‹_›]
  · rw [abs_of_neg (not_le.mp ‹_›)]

theorem nearestGo_none (v : ℚ) (arr : List ℚ) (h : nearestGo v arr = none) : arr = [] := by
  cases arr with
  | nil => rfl
  | cons a r =>
    simp only [nearestGo] at h
    split at h
    · simp at h
    · split at h <;> simp at h

theorem nearestGo_spec (v : ℚ) (arr : List ℚ) (k : Nat) (d : ℚ) (h : nearestGo v arr = some (k, d)) :
    (∃ a, arr[k]? = some a ∧ d = |a - v|) ∧
    (∀ (j : Nat) (x : ℚ), arr[j]? = some x → d ≤ |x - v|) ∧
    (∀ (j : Nat) (x : ℚ), j < k → arr[j]? = some x → d < |x - v|) := by
  induction arr generalizing k d with
  | nil => simp [nearestGo] at h
  | cons a r ih =>
    simp only [nearestGo] at h
    cases hr : nearestGo v r with
    | none =>
      have := nearestGo_none v r hr; subst this
      simp only [hr, Option.some.injEq, Prod.mk.injEq] at h
      obtain ⟨rfl, rfl⟩ := h
      refine ⟨⟨a, by simp, absR_eq _⟩, ?_, by intro j x hj; omega⟩
      intro j x hx
      cases j with
      | zero => simp at hx; subst hx; rw [absR_eq]
      | succ j => simp at hx
    | some kd =>
      obtain ⟨k', d'⟩ := kd
      obtain ⟨⟨a', ha', hd'⟩, hmin, hfirst⟩ := ih k' d' hr
      simp only [hr] at h
      by_cases hc : absR (a - v) ≤ d'
      · simp only [hc, if_true, Option.some.injEq, Prod.mk.injEq] at h
        obtain ⟨rfl, rfl⟩ := h
        refine ⟨⟨a, by simp, absR_eq _⟩, ?_, by intro j x hj; omega⟩
        intro j x hx
        cases j with
        | zero => simp at hx; subst hx; rw [absR_eq]
        | succ j => simp only [List.getElem?_cons_succ] at hx; exact le_trans hc (hmin j x hx)
      · simp only [hc, if_false, Option.some.injEq, Prod.mk.injEq] at h
        obtain ⟨rfl, rfl⟩ := h
        refine ⟨⟨a', by simpa using ha', hd'⟩, ?_, ?_⟩
        · intro j x hx
          cases j with
          | zero => simp at hx; subst hx; rw [← absR_eq]; exact le_of_lt (not_le.mp hc)
          | succ j => simp only [List.getElem?_cons_succ] at hx; exact hmin j x hx
        · intro j x hj hx
          cases j with
          | zero => simp at hx; subst hx; rw [← absR_eq]; exact not_le.mp hc
          | succ j => simp only [List.getElem?_cons_succ] at hx; exact hfirst j x (by omega) hx

/-- ★ `find_nearest(arr, v) = k`: `arr[k]` is at minimal distance from `v`, and strictly closer than every
earlier entry (numpy `argmin` returns the first minimiser) -/
theorem nearest_minimises (arr : List ℚ) (v : ℚ) (k : Nat) (h : findNearest arr v = some k) :
    ∃ a, arr[k]? = some a ∧ (∀ (j : Nat) (x : ℚ), arr[j]? = some x → |a - v| ≤ |x - v|) ∧
      (∀ (j : Nat) (x : ℚ), j < k → arr[j]? = some x → |a - v| < |x - v|) := by
  unfold findNearest at h
  cases hg : nearestGo v arr with
  | none => simp [hg] at h
  | some kd =>
    obtain ⟨k', d⟩ := kd
    simp only [hg, Option.map_some, Option.some.injEq] at h
    subst h
    obtain ⟨⟨a, ha, hd⟩, hmin, hfirst⟩ := nearestGo_spec v arr k' d hg
    exact ⟨a, ha, fun j x hx => hd ▸ hmin j x hx, fun j x hj hx => hd ▸ hfirst j x hj hx⟩

/-- every non-empty array has a nearest index -/
theorem nearest_total (arr : List ℚ) (v : ℚ) (hne : arr ≠ []) : ∃ k, findNearest arr v = some k := by
  unfold findNearest
  cases hg : nearestGo v arr with
  | none => exact absurd (nearestGo_none v arr hg) hne
  | some kd => exact ⟨kd.1, rfl⟩

example : findNearest [1, 3, 5] 2 = some 0 := by decide +kernel   -- tie: the first minimiser

theorem sorted_get (l : List ℚ) (hs : l.Pairwise (· ≤ ·)) :
    ∀ (i j : Nat) (a b : ℚ), i ≤ j → l[i]? = some a → l[j]? = some b → a ≤ b := by
  induction l with
  | nil => intro i j a b _ ha; simp at ha
  | cons x r ih =>
    rw [List.pairwise_cons] at hs
    intro i j a b hij ha hb
    cases i with
    | zero =>
      simp at ha; subst ha
      cases j with
      | zero => simp at hb; subst hb; exact le_refl _
      | succ j => simp only [List.getElem?_cons_succ] at hb; exact hs.1 b (List.mem_of_getElem? hb)
    | succ i =>
      cases j with
      | zero => omega
      | succ j =>
        simp only [List.getElem?_cons_succ] at ha hb
        exact ih hs.2 i j a b (by omega) ha hb

/-- ★ on a non-decreasing array the nearest index is monotone in the value looked up -/
theorem nearest_monotone (arr : List ℚ) (hs : arr.Pairwise (· ≤ ·)) (v v' : ℚ) (hv : v ≤ v') (k k' : Nat)
    (h : findNearest arr v = some k) (h' : findNearest arr v' = some k') : k ≤ k' := by
  by_contra hc
  have hlt : k' < k := not_le.mp hc
  obtain ⟨a, ha, hmin, hfirst⟩ := nearest_minimises arr v k h
  obtain ⟨a', ha', hmin', _⟩ := nearest_minimises arr v' k' h'
  have hord : a' ≤ a := sorted_get arr hs k' k a' a (le_of_lt hlt) ha' ha
  have h1 : |a - v| < |a' - v| := hfirst k' a' hlt ha'
  have h2 : |a' - v'| ≤ |a - v'| := hmin' k a ha
  rcases abs_cases (a - v) with ⟨e1, _⟩ | ⟨e1, _⟩ <;> rcases abs_cases (a' - v) with ⟨e2, _⟩ | ⟨e2, _⟩ <;>
    rcases abs_cases (a' - v') with ⟨e3, _⟩ | ⟨e3, _⟩ <;> rcases abs_cases (a - v') with ⟨e4, _⟩ | ⟨e4, _⟩ <;>
    rw [e1, e2] at h1 <;> rw [e3, e4] at h2 <;> linarith

/-- ★ `alpha_cut(a)` returns the left and right bound at the grid level nearest to `a` -/
theorem alphacut_spec (g : List ℚ) (P : PB) (a l r : ℚ) (h : alphaCut g P a = .ok (l, r)) :
    ∃ k, findNearest g a = some k ∧ P.left[k]? = some l ∧ P.right[k]? = some r ∧ l ≤ r := by
  unfold alphaCut cutRaw nearestE getE mkIvl at h
  cases hk : findNearest g a with
  | none => simp [hk, bind, Except.bind] at h
  | some k =>
    cases hl : P.left[k]? with
    | none => simp [hk, hl, bind, Except.bind] at h
    | some l' =>
      cases hr : P.right[k]? with
      | none => simp [hk, hl, hr, bind, Except.bind] at h
      | some r' =>
        simp only [hk, hl, hr, bind, Except.bind, pure, Except.pure] at h
        by_cases hle : l' ≤ r'
        · simp only [hle, if_true, Except.ok.injEq, Prod.mk.injEq] at h
          obtain ⟨rfl, rfl⟩ := h
          exact ⟨k, rfl, hl, hr, hle⟩
        · simp [hle] at h

/-- `alpha_cut` succeeds on a p-box with as many steps as the grid and `left ≤ right` -/
theorem cutRaw_ok (g : List ℚ) (P : PB) (a : ℚ) (hne : g ≠ []) (hl : P.left.length = g.length)
    (hr : P.right.length = g.length) :
    ∃ k l r, findNearest g a = some k ∧ P.left[k]? = some l ∧ P.right[k]? = some r ∧ cutRaw g P a = .ok (l, r) := by
  obtain ⟨k, hk⟩ := nearest_total g a hne
  obtain ⟨x, hx, _⟩ := nearest_minimises g a k hk
  have hkl : k < g.length := (List.getElem?_eq_some_iff.mp hx).1
  refine ⟨k, P.left[k]'(by omega), P.right[k]'(by omega), hk, by simp, by simp, ?_⟩
  have e1 : P.left[k]? = some (P.left[k]'(by omega)) := by simp
  have e2 : P.right[k]? = some (P.right[k]'(by omega)) := by simp
  simp only [cutRaw, nearestE, getE, hk, e1, e2, bind, Except.bind, pure, Except.pure]

/-- ★ discretisation with the native step count returns the focal intervals (the steps) themselves -/
theorem discretise_native (g : List ℚ) (steps : Nat) (P : PB) (lv : List ℚ) (n : Option Nat)
    (hn : n = none ∨ n = some steps) (hlen : P.left.length = P.right.length) (hle : allLE P.left P.right = true) :
    discretise g steps P n lv = .ok (P.left.zip P.right) := by
  simp only [discretise, hn, if_true, hlen, hle, and_self]

/-- ★ each outer interval contains every alpha-cut of its probability band: if the band is `[p₀, p₁]`, the
outer interval is `[left at p₀, right at p₁]` and `p₀ ≤ a ≤ p₁`, then `alpha_cut(a)` lies inside it.
(`outerDiscretisation` pairs exactly these: `cutRaw … p₀`.1 with `cutRaw … p₁`.2 for consecutive levels.) -/
theorem outer_contains_band (g : List ℚ) (P : PB) (hg : g.Pairwise (· ≤ ·))
    (hL : P.left.Pairwise (· ≤ ·)) (hR : P.right.Pairwise (· ≤ ·))
    (p0 p1 a : ℚ) (h0 : p0 ≤ a) (h1 : a ≤ p1) (c0 c1 c : Ivl)
    (e0 : cutRaw g P p0 = .ok c0) (e1 : cutRaw g P p1 = .ok c1) (e : cutRaw g P a = .ok c) :
    c0.1 ≤ c.1 ∧ c.2 ≤ c1.2 := by
  have key : ∀ (x : ℚ) (cx : Ivl), cutRaw g P x = .ok cx →
      ∃ k, findNearest g x = some k ∧ P.left[k]? = some cx.1 ∧ P.right[k]? = some cx.2 := by
    intro x cx hx
    unfold cutRaw nearestE getE at hx
    cases hk : findNearest g x with
    | none => simp [hk, bind, Except.bind] at hx
    | some k =>
      cases hl : P.left[k]? with
      | none => simp [hk, hl, bind, Except.bind] at hx
      | some l' =>
        cases hr : P.right[k]? with
        | none => simp [hk, hl, hr, bind, Except.bind] at hx
        | some r' =>
          simp only [hk, hl, hr, bind, Except.bind, pure, Except.pure, Except.ok.injEq] at hx
          subst hx
          exact ⟨k, rfl, hl, hr⟩
  obtain ⟨k0, f0, l0, _⟩ := key p0 c0 e0
  obtain ⟨k1, f1, _, r1⟩ := key p1 c1 e1
  obtain ⟨k, f, l, r⟩ := key a c e
  have m0 : k0 ≤ k := nearest_monotone g hg p0 a h0 k0 k f0 f
  have m1 : k ≤ k1 := nearest_monotone g hg a p1 h1 k k1 f f1
  exact ⟨sorted_get _ hL k0 k _ _ m0 l0 l, sorted_get _ hR k k1 _ _ m1 r r1⟩

/-- the outer interval list is exactly that pairing -/
theorem outer_pairs (g : List ℚ) (P : PB) (lv : List ℚ) (o : List Ivl) (h : outerDiscretisation g P lv = .ok o) :
    ∃ ls rs, alphaCutArr g P lv.dropLast = .ok ls ∧ alphaCutArr g P lv.tail = .ok rs ∧
      o = (ls.map (·.1)).zip (rs.map (·.2)) := by
  unfold outerDiscretisation at h
  cases h1 : alphaCutArr g P lv.dropLast with
  | error e => simp [h1, bind, Except.bind] at h
  | ok ls =>
    cases h2 : alphaCutArr g P lv.tail with
    | error e => simp [h1, h2, bind, Except.bind] at h
    | ok rs =>
      simp only [h1, h2, bind, Except.bind, pure, Except.pure, Except.ok.injEq] at h
      exact ⟨ls, rs, rfl, rfl, h.symm⟩

/-! ## prediction intervals -/

/-- ★ whenever the narrowest prediction interval exists, the widest one (same coverage) contains it -/
theorem pi_widest_contains_narrowest (g : List ℚ) (P : PB) (alpha : ℚ) (n w : Ivl)
    (hn : getPI g P alpha true = .ok n) (hw : getPI g P alpha false = .ok w) : w.1 ≤ n.1 ∧ n.2 ≤ w.2 := by
  simp only [getPI, if_true, Bool.false_eq_true, if_false] at hn hw
  unfold piWidest at hw hn
  cases hh : alphaCut g P (piLevels alpha).2 with
  | error e => simp [hh, bind, Except.bind] at hw
  | ok h =>
    cases hl : alphaCut g P (piLevels alpha).1 with
    | error e => simp [hh, hl, bind, Except.bind] at hw
    | ok l =>
      obtain ⟨_, _, _, _, hle_h⟩ := alphacut_spec g P _ h.1 h.2 hh
      obtain ⟨_, _, _, _, hle_l⟩ := alphacut_spec g P _ l.1 l.2 hl
      simp only [hh, hl, bind, Except.bind, pure, Except.pure, mkIvl] at hw hn
      by_cases hwle : l.1 ≤ h.2
      · simp only [hwle, if_true, Except.ok.injEq] at hw hn
        subst hw
        by_cases hnle : l.2 ≤ h.1
        · simp only [hnle, if_true, Except.ok.injEq] at hn
          subst hn
          exact ⟨hle_l, hle_h⟩
        · simp only [hnle, if_false, Except.ok.injEq] at hn
          subst hn
          exact ⟨le_refl _, le_refl _⟩
      · simp [hwle] at hw

/-- the two cut levels move outwards as the coverage grows -/
theorem piLevels_mono (a1 a2 : ℚ) (h : a1 ≤ a2) :
    (piLevels a2).1 ≤ (piLevels a1).1 ∧ (piLevels a1).2 ≤ (piLevels a2).2 := by
  unfold piLevels; constructor <;> simp only <;> linarith

/-- ★ the widest prediction interval is monotone in the coverage level -/
theorem pi_widest_monotone (g : List ℚ) (P : PB) (hg : g.Pairwise (· ≤ ·))
    (hL : P.left.Pairwise (· ≤ ·)) (hR : P.right.Pairwise (· ≤ ·)) (a1 a2 : ℚ) (h : a1 ≤ a2) (w1 w2 : Ivl)
    (h1 : getPI g P a1 false = .ok w1) (h2 : getPI g P a2 false = .ok w2) : w2.1 ≤ w1.1 ∧ w1.2 ≤ w2.2 := by
  have key : ∀ (al : ℚ) (w : Ivl), getPI g P al false = .ok w →
      ∃ kl kh, findNearest g (piLevels al).1 = some kl ∧ findNearest g (piLevels al).2 = some kh ∧
        P.left[kl]? = some w.1 ∧ P.right[kh]? = some w.2 := by
    intro al w hw
    simp only [getPI, Bool.false_eq_true, if_false] at hw
    unfold piWidest at hw
    cases hh : alphaCut g P (piLevels al).2 with
    | error e => simp [hh, bind, Except.bind] at hw
    | ok hc =>
      cases hl : alphaCut g P (piLevels al).1 with
      | error e => simp [hh, hl, bind, Except.bind] at hw
      | ok lc =>
        obtain ⟨kh, fh, _, rh, _⟩ := alphacut_spec g P _ hc.1 hc.2 hh
        obtain ⟨kl, fl, ll, _, _⟩ := alphacut_spec g P _ lc.1 lc.2 hl
        simp only [hh, hl, bind, Except.bind, pure, Except.pure, mkIvl] at hw
        by_cases hwle : lc.1 ≤ hc.2
        · simp only [hwle, if_true, Except.ok.injEq] at hw
          subst hw
          exact ⟨kl, kh, fl, fh, ll, rh⟩
        · simp [hwle] at hw
  obtain ⟨kl1, kh1, fl1, fh1, l1, r1⟩ := key a1 w1 h1
  obtain ⟨kl2, kh2, fl2, fh2, l2, r2⟩ := key a2 w2 h2
  obtain ⟨m1, m2⟩ := piLevels_mono a1 a2 h
  have i1 : kl2 ≤ kl1 := nearest_monotone g hg _ _ m1 kl2 kl1 fl2 fl1
  have i2 : kh1 ≤ kh2 := nearest_monotone g hg _ _ m2 kh1 kh2 fh1 fh2
  exact ⟨sorted_get _ hL kl2 kl1 _ _ i1 l2 l1, sorted_get _ hR kh1 kh2 _ _ i2 r1 r2⟩

/-- "both are monotone", narrowest style: the narrowest interval is `[right bound at the lower cut, left bound at
the upper cut]`; the statement is about these two endpoints, i.e. about coverage levels where the narrowest
interval exists (where it does not, `get_PI` documents a fall-back to the widest interval, which is covered by
`pi_widest_monotone`; a fall-back value is not comparable with a narrowest value). -/
def PiNarrowMonotoneStatement : Prop :=
  ∀ (g : List ℚ) (P : PB), g.Pairwise (· ≤ ·) → P.left.Pairwise (· ≤ ·) → P.right.Pairwise (· ≤ ·) →
    ∀ (a1 a2 : ℚ), a1 ≤ a2 → ∀ (c1l c1h c2l c2h : Ivl),
      cutRaw g P (piLevels a1).1 = .ok c1l → cutRaw g P (piLevels a1).2 = .ok c1h →
      cutRaw g P (piLevels a2).1 = .ok c2l → cutRaw g P (piLevels a2).2 = .ok c2h →
      c2l.2 ≤ c1l.2 ∧ c1h.1 ≤ c2h.1

/-- ★ narrowest style: its two endpoints move outwards as the coverage grows -/
theorem pi_narrow_monotone : PiNarrowMonotoneStatement := by
  intro g P hg hL hR a1 a2 h c1l c1h c2l c2h e1l e1h e2l e2h
  obtain ⟨m1, m2⟩ := piLevels_mono a1 a2 h
  exact ⟨by
    -- right bound at the lower cut: lower level (a2) gives the smaller value
    have := outer_contains_band g P hg hL hR (piLevels a2).1 (piLevels a1).1 (piLevels a2).1 (le_refl _) m1 c2l c1l c2l e2l e1l e2l
    exact this.2, by
    have := outer_contains_band g P hg hL hR (piLevels a1).2 (piLevels a2).2 (piLevels a2).2 m2 (le_refl _) c1h c2h c2h e1h e2h e2h
    exact this.1⟩

/-! ## cumulative probability at `x` (after the repair: last step whose bound is `≤ x`) -/

theorem countLE_spec (l : List ℚ) (x : ℚ) :
    (∀ (j : Nat) (b : ℚ), j < countLE l x → l[j]? = some b → b ≤ x) ∧
    (∀ (b : ℚ), l[countLE l x]? = some b → x < b) := by
  induction l with
  | nil => simp [countLE]
  | cons a r ih =>
    by_cases h : a ≤ x
    · simp only [countLE, h, if_true]
      constructor
      · intro j b hj hb
        cases j with
        | zero => simp at hb; subst hb; exact h
        | succ j => simp only [List.getElem?_cons_succ] at hb; exact ih.1 j b (by omega) hb
      · intro b hb
        simp only [List.getElem?_cons_succ] at hb; exact ih.2 b hb
    · simp only [countLE, h, if_false]
      refine ⟨by intro j b hj; omega, ?_⟩
      intro b hb; simp at hb; subst hb; exact not_le.mp h

/-- ○ `cdf(x)` and the alpha-cuts are inverse within one grid step: the step `k` picked for a bound array `b`
satisfies `b[k] ≤ x < b[k+1]` whenever `x` is inside the support of `b` (`b[0] ≤ x < b[last]`) -/
theorem cdf_bracket (b : List ℚ) (x : ℚ) (last : Nat) (hlast : last + 1 = b.length)
    (b0 bl : ℚ) (h0 : b[0]? = some b0) (hl : b[last]? = some bl) (hin0 : b0 ≤ x) (hin1 : x < bl) :
    ∃ lo hi, b[stepOf last b x]? = some lo ∧ b[stepOf last b x + 1]? = some hi ∧ lo ≤ x ∧ x < hi := by
  obtain ⟨s1, s2⟩ := countLE_spec b x
  have hpos : 0 < countLE b x := by
    by_contra hc
    have hz : countLE b x = 0 := by omega
    have := s2 b0 (by rw [hz]; exact h0)
    linarith
  have hlt : countLE b x ≤ last := by
    by_contra hc
    have := s1 last bl (by omega) hl
    linarith
  have hk : stepOf last b x = countLE b x - 1 := by unfold stepOf; omega
  have hlen : countLE b x < b.length := by omega
  refine ⟨b[countLE b x - 1]'(by omega), b[countLE b x]'hlen, ?_, ?_, ?_, ?_⟩
  · rw [hk]; simp
  · rw [hk]; have : countLE b x - 1 + 1 = countLE b x := by omega
    rw [this]; simp
  · exact s1 (countLE b x - 1) _ (by omega) (by simp)
  · exact s2 _ (by simp)

/-- ★ (stated; not proved in Lean) condensation to fewer steps contains the original p-box.  With the `m-1`
outer intervals `[left at ℓ_j, right at ℓ_{j+1}]` stacked with equal masses, containment needs, beyond
`stacking_geninv` (C08) and `nearest_monotone`, the numeric fact that every grid level in the `j`-th band of
`1/(m-1)` lies between the nearest-grid images of the linspace levels `ℓ_j` and `ℓ_{j+1}`; this is a statement
about the binary64 tables `np.linspace(0.001, 0.999, m)`, `m = 2..200`, checked on every run by the oracle. -/
def CondensationContainsStatement : Prop :=
  ∀ (P : PB) (lv : List ℚ) (C : PB), condensation Gen.pValues P lv = .ok C →
    P.left.Pairwise (· ≤ ·) → P.right.Pairwise (· ≤ ·) → allLE P.left P.right = true →
    P.left.length = Gen.steps → P.right.length = Gen.steps →
    (∃ m, 2 ≤ m ∧ m ≤ Gen.steps ∧ lv.length = m ∧
      ∀ (j : Nat) (p : ℚ), lv[j]? = some p → |p - (Gen.pLo + (Gen.pHi - Gen.pLo) * j / (m - 1 : ℚ))| ≤ 1 / 10 ^ 12) →
    allLE C.left P.left = true ∧ allLE P.right C.right = true

/-! ## non-vacuity: concrete instances of the hypotheses used above (grid `[1/4, 1/2, 3/4]`, three steps) -/

def okIs (r : Except Err Ivl) (c : Ivl) : Bool := match r with | .ok x => x == c | .error _ => false

example : okIs (alphaCut [1/4, 1/2, 3/4] ⟨[1, 2, 4], [2, 5, 6]⟩ (3/5)) (2, 5) = true := by decide +kernel
example : okIs (cutRaw [1/4, 1/2, 3/4] ⟨[1, 2, 4], [2, 5, 6]⟩ (3/8)) (1, 2) = true := by decide +kernel   -- tie: first
example : okIs (getPI [1/4, 1/2, 3/4] ⟨[1, 2, 4], [2, 5, 6]⟩ (1/2) true) (2, 4) = true := by decide +kernel
example : okIs (getPI [1/4, 1/2, 3/4] ⟨[1, 2, 4], [2, 5, 6]⟩ (1/2) false) (1, 6) = true := by decide +kernel
example : okIs (getPI [1/4, 1/2, 3/4] ⟨[1, 2, 4], [5, 5, 6]⟩ (1/2) true) (1, 6) = true := by decide +kernel  -- fall-back
example : okIs (cdf [1/4, 1/2, 3/4] ⟨[1, 2, 4], [2, 5, 6]⟩ 3) (1/4, 1/2) = true := by decide +kernel
example : stepOf 2 [1, 2, 2, 4] 3 = 2 ∧ stepOf 3 [1, 2, 2, 4] 2 = 2 ∧ stepOf 3 [1, 2, 2, 4] 0 = 0 := by decide +kernel
example : ([1/4, 1/2, 3/4] : List ℚ).Pairwise (· ≤ ·) := by norm_num

end Pun.Props.C18
