import Pun.Model.Hedge
import Mathlib.Tactic.Ring
import Mathlib.Tactic.Linarith
import Mathlib.Tactic.FieldSimp
import Mathlib.Algebra.Order.Field.Power
import Mathlib.Tactic.IntervalCases
/-!
# C20 — hedged expressions and significant digits decode to intervals about the number

Generic in the keyword table; `Pun/Props/C20Gen.lean` discharges the hypotheses for the table
regenerated from the source.

* `sg_spec` : `sgnumber ν = val ν ∓ u/2`, `u = 10^lastSigExp ν` the unit of the last significant
  digit (last written digit when a point is written, last non-zero digit of an integer mantissa).
* `hedge_contains`, `hedge_endpoint_*`, `hedge_nested` : containment, endpoints, nesting.
* `parse_render` : reading (`parse`, on `List Char`) what `render` writes gives the numeral back, so the
  tokenised numerals of the theorems are the strings the driver parses and Python sees.
* `sign_commute_*`, `pow10_commute` : the result depends on the sign only through the number
  itself and scales with the exponent.
-/
set_option linter.unusedSimpArgs false
set_option linter.unusedVariables false
namespace Pun.Hedge

theorem pow10_eq (e : Int) : pow10 e = (10:ℚ)^e := by
  unfold pow10
  split
  · rename_i h
    obtain ⟨n, rfl⟩ := Int.eq_ofNat_of_zero_le h
    simp
  · rename_i h
    obtain ⟨n, hn⟩ := Int.eq_ofNat_of_zero_le (show 0 ≤ -e by omega)
    have he : e = -(n:Int) := by omega
    subst he
    simp

theorem pow10_pos (e : Int) : 0 < pow10 e := by
  rw [pow10_eq]; positivity

theorem pow10_add (a b : Int) : pow10 (a + b) = pow10 a * pow10 b := by
  simp only [pow10_eq]; exact zpow_add₀ (by norm_num) a b

/-! ## significant digits -/

/-- number of trailing zeros of a digit string -/
def trailingZeros (ds : List Nat) : Nat := (ds.reverse.takeWhile (· == 0)).length

/-- decimal exponent of the last significant digit -/
def lastSigExp (ν : Numeral) : Int :=
  if ν.hasDot then ν.e - ν.frac.length else ν.e + trailingZeros ν.int

theorem rstrip0_length (ds : List Nat) : ((rstrip0 ds).length : Int) - ds.length = - (trailingZeros ds : Int) := by
  have h := List.takeWhile_append_dropWhile (p := (· == 0)) (l := ds.reverse)
  have hl := congrArg List.length h
  simp only [List.length_append, List.length_reverse] at hl
  simp only [rstrip0, trailingZeros, List.length_reverse]
  omega

theorem sgPm_eq (ν : Numeral) : sgPm ν = pow10 (lastSigExp ν) / 2 := by
  unfold sgPm sgJ lastSigExp
  split
  · rw [← pow10_add]; congr 2; ring
  · rw [rstrip0_length, ← pow10_add]; congr 2; ring

/-- **significant digits**: the interval of half a unit in the last significant digit around
the number, for every numeral (any sign, digits, point, exponent) -/
theorem sg_spec (ν : Numeral) :
    sgnumber ν = (ν.val - pow10 (lastSigExp ν) / 2, ν.val + pow10 (lastSigExp ν) / 2) := by
  simp only [sgnumber, sgPm_eq]

theorem sg_contains (ν : Numeral) : (sgnumber ν).1 < ν.val ∧ ν.val < (sgnumber ν).2 := by
  rw [sg_spec]
  have := pow10_pos (lastSigExp ν)
  constructor <;> simp only <;> linarith

example : sgnumber ⟨false, [2, 0, 0], [], false, none⟩ = (150, 250) := by decide +kernel
example : lastSigExp ⟨false, [1, 2], [3, 0], true, some (-4)⟩ = -6 := by decide +kernel

/-! ## numerals: sign and scale -/
theorem val_negate (ν : Numeral) : ν.negate.val = - ν.val := by
  unfold Numeral.val Numeral.negate Numeral.mag Numeral.e
  cases ν.neg <;> simp

theorem d_negate (ν : Numeral) : decipherD ν.negate = decipherD ν := rfl

theorem e_scale (ν : Numeral) (n : Int) : (ν.scale n).e = ν.e + n := by
  simp [Numeral.scale, Numeral.e]

theorem val_scale (ν : Numeral) (n : Int) : (ν.scale n).val = ν.val * pow10 n := by
  have he := e_scale ν n
  unfold Numeral.val Numeral.mag
  rw [he]
  have : ν.e + n - (ν.frac.length : Int) = (ν.e - ν.frac.length) + n := by ring
  simp only [Numeral.scale, this, pow10_add]
  split <;> ring

theorem d_scale (ν : Numeral) (n : Int) : decipherD (ν.scale n) = decipherD ν - n := by
  unfold decipherD
  rw [e_scale]
  simp only [Numeral.scale]
  ring

/-! ## hedges -/
def EB.le : EB → EB → Prop
  | .ninf, _ => True
  | _, .pinf => True
  | .fin a, .fin b => a ≤ b
  | _, _ => False

/-- `a ⊆ b` -/
def Ivl.sub (a b : Ivl) : Prop := EB.le b.lo a.lo ∧ EB.le a.hi b.hi

def EB.scale (c : Rat) : EB → EB
  | .fin r => .fin (r * c)
  | e => e
def Ivl.scale (c : Rat) (i : Ivl) : Ivl := ⟨i.lo.scale c, i.hi.scale c⟩
def EB.shift (t : Rat) : EB → EB
  | .fin r => .fin (r + t)
  | e => e
def Ivl.shift (t : Rat) (i : Ivl) : Ivl := ⟨i.lo.shift t, i.hi.shift t⟩

/-- symmetric hedges contain the stated number, symmetrically -/
theorem hedge_contains (k : Rat) (j : Nat) (ν : Numeral) (sq : Rat) (hk : 0 ≤ k) :
    ∃ w, 0 ≤ w ∧ hedgeForm (.sym k j) ν sq = some ⟨.fin (ν.val - w), .fin (ν.val + w)⟩ := by
  refine ⟨k * pow10 (-(decipherD ν + j)), ?_, rfl⟩
  exact mul_nonneg hk (le_of_lt (pow10_pos _))

theorem count_contains (ν : Numeral) (sq : Rat) (hs : 0 ≤ sq) :
    hedgeForm .count ν sq = some ⟨.fin (ν.val - sq), .fin (ν.val + sq)⟩ ∧ ν.val - sq ≤ ν.val ∧ ν.val ≤ ν.val + sq := by
  refine ⟨rfl, ?_, ?_⟩ <;> linarith

/-- `almost`, `below` end at the number -/
theorem hedge_endpoint_left (k : Rat) (ν : Numeral) (sq : Rat) (hk : 0 < k) :
    ∃ lo, lo < ν.val ∧ hedgeForm (.left k) ν sq = some ⟨.fin lo, .fin ν.val⟩ := by
  refine ⟨ν.val - k * pow10 (-(decipherD ν)), ?_, rfl⟩
  have := mul_pos hk (pow10_pos (-(decipherD ν)))
  linarith

/-- `over`, `above` start at the number -/
theorem hedge_endpoint_right (k : Rat) (ν : Numeral) (sq : Rat) (hk : 0 < k) :
    ∃ hi, ν.val < hi ∧ hedgeForm (.right k) ν sq = some ⟨.fin ν.val, .fin hi⟩ := by
  refine ⟨ν.val + k * pow10 (-(decipherD ν)), ?_, rfl⟩
  have := mul_pos hk (pow10_pos (-(decipherD ν)))
  linarith

theorem hedge_endpoint_atMost (ν : Numeral) (sq : Rat) :
    hedgeForm .atMost ν sq = some ⟨.ninf, .fin ν.val⟩ := rfl
theorem hedge_endpoint_atLeast (ν : Numeral) (sq : Rat) :
    hedgeForm .atLeast ν sq = some ⟨.fin ν.val, .pinf⟩ := rfl

/-- nesting of two symmetric hedges whose half-widths (in units of the last digit) are ordered -/
theorem hedge_nested (k₁ k₂ : Rat) (j₁ j₂ : Nat) (ν : Numeral) (sq : Rat)
    (h : k₁ * pow10 (-(j₁ : Int)) ≤ k₂ * pow10 (-(j₂ : Int))) :
    ∃ a b, hedgeForm (.sym k₁ j₁) ν sq = some a ∧ hedgeForm (.sym k₂ j₂) ν sq = some b ∧ a.sub b := by
  refine ⟨_, _, rfl, rfl, ?_⟩
  have e1 : pow10 (-(decipherD ν + j₁)) = pow10 (-(decipherD ν)) * pow10 (-(j₁:Int)) := by
    rw [← pow10_add]; congr 1; ring
  have e2 : pow10 (-(decipherD ν + j₂)) = pow10 (-(decipherD ν)) * pow10 (-(j₂:Int)) := by
    rw [← pow10_add]; congr 1; ring
  have hp := pow10_pos (-(decipherD ν))
  have hh : k₁ * pow10 (-(decipherD ν + j₁)) ≤ k₂ * pow10 (-(decipherD ν + j₂)) := by
    rw [e1, e2]
    have := mul_le_mul_of_nonneg_left h (le_of_lt hp)
    nlinarith
  simp only [Ivl.sub, EB.le]
  constructor <;> linarith

/-- table-level check used by `C20Gen`: the three keywords are symmetric forms with ordered widths -/
def nestedOK (tbl : List (String × Form)) : Bool :=
  match lookup tbl "exactly", lookup tbl "about", lookup tbl "around" with
  | some (.sym k₁ j₁), some (.sym k₂ j₂), some (.sym k₃ j₃) =>
    decide (0 ≤ k₁ ∧ k₁ * pow10 (-(j₁ : Int)) ≤ k₂ * pow10 (-(j₂ : Int)) ∧ k₂ * pow10 (-(j₂ : Int)) ≤ k₃ * pow10 (-(j₃ : Int)))
  | _, _, _ => false

/-- **exactly ⊆ about ⊆ around** for every numeral, for any table passing `nestedOK` -/
theorem hedge_order (tbl : List (String × Form)) (h : nestedOK tbl = true) (ν : Numeral) (sq : Rat) :
    ∃ a b c, hedge tbl "exactly" ν sq = some a ∧ hedge tbl "about" ν sq = some b ∧ hedge tbl "around" ν sq = some c
      ∧ a.sub b ∧ b.sub c ∧ EB.le a.lo (.fin ν.val) ∧ EB.le (.fin ν.val) a.hi := by
  unfold nestedOK at h
  split at h
  · rename_i k₁ j₁ k₂ j₂ k₃ j₃ h1 h2 h3
    simp only [decide_eq_true_eq] at h
    obtain ⟨hk, h12, h23⟩ := h
    obtain ⟨a, b, ha, hb, hab⟩ := hedge_nested k₁ k₂ j₁ j₂ ν sq h12
    obtain ⟨b', c, hb', hc, hbc⟩ := hedge_nested k₂ k₃ j₂ j₃ ν sq h23
    have : b' = b := by rw [hb] at hb'; exact (Option.some.inj hb').symm
    subst this
    refine ⟨a, b', c, by simp [hedge, h1, ha], by simp [hedge, h2, hb], by simp [hedge, h3, hc], hab, hbc, ?_, ?_⟩
    all_goals
      have hw := mul_nonneg hk (le_of_lt (pow10_pos (-(decipherD ν + j₁))))
      simp only [hedgeForm, Option.some.injEq] at ha
      subst ha
      simp only [EB.le]
      linarith
  · exact absurd h (by simp)

/-! ## commutation -/

/-- changing the sign of the number mirrors a symmetric hedge -/
theorem sign_commute_sym (k : Rat) (j : Nat) (ν : Numeral) (sq : Rat) :
    hedgeForm (.sym k j) ν.negate sq =
      some ⟨.fin (-(ν.val + k * pow10 (-(decipherD ν + j)))), .fin (-(ν.val - k * pow10 (-(decipherD ν + j))))⟩ := by
  simp only [hedgeForm, val_negate, d_negate]
  congr 3 <;> ring

/-- for every interval-valued form except `count`/`order`, the offsets from the number do not
depend on the sign: the result for `−ν` is the result for `ν` translated by `−2·val ν` -/
theorem sign_commute_offsets (f : Form) (ν : Numeral) (sq : Rat)
    (hf : match f with | .order _ _ => False | .text => False | _ => True) :
    hedgeForm f ν.negate sq = (hedgeForm f ν sq).map (Ivl.shift (-2 * ν.val)) := by
  cases f <;> simp only [hedgeForm, val_negate, d_negate, Option.map, Ivl.shift, EB.shift] at * <;>
    (congr 3 <;> ring)

/-- multiplying the number by `10^n` (exponent field) multiplies the interval by `10^n`
(all interval-valued forms except `count`) -/
theorem pow10_commute (f : Form) (ν : Numeral) (n : Int) (sq : Rat) (hf : f ≠ .count) :
    hedgeForm f (ν.scale n) sq = (hedgeForm f ν sq).map (Ivl.scale (pow10 n)) := by
  have hs : ∀ t : Int, pow10 (-(decipherD ν - n + t)) = pow10 (-(decipherD ν + t)) * pow10 n := by
    intro t; rw [← pow10_add]; congr 1; ring
  have hs0 : pow10 (-(decipherD ν - n)) = pow10 (-(decipherD ν)) * pow10 n := by
    rw [← pow10_add]; congr 1; ring
  cases f with
  | sym k j => simp only [hedgeForm, val_scale, d_scale, hs, Option.map, Ivl.scale, EB.scale]; congr 3 <;> ring
  | left k => simp only [hedgeForm, val_scale, d_scale, hs0, Option.map, Ivl.scale, EB.scale]; congr 3; ring
  | right k => simp only [hedgeForm, val_scale, d_scale, hs0, Option.map, Ivl.scale, EB.scale]; congr 3; ring
  | atMost => simp only [hedgeForm, val_scale, Option.map, Ivl.scale, EB.scale]
  | atLeast => simp only [hedgeForm, val_scale, Option.map, Ivl.scale, EB.scale]
  | count => exact absurd rfl hf
  | order a b =>
    simp only [hedgeForm, val_scale]
    split
    · rfl
    · simp only [Option.map, Ivl.scale, EB.scale]; congr 3 <;> ring
  | text => rfl

example : hedgeForm (.sym 2 0) ⟨true, [2, 0, 0], [], false, none⟩ 0 = some ⟨.fin (-202), .fin (-198)⟩ := by
  decide +kernel
example : hedgeForm (.sym 2 0) ⟨false, [0], [5], true, none⟩ 0 = some ⟨.fin (3/10), .fin (7/10)⟩ := by
  decide +kernel

/-! ## characters: `parse ∘ render = id` -/

theorem charDigit_digitChar (d : Nat) (h : d < 10) : charDigit (digitChar d) = some d := by
  interval_cases d <;> decide

theorem toLower_digitChar (d : Nat) (h : d < 10) : (digitChar d).toLower = digitChar d := by
  interval_cases d <;> decide

theorem digitChar_ne (d : Nat) (h : d < 10) :
    digitChar d ≠ 'e' ∧ digitChar d ≠ '.' ∧ digitChar d ≠ '-' ∧ digitChar d ≠ '+' := by
  interval_cases d <;> decide

theorem parseSign_digit (d : Nat) (h : d < 10) (r : List Char) :
    parseSign (digitChar d :: r) = (false, digitChar d :: r) := by
  interval_cases d <;> rfl

theorem parseDigits_map (ds : List Nat) (h : ∀ d ∈ ds, d < 10) :
    parseDigits (ds.map digitChar) = some ds := by
  induction ds with
  | nil => rfl
  | cons d ds ih =>
    have h1 := charDigit_digitChar d (h d (by simp))
    have h2 := ih (fun x hx => h x (by simp [hx]))
    unfold parseDigits at *
    simp [List.mapM_cons, h1, h2]

theorem splitOnce_append (c : Char) (xs ys : List Char) (h : c ∉ xs) :
    splitOnce c (xs ++ c :: ys) = (xs, some ys) := by
  induction xs with
  | nil => simp [splitOnce]
  | cons x xs ih =>
    have hx : x ≠ c := fun e => h (by simp [e])
    have := ih (fun hm => h (by simp [hm]))
    simp [splitOnce, hx, this]

theorem splitOnce_none (c : Char) (xs : List Char) (h : c ∉ xs) : splitOnce c xs = (xs, none) := by
  induction xs with
  | nil => simp [splitOnce]
  | cons x xs ih =>
    have hx : x ≠ c := fun e => h (by simp [e])
    have := ih (fun hm => h (by simp [hm]))
    simp [splitOnce, hx, this]

theorem natDigitsAux_spec : ∀ (fuel n : Nat) (acc : List Nat), n < fuel →
    ∃ ds, natDigitsAux fuel n acc = ds ++ acc ∧ (∀ d ∈ ds, d < 10) ∧ ds ≠ [] ∧
      ∀ a0, ds.foldl (fun a d => 10 * a + d) a0 = a0 * 10 ^ ds.length + n := by
  intro fuel
  induction fuel with
  | zero => intro n acc h; omega
  | succ fuel ih =>
    intro n acc h
    unfold natDigitsAux
    by_cases hn : n < 10
    · simp only [hn, if_true]
      exact ⟨[n], rfl, by simpa using hn, by simp, by intro a0; simp; ring⟩
    · simp only [hn, if_false]
      obtain ⟨ds, h1, h2, h3, h4⟩ := ih (n / 10) (n % 10 :: acc) (by omega)
      refine ⟨ds ++ [n % 10], by simp [h1], ?_, by simp, ?_⟩
      · intro d hd
        rcases List.mem_append.mp hd with hd | hd
        · exact h2 d hd
        · simp at hd; omega
      · intro a0
        rw [List.foldl_append, h4]
        simp only [List.foldl_cons, List.foldl_nil, List.length_append, List.length_cons, List.length_nil]
        have := Nat.div_add_mod n 10
        ring_nf
        omega

theorem natDigits_spec (n : Nat) :
    (∀ d ∈ natDigits n, d < 10) ∧ natDigits n ≠ [] ∧ digitsVal (natDigits n) = n := by
  obtain ⟨ds, h1, h2, h3, h4⟩ := natDigitsAux_spec (n + 1) n [] (by omega)
  have : natDigits n = ds := by simp [natDigits, h1]
  rw [this]
  exact ⟨h2, h3, by simpa [digitsVal] using h4 0⟩

theorem parseIntC_renderInt (e : Int) : parseIntC (renderInt e) = some e := by
  obtain ⟨h1, h2, h3⟩ := natDigits_spec e.natAbs
  have hp := parseDigits_map _ h1
  unfold parseIntC renderInt
  by_cases he : e < 0
  · simp only [he, if_true, List.cons_append, List.nil_append, parseSign]
    have : (natDigits e.natAbs).map digitChar ≠ [] := by simpa using h2
    simp only [this, if_false, hp, Option.map, h3]
    congr 1; omega
  · simp only [he, if_false, List.nil_append]
    cases hds : natDigits e.natAbs with
    | nil => exact absurd hds h2
    | cons d ds =>
      have hd : d < 10 := h1 d (by simp [hds])
      rw [hds] at hp h3
      simp only [List.map_cons] at hp ⊢
      rw [parseSign_digit d hd]
      simp only [List.cons_ne_nil, if_false, hp, Option.map, h3]
      simp
      omega

/-- a numeral as the harness writes it: decimal digits, fraction digits only after a point,
at least one digit -/
def Numeral.Valid (ν : Numeral) : Prop :=
  (∀ d ∈ ν.int, d < 10) ∧ (∀ d ∈ ν.frac, d < 10) ∧ (ν.hasDot = false → ν.frac = []) ∧
  (ν.int ≠ [] ∨ ν.frac ≠ [])

theorem renderInt_chars (e : Int) : ∀ c ∈ renderInt e, c.toLower = c ∧ c ≠ 'e' := by
  intro c hc
  unfold renderInt at hc
  rcases List.mem_append.mp hc with h | h
  · split at h
    · simp at h; subst h; decide
    · simp at h
  · obtain ⟨d, hd, rfl⟩ := List.mem_map.mp h
    have := (natDigits_spec e.natAbs).1 d hd
    exact ⟨toLower_digitChar d this, (digitChar_ne d this).1⟩

/-- the mantissa part of `render` -/
def mantChars (ν : Numeral) : List Char :=
  (if ν.neg then ['-'] else []) ++ ν.int.map digitChar ++
  (if ν.hasDot then '.' :: ν.frac.map digitChar else [])

theorem mant_chars (ν : Numeral) (hv : ν.Valid) : ∀ c ∈ mantChars ν, c.toLower = c ∧ c ≠ 'e' := by
  obtain ⟨hi, hf, _, _⟩ := hv
  intro c hc
  unfold mantChars at hc
  simp only [List.mem_append] at hc
  rcases hc with (h | h) | h
  · split at h
    · simp at h; subst h; decide
    · simp at h
  · obtain ⟨d, hd, rfl⟩ := List.mem_map.mp h
    exact ⟨toLower_digitChar d (hi d hd), (digitChar_ne d (hi d hd)).1⟩
  · split at h
    · simp only [List.mem_cons] at h
      rcases h with rfl | h
      · decide
      · obtain ⟨d, hd, rfl⟩ := List.mem_map.mp h
        exact ⟨toLower_digitChar d (hf d hd), (digitChar_ne d (hf d hd)).1⟩
    · simp at h

/-- **reading what was written gives the numeral back**: the tokenised numeral model is tied
to the character strings by `parse ∘ render = id` on valid numerals -/
theorem parse_render (ν : Numeral) (hv : ν.Valid) : parse (render ν) = some ν := by
  have hv' := hv
  obtain ⟨hi, hf, hwf, hne⟩ := hv
  have hrender : render ν = mantChars ν ++ (match ν.exp with | none => [] | some e => 'e' :: renderInt e) := rfl
  -- lower-casing changes nothing
  have hlow : (render ν).map Char.toLower = render ν := by
    have : ∀ c ∈ render ν, c.toLower = c := by
      intro c hc
      rw [hrender] at hc
      rcases List.mem_append.mp hc with h | h
      · exact (mant_chars ν hv' c h).1
      · cases he : ν.exp with
        | none => simp [he] at h
        | some e =>
          simp only [he, List.mem_cons] at h
          rcases h with rfl | h
          · decide
          · exact (renderInt_chars e c h).1
    calc (render ν).map Char.toLower = (render ν).map id := List.map_congr_left this
      _ = render ν := List.map_id _
  have hnoe : 'e' ∉ mantChars ν := fun h => (mant_chars ν hv' 'e' h).2 rfl
  -- split at `e`
  have hsplitE : splitOnce 'e' (render ν) =
      (mantChars ν, match ν.exp with | none => none | some e => some (renderInt e)) := by
    rw [hrender]
    cases ν.exp with
    | none => simpa using splitOnce_none 'e' _ hnoe
    | some e => exact splitOnce_append 'e' _ _ hnoe
  -- sign
  let body := ν.int.map digitChar ++ (if ν.hasDot then '.' :: ν.frac.map digitChar else [])
  have hsign : parseSign (mantChars ν) = (ν.neg, body) := by
    unfold mantChars
    cases hn : ν.neg
    · simp only [if_false, Bool.false_eq_true, List.nil_append]
      cases hint : ν.int with
      | nil =>
        cases hd : ν.hasDot <;> simp [body, hint, hd, parseSign]
      | cons d ds =>
        have := parseSign_digit d (hi d (by simp [hint]))
        simp [body, hint, this]
    · simp [body, parseSign, List.append_assoc]
  -- split at `.`
  have hnodot : '.' ∉ ν.int.map digitChar := by
    intro h
    obtain ⟨d, hd, he⟩ := List.mem_map.mp h
    exact (digitChar_ne d (hi d hd)).2.1 he
  have hsplitD : splitOnce '.' body =
      (ν.int.map digitChar, if ν.hasDot then some (ν.frac.map digitChar) else none) := by
    cases hd : ν.hasDot
    · simpa [body, hd] using splitOnce_none '.' _ hnodot
    · simpa [body, hd] using splitOnce_append '.' _ (ν.frac.map digitChar) hnodot
  have hpi := parseDigits_map ν.int hi
  have hpf := parseDigits_map ν.frac hf
  unfold parse
  rw [hlow, hsplitE]
  simp only [hsign, hsplitD, hpi]
  cases hd : ν.hasDot
  · have hfr := hwf hd
    have hint : ν.int ≠ [] := by
      rcases hne with h | h
      · exact h
      · exact absurd hfr h
    cases he : ν.exp with
    | none =>
      simp [hd, he, hint]
      cases ν; simp_all
    | some e =>
      simp [hd, he, hint, parseIntC_renderInt]
      cases ν; simp_all
  · have hnn : ¬ (ν.int = [] ∧ ν.frac = []) := by
      rintro ⟨a, b⟩
      rcases hne with h | h
      · exact h a
      · exact h b
    cases he : ν.exp with
    | none =>
      simp [hd, he, hpf, hnn]
      cases ν; simp_all
    | some e =>
      simp [hd, he, hpf, hnn, parseIntC_renderInt]
      cases ν; simp_all

example : parse "-12.30e-4".toList = some ⟨true, [1, 2], [3, 0], true, some (-4)⟩ := by decide +kernel
example : render ⟨true, [1, 2], [3, 0], true, some (-4)⟩ = "-12.30e-4".toList := by decide +kernel
example : Numeral.Valid ⟨true, [1, 2], [3, 0], true, some (-4)⟩ := by
  refine ⟨?_, ?_, ?_, ?_⟩ <;> simp

end Pun.Hedge
