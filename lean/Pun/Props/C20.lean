import Pun.Model.Hedge
import Mathlib.Tactic.Ring
import Mathlib.Tactic.Linarith
import Mathlib.Tactic.FieldSimp
import Mathlib.Algebra.Order.Field.Power
/-!
# C20 — hedged expressions and significant digits decode to intervals about the number

Generic in the keyword table; `Pun/Props/C20Gen.lean` discharges the hypotheses for the table
regenerated from the source.

* `sg_spec` : `sgnumber ν = val ν ∓ u/2`, `u = 10^lastSigExp ν` the unit of the last significant
  digit (last written digit when a point is written, last non-zero digit of an integer mantissa).
* `hedge_contains`, `hedge_endpoint_*`, `hedge_nested` : containment, endpoints, nesting.
* `sign_commute_*`, `pow10_commute` : the result depends on the sign only through the number
  itself and scales with the exponent.
-/
set_option linter.unusedSimpArgs false
set_option linter.unusedVariables false
namespace Pun.Hedge

theorem pow10_eq (e : Int) : pow10 e = (10:ℚ)^e := by
  unfold pow10
  split
  · rename_i h
    obtain ⟨n, rfl⟩ := Int.eq_ofNat_of_zero_le h
    simp
  · rename_i h
    obtain ⟨n, hn⟩ := Int.eq_ofNat_of_zero_le (show 0 ≤ -e by omega)
    have he : e = -(n:Int) := by omega
    subst he
    simp

theorem pow10_pos (e : Int) : 0 < pow10 e := by
  rw [pow10_eq]; positivity

theorem pow10_add (a b : Int) : pow10 (a + b) = pow10 a * pow10 b := by
  simp only [pow10_eq]; exact zpow_add₀ (by norm_num) a b

/-! ## significant digits -/

/-- number of trailing zeros of a digit string -/
def trailingZeros (ds : List Nat) : Nat := (ds.reverse.takeWhile (· == 0)).length

/-- decimal exponent of the last significant digit -/
def lastSigExp (ν : Numeral) : Int :=
  if ν.hasDot then ν.e - ν.frac.length else ν.e + trailingZeros ν.int

theorem rstrip0_length (ds : List Nat) : ((rstrip0 ds).length : Int) - ds.length = - (trailingZeros ds : Int) := by
  have h := List.takeWhile_append_dropWhile (p := (· == 0)) (l := ds.reverse)
  have hl := congrArg List.length h
  simp only [List.length_append, List.length_reverse] at hl
  simp only [rstrip0, trailingZeros, List.length_reverse]
  omega

theorem sgPm_eq (ν : Numeral) : sgPm ν = pow10 (lastSigExp ν) / 2 := by
  unfold sgPm sgJ lastSigExp
  split
  · rw [← pow10_add]; congr 2; ring
  · rw [rstrip0_length, ← pow10_add]; congr 2; ring

/-- **significant digits**: the interval of half a unit in the last significant digit around
the number, for every numeral (any sign, digits, point, exponent) -/
theorem sg_spec (ν : Numeral) :
    sgnumber ν = (ν.val - pow10 (lastSigExp ν) / 2, ν.val + pow10 (lastSigExp ν) / 2) := by
  simp only [sgnumber, sgPm_eq]

theorem sg_contains (ν : Numeral) : (sgnumber ν).1 < ν.val ∧ ν.val < (sgnumber ν).2 := by
  rw [sg_spec]
  have := pow10_pos (lastSigExp ν)
  constructor <;> simp only <;> linarith

example : sgnumber ⟨false, [2, 0, 0], [], false, none⟩ = (150, 250) := by decide +kernel
example : lastSigExp ⟨false, [1, 2], [3, 0], true, some (-4)⟩ = -6 := by decide +kernel

/-! ## numerals: sign and scale -/
theorem val_negate (ν : Numeral) : ν.negate.val = - ν.val := by
  unfold Numeral.val Numeral.negate Numeral.mag Numeral.e
  cases ν.neg <;> simp

theorem d_negate (ν : Numeral) : decipherD ν.negate = decipherD ν := rfl

theorem e_scale (ν : Numeral) (n : Int) : (ν.scale n).e = ν.e + n := by
  simp [Numeral.scale, Numeral.e]

theorem val_scale (ν : Numeral) (n : Int) : (ν.scale n).val = ν.val * pow10 n := by
  have he := e_scale ν n
  unfold Numeral.val Numeral.mag
  rw [he]
  have : ν.e + n - (ν.frac.length : Int) = (ν.e - ν.frac.length) + n := by ring
  simp only [Numeral.scale, this, pow10_add]
  split <;> ring

theorem d_scale (ν : Numeral) (n : Int) : decipherD (ν.scale n) = decipherD ν - n := by
  unfold decipherD
  rw [e_scale]
  simp only [Numeral.scale]
  ring

/-! ## hedges -/
def EB.le : EB → EB → Prop
  | .ninf, _ => True
  | _, .pinf => True
  | .fin a, .fin b => a ≤ b
  | _, _ => False

/-- `a ⊆ b` -/
def Ivl.sub (a b : Ivl) : Prop := EB.le b.lo a.lo ∧ EB.le a.hi b.hi

def EB.scale (c : Rat) : EB → EB
  | .fin r => .fin (r * c)
  | e => e
def Ivl.scale (c : Rat) (i : Ivl) : Ivl := ⟨i.lo.scale c, i.hi.scale c⟩
def EB.shift (t : Rat) : EB → EB
  | .fin r => .fin (r + t)
  | e => e
def Ivl.shift (t : Rat) (i : Ivl) : Ivl := ⟨i.lo.shift t, i.hi.shift t⟩

/-- symmetric hedges contain the stated number, symmetrically -/
theorem hedge_contains (k : Rat) (j : Nat) (ν : Numeral) (sq : Rat) (hk : 0 ≤ k) :
    ∃ w, 0 ≤ w ∧ hedgeForm (.sym k j) ν sq = some ⟨.fin (ν.val - w), .fin (ν.val + w)⟩ := by
  refine ⟨k * pow10 (-(decipherD ν + j)), ?_, rfl⟩
  exact mul_nonneg hk (le_of_lt (pow10_pos _))

theorem count_contains (ν : Numeral) (sq : Rat) (hs : 0 ≤ sq) :
    hedgeForm .count ν sq = some ⟨.fin (ν.val - sq), .fin (ν.val + sq)⟩ ∧ ν.val - sq ≤ ν.val ∧ ν.val ≤ ν.val + sq := by
  refine ⟨rfl, ?_, ?_⟩ <;> linarith

/-- `almost`, `below` end at the number -/
theorem hedge_endpoint_left (k : Rat) (ν : Numeral) (sq : Rat) (hk : 0 < k) :
    ∃ lo, lo < ν.val ∧ hedgeForm (.left k) ν sq = some ⟨.fin lo, .fin ν.val⟩ := by
  refine ⟨ν.val - k * pow10 (-(decipherD ν)), ?_, rfl⟩
  have := mul_pos hk (pow10_pos (-(decipherD ν)))
  linarith

/-- `over`, `above` start at the number -/
theorem hedge_endpoint_right (k : Rat) (ν : Numeral) (sq : Rat) (hk : 0 < k) :
    ∃ hi, ν.val < hi ∧ hedgeForm (.right k) ν sq = some ⟨.fin ν.val, .fin hi⟩ := by
  refine ⟨ν.val + k * pow10 (-(decipherD ν)), ?_, rfl⟩
  have := mul_pos hk (pow10_pos (-(decipherD ν)))
  linarith

theorem hedge_endpoint_atMost (ν : Numeral) (sq : Rat) :
    hedgeForm .atMost ν sq = some ⟨.ninf, .fin ν.val⟩ := rfl
theorem hedge_endpoint_atLeast (ν : Numeral) (sq : Rat) :
    hedgeForm .atLeast ν sq = some ⟨.fin ν.val, .pinf⟩ := rfl

/-- nesting of two symmetric hedges whose half-widths (in units of the last digit) are ordered -/
theorem hedge_nested (k₁ k₂ : Rat) (j₁ j₂ : Nat) (ν : Numeral) (sq : Rat)
    (h : k₁ * pow10 (-(j₁ : Int)) ≤ k₂ * pow10 (-(j₂ : Int))) :
    ∃ a b, hedgeForm (.sym k₁ j₁) ν sq = some a ∧ hedgeForm (.sym k₂ j₂) ν sq = some b ∧ a.sub b := by
  refine ⟨_, _, rfl, rfl, ?_⟩
  have e1 : pow10 (-(decipherD ν + j₁)) = pow10 (-(decipherD ν)) * pow10 (-(j₁:Int)) := by
    rw [← pow10_add]; congr 1; ring
  have e2 : pow10 (-(decipherD ν + j₂)) = pow10 (-(decipherD ν)) * pow10 (-(j₂:Int)) := by
    rw [← pow10_add]; congr 1; ring
  have hp := pow10_pos (-(decipherD ν))
  have hh : k₁ * pow10 (-(decipherD ν + j₁)) ≤ k₂ * pow10 (-(decipherD ν + j₂)) := by
    rw [e1, e2]
    have := mul_le_mul_of_nonneg_left h (le_of_lt hp)
    nlinarith
  simp only [Ivl.sub, EB.le]
  constructor <;> linarith

/-- table-level check used by `C20Gen`: the three keywords are symmetric forms with ordered widths -/
def nestedOK (tbl : List (String × Form)) : Bool :=
  match lookup tbl "exactly", lookup tbl "about", lookup tbl "around" with
  | some (.sym k₁ j₁), some (.sym k₂ j₂), some (.sym k₃ j₃) =>
    decide (0 ≤ k₁ ∧ k₁ * pow10 (-(j₁ : Int)) ≤ k₂ * pow10 (-(j₂ : Int)) ∧ k₂ * pow10 (-(j₂ : Int)) ≤ k₃ * pow10 (-(j₃ : Int)))
  | _, _, _ => false

/-- **exactly ⊆ about ⊆ around** for every numeral, for any table passing `nestedOK` -/
theorem hedge_order (tbl : List (String × Form)) (h : nestedOK tbl = true) (ν : Numeral) (sq : Rat) :
    ∃ a b c, hedge tbl "exactly" ν sq = some a ∧ hedge tbl "about" ν sq = some b ∧ hedge tbl "around" ν sq = some c
      ∧ a.sub b ∧ b.sub c ∧ EB.le a.lo (.fin ν.val) ∧ EB.le (.fin ν.val) a.hi := by
  unfold nestedOK at h
  split at h
  · rename_i k₁ j₁ k₂ j₂ k₃ j₃ h1 h2 h3
    simp only [decide_eq_true_eq] at h
    obtain ⟨hk, h12, h23⟩ := h
    obtain ⟨a, b, ha, hb, hab⟩ := hedge_nested k₁ k₂ j₁ j₂ ν sq h12
    obtain ⟨b', c, hb', hc, hbc⟩ := hedge_nested k₂ k₃ j₂ j₃ ν sq h23
    have : b' = b := by rw [hb] at hb'; exact (Option.some.inj hb').symm
    subst this
    refine ⟨a, b', c, by simp [hedge, h1, ha], by simp [hedge, h2, hb], by simp [hedge, h3, hc], hab, hbc, ?_, ?_⟩
    all_goals
      have hw := mul_nonneg hk (le_of_lt (pow10_pos (-(decipherD ν + j₁))))
      simp only [hedgeForm, Option.some.injEq] at ha
      subst ha
      simp only [EB.le]
      linarith
  · exact absurd h (by simp)

/-! ## commutation -/

/-- changing the sign of the number mirrors a symmetric hedge -/
theorem sign_commute_sym (k : Rat) (j : Nat) (ν : Numeral) (sq : Rat) :
    hedgeForm (.sym k j) ν.negate sq =
      some ⟨.fin (-(ν.val + k * pow10 (-(decipherD ν + j)))), .fin (-(ν.val - k * pow10 (-(decipherD ν + j))))⟩ := by
  simp only [hedgeForm, val_negate, d_negate]
  congr 3 <;> ring

/-- for every interval-valued form except `count`/`order`, the offsets from the number do not
depend on the sign: the result for `−ν` is the result for `ν` translated by `−2·val ν` -/
theorem sign_commute_offsets (f : Form) (ν : Numeral) (sq : Rat)
    (hf : match f with | .order _ _ => False | .text => False | _ => True) :
    hedgeForm f ν.negate sq = (hedgeForm f ν sq).map (Ivl.shift (-2 * ν.val)) := by
  cases f <;> simp only [hedgeForm, val_negate, d_negate, Option.map, Ivl.shift, EB.shift] at * <;>
    (congr 3 <;> ring)

/-- multiplying the number by `10^n` (exponent field) multiplies the interval by `10^n`
(all interval-valued forms except `count`) -/
theorem pow10_commute (f : Form) (ν : Numeral) (n : Int) (sq : Rat) (hf : f ≠ .count) :
    hedgeForm f (ν.scale n) sq = (hedgeForm f ν sq).map (Ivl.scale (pow10 n)) := by
  have hs : ∀ t : Int, pow10 (-(decipherD ν - n + t)) = pow10 (-(decipherD ν + t)) * pow10 n := by
    intro t; rw [← pow10_add]; congr 1; ring
  have hs0 : pow10 (-(decipherD ν - n)) = pow10 (-(decipherD ν)) * pow10 n := by
    rw [← pow10_add]; congr 1; ring
  cases f with
  | sym k j => simp only [hedgeForm, val_scale, d_scale, hs, Option.map, Ivl.scale, EB.scale]; congr 3 <;> ring
  | left k => simp only [hedgeForm, val_scale, d_scale, hs0, Option.map, Ivl.scale, EB.scale]; congr 3; ring
  | right k => simp only [hedgeForm, val_scale, d_scale, hs0, Option.map, Ivl.scale, EB.scale]; congr 3; ring
  | atMost => simp only [hedgeForm, val_scale, Option.map, Ivl.scale, EB.scale]
  | atLeast => simp only [hedgeForm, val_scale, Option.map, Ivl.scale, EB.scale]
  | count => exact absurd rfl hf
  | order a b =>
    simp only [hedgeForm, val_scale]
    split
    · rfl
    · simp only [Option.map, Ivl.scale, EB.scale]; congr 3 <;> ring
  | text => rfl

example : hedgeForm (.sym 2 0) ⟨true, [2, 0, 0], [], false, none⟩ 0 = some ⟨.fin (-202), .fin (-198)⟩ := by
  decide +kernel
example : hedgeForm (.sym 2 0) ⟨false, [0], [5], true, none⟩ 0 = some ⟨.fin (3/10), .fin (7/10)⟩ := by
  decide +kernel

end Pun.Hedge
