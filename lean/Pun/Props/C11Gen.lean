import Pun.Props.C11
import Pun.Gen.EnvImpGen
/-!
# C11 — the join / meet logic regenerated from the source equals the hand model

`Pun/Gen/EnvImpGen.lean` is rewritten on every run by `harness/pv/translator/envimp.py` from `Staircase.env`,
`Staircase.imp` (pba/pbox_abc.py), `envelope`, `imposition` (pba/aggregation.py) and `intervals.methods.env`: which
reduction (min / max) is applied to which pair of bound arrays for each result bound, both sides, the comparison and the
quantifier of the crossing test of `imp` and the exception it raises, list vs array form of the constructor call, and for the
n-ary functions the interval shortcut, the operands converted, the operands folded, `functools.reduce` without initial value
(left fold from the first operand) and the receiver of the binary step.  The choices live in finite enums; a fixed interpreter
(`envGen`, `impGen`, `envelopeGen`, `impositionGen`, `hullGen`) runs them.

`envGen_eq`, `impGen_eq`, `hullGen_eq`, `envelopeGen_eq`, `impositionGen_eq` prove the interpreter on the CURRENT constants
equal to the hand model for ALL inputs (the constants are a finite table, so these are proofs by unfolding a finite table;
they lift the unbounded theorems of `Props/C11.lean` to what the source says now: `gen_*`).  A source edit that changes a
choice (min↔max, a bound swapped, `>`→`>=`, a dropped operand, another exception) changes a constant and breaks the
corresponding `…_eq` proof.
-/
set_option linter.unusedSimpArgs false
set_option linter.unusedVariables false
namespace Pun.EnvImp
open Pun Pun.PBox Pun.Gen.EnvImp

theorem envGen_eq (n : Nat) (x y : PB) : envGen n x y = env n x y := rfl

theorem impGen_eq (n : Nat) (x y : PB) : impGen n x y = imp n x y := rfl

theorem hullGen_eq (x y : Rat × Rat) : hullGen x y = hull2 x y := rfl

/-- the binary step of `envelope` is `Pbox.env` whichever argument is the receiver (`env` is commutative) -/
theorem envelope_step_eq (n : Nat) : envelopeCfg.step n = env n := by
  funext a b
  unfold NAry.step
  split
  · exact envGen_eq n a b
  · exact (envGen_eq n b a).trans (env_comm n b a)

theorem imposition_step_eq (n : Nat) : impositionCfg.step n = imp n := by
  funext a b
  unfold NAry.step
  split
  · exact impGen_eq n a b
  · exact (impGen_eq n b a).trans (imp_comm n b a)

theorem impositionGen_eq (n : Nat) (l : List Opnd) : impositionGen n l = imposition n l := by
  unfold impositionGen NAry.run imposition foldImp
  rw [imposition_step_eq]
  have hc : impositionCfg.convSkip = 0 := rfl
  have hf : impositionCfg.foldSkip = 0 := rfl
  simp only [hc, hf, List.drop_zero]

theorem envelopeGen_eq (n : Nat) (l : List Opnd) : envelopeGen n l = envelope n l := by
  unfold envelopeGen envelope NAry.run foldEnv
  rw [envelope_step_eq]
  have : hullGen = hull2 := by funext a b; exact hullGen_eq a b
  rw [this]
  have hs : envelopeCfg.shortcut = true := rfl
  have hc : envelopeCfg.convSkip = 0 := rfl
  have hf : envelopeCfg.foldSkip = 0 := rfl
  simp only [hs, hc, hf, Bool.true_and, List.drop_zero]
  by_cases h : l.all Opnd.isIvl = true
  · simp only [h, if_true]
  · simp only [h]
    cases convertAll n l with
    | error e => rfl
    | ok xs => rfl

/-! ## the lattice theorems for what the source says now -/

/-- absorption for the hand model (used below): `X ⊔ (X ⊓ Y) = X` and `X ⊓ (X ⊔ Y) = X` -/
theorem absorption {n : Nat} {X Y : PB} (hX : WF n X) (hY : WF n Y) :
    (∀ M, imp n X Y = .ok M → env n X M = .ok X) ∧ (∀ E, env n X Y = .ok E → imp n X E = .ok X) := by
  constructor
  · intro M h
    obtain ⟨-, hM, -⟩ := imp_pointwise hX hY h
    have hsub := (imp_lower hX hY h).1
    rw [env_ok hX hM]
    exact congrArg _ (Sub.antisymm (envSpec_sub (Sub.rfl X) hsub) (sub_envSpec_left hX hM))
  · intro E h
    obtain ⟨hE, hsub, -⟩ := env_upper hX hY h
    have hsel : Sel X X.left := ⟨PLe.rfl _, hX.le⟩
    have hc : Compat X E := (compat_iff_common hX hE).mpr ⟨X.left, hsel, sel_of_sub hsub hsel⟩
    rw [imp_ok hX hE hc]
    exact congrArg _ (Sub.antisymm (impSpec_sub_left hX hE) (sub_impSpec (Sub.rfl X) hsub))

/-- `Staircase.env` as the source has it now: least upper bound -/
theorem gen_env_lub {n : Nat} {X Y E : PB} (hX : WF n X) (hY : WF n Y) (h : envGen n X Y = .ok E) :
    WF n E ∧ Sub X E ∧ Sub Y E ∧ ∀ Q, Sub X Q → Sub Y Q → Sub E Q := by
  rw [envGen_eq] at h
  obtain ⟨h1, h2, h3⟩ := env_upper hX hY h
  exact ⟨h1, h2, h3, fun Q q1 q2 => env_least hX hY h q1 q2⟩

/-- `Staircase.imp` as the source has it now: greatest lower bound when it returns -/
theorem gen_imp_glb {n : Nat} {X Y E : PB} (hX : WF n X) (hY : WF n Y) (h : impGen n X Y = .ok E) :
    WF n E ∧ Sub E X ∧ Sub E Y ∧ ∀ Q, Sub Q X → Sub Q Y → Sub Q E := by
  rw [impGen_eq] at h
  obtain ⟨h1, h2⟩ := imp_lower hX hY h
  exact ⟨(imp_pointwise hX hY h).2.1, h1, h2, fun Q q1 q2 => imp_greatest hX hY h q1 q2⟩

/-- emptiness ⇔ raise, for the extracted crossing test, comparison, quantifier and exception -/
theorem gen_imp_raises_iff {n : Nat} {X Y : PB} (hX : WF n X) (hY : WF n Y) :
    (impGen n X Y = .error .Other ↔ ¬ ∃ z, Sel X z ∧ Sel Y z) ∧
    ((∃ E, impGen n X Y = .ok E) ↔ ∃ z, Sel X z ∧ Sel Y z) := by
  rw [impGen_eq]
  exact ⟨(imp_raises_iff hX hY).1, (imp_raises_iff hX hY).2.1⟩

theorem gen_comm (n : Nat) (X Y : PB) : envGen n X Y = envGen n Y X ∧ impGen n X Y = impGen n Y X := by
  simp only [envGen_eq, impGen_eq]
  exact ⟨env_comm n X Y, imp_comm n X Y⟩

theorem gen_idem {n : Nat} {X : PB} (hX : WF n X) : envGen n X X = .ok X ∧ impGen n X X = .ok X := by
  simp only [envGen_eq, impGen_eq]
  exact ⟨env_idem hX, imp_idem hX⟩

theorem gen_assoc {n : Nat} {X Y Z : PB} (hX : WF n X) (hY : WF n Y) (hZ : WF n Z) :
    ((envGen n X Y >>= fun E => envGen n E Z) = (envGen n Y Z >>= fun E => envGen n X E)) ∧
    ((impGen n X Y >>= fun E => impGen n E Z) = (impGen n Y Z >>= fun E => impGen n X E)) := by
  have e1 : envGen n = env n := by funext a b; exact envGen_eq n a b
  have e2 : impGen n = imp n := by funext a b; exact impGen_eq n a b
  rw [e1, e2]
  exact ⟨env_assoc hX hY hZ, imp_assoc hX hY hZ⟩

theorem gen_absorption {n : Nat} {X Y : PB} (hX : WF n X) (hY : WF n Y) :
    (∀ M, impGen n X Y = .ok M → envGen n X M = .ok X) ∧ (∀ E, envGen n X Y = .ok E → impGen n X E = .ok X) := by
  have e1 : envGen n = env n := by funext a b; exact envGen_eq n a b
  have e2 : impGen n = imp n := by funext a b; exact impGen_eq n a b
  rw [e1, e2]
  exact absorption hX hY

/-- the n-ary functions as the source has them now (conversion of every operand, left fold from the first operand, interval
shortcut): any listing order gives the same result -/
theorem gen_fold_perm_invariant {n : Nat} {l₁ l₂ : List Opnd} (hp : l₁.Perm l₂) (hv : ∀ x ∈ l₁, Valid n x) :
    envelopeGen n l₁ = envelopeGen n l₂ ∧ impositionGen n l₁ = impositionGen n l₂ := by
  simp only [envelopeGen_eq, impositionGen_eq]
  exact fold_perm_invariant hp hv

/-- … `envelope` returns the least p-box containing the converted operands -/
theorem gen_envelope_lub {n : Nat} (l : List Opnd) (hv : ∀ x ∈ l, Valid n x) (hmix : l.all Opnd.isIvl = false) :
    ∃ E, envelopeGen n l = .ok (.pb E) ∧ WF n E ∧ (∀ x ∈ l, Sub (conv n x) E) ∧
      (∀ Q, (∀ x ∈ l, Sub (conv n x) Q) → Sub E Q) := by
  rw [envelopeGen_eq]; exact envelope_lub l hv hmix

/-- … `imposition` returns the greatest p-box inside the converted operands, or raises when they share no selection -/
theorem gen_imposition_glb_or_raises {n : Nat} (l : List Opnd) (hne : l ≠ []) (hv : ∀ x ∈ l, Valid n x) :
    (∀ z, (∀ x ∈ l, Sel (conv n x) z) → ∃ E, impositionGen n l = .ok E ∧ WF n E ∧ Sel E z ∧
        (∀ x ∈ l, Sub E (conv n x)) ∧ (∀ Q, (∀ x ∈ l, Sub Q (conv n x)) → Sub Q E)) ∧
    ((¬ ∃ z, ∀ x ∈ l, Sel (conv n x) z) → impositionGen n l = .error .Other) := by
  rw [impositionGen_eq]
  exact ⟨fun z hz => imposition_glb l hne hv z hz, fun hno => imposition_raises l hne hv hno⟩

/-- the interval shortcut as the source has it now: hull, equal to the p-box route -/
theorem gen_hull_is_env {n : Nat} (l : List Opnd) (hne : l ≠ []) (hv : ∀ x ∈ l, Valid n x)
    (hall : l.all Opnd.isIvl = true) :
    ∃ a b, envelopeGen n l = .ok (.ivl a b) ∧ a ≤ b ∧ (∀ lo hi, Opnd.ivl lo hi ∈ l → a ≤ lo ∧ hi ≤ b) ∧
      (∃ lo hi, Opnd.ivl lo hi ∈ l ∧ lo = a) ∧ (∃ lo hi, Opnd.ivl lo hi ∈ l ∧ hi = b) := by
  rw [envelopeGen_eq]
  obtain ⟨a, b, h1, h2, h3, h4, h5, -⟩ := hull_is_env l hne hv hall
  exact ⟨a, b, h1, h2, h3, h4, h5⟩

/-! non-vacuity: the generated functions computed on the instances of `Props/C11.lean` -/
example : envGen 3 exX exY = .ok ⟨[0, 2, 3], [2, 3, 5]⟩ := by decide +kernel
example : impGen 3 exX exY = .ok ⟨[1, 5/2, 3], [1, 3, 4]⟩ := by decide +kernel
example : impGen 3 exX exZ = .error .Other := by decide +kernel
example : envelopeGen 3 exFam = .ok (.pb ⟨[1, 1, 1], [3, 3, 4]⟩) := by decide +kernel
example : impositionGen 3 [.ivl 1 3, .box exX, .box exY] = .ok ⟨[1, 5/2, 3], [1, 3, 3]⟩ := by decide +kernel
example : envelopeGen 3 [.ivl 1 2, .ivl 0 1, .ivl (3/2) 5] = .ok (.ivl 0 5) := by decide +kernel

end Pun.EnvImp
