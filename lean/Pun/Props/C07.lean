import Pun.Lemmas.Hier
namespace Pun.Hier
end Pun.Hier
