import Pun.Lemmas.Hier
import Pun.Props.C01
/-!
# C07 — uncertain-number hierarchy: degenerate operands reduce to the simpler arithmetic

All statements are about the functions the model driver executes (`Pun.Hier.evalOp`, `method`,
`spec`, `convert`, built on `Pun.PBox.binop`) for ANY number of steps `n > 0` and all rationals.

* `embed_op` (+ `embed_op_f/p/o/i`): two embedded intervals combined by ANY of the four operations
  under ANY of the four dependencies give the constant p-box of the C01 interval result
  (`Pun.Arith.binop`), every sign case — including the Frechet product of zero-straddling
  intervals (naive ∩ Balch);  `ivl_expr_embeds` states it for the Python expression
  `Interval op Interval` against the converted-first expression;
* `embed_real`, `real_expr_embeds`: point operands give the real-number result;
* `ivl_dist_shift`, `dist_ivl_shift`, `ivl_dist_scale`: interval ± precise distribution is the quantile
  list shifted by the interval, interval × positive distribution is it scaled;
* `evalOp_route`: the dispatch graph as a finite table over the 5 × 5 kinds;
* `fwd_agrees`, `refl_add_agrees`, `refl_sub_agrees`, `num_add_sub_agrees`: the mixed expression equals
  the expression with every operand converted first.  The full statement is `C07RouteStatement`; what
  is proved is `route_agrees_partial` (missing: reflected product / quotient `Interval * P`,
  `Interval / P`, products / quotients with a number, dependency `i` in the reflected sums — those are
  covered by `Pun.Props.C07Route`: `route_agrees` proves the agreement for EVERY cell, every operation and
  dependency; `spec_total` / `route_partial` say when the converted-first expression answers).
-/
set_option linter.unusedSimpArgs false
set_option linter.unusedVariables false
namespace Pun.Hier
open Pun Pun.PBox

/-! ## the C01 interval model on two scalar intervals -/

theorem arith_add (a b c d : Rat) (hab : a ≤ b) (hcd : c ≤ d) :
    Arith.binop .add (.I a b) (.I c d) = .ok (.I (a + c) (b + d)) := by
  have h : a + c ≤ b + d := by linarith
  simp [Arith.binop, Arith.opdIV, Arith.forward, Arith.IV.ofI, Arith.bzip, Arith.bshape, Arith.bget, Arith.mkIV, h,
    bind, Except.bind, pure, Except.pure]

theorem arith_sub (a b c d : Rat) (hab : a ≤ b) (hcd : c ≤ d) :
    Arith.binop .sub (.I a b) (.I c d) = .ok (.I (a - d) (b - c)) := by
  have h : a - d ≤ b - c := by linarith
  simp [Arith.binop, Arith.opdIV, Arith.forward, Arith.IV.ofI, Arith.bzip, Arith.bshape, Arith.bget, Arith.mkIV, h,
    bind, Except.bind, pure, Except.pure]

theorem arith_mul (a b c d : Rat) (hab : a ≤ b) (hcd : c ≤ d) :
    Arith.binop .mul (.I a b) (.I c d) =
      .ok (.I (min4 (a*c) (a*d) (b*c) (b*d)) (max4 (a*c) (a*d) (b*c) (b*d))) := by
  have h := min4_le_max4 (a*c) (a*d) (b*c) (b*d)
  rw [min4_arith, max4_arith] at h ⊢
  simp [Arith.binop, Arith.opdIV, Arith.forward, Arith.IV.ofI, Arith.multiply, Arith.IV.scalar, Arith.bshape,
    Arith.finishTable, Arith.mulTable_exact a b c d hab hcd, Arith.mkIV, h, bind, Except.bind, pure, Except.pure]

theorem arith_div_zero (a b c d : Rat) (h0 : c ≤ 0 ∧ 0 ≤ d) :
    Arith.binop .div (.I a b) (.I c d) = .error .ZeroDivision := by
  simp [Arith.binop, Arith.opdIV, Arith.forward, Arith.IV.ofI, Arith.divide, Arith.straddles, h0.1, h0.2,
    bind, Except.bind]

theorem arith_div (a b c d : Rat) (hab : a ≤ b) (hcd : c ≤ d) (h0 : 0 < c ∨ d < 0) :
    Arith.binop .div (.I a b) (.I c d) =
      .ok (.I (min4 (a*(1/d)) (a*(1/c)) (b*(1/d)) (b*(1/c))) (max4 (a*(1/d)) (a*(1/c)) (b*(1/d)) (b*(1/c)))) := by
  obtain ⟨l, h, htab, hs, ⟨x, y, hx1, hx2, hy1, hy2, hlo⟩, ⟨x', y', hx1', hx2', hy1', hy2', hhi⟩⟩ :=
    Arith.divTable_sound a b c d hab hcd h0
  have hy0 : ∀ y, c ≤ y → y ≤ d → (1 / d ≤ 1 / y ∧ 1 / y ≤ 1 / c) := by
    intro y h1 h2
    constructor
    · apply one_div_anti y d h2
      rcases h0 with h | h
      · left; linarith
      · right; exact h
    · apply one_div_anti c y h1
      rcases h0 with h | h
      · left; exact h
      · right; linarith
  have el : l = min4 (a*(1/d)) (a*(1/c)) (b*(1/d)) (b*(1/c)) := by
    rw [min4_arith]
    apply le_antisymm
    · unfold Arith.min4
      have c1 := (hs a d (le_refl a) hab hcd (le_refl d)).1
      have c2 := (hs a c (le_refl a) hab (le_refl c) hcd).1
      have c3 := (hs b d hab (le_refl b) hcd (le_refl d)).1
      have c4 := (hs b c hab (le_refl b) (le_refl c) hcd).1
      rw [div_eq_mul_one_div] at c1 c2 c3 c4
      exact le_min (le_min c1 c2) (le_min c3 c4)
    · rw [← hlo, div_eq_mul_one_div x y]
      exact (Arith.mul_hull a b (1/d) (1/c) x (1/y) hx1 hx2 (hy0 y hy1 hy2).1 (hy0 y hy1 hy2).2).1
  have eh : h = max4 (a*(1/d)) (a*(1/c)) (b*(1/d)) (b*(1/c)) := by
    rw [max4_arith]
    apply le_antisymm
    · rw [← hhi, div_eq_mul_one_div x' y']
      exact (Arith.mul_hull a b (1/d) (1/c) x' (1/y') hx1' hx2' (hy0 y' hy1' hy2').1 (hy0 y' hy1' hy2').2).2
    · unfold Arith.max4
      have c1 := (hs a d (le_refl a) hab hcd (le_refl d)).2
      have c2 := (hs a c (le_refl a) hab (le_refl c) hcd).2
      have c3 := (hs b d hab (le_refl b) hcd (le_refl d)).2
      have c4 := (hs b c hab (le_refl b) (le_refl c) hcd).2
      rw [div_eq_mul_one_div] at c1 c2 c3 c4
      exact max_le (max_le c1 c2) (max_le c3 c4)
  have hlh : l ≤ h := le_trans (hs a c (le_refl a) hab (le_refl c) hcd).1 (hs a c (le_refl a) hab (le_refl c) hcd).2
  have hstr : ¬ (c ≤ 0 ∧ 0 ≤ d) := by
    rintro ⟨h1, h2⟩; rcases h0 with h | h <;> linarith
  rw [← el, ← eh]
  simp [Arith.binop, Arith.opdIV, Arith.forward, Arith.IV.ofI, Arith.divide, Arith.straddles, hstr, Arith.IV.scalar,
    Arith.bshape, Arith.finishTable, htab, Arith.unopt, Arith.mkIV, hlh, bind, Except.bind, pure, Except.pure]


/-! ## ★ embedded intervals -/

/-- **Interval operands under any dependency give the interval-arithmetic result as a constant
p-box**: whenever the C01 model returns `[lo,hi]` for `[a,b] op [c,d]`, the p-box operation on the
embedded operands returns the embedding of `[lo,hi]` — all four operations, all four dependencies,
every sign. -/
theorem embed_op (n : Nat) (hn : 0 < n) (dep : Dep) (hd : dep ≠ .unknown) (o : Op)
    (a b c d lo hi : Rat) (hab : a ≤ b) (hcd : c ≤ d)
    (h : Arith.binop (toArith o) (.I a b) (.I c d) = .ok (.I lo hi)) :
    binop n o dep (ofIvl n a b) (ofIvl n c d) = .ok (ofIvl n lo hi) := by
  cases o with
  | add =>
    rw [toArith, arith_add a b c d hab hcd] at h
    injection h with h; injection h with h1 h2; subst h1; subst h2
    exact add_ofIvl n dep hd a b c d hn hab hcd
  | sub =>
    rw [toArith, arith_sub a b c d hab hcd] at h
    injection h with h; injection h with h1 h2; subst h1; subst h2
    exact sub_ofIvl n dep hd a b c d hn hab hcd
  | mul =>
    rw [toArith, arith_mul a b c d hab hcd] at h
    injection h with h; injection h with h1 h2; subst h1; subst h2
    exact mul_ofIvl n dep hd a b c d hn hab hcd
  | div =>
    by_cases hz : c ≤ 0 ∧ 0 ≤ d
    · rw [toArith, arith_div_zero a b c d hz] at h; cases h
    · have h0 : 0 < c ∨ d < 0 := by
        by_cases hc : 0 < c
        · exact Or.inl hc
        · right; by_contra hd'; exact hz ⟨not_lt.mp hc, not_lt.mp hd'⟩
      rw [toArith, arith_div a b c d hab hcd h0] at h
      injection h with h; injection h with h1 h2; subst h1; subst h2
      exact div_ofIvl n dep hd a b c d hn hab hcd h0

theorem embed_op_f (n : Nat) (hn : 0 < n) (o : Op) (a b c d lo hi : Rat) (hab : a ≤ b) (hcd : c ≤ d)
    (h : Arith.binop (toArith o) (.I a b) (.I c d) = .ok (.I lo hi)) :
    binop n o .f (ofIvl n a b) (ofIvl n c d) = .ok (ofIvl n lo hi) :=
  embed_op n hn .f (by decide) o a b c d lo hi hab hcd h

theorem embed_op_p (n : Nat) (hn : 0 < n) (o : Op) (a b c d lo hi : Rat) (hab : a ≤ b) (hcd : c ≤ d)
    (h : Arith.binop (toArith o) (.I a b) (.I c d) = .ok (.I lo hi)) :
    binop n o .p (ofIvl n a b) (ofIvl n c d) = .ok (ofIvl n lo hi) :=
  embed_op n hn .p (by decide) o a b c d lo hi hab hcd h

theorem embed_op_o (n : Nat) (hn : 0 < n) (o : Op) (a b c d lo hi : Rat) (hab : a ≤ b) (hcd : c ≤ d)
    (h : Arith.binop (toArith o) (.I a b) (.I c d) = .ok (.I lo hi)) :
    binop n o .o (ofIvl n a b) (ofIvl n c d) = .ok (ofIvl n lo hi) :=
  embed_op n hn .o (by decide) o a b c d lo hi hab hcd h

theorem embed_op_i (n : Nat) (hn : 0 < n) (o : Op) (a b c d lo hi : Rat) (hab : a ≤ b) (hcd : c ≤ d)
    (h : Arith.binop (toArith o) (.I a b) (.I c d) = .ok (.I lo hi)) :
    binop n o .i (ofIvl n a b) (ofIvl n c d) = .ok (ofIvl n lo hi) :=
  embed_op n hn .i (by decide) o a b c d lo hi hab hcd h

/-- the interval model answers every valid pair (division: divisor without zero), so `embed_op` is not vacuous -/
theorem arith_total (o : Op) (a b c d : Rat) (hab : a ≤ b) (hcd : c ≤ d) (h0 : o = .div → (0 < c ∨ d < 0)) :
    ∃ lo hi, Arith.binop (toArith o) (.I a b) (.I c d) = .ok (.I lo hi) := by
  cases o with
  | add => exact ⟨_, _, arith_add a b c d hab hcd⟩
  | sub => exact ⟨_, _, arith_sub a b c d hab hcd⟩
  | mul => exact ⟨_, _, arith_mul a b c d hab hcd⟩
  | div => exact ⟨_, _, arith_div a b c d hab hcd (h0 rfl)⟩

example : binop 3 .mul .f (ofIvl 3 (-1) 2) (ofIvl 3 (-3) 4) = .ok (ofIvl 3 (-6) 8) := by
  apply embed_op_f 3 (by decide) .mul (-1) 2 (-3) 4 (-6) 8 (by norm_num) (by norm_num)
  rw [toArith, arith_mul _ _ _ _ (by norm_num) (by norm_num)]
  norm_num [min4, max4]

/-- the Python expression `Interval op Interval` and the same expression with both operands converted
to p-boxes first (any ambient dependency): the second is the embedding of the first -/
theorem ivl_expr_embeds (n : Nat) (hn : 0 < n) (dep : Dep) (hd : dep ≠ .unknown) (o : Op)
    (a b c d lo hi : Rat) (hab : a ≤ b) (hcd : c ≤ d)
    (h : evalOp n dep o (.ivl a b) (.ivl c d) = .ok (.ivl lo hi)) :
    spec n dep o (.ivl a b) (.ivl c d) = .ok (ofIvl n lo hi) := by
  have h' : Arith.binop (toArith o) (.I a b) (.I c d) = .ok (.I lo hi) := by
    simp only [evalOp, opdArith, lowOp] at h
    generalize Arith.binop (toArith o) (.I a b) (.I c d) = r at h ⊢
    match r, h with
    | .ok (.I x y), h => simp only [resOfArith] at h; injection h with h; injection h with h1 h2; rw [h1, h2]
    | .ok (.N x), h => simp [resOfArith] at h
  simp only [spec, convert, convertPbox]
  rw [ivlToPbox_eq n a b hn hab, ok_bind, ivlToPbox_eq n c d hn hcd, ok_bind]
  exact embed_op n hn dep hd o a b c d lo hi hab hcd h'

/-! ## ★ point-valued operands -/

theorem min4_self (x : Rat) : min4 x x x x = x := by simp [min4]
theorem max4_self (x : Rat) : max4 x x x x = x := by simp [max4]

/-- **Point-valued operands give the real-number result**: numbers embedded as p-boxes
(`operation.convert`) combined under any dependency give the embedding of the Python result -/
theorem embed_real (n : Nat) (hn : 0 < n) (dep : Dep) (hd : dep ≠ .unknown) (o : Op) (x y z : Rat)
    (h : native o x y = .ok (.num z)) :
    binop n o dep (ofReal n x) (ofReal n y) = .ok (ofReal n z) := by
  unfold ofReal
  cases o with
  | add =>
    simp only [native] at h; injection h with h; injection h with h; subst h
    exact add_ofIvl n dep hd x x y y hn (le_refl x) (le_refl y)
  | sub =>
    simp only [native] at h; injection h with h; injection h with h; subst h
    exact sub_ofIvl n dep hd x x y y hn (le_refl x) (le_refl y)
  | mul =>
    simp only [native] at h; injection h with h; injection h with h; subst h
    have := mul_ofIvl n dep hd x x y y hn (le_refl x) (le_refl y)
    rwa [min4_self, max4_self] at this
  | div =>
    simp only [native] at h
    by_cases hy : y = 0
    · simp [hy] at h
    · simp only [hy, if_false] at h; injection h with h; injection h with h; subst h
      have h0 : 0 < y ∨ y < 0 := by
        rcases lt_trichotomy y 0 with h | h | h
        · exact Or.inr h
        · exact absurd h hy
        · exact Or.inl h
      have := div_ofIvl n dep hd x x y y hn (le_refl x) (le_refl y) h0
      rwa [min4_self, max4_self, ← div_eq_mul_one_div] at this

/-- the Python expression on two numbers and the converted-first expression -/
theorem real_expr_embeds (n : Nat) (hn : 0 < n) (dep : Dep) (hd : dep ≠ .unknown) (o : Op) (x y z : Rat)
    (h : evalOp n dep o (.num x) (.num y) = .ok (.num z)) :
    spec n dep o (.num x) (.num y) = .ok (ofReal n z) := by
  simp only [evalOp, opdArith, lowOp] at h
  simp only [spec, convert]
  rw [ivlToPbox_eq n x x hn (le_refl x), ok_bind, ivlToPbox_eq n y y hn (le_refl y), ok_bind]
  exact embed_real n hn dep hd o x y z h

example : binop 4 .div .i (ofReal 4 3) (ofReal 4 (-2)) = .ok (ofReal 4 (-3/2)) :=
  embed_real 4 (by decide) .i (by decide) .div 3 (-2) (-3/2) (by norm_num [native])

/-- division of a number by zero raises, as in Python -/
theorem real_div_zero (n : Nat) (dep : Dep) (x : Rat) :
    evalOp n dep .div (.num x) (.num 0) = .error .ZeroDivision := by
  simp [evalOp, opdArith, lowOp, native]

/-! ## ★ interval with a precise distribution: shifted / scaled quantiles -/

/-- **Interval + precise distribution** (constant on the left: the converted-first expression), under
Frechet, perfect or opposite dependence: the quantile list shifted by the interval -/
theorem ivl_dist_shift (q : List Rat) (hq : q.Pairwise (· ≤ ·)) (a b : Rat) (hab : a ≤ b) (dep : Dep)
    (hd : dep = .f ∨ dep = .p ∨ dep = .o) :
    add q.length dep (ofIvl q.length a b) (ofDist q) = .ok ⟨q.map (a + ·), q.map (b + ·)⟩ :=
  add_const_left q.length dep hd a b hab (ofDist q) (wf_ofDist q hq)

/-- the same with the distribution on the left (what `Interval + Distribution` executes through the
reflected operator, and `Distribution + Interval` directly) -/
theorem dist_ivl_shift (q : List Rat) (hq : q.Pairwise (· ≤ ·)) (a b : Rat) (hab : a ≤ b) (dep : Dep)
    (hd : dep = .f ∨ dep = .p ∨ dep = .o) :
    add q.length dep (ofDist q) (ofIvl q.length a b) = .ok ⟨q.map (a + ·), q.map (b + ·)⟩ :=
  add_const_right q.length dep hd a b hab (ofDist q) (wf_ofDist q hq)

/-- the Python expressions `Interval + Distribution` and `Distribution + Interval` -/
theorem ivl_plus_dist_expr (q : List Rat) (hq : q.Pairwise (· ≤ ·)) (hn : 0 < q.length) (a b : Rat) (hab : a ≤ b)
    (dep : Dep) (hd : dep = .f ∨ dep = .p ∨ dep = .o) :
    evalOp q.length dep .add (.ivl a b) (.dist q) = .ok (.pbox ⟨q.map (a + ·), q.map (b + ·)⟩) ∧
    evalOp q.length dep .add (.dist q) (.ivl a b) = .ok (.pbox ⟨q.map (a + ·), q.map (b + ·)⟩) := by
  constructor
  · simp only [evalOp, opdArith, convertPbox, ok_bind, reflected, pboxAdd]
    rw [ivlToPbox_eq _ a b hn hab, ok_bind, dist_ivl_shift q hq a b hab dep hd]; rfl
  · simp only [evalOp, opdArith, convertPbox, ok_bind, method, pboxAdd]
    rw [ivlToPbox_eq _ a b hn hab, ok_bind, dist_ivl_shift q hq a b hab dep hd]; rfl

/-- `Distribution - Interval`: shifted by `[-b,-a]` -/
theorem dist_minus_ivl_expr (q : List Rat) (hq : q.Pairwise (· ≤ ·)) (hn : 0 < q.length) (a b : Rat) (hab : a ≤ b)
    (dep : Dep) (hd : dep = .f ∨ dep = .p ∨ dep = .o) :
    evalOp q.length dep .sub (.dist q) (.ivl a b) = .ok (.pbox ⟨q.map (-b + ·), q.map (-a + ·)⟩) := by
  have hd' : swapPO dep = .f ∨ swapPO dep = .p ∨ swapPO dep = .o := by
    rcases hd with h | h | h <;> subst h <;> simp [swapPO]
  simp only [evalOp, opdArith, convertPbox, ok_bind, method, pboxSub, negOpd, pboxAdd]
  rw [ivlToPbox_eq _ (-b) (-a) hn (by linarith), ok_bind, dist_ivl_shift q hq (-b) (-a) (by linarith) _ hd']; rfl

example : add 3 .f (ofIvl 3 1 2) (ofDist [0, 5, 7]) = .ok ⟨[1, 6, 8], [2, 7, 9]⟩ := by
  have := ivl_dist_shift [0, 5, 7] (by decide) 1 2 (by norm_num) .f (Or.inl rfl)
  norm_num at this; exact this

theorem zip4_map (f : Rat → Rat → Rat → Rat → Rat) (g1 g2 g3 g4 : Rat → Rat) : ∀ (q : List Rat),
    zip4 f (q.map g1) (q.map g2) (q.map g3) (q.map g4) = q.map (fun v => f (g1 v) (g2 v) (g3 v) (g4 v))
  | [] => rfl
  | x :: t => by simp [zip4, zip4_map f g1 g2 g3 g4 t]

theorem wf_scale (q : List Rat) (hq : q.Pairwise (· ≤ ·)) (hpos : ∀ v ∈ q, 0 < v) (a b : Rat) (ha : 0 ≤ a) (hab : a ≤ b) :
    WF q.length ⟨q.map (a * ·), q.map (b * ·)⟩ where
  llen := by simp
  rlen := by simp
  lsorted := List.Pairwise.map _ (fun x y hxy => mul_le_mul_of_nonneg_left hxy ha) hq
  rsorted := List.Pairwise.map _ (fun x y hxy => mul_le_mul_of_nonneg_left hxy (le_trans ha hab)) hq
  le := by
    rw [List.forall₂_map_left_iff, List.forall₂_map_right_iff]
    have : ∀ (l : List Rat), (∀ v ∈ l, 0 < v) → List.Forall₂ (fun c d => a * c ≤ b * d) l l := by
      intro l
      induction l with
      | nil => intro _; exact List.Forall₂.nil
      | cons x t ih =>
        intro h
        exact List.Forall₂.cons (mul_le_mul_of_nonneg_right hab (le_of_lt (h x (by simp))))
          (ih (fun v hv => h v (by simp [hv])))
    exact this q hpos

/-- **Interval × precise positive distribution** (`0 ≤ a`), Frechet or perfect dependence: the quantile
list scaled by the interval -/
theorem ivl_dist_scale (q : List Rat) (hq : q.Pairwise (· ≤ ·)) (hpos : ∀ v ∈ q, 0 < v) (hne : q ≠ [])
    (a b : Rat) (ha : 0 ≤ a) (hab : a ≤ b) (hb : 0 < b) (dep : Dep) (hd : dep = .f ∨ dep = .p) :
    mul q.length dep (ofIvl q.length a b) (ofDist q) = .ok ⟨q.map (a * ·), q.map (b * ·)⟩ := by
  have hn : 0 < q.length := List.length_pos_of_ne_nil hne
  have hw := wf_scale q hq hpos a b ha hab
  rcases hd with h | h <;> subst h
  · have s1 : straddlesZero (ofIvl q.length a b) = false := by
      rw [straddlesZero_ofIvl _ _ _ hn]; simp [not_lt.mpr ha]
    have s2 : straddlesZero (ofDist q) = false := by
      have := (minL_spec 0 q hne).1
      simp [straddlesZero, ofDist, not_lt.mpr (le_of_lt (hpos _ this))]
    have s3 : ¬ hi (ofDist q) ≤ 0 := by
      have : q.getLastD 0 ∈ q := by
        rw [List.getLastD_eq_getLast?, List.getLast?_eq_some_getLast hne]; exact List.getLast_mem hne
      exact not_le.mpr (hpos _ this)
    simp only [mul, frechetMul, s1, s2, Bool.or_self, Bool.false_eq_true, if_false, frechetMulNoStraddle,
      hi_ofIvl _ _ _ hn, not_le.mpr hb, s3, decide_false, classicFrechet, frechetOp]
    simp only [ofIvl, ofDist]
    rw [frechetLeftRaw_constL (· * ·) a q hq (fun x y h => mul_le_mul_of_nonneg_left h ha),
      frechetRightRaw_constL (· * ·) b q hq (fun x y h => mul_le_mul_of_nonneg_left h (le_trans ha hab)),
      sortR_of_sorted _ hw.lsorted, sortR_of_sorted _ hw.rsorted]
    exact mk_wf _ false _ _ hw
  · simp only [mul, perfectOp, cornerPair, ofIvl, ofDist, zipWith_replicate_left]
    rw [zip4_map, zip4_map]
    have e1 : q.map (fun v => min4 (a * v) (a * v) (b * v) (b * v)) = q.map (a * ·) := by
      apply List.map_congr_left
      intro v hv
      have : a * v ≤ b * v := mul_le_mul_of_nonneg_right hab (le_of_lt (hpos v hv))
      simp [min4, this]
    have e2 : q.map (fun v => max4 (a * v) (a * v) (b * v) (b * v)) = q.map (b * ·) := by
      apply List.map_congr_left
      intro v hv
      have : a * v ≤ b * v := mul_le_mul_of_nonneg_right hab (le_of_lt (hpos v hv))
      simp [max4, this]
    simp only [e1, e2]
    rw [sortR_of_sorted _ hw.lsorted, sortR_of_sorted _ hw.rsorted]
    exact mk_wf _ false _ _ hw

example : mul 3 .f (ofIvl 3 1 2) (ofDist [1, 5, 7]) = .ok ⟨[1, 5, 7], [2, 10, 14]⟩ := by
  have := ivl_dist_scale [1, 5, 7] (by decide) (by decide) (by decide) 1 2 (by norm_num) (by norm_num) (by norm_num) .f (Or.inl rfl)
  norm_num at this; exact this


/-! ## ★ the dispatch graph and "convert every operand first" -/

/-- the dispatch of `l op r` by operand kinds is the finite table `route` -/
theorem evalOp_route (n : Nat) (d : Dep) (o : Op) (l r : Opd) :
    evalOp n d o l r =
      match route l.kind o r.kind with
      | .native => lowOp o l r
      | .interval => lowOp o l r
      | .pboxRefl => (convertPbox n r >>= fun p => reflected n o d l p >>= fun z => pure (.pbox z))
      | .pboxFwd => (convertPbox n l >>= fun p => method n o d p r >>= fun z => pure (.pbox z)) := by
  cases l <;> cases r <;> rfl

/-- every pair with at least one p-box-like operand is routed through a p-box method; only
number / interval pairs stay in the simpler calculus -/
theorem route_total (l r : Kind) (o : Op) :
    (route l o r = .pboxFwd ↔ isLow l = false) ∧
    (route l o r = .pboxRefl ↔ (isLow l = true ∧ isLow r = false)) ∧
    (route l o r = .native ↔ (l = .num ∧ r = .num)) := by
  cases l <;> cases r <;> cases o <;> decide

/-- operands the library can build: ordered interval, well-formed bounds, sorted quantile list -/
def ValidOpd (n : Nat) : Opd → Prop
  | .num _ => True
  | .ivl a b => a ≤ b
  | .pbox p => WF n p
  | .dist q => q.length = n ∧ q.Pairwise (· ≤ ·)
  | .dss p => WF n p

def isHigh : Opd → Bool
  | .pbox _ => true | .dist _ => true | .dss _ => true | _ => false

theorem convert_high (n : Nat) (l : Opd) (hl : isHigh l = true) :
    ∃ P, convertPbox n l = .ok P ∧ convert n l = .ok P := by
  cases l with
  | num c => simp [isHigh] at hl
  | ivl a b => simp [isHigh] at hl
  | pbox p => exact ⟨p, rfl, rfl⟩
  | dist q => exact ⟨ofDist q, rfl, rfl⟩
  | dss p => exact ⟨p, rfl, rfl⟩

theorem convert_high_wf (n : Nat) (l : Opd) (hl : isHigh l = true) (hv : ValidOpd n l) :
    ∃ P, convertPbox n l = .ok P ∧ convert n l = .ok P ∧ WF n P := by
  cases l with
  | num c => simp [isHigh] at hl
  | ivl a b => simp [isHigh] at hl
  | pbox p => exact ⟨p, rfl, rfl, hv⟩
  | dist q => exact ⟨ofDist q, rfl, rfl, by obtain ⟨h1, h2⟩ := hv; subst h1; exact wf_ofDist q h2⟩
  | dss p => exact ⟨p, rfl, rfl, hv⟩

/-- `P.<op>(Y)` for a p-box-like `Y` is the p-box operation on the converted `Y` -/
theorem method_high (n : Nat) (d : Dep) (o : Op) (P : PB) (r : Opd) (hr : isHigh r = true) (Y z : PB)
    (hY : convertPbox n r = .ok Y) (h : binop n o d P Y = .ok z) : method n o d P r = .ok z := by
  have hnn : ∀ c, r ≠ .num c := by intro c e; subst e; simp [isHigh] at hr
  have hneg : negOpd n r = (neg n Y >>= fun t => pure (.pbox t)) := by
    cases r with
    | num c => simp [isHigh] at hr
    | ivl a b => simp [isHigh] at hr
    | pbox p => simp only [convertPbox] at hY; injection hY with hY; subst hY; rfl
    | dist q => simp only [convertPbox] at hY; injection hY with hY; subst hY; rfl
    | dss p => simp only [convertPbox] at hY; injection hY with hY; subst hY; rfl
  have hone : oneOver n r = (oneOverPB n Y >>= fun t => pure (.pbox t)) := by
    cases r with
    | num c => simp [isHigh] at hr
    | ivl a b => simp [isHigh] at hr
    | pbox p => simp only [convertPbox] at hY; injection hY with hY; subst hY; rfl
    | dist q => simp only [convertPbox] at hY; injection hY with hY; subst hY; rfl
    | dss p => simp only [convertPbox] at hY; injection hY with hY; subst hY; rfl
  have hadd : ∀ dd, pboxAdd n dd P r = add n dd P Y := by
    intro dd
    cases r with
    | num c => simp [isHigh] at hr
    | ivl a b => simp [isHigh] at hr
    | pbox p => simp only [pboxAdd, hY, ok_bind]
    | dist q => simp only [pboxAdd, hY, ok_bind]
    | dss p => simp only [pboxAdd, hY, ok_bind]
  have hmul : ∀ dd, pboxMul n dd P r = mul n dd P Y := by
    intro dd
    cases r with
    | num c => simp [isHigh] at hr
    | ivl a b => simp [isHigh] at hr
    | pbox p => simp only [pboxMul, hY, ok_bind]
    | dist q => simp only [pboxMul, hY, ok_bind]
    | dss p => simp only [pboxMul, hY, ok_bind]
  cases o with
  | add => simp only [method, hadd]; exact h
  | mul => simp only [method, hmul]; exact h
  | sub =>
    simp only [binop, PBox.sub] at h
    simp only [method, pboxSub, hneg]
    cases hn : neg n Y with
    | error e => rw [hn] at h; cases h
    | ok ny =>
      rw [hn, ok_bind] at h
      simp only [ok_bind, pure, Except.pure, pboxAdd, convertPbox]
      exact h
  | div =>
    simp only [binop, PBox.div] at h
    simp only [method, pboxDiv, hone, oneOverPB]
    cases hr12 : (recip n Y >>= fun r => numberOp n (· * ·) r 1) with
    | error e => rw [hr12] at h; simp at h
    | ok r2 =>
      rw [hr12] at h
      simp only [hr12, tryType, ok_bind, pure, Except.pure, pboxMul, convertPbox]
      exact h

/-- `P.<op>(Interval)`: the interval is negated / inverted by INTERVAL arithmetic before it is
converted; the result is the p-box operation on the converted interval -/
theorem method_ivl (n : Nat) (hn : 0 < n) (d : Dep) (o : Op) (P : PB) (a b : Rat) (hab : a ≤ b)
    (h0 : o = .div → (0 < a ∨ b < 0)) :
    method n o d P (.ivl a b) = binop n o d P (ofIvl n a b) := by
  cases o with
  | add => simp only [method, pboxAdd, convertPbox, ivlToPbox_eq n a b hn hab, ok_bind, binop]
  | mul => simp only [method, pboxMul, convertPbox, ivlToPbox_eq n a b hn hab, ok_bind, binop]
  | sub =>
    simp only [method, pboxSub, negOpd, ok_bind, pboxAdd, convertPbox, binop, PBox.sub,
      ivlToPbox_eq n (-b) (-a) hn (by linarith), neg_ofIvl n a b hn hab]
  | div =>
    have h0' := h0 rfl
    have hz : ¬ (a ≤ 0 ∧ b ≥ 0) := by rintro ⟨h1, h2⟩; rcases h0' with h | h <;> linarith
    have hle := one_div_anti a b hab h0'
    simp only [method, pboxDiv, oneOver, hz, if_false, ok_bind, pboxMul, convertPbox, binop, PBox.div,
      ivlToPbox_eq n (1/b) (1/a) hn hle, recip_ofIvl n a b hn hab h0', numberOp_ofIvl n _ _ _ _ hn, mul_one,
      min_eq_left hle, max_eq_right hle]

/-- `P / Interval` with zero in the interval raises `ZeroDivisionError` (interval arithmetic rejects it
before any p-box is built) -/
theorem method_div_zero (n : Nat) (d : Dep) (P : PB) (a b : Rat) (hz : a ≤ 0 ∧ 0 ≤ b) :
    method n .div d P (.ivl a b) = .error .ZeroDivision := by
  simp [method, pboxDiv, oneOver, hz.1, hz.2]

/-- the explicit-dependency method with an `Interval` argument, `I.to_pbox().<op>(J, dependency=d)`:
the embedding of the C01 result `I op J`, for every operation and dependency -/
theorem ivl_method_embeds (n : Nat) (hn : 0 < n) (dep : Dep) (hd : dep ≠ .unknown) (o : Op)
    (a b c d lo hi : Rat) (hab : a ≤ b) (hcd : c ≤ d)
    (h : Arith.binop (toArith o) (.I a b) (.I c d) = .ok (.I lo hi)) :
    method n o dep (ofIvl n a b) (.ivl c d) = .ok (ofIvl n lo hi) := by
  have h0 : o = .div → (0 < c ∨ d < 0) := by
    intro ho; subst ho
    by_contra hz
    have hz' : c ≤ 0 ∧ 0 ≤ d := by
      constructor
      · by_contra h1; exact hz (Or.inl (not_le.mp h1))
      · by_contra h1; exact hz (Or.inr (not_le.mp h1))
    rw [toArith, arith_div_zero a b c d hz'] at h; cases h
  rw [method_ivl n hn dep o (ofIvl n a b) c d hcd h0]
  exact embed_op n hn dep hd o a b c d lo hi hab hcd h


/-- **Mixed expression = converted-first expression, left operand p-box-like** (`Pbox op Interval`,
`Pbox op Distribution`, `DSS op Pbox`, `Distribution op DSS`, …, all four operations, any dependency
code): whenever the converted-first expression returns `z`, so does the mixed expression. -/
theorem fwd_agrees (n : Nat) (hn : 0 < n) (d : Dep) (o : Op) (l r : Opd) (hl : isHigh l = true)
    (hr : match r with
      | .num _ => False
      | .ivl a b => a ≤ b ∧ (o = .div → (0 < a ∨ b < 0))
      | _ => True)
    (z : PB) (h : spec n d o l r = .ok z) : evalOp n d o l r = .ok (.pbox z) := by
  obtain ⟨P, hP1, hP2⟩ := convert_high n l hl
  have hev : evalOp n d o l r = (method n o d P r >>= fun t => pure (.pbox t)) := by
    cases l with
    | num c => simp [isHigh] at hl
    | ivl a b => simp [isHigh] at hl
    | pbox p => simp only [convertPbox] at hP1; injection hP1 with e; subst e; cases r <;> rfl
    | dist q => simp only [convertPbox] at hP1; injection hP1 with e; subst e; cases r <;> rfl
    | dss p => simp only [convertPbox] at hP1; injection hP1 with e; subst e; cases r <;> rfl
  rw [hev]
  simp only [spec, hP2, ok_bind] at h
  cases r with
  | num c => exact absurd hr id
  | ivl a b =>
    simp only [convert, convertPbox, ivlToPbox_eq n a b hn hr.1, ok_bind] at h
    rw [method_ivl n hn d o P a b hr.1 hr.2, h]; rfl
  | pbox p =>
    simp only [convert, convertPbox, ok_bind] at h
    rw [method_high n d o P (.pbox p) rfl p z rfl h]; rfl
  | dist q =>
    simp only [convert, convertPbox, ok_bind] at h
    rw [method_high n d o P (.dist q) rfl (ofDist q) z rfl h]; rfl
  | dss p =>
    simp only [convert, convertPbox, ok_bind] at h
    rw [method_high n d o P (.dss p) rfl p z rfl h]; rfl

/-- **`Interval + X`** (reflected operator `X.__radd__`) for a p-box-like `X`, Frechet / perfect /
opposite: equal to the converted-first sum, and both are `X` shifted by the interval -/
theorem refl_add_agrees (n : Nat) (hn : 0 < n) (d : Dep) (hd : d = .f ∨ d = .p ∨ d = .o) (a b : Rat) (hab : a ≤ b)
    (r : Opd) (hr : isHigh r = true) (hv : ValidOpd n r) :
    ∃ Q, convertPbox n r = .ok Q ∧
      evalOp n d .add (.ivl a b) r = .ok (.pbox ⟨Q.left.map (a + ·), Q.right.map (b + ·)⟩) ∧
      spec n d .add (.ivl a b) r = .ok ⟨Q.left.map (a + ·), Q.right.map (b + ·)⟩ := by
  obtain ⟨Q, hQ1, hQ2, hw⟩ := convert_high_wf n r hr hv
  refine ⟨Q, hQ1, ?_, ?_⟩
  · have : evalOp n d .add (.ivl a b) r = (convertPbox n r >>= fun p => reflected n .add d (.ivl a b) p >>= fun t => pure (.pbox t)) := by
      cases r <;> first | rfl | (simp [isHigh] at hr)
    rw [this, hQ1, ok_bind]
    simp only [reflected, pboxAdd, convertPbox, ivlToPbox_eq n a b hn hab, ok_bind, add_const_right n d hd a b hab Q hw]
    rfl
  · have e1 : convert n (.ivl a b) = .ok (ofIvl n a b) := ivlToPbox_eq n a b hn hab
    simp only [spec, e1, hQ2, ok_bind, binop]
    exact add_const_left n d hd a b hab Q hw

/-- **`Interval - X`** (reflected operator: `(-X).add(Interval)` with the dependency NOT exchanged)
against the converted-first difference (`Interval.add(-X)` with `p ↔ o` exchanged): equal, because a
constant operand makes perfect and opposite pairing coincide -/
theorem refl_sub_agrees (n : Nat) (hn : 0 < n) (d : Dep) (hd : d = .f ∨ d = .p ∨ d = .o) (a b : Rat) (hab : a ≤ b)
    (r : Opd) (hr : isHigh r = true) (hv : ValidOpd n r) :
    ∃ z, evalOp n d .sub (.ivl a b) r = .ok (.pbox z) ∧ spec n d .sub (.ivl a b) r = .ok z := by
  obtain ⟨Q, hQ1, hQ2, hw⟩ := convert_high_wf n r hr hv
  obtain ⟨hneg, hwn⟩ := neg_wf n Q hw
  have hd' : swapPO d = .f ∨ swapPO d = .p ∨ swapPO d = .o := by
    rcases hd with h | h | h <;> subst h <;> simp [swapPO]
  refine ⟨⟨((Q.right.map (- ·)).reverse).map (a + ·), ((Q.left.map (- ·)).reverse).map (b + ·)⟩, ?_, ?_⟩
  · have : evalOp n d .sub (.ivl a b) r = (convertPbox n r >>= fun p => reflected n .sub d (.ivl a b) p >>= fun t => pure (.pbox t)) := by
      cases r <;> first | rfl | (simp [isHigh] at hr)
    rw [this, hQ1, ok_bind]
    simp only [reflected, hneg, ok_bind, pboxAdd, convertPbox, ivlToPbox_eq n a b hn hab,
      add_const_right n d hd a b hab _ hwn]
    rfl
  · have e1 : convert n (.ivl a b) = .ok (ofIvl n a b) := ivlToPbox_eq n a b hn hab
    simp only [spec, e1, hQ2, ok_bind, binop, PBox.sub, hneg]
    exact add_const_left n (swapPO d) hd' a b hab _ hwn

/-! ## ○ a Python number with a p-box-like operand: sum and difference -/

/-- `pbox_number_ops(P, c, add)` on well-formed bounds: every step shifted by `c` -/
theorem numberOp_add_wf (n : Nat) (P : PB) (hP : WF n P) (c : Rat) :
    numberOp n (· + ·) P c = .ok ⟨P.left.map (c + ·), P.right.map (c + ·)⟩ := by
  have hw := wf_shift n P hP c c (le_refl c)
  unfold numberOp
  rw [map_add_comm, map_add_comm, sortR_of_sorted _ hw.lsorted, sortR_of_sorted _ hw.rsorted]
  exact mk_wf n true _ _ hw

/-- **number ± X, X ± number** for a p-box-like `X` under Frechet / perfect / opposite: the number route
(`pbox_number_ops`, which ignores the dependency) gives the p-box of the converted-first expression -/
theorem num_add_sub_agrees (n : Nat) (hn : 0 < n) (d : Dep) (hd : d = .f ∨ d = .p ∨ d = .o) (c : Rat)
    (r : Opd) (hr : isHigh r = true) (hv : ValidOpd n r) :
    (∃ z, evalOp n d .add (.num c) r = .ok (.pbox z) ∧ spec n d .add (.num c) r = .ok z) ∧
    (∃ z, evalOp n d .add r (.num c) = .ok (.pbox z) ∧ spec n d .add r (.num c) = .ok z) ∧
    (∃ z, evalOp n d .sub (.num c) r = .ok (.pbox z) ∧ spec n d .sub (.num c) r = .ok z) ∧
    (∃ z, evalOp n d .sub r (.num c) = .ok (.pbox z) ∧ spec n d .sub r (.num c) = .ok z) := by
  obtain ⟨Q, hQ1, hQ2, hw⟩ := convert_high_wf n r hr hv
  obtain ⟨hneg, hwn⟩ := neg_wf n Q hw
  have hd' : swapPO d = .f ∨ swapPO d = .p ∨ swapPO d = .o := by
    rcases hd with h | h | h <;> subst h <;> simp [swapPO]
  have e1 : convert n (.num c) = .ok (ofIvl n c c) := ivlToPbox_eq n c c hn (le_refl c)
  have refl_ : ∀ o, evalOp n d o (.num c) r = (convertPbox n r >>= fun p => reflected n o d (.num c) p >>= fun t => pure (.pbox t)) := by
    intro o; cases r <;> first | rfl | (simp [isHigh] at hr)
  have fwd_ : ∀ o, evalOp n d o r (.num c) = (convertPbox n r >>= fun p => method n o d p (.num c) >>= fun t => pure (.pbox t)) := by
    intro o; cases r <;> first | rfl | (simp [isHigh] at hr)
  refine ⟨⟨⟨Q.left.map (c + ·), Q.right.map (c + ·)⟩, ?_, ?_⟩, ⟨⟨Q.left.map (c + ·), Q.right.map (c + ·)⟩, ?_, ?_⟩,
    ⟨⟨((Q.right.map (- ·)).reverse).map (c + ·), ((Q.left.map (- ·)).reverse).map (c + ·)⟩, ?_, ?_⟩,
    ⟨⟨Q.left.map (-c + ·), Q.right.map (-c + ·)⟩, ?_, ?_⟩⟩
  · rw [refl_, hQ1, ok_bind]; simp only [reflected, pboxAdd, numberOp_add_wf n Q hw c, ok_bind]; rfl
  · simp only [spec, e1, hQ2, ok_bind, binop]; exact add_const_left n d hd c c (le_refl c) Q hw
  · rw [fwd_, hQ1, ok_bind]; simp only [method, pboxAdd, numberOp_add_wf n Q hw c, ok_bind]; rfl
  · simp only [spec, e1, hQ2, ok_bind, binop]; exact add_const_right n d hd c c (le_refl c) Q hw
  · rw [refl_, hQ1, ok_bind]; simp only [reflected, hneg, ok_bind, pboxAdd, numberOp_add_wf n _ hwn c]; rfl
  · simp only [spec, e1, hQ2, ok_bind, binop, PBox.sub, hneg]; exact add_const_left n (swapPO d) hd' c c (le_refl c) _ hwn
  · rw [fwd_, hQ1, ok_bind]; simp only [method, pboxSub, negOpd, ok_bind, pboxAdd, numberOp_add_wf n Q hw (-c)]; rfl
  · simp only [spec, e1, hQ2, ok_bind, binop, PBox.sub, neg_ofIvl n c c hn (le_refl c)]
    exact add_const_right n (swapPO d) hd' (-c) (-c) (le_refl _) Q hw


/-! ## ○ interval + distribution under independence as well -/

/-- `Distribution + Interval` / `Interval + Distribution` as executed (the distribution's p-box is the
left operand of `add`), **every** dependency code: the quantile list shifted by the interval -/
theorem ivl_plus_dist_expr_any (q : List Rat) (hq : q.Pairwise (· ≤ ·)) (hn : 0 < q.length) (a b : Rat) (hab : a ≤ b)
    (dep : Dep) (hd : dep ≠ .unknown) :
    evalOp q.length dep .add (.ivl a b) (.dist q) = .ok (.pbox ⟨q.map (a + ·), q.map (b + ·)⟩) ∧
    evalOp q.length dep .add (.dist q) (.ivl a b) = .ok (.pbox ⟨q.map (a + ·), q.map (b + ·)⟩) := by
  have key : add q.length dep (ofDist q) (ofIvl q.length a b) = .ok ⟨q.map (a + ·), q.map (b + ·)⟩ := by
    cases dep with
    | f => exact dist_ivl_shift q hq a b hab .f (Or.inl rfl)
    | p => exact dist_ivl_shift q hq a b hab .p (Or.inr (Or.inl rfl))
    | o => exact dist_ivl_shift q hq a b hab .o (Or.inr (Or.inr rfl))
    | i => exact add_const_right_i (ofDist q) hn (wf_ofDist q hq) a b hab
    | unknown => exact absurd rfl hd
  constructor
  · simp only [evalOp, opdArith, convertPbox, ok_bind, reflected, pboxAdd]
    rw [ivlToPbox_eq _ a b hn hab, ok_bind, key]; rfl
  · simp only [evalOp, opdArith, convertPbox, ok_bind, method, pboxAdd]
    rw [ivlToPbox_eq _ a b hn hab, ok_bind, key]; rfl

example : (evalOp 3 .i .add (.ivl 1 2) (.dist [0, 5, 7])) = .ok (.pbox ⟨[1, 6, 8], [2, 7, 9]⟩) := by
  have := (ivl_plus_dist_expr_any [0, 5, 7] (by decide) (by decide) 1 2 (by norm_num) .i (by decide)).1
  norm_num at this; exact this

/-! ## the full statement and what is proved of it -/

/-- divisor operands that the property covers: no zero inside -/
def DivisorOk (o : Op) : Opd → Prop
  | .num c => o = .div → c ≠ 0
  | .ivl a b => o = .div → (0 < a ∨ b < 0)
  | .pbox p => o = .div → ((∀ v ∈ p.left, 0 < v) ∨ (∀ v ∈ p.right, v < 0))
  | .dist q => o = .div → ((∀ v ∈ q, 0 < v) ∨ (∀ v ∈ q, v < 0))
  | .dss p => o = .div → ((∀ v ∈ p.left, 0 < v) ∨ (∀ v ∈ p.right, v < 0))

/-- **C07, dispatch part, full strength**: for every pair of valid operands of which at least one is
p-box-like, every operation and dependency, the mixed expression returns exactly the p-box of the
expression with every operand converted first. -/
def C07RouteStatement : Prop :=
  ∀ (n : Nat) (_ : 0 < n) (d : Dep) (_ : d ≠ .unknown) (o : Op) (l r : Opd),
    ValidOpd n l → ValidOpd n r → (isHigh l = true ∨ isHigh r = true) → DivisorOk o r →
    ∃ z, spec n d o l r = .ok z ∧ evalOp n d o l r = .ok (.pbox z)

/-- what is proved of `C07RouteStatement`: (1) left operand p-box-like and right operand an interval or
p-box-like — all operations, all dependencies (conditional on the converted-first expression
answering); (2) `Interval + X`, `Interval - X` for p-box-like `X` under f / p / o; (3) `c + X`, `X + c`,
`c - X`, `X - c` for a Python number `c` under f / p / o.
Missing: `Interval * X`, `Interval / X`, products / quotients with a number, dependency `i` in (2), (3),
and totality (`spec` answers on all valid operands) in (1). -/
theorem route_agrees_partial :
    (∀ (n : Nat) (_ : 0 < n) (d : Dep) (o : Op) (l r : Opd), isHigh l = true →
      (match r with
        | .num _ => False
        | .ivl a b => a ≤ b ∧ (o = .div → (0 < a ∨ b < 0))
        | _ => True) →
      ∀ z, spec n d o l r = .ok z → evalOp n d o l r = .ok (.pbox z)) ∧
    (∀ (n : Nat) (_ : 0 < n) (d : Dep) (_ : d = .f ∨ d = .p ∨ d = .o) (o : Op) (_ : o = .add ∨ o = .sub)
      (a b : Rat) (_ : a ≤ b) (r : Opd), isHigh r = true → ValidOpd n r →
      ∃ z, evalOp n d o (.ivl a b) r = .ok (.pbox z) ∧ spec n d o (.ivl a b) r = .ok z) ∧
    (∀ (n : Nat) (_ : 0 < n) (d : Dep) (_ : d = .f ∨ d = .p ∨ d = .o) (o : Op) (_ : o = .add ∨ o = .sub)
      (c : Rat) (r : Opd), isHigh r = true → ValidOpd n r →
      (∃ z, evalOp n d o (.num c) r = .ok (.pbox z) ∧ spec n d o (.num c) r = .ok z) ∧
      (∃ z, evalOp n d o r (.num c) = .ok (.pbox z) ∧ spec n d o r (.num c) = .ok z)) := by
  refine ⟨fun n hn d o l r hl hr z h => fwd_agrees n hn d o l r hl hr z h, ?_, ?_⟩
  · intro n hn d hd o ho a b hab r hr hv
    rcases ho with h | h <;> subst h
    · obtain ⟨Q, _, h1, h2⟩ := refl_add_agrees n hn d hd a b hab r hr hv
      exact ⟨_, h1, h2⟩
    · exact refl_sub_agrees n hn d hd a b hab r hr hv
  · intro n hn d hd o ho c r hr hv
    obtain ⟨h1, h2, h3, h4⟩ := num_add_sub_agrees n hn d hd c r hr hv
    rcases ho with h | h <;> subst h
    · exact ⟨h1, h2⟩
    · exact ⟨h3, h4⟩

/-- non-vacuity of `fwd_agrees`: the converted-first expression answers on a concrete mixed pair -/
example : spec 2 .o .add (.dist [0, 5]) (.ivl 1 2) = .ok ⟨[1, 6], [2, 7]⟩ := by
  have e := dist_ivl_shift [0, 5] (by decide) 1 2 (by norm_num) .o (Or.inr (Or.inr rfl))
  have e1 : convert 2 (.ivl 1 2) = .ok (ofIvl 2 1 2) := ivlToPbox_eq 2 1 2 (by decide) (by norm_num)
  simp only [spec, e1, ok_bind, binop, convert, convertPbox]
  norm_num at e; exact e

example : ∃ z, evalOp 2 .f .sub (.num 3) (.pbox ⟨[0, 1], [1, 4]⟩) = .ok (.pbox z) ∧
    spec 2 .f .sub (.num 3) (.pbox ⟨[0, 1], [1, 4]⟩) = .ok z :=
  (num_add_sub_agrees 2 (by decide) .f (Or.inl rfl) 3 (.pbox ⟨[0, 1], [1, 4]⟩) rfl
    ⟨rfl, rfl, by decide, by decide, by repeat constructor⟩).2.2.1

/-- non-vacuity: a concrete mixed expression meets the hypotheses -/
example : ∃ z, evalOp 2 .p .sub (.ivl 1 2) (.dist [0, 5]) = .ok (.pbox z) ∧
    spec 2 .p .sub (.ivl 1 2) (.dist [0, 5]) = .ok z :=
  refl_sub_agrees 2 (by decide) .p (Or.inr (Or.inl rfl)) 1 2 (by norm_num) (.dist [0, 5]) rfl ⟨rfl, by decide⟩

example : ValidOpd 2 (.dist [0, 5]) := ⟨rfl, by decide⟩


end Pun.Hier
