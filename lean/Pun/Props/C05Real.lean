import Pun.Props.C05
import Mathlib.Analysis.SpecialFunctions.Trigonometric.Basic
/-!
# C05 — `real_instance`: the hypotheses of the trigonometric soundness theorems hold for
Mathlib's `Real.sin`, `Real.cos`, `Real.tan` with the true periods `2π`, `π`

The case analyses of `Pun.Model.Elem` (`sinShape cosShape tanInf bounds`) are restated over an
arbitrary linear ordered field `K` (`sinShapeK …`, same text), proved **equal to the model's
functions at `K = ℚ`** (`*_rat`, by `rfl`), and the soundness theorems are re-proved over `K`
(same proofs).  Instantiating `K = ℝ`, `s = Real.sin / Real.cos / Real.tan`, `T = 2π / π` then
gives enclosure theorems for the real functions with no hypothesis left (`real_sin_encloses`,
`real_cos_encloses`, `real_tan_encloses`), which is the non-vacuity witness of the hypotheses of
`sin_sound`, `cos_sound`, `tan_sound`: they are exactly the facts discharged here from Mathlib.
The ℚ theorems of `Props/C05.lean` are recovered from the generic ones (`cos_sound_from_generic` …).
-/
set_option linter.unusedSimpArgs false
set_option linter.unusedVariables false
set_option linter.unusedSectionVars false
namespace Pun.Elem

section generic
variable {K : Type*} [Field K] [LinearOrder K] [IsStrictOrderedRing K]

def boundsK (sl sh : K) : Shape → K × K
  | .full => (-1, 1)
  | .lh => (sl, sh)
  | .hl => (sh, sl)
  | .minTo1 => (min sl sh, 1)
  | .m1ToMax => (-1, max sl sh)

def sinShapeK (w yl yh T : K) : Option Shape :=
  let Q := T / 4
  let d1 := fun x : K => 0 ≤ x ∧ x ≤ Q
  let d2 := fun x : K => Q ≤ x ∧ x ≤ 3 * Q
  let d3 := fun x : K => 3 * Q ≤ x ∧ x ≤ T
  if T ≤ w then some .full
  else if (0 ≤ yl ∧ yh ≤ Q) ∧ yl ≤ yh then some .lh
  else if (Q ≤ yl ∧ yh ≤ 3 * Q) ∧ yl ≤ yh then some .hl
  else if (3 * Q ≤ yl ∧ yh ≤ T) ∧ yl ≤ yh then some .lh
  else if (d1 yl ∧ d1 yh ∧ yh < yl) ∨ (d1 yl ∧ d3 yh) ∨ (d2 yl ∧ d2 yh ∧ yh < yl) ∨ (d3 yl ∧ d3 yh ∧ yh < yl)
    then some .full
  else if (d1 yl ∧ d1 yh ∧ yl ≤ yh) ∨ (d3 yl ∧ d1 yh) ∨ (d3 yl ∧ d3 yh ∧ yl ≤ yh) then some .lh
  else if (d1 yl ∧ d2 yh) ∨ (d3 yl ∧ d2 yh) then some .minTo1
  else if (d2 yl ∧ d1 yh) ∨ (d2 yl ∧ d3 yh) then some .m1ToMax
  else if d2 yl ∧ d2 yh ∧ yl ≤ yh then some .hl
  else none

def cosShapeK (w yl yh T : K) : Option Shape :=
  let H := T / 2
  let d1 := fun x : K => 0 ≤ x ∧ x ≤ H
  let d2 := fun x : K => H ≤ x ∧ x ≤ T
  if T ≤ w then some .full
  else if (yh < yl ∧ d1 yl ∧ d1 yh) ∨ (yh < yl ∧ d2 yl ∧ d2 yh) then some .full
  else if yl ≤ yh ∧ d2 yl ∧ d2 yh then some .lh
  else if d2 yl ∧ d1 yh then some .minTo1
  else if d1 yl ∧ d2 yh then some .m1ToMax
  else if yl ≤ yh ∧ d1 yl ∧ d1 yh then some .hl
  else none

def tanInfK (w zl zh P : K) : Bool :=
  let H := P / 2
  let d1 := fun x : K => 0 ≤ x ∧ x ≤ H
  let d2 := fun x : K => H ≤ x ∧ x ≤ P
  decide (P ≤ w ∨ (zh < zl ∧ d1 zl ∧ d1 zh) ∨ (zh < zl ∧ d2 zl ∧ d2 zh) ∨ (d1 zl ∧ d2 zh))

theorem reduced_rangeK (T : K) (hT : 0 < T)
    (lo hi x yl yh yx : K) (kl kh kx : ℤ)
    (hlo : lo = yl + kl * T) (hyl0 : 0 ≤ yl) (hylT : yl < T)
    (hhi : hi = yh + kh * T) (hyh0 : 0 ≤ yh) (hyhT : yh < T)
    (hx : x = yx + kx * T) (hyx0 : 0 ≤ yx) (hyxT : yx < T)
    (h1 : lo ≤ x) (h2 : x ≤ hi) (hw : hi - lo < T) :
    (yl ≤ yx ∧ yx ≤ yh) ∨ (yh < yl ∧ (yl ≤ yx ∨ yx ≤ yh)) := by
  have hk1 : kl ≤ kx := by
    by_contra hcon
    have : kx + 1 ≤ kl := by omega
    have hc : ((kx : K) + 1) ≤ (kl : K) := by exact_mod_cast this
    nlinarith
  have hk2 : kx ≤ kh := by
    by_contra hcon
    have : kh + 1 ≤ kx := by omega
    have hc : ((kh : K) + 1) ≤ (kx : K) := by exact_mod_cast this
    nlinarith
  have hk3 : kh ≤ kl + 1 := by
    by_contra hcon
    have : kl + 2 ≤ kh := by omega
    have hc : ((kl : K) + 2) ≤ (kh : K) := by exact_mod_cast this
    nlinarith
  rcases (by omega : kh = kl ∨ kh = kl + 1) with h | h
  · left
    have hkx : kx = kl := by omega
    subst h; subst hkx
    constructor <;> nlinarith
  · right
    have hq : (kh : K) = kl + 1 := by exact_mod_cast h
    refine ⟨by nlinarith, ?_⟩
    rcases (by omega : kx = kl ∨ kx = kh) with h' | h'
    · left; subst h'; nlinarith
    · right; subst h'; nlinarith

theorem cos_soundK (s : K → K) (T : K) (hT : 0 < T)
    (per : ∀ (x : K) (k : ℤ), s (x + k * T) = s x)
    (bd : ∀ x, -1 ≤ s x ∧ s x ≤ 1)
    (anti : ∀ u v, 0 ≤ u → u ≤ v → v ≤ T / 2 → s v ≤ s u)
    (mono : ∀ u v, T / 2 ≤ u → u ≤ v → v ≤ T → s u ≤ s v)
    (lo hi x yl yh yx : K) (kl kh kx : ℤ)
    (hlo : lo = yl + kl * T) (hyl0 : 0 ≤ yl) (hylT : yl < T)
    (hhi : hi = yh + kh * T) (hyh0 : 0 ≤ yh) (hyhT : yh < T)
    (hx : x = yx + kx * T) (hyx0 : 0 ≤ yx) (hyxT : yx < T)
    (h1 : lo ≤ x) (h2 : x ≤ hi) (sh : Shape)
    (hsh : cosShapeK (hi - lo) yl yh T = some sh) :
    (boundsK (s yl) (s yh) sh).1 ≤ s x ∧ s x ≤ (boundsK (s yl) (s yh) sh).2 := by
  have hsx : s x = s yx := by rw [hx, per]
  rw [hsx]
  have hb := bd yx
  -- integer bookkeeping
  have hk1 : kl ≤ kx := by
    by_contra hcon
    have : kx + 1 ≤ kl := by omega
    have hc : ((kx : K) + 1) ≤ (kl : K) := by exact_mod_cast this
    nlinarith
  have hk2 : kx ≤ kh := by
    by_contra hcon
    have : kh + 1 ≤ kx := by omega
    have hc : ((kh : K) + 1) ≤ (kx : K) := by exact_mod_cast this
    nlinarith
  unfold cosShapeK at hsh
  simp only at hsh
  by_cases hw : T ≤ hi - lo
  · simp only [hw, if_true, Option.some.injEq] at hsh; subst hsh; exact hb
  · simp only [hw, if_false] at hsh
    have hwT : hi - lo < T := not_le.mp hw
    have hk3 : kh ≤ kl + 1 := by
      by_contra hcon
      have : kl + 2 ≤ kh := by omega
      have hc : ((kl : K) + 2) ≤ (kh : K) := by exact_mod_cast this
      nlinarith
    -- position of yx relative to yl, yh
    have hpos : (kx = kl ∧ yl ≤ yx) ∨ (kx = kh ∧ yx ≤ yh) := by
      rcases (by omega : kx = kl ∨ kx = kh) with h | h
      · left; refine ⟨h, ?_⟩; subst h; nlinarith
      · right; refine ⟨h, ?_⟩; subst h; nlinarith
    have hsame : kh = kl → yl ≤ yh := by
      intro h; subst h; nlinarith
    have hwrap : kh = kl + 1 → yh < yl := by
      intro h
      have : (kh : K) = kl + 1 := by exact_mod_cast h
      nlinarith
    split_ifs at hsh with c1 c2 c3 c4 c5
    all_goals (simp only [Option.some.injEq] at hsh; subst hsh; simp only [boundsK])
    · exact hb
    · -- lh : yl ≤ yh, both in second half
      obtain ⟨hle, ⟨a1, a2⟩, ⟨b1, b2⟩⟩ := c2
      have hkk : kh = kl := by
        rcases (by omega : kh = kl ∨ kh = kl + 1) with h | h
        · exact h
        · exact absurd (hwrap h) (not_lt.mpr hle)
      rcases hpos with ⟨hk, hy⟩ | ⟨hk, hy⟩
      · have hyy : yx ≤ yh := by subst hk; rw [hkk] at hhi; nlinarith
        exact ⟨mono yl yx a1 hy (le_trans hyy b2), mono yx yh (le_trans a1 hy) hyy b2⟩
      · have hyy : yl ≤ yx := by subst hk; rw [hkk] at hx; nlinarith
        exact ⟨mono yl yx a1 hyy (le_trans hy b2), mono yx yh (le_trans a1 hyy) hy b2⟩
    · -- minTo1 : yl in second half, yh in first half
      obtain ⟨⟨a1, a2⟩, ⟨b1, b2⟩⟩ := c3
      refine ⟨?_, hb.2⟩
      rcases hpos with ⟨hk, hy⟩ | ⟨hk, hy⟩
      · exact le_trans (min_le_left _ _) (mono yl yx a1 hy (le_of_lt hyxT))
      · exact le_trans (min_le_right _ _) (anti yx yh hyx0 hy b2)
    · -- m1ToMax : yl in first half, yh in second half
      obtain ⟨⟨a1, a2⟩, ⟨b1, b2⟩⟩ := c4
      refine ⟨hb.1, ?_⟩
      have hkk : kh = kl := by
        rcases (by omega : kh = kl ∨ kh = kl + 1) with h | h
        · exact h
        · have := hwrap h
          -- yh < yl ≤ H ≤ yh : only possible if equal, contradiction
          linarith
      have hyl_le : yl ≤ yx := by
        rcases hpos with ⟨hk, hy⟩ | ⟨hk, hy⟩
        · exact hy
        · subst hk; rw [hkk] at hx; nlinarith
      have hyx_le : yx ≤ yh := by
        rcases hpos with ⟨hk, hy⟩ | ⟨hk, hy⟩
        · subst hk; rw [hkk] at hhi; nlinarith
        · exact hy
      by_cases hm : yx ≤ T / 2
      · exact le_trans (anti yl yx a1 hyl_le hm) (le_max_left _ _)
      · exact le_trans (mono yx yh (le_of_lt (not_le.mp hm)) hyx_le b2) (le_max_right _ _)
    · -- hl : yl ≤ yh, both in first half
      obtain ⟨hle, ⟨a1, a2⟩, ⟨b1, b2⟩⟩ := c5
      have hkk : kh = kl := by
        rcases (by omega : kh = kl ∨ kh = kl + 1) with h | h
        · exact h
        · exact absurd (hwrap h) (not_lt.mpr hle)
      have hyl_le : yl ≤ yx := by
        rcases hpos with ⟨hk, hy⟩ | ⟨hk, hy⟩
        · exact hy
        · subst hk; rw [hkk] at hx; nlinarith
      have hyx_le : yx ≤ yh := by
        rcases hpos with ⟨hk, hy⟩ | ⟨hk, hy⟩
        · subst hk; rw [hkk] at hhi; nlinarith
        · exact hy
      exact ⟨anti yx yh hyx0 hyx_le b2, anti yl yx a1 hyl_le (le_trans hyx_le b2)⟩

theorem sin_soundK (s : K → K) (T : K) (hT : 0 < T)
    (per : ∀ (x : K) (k : ℤ), s (x + k * T) = s x)
    (bd : ∀ x, -1 ≤ s x ∧ s x ≤ 1)
    (m1 : ∀ u v, 0 ≤ u → u ≤ v → v ≤ T / 4 → s u ≤ s v)
    (a2 : ∀ u v, T / 4 ≤ u → u ≤ v → v ≤ 3 * (T / 4) → s v ≤ s u)
    (m3 : ∀ u v, 3 * (T / 4) ≤ u → u ≤ v → v ≤ T → s u ≤ s v)
    (lo hi x yl yh yx : K) (kl kh kx : ℤ)
    (hlo : lo = yl + kl * T) (hyl0 : 0 ≤ yl) (hylT : yl < T)
    (hhi : hi = yh + kh * T) (hyh0 : 0 ≤ yh) (hyhT : yh < T)
    (hx : x = yx + kx * T) (hyx0 : 0 ≤ yx) (hyxT : yx < T)
    (h1 : lo ≤ x) (h2 : x ≤ hi) (sh : Shape)
    (hsh : sinShapeK (hi - lo) yl yh T = some sh) :
    (boundsK (s yl) (s yh) sh).1 ≤ s x ∧ s x ≤ (boundsK (s yl) (s yh) sh).2 := by
  have hsx : s x = s yx := by rw [hx, per]
  rw [hsx]
  have hb := bd yx
  have hT0 : s T = s 0 := by have := per 0 1; simpa using this
  unfold sinShapeK at hsh
  simp only at hsh
  by_cases hw : T ≤ hi - lo
  · simp only [hw, if_true, Option.some.injEq] at hsh; subst hsh; exact hb
  · simp only [hw, if_false] at hsh
    have hr := reduced_rangeK T hT lo hi x yl yh yx kl kh kx hlo hyl0 hylT hhi hyh0 hyhT hx hyx0 hyxT h1 h2
      (not_le.mp hw)
    have hQ : 0 < T / 4 := by linarith
    split_ifs at hsh with e1 e2 e3 c1 c2 c3 c4 c5
    all_goals (simp only [Option.some.injEq] at hsh; subst hsh; simp only [boundsK])
    · -- early return 1: within [0,Q], increasing
      obtain ⟨⟨a, b⟩, c⟩ := e1
      rcases hr with ⟨p, q⟩ | ⟨hwr, _⟩
      · exact ⟨m1 yl yx a p (le_trans q b), m1 yx yh hyx0 q b⟩
      · exact absurd hwr (not_lt.mpr c)
    · -- early return 2: within [Q,3Q], decreasing
      obtain ⟨⟨a, b⟩, c⟩ := e2
      rcases hr with ⟨p, q⟩ | ⟨hwr, _⟩
      · exact ⟨a2 yx yh (le_trans a p) q b, a2 yl yx a p (le_trans q b)⟩
      · exact absurd hwr (not_lt.mpr c)
    · -- early return 3: within [3Q,T], increasing
      obtain ⟨⟨a, b⟩, c⟩ := e3
      rcases hr with ⟨p, q⟩ | ⟨hwr, _⟩
      · exact ⟨m3 yl yx a p (le_trans q b), m3 yx yh (le_trans a p) q b⟩
      · exact absurd hwr (not_lt.mpr c)
    · exact hb
    · -- case2: [sl, sh]
      rcases c2 with ⟨⟨a, a'⟩, ⟨b, b'⟩, c⟩ | ⟨⟨a, a'⟩, ⟨b, b'⟩⟩ | ⟨⟨a, a'⟩, ⟨b, b'⟩, c⟩
      · rcases hr with ⟨p, q⟩ | ⟨hwr, _⟩
        · exact ⟨m1 yl yx a p (le_trans q b'), m1 yx yh hyx0 q b'⟩
        · exact absurd hwr (not_lt.mpr c)
      · -- wrap from third quadrant to first quadrant
        rcases hr with ⟨p, q⟩ | ⟨hwr, p | q⟩
        · -- no wrap possible unless degenerate: yl ≤ yx ≤ yh ≤ Q < 3Q ≤ yl
          exfalso; linarith
        · -- yx in [yl, T)
          refine ⟨m3 yl yx a p (le_of_lt hyxT), ?_⟩
          calc s yx ≤ s T := m3 yx T (le_trans a p) (le_of_lt hyxT) (le_refl _)
            _ = s 0 := hT0
            _ ≤ s yh := m1 0 yh (le_refl _) b b'
        · -- yx in [0, yh]
          refine ⟨?_, m1 yx yh hyx0 q b'⟩
          calc s yl ≤ s T := m3 yl T a a' (le_refl _)
            _ = s 0 := hT0
            _ ≤ s yx := m1 0 yx (le_refl _) hyx0 (le_trans q b')
      · rcases hr with ⟨p, q⟩ | ⟨hwr, _⟩
        · exact ⟨m3 yl yx a p (le_trans q b'), m3 yx yh (le_trans a p) q b'⟩
        · exact absurd hwr (not_lt.mpr c)
    · -- case3: [min, 1]
      refine ⟨?_, hb.2⟩
      rcases c3 with ⟨⟨a, a'⟩, ⟨b, b'⟩⟩ | ⟨⟨a, a'⟩, ⟨b, b'⟩⟩
      · -- yl in [0,Q], yh in [Q,3Q]
        rcases hr with ⟨p, q⟩ | ⟨hwr, _⟩
        · by_cases hm : yx ≤ T / 4
          · exact le_trans (min_le_left _ _) (m1 yl yx a p hm)
          · exact le_trans (min_le_right _ _) (a2 yx yh (le_of_lt (not_le.mp hm)) q b')
        · exfalso; linarith
      · -- yl in [3Q,T], yh in [Q,3Q] : wrap
        rcases hr with ⟨p, q⟩ | ⟨hwr, p | q⟩
        · -- 3Q ≤ yl ≤ yx ≤ yh ≤ 3Q: all equal 3Q
          have e1 : yx = yl := by linarith
          rw [e1]; exact min_le_left _ _
        · exact le_trans (min_le_left _ _) (m3 yl yx a p (le_of_lt hyxT))
        · by_cases hm : yx ≤ T / 4
          · -- s yl ≤ s T = s 0 ≤ s yx
            refine le_trans (min_le_left _ _) ?_
            calc s yl ≤ s T := m3 yl T a a' (le_refl _)
              _ = s 0 := hT0
              _ ≤ s yx := m1 0 yx (le_refl _) hyx0 hm
          · exact le_trans (min_le_right _ _) (a2 yx yh (le_of_lt (not_le.mp hm)) q b')
    · -- case4: [-1, max]
      refine ⟨hb.1, ?_⟩
      rcases c4 with ⟨⟨a, a'⟩, ⟨b, b'⟩⟩ | ⟨⟨a, a'⟩, ⟨b, b'⟩⟩
      · -- yl in [Q,3Q], yh in [0,Q] : wrap
        rcases hr with ⟨p, q⟩ | ⟨hwr, p | q⟩
        · have e1 : yx = yl := by linarith
          rw [e1]; exact le_max_left _ _
        · by_cases hm : yx ≤ 3 * (T / 4)
          · exact le_trans (a2 yl yx a p hm) (le_max_left _ _)
          · refine le_trans ?_ (le_max_right _ _)
            calc s yx ≤ s T := m3 yx T (le_of_lt (not_le.mp hm)) (le_of_lt hyxT) (le_refl _)
              _ = s 0 := hT0
              _ ≤ s yh := m1 0 yh (le_refl _) b b'
        · exact le_trans (m1 yx yh hyx0 q b') (le_max_right _ _)
      · -- yl in [Q,3Q], yh in [3Q,T]
        rcases hr with ⟨p, q⟩ | ⟨hwr, _⟩
        · by_cases hm : yx ≤ 3 * (T / 4)
          · exact le_trans (a2 yl yx a p hm) (le_max_left _ _)
          · exact le_trans (m3 yx yh (le_of_lt (not_le.mp hm)) q b') (le_max_right _ _)
        · exfalso; linarith
    · -- case5: [sh, sl]
      obtain ⟨⟨a, a'⟩, ⟨b, b'⟩, c⟩ := c5
      rcases hr with ⟨p, q⟩ | ⟨hwr, _⟩
      · exact ⟨a2 yx yh (le_trans a p) q b', a2 yl yx a p (le_trans q b')⟩
      · exact absurd hwr (not_lt.mpr c)

theorem tan_soundK (t : K → K) (P : K) (hP : 0 < P)
    (per : ∀ (x : K) (k : ℤ), t (x + k * P) = t x)
    (m1 : ∀ u v, 0 ≤ u → u ≤ v → v < P / 2 → t u ≤ t v)
    (m2 : ∀ u v, P / 2 < u → u ≤ v → v ≤ P → t u ≤ t v)
    (lo hi x zl zh zx : K) (kl kh kx : ℤ)
    (hlo : lo = zl + kl * P) (hzl0 : 0 ≤ zl) (hzlP : zl < P)
    (hhi : hi = zh + kh * P) (hzh0 : 0 ≤ zh) (hzhP : zh < P)
    (hx : x = zx + kx * P) (hzx0 : 0 ≤ zx) (hzxP : zx < P)
    (h1 : lo ≤ x) (h2 : x ≤ hi)
    (hfin : tanInfK (hi - lo) zl zh P = false) :
    zx ≠ P / 2 ∧ t zl ≤ t x ∧ t x ≤ t zh := by
  have hsx : t x = t zx := by rw [hx, per]
  rw [hsx]
  have hP0 : t P = t 0 := by have := per 0 1; simpa using this
  unfold tanInfK at hfin
  simp only [decide_eq_false_iff_not, not_or] at hfin
  obtain ⟨hw, c1b, c1c, c1d⟩ := hfin
  have hr := reduced_rangeK P hP lo hi x zl zh zx kl kh kx hlo hzl0 hzlP hhi hzh0 hzhP hx hzx0 hzxP h1 h2 (not_le.mp hw)
  rcases hr with ⟨p, q⟩ | ⟨hwr, pq⟩
  · rcases le_or_gt zl (P / 2) with a | a
    · have hzh : zh < P / 2 := by
        by_contra hc
        exact c1d ⟨⟨hzl0, a⟩, ⟨not_lt.mp hc, le_of_lt hzhP⟩⟩
      exact ⟨by intro e; linarith, m1 zl zx hzl0 p (by linarith), m1 zx zh hzx0 q hzh⟩
    · exact ⟨by intro e; linarith, m2 zl zx a p (le_of_lt hzxP), m2 zx zh (by linarith) q (le_of_lt hzhP)⟩
  · have a : P / 2 < zl := by
      by_contra hc
      have hc' := not_lt.mp hc
      exact c1b ⟨hwr, ⟨hzl0, hc'⟩, ⟨hzh0, by linarith⟩⟩
    have b : zh < P / 2 := by
      by_contra hc
      have hc' := not_lt.mp hc
      exact c1c ⟨hwr, ⟨le_of_lt a, le_of_lt hzlP⟩, ⟨hc', le_of_lt hzhP⟩⟩
    rcases pq with p | q
    · refine ⟨by intro e; linarith, m2 zl zx a p (le_of_lt hzxP), ?_⟩
      calc t zx ≤ t P := m2 zx P (by linarith) (le_of_lt hzxP) (le_refl _)
        _ = t 0 := hP0
        _ ≤ t zh := m1 0 zh (le_refl _) hzh0 b
    · refine ⟨by intro e; linarith, ?_, m1 zx zh hzx0 q b⟩
      calc t zl ≤ t P := m2 zl P a (le_of_lt hzlP) (le_refl _)
        _ = t 0 := hP0
        _ ≤ t zx := m1 0 zx (le_refl _) hzx0 (by linarith)


variable [FloorRing K]

/-- `x % T` over `K` -/
def fmodK (x T : K) : K := x - T * ⌊x / T⌋

theorem fmod_decompK (x T : K) (hT : 0 < T) :
    x = (fmodK x T) + (⌊x / T⌋ : ℤ) * T ∧ 0 ≤ fmodK x T ∧ fmodK x T < T := by
  unfold fmodK
  refine ⟨by ring, ?_, ?_⟩
  · have := Int.floor_le (x / T)
    have h2 : (⌊x / T⌋ : K) * T ≤ x := by
      rw [← le_div_iff₀ hT]; exact this
    linarith
  · have := Int.lt_floor_add_one (x / T)
    have h2 : x < ((⌊x / T⌋ : K) + 1) * T := by
      rw [← div_lt_iff₀ hT]; exact this
    linarith

end generic

/-! ## at `K = ℚ` the generic functions ARE the model's functions -/

theorem boundsK_rat (sl sh : ℚ) (s : Shape) : boundsK sl sh s = bounds sl sh s := by cases s <;> rfl
theorem sinShapeK_rat (w yl yh T : ℚ) : sinShapeK w yl yh T = sinShape w yl yh T := rfl
theorem cosShapeK_rat (w yl yh T : ℚ) : cosShapeK w yl yh T = cosShape w yl yh T := rfl
theorem tanInfK_rat (w zl zh P : ℚ) : tanInfK w zl zh P = tanInf w zl zh P := rfl

/-- the ℚ theorem about the model is the generic theorem at `K = ℚ` -/
theorem cos_sound_from_generic (s : ℚ → ℚ) (T : ℚ) (hT : 0 < T)
    (per : ∀ (x : ℚ) (k : ℤ), s (x + k * T) = s x)
    (bd : ∀ x, -1 ≤ s x ∧ s x ≤ 1)
    (anti : ∀ u v, 0 ≤ u → u ≤ v → v ≤ T / 2 → s v ≤ s u)
    (mono : ∀ u v, T / 2 ≤ u → u ≤ v → v ≤ T → s u ≤ s v)
    (lo hi x yl yh yx : ℚ) (kl kh kx : ℤ)
    (hlo : lo = yl + kl * T) (hyl0 : 0 ≤ yl) (hylT : yl < T)
    (hhi : hi = yh + kh * T) (hyh0 : 0 ≤ yh) (hyhT : yh < T)
    (hx : x = yx + kx * T) (hyx0 : 0 ≤ yx) (hyxT : yx < T)
    (h1 : lo ≤ x) (h2 : x ≤ hi) (sh : Shape)
    (hsh : cosShape (hi - lo) yl yh T = some sh) :
    (bounds (s yl) (s yh) sh).1 ≤ s x ∧ s x ≤ (bounds (s yl) (s yh) sh).2 := by
  rw [← boundsK_rat]
  exact cos_soundK s T hT per bd anti mono lo hi x yl yh yx kl kh kx hlo hyl0 hylT hhi hyh0 hyhT hx hyx0 hyxT h1 h2 sh
    (by rw [cosShapeK_rat]; exact hsh)

theorem sin_sound_from_generic (s : ℚ → ℚ) (T : ℚ) (hT : 0 < T)
    (per : ∀ (x : ℚ) (k : ℤ), s (x + k * T) = s x)
    (bd : ∀ x, -1 ≤ s x ∧ s x ≤ 1)
    (m1 : ∀ u v, 0 ≤ u → u ≤ v → v ≤ T / 4 → s u ≤ s v)
    (a2 : ∀ u v, T / 4 ≤ u → u ≤ v → v ≤ 3 * (T / 4) → s v ≤ s u)
    (m3 : ∀ u v, 3 * (T / 4) ≤ u → u ≤ v → v ≤ T → s u ≤ s v)
    (lo hi x yl yh yx : ℚ) (kl kh kx : ℤ)
    (hlo : lo = yl + kl * T) (hyl0 : 0 ≤ yl) (hylT : yl < T)
    (hhi : hi = yh + kh * T) (hyh0 : 0 ≤ yh) (hyhT : yh < T)
    (hx : x = yx + kx * T) (hyx0 : 0 ≤ yx) (hyxT : yx < T)
    (h1 : lo ≤ x) (h2 : x ≤ hi) (sh : Shape)
    (hsh : sinShape (hi - lo) yl yh T = some sh) :
    (bounds (s yl) (s yh) sh).1 ≤ s x ∧ s x ≤ (bounds (s yl) (s yh) sh).2 := by
  rw [← boundsK_rat]
  exact sin_soundK s T hT per bd m1 a2 m3 lo hi x yl yh yx kl kh kx hlo hyl0 hylT hhi hyh0 hyhT hx hyx0 hyxT h1 h2 sh
    (by rw [sinShapeK_rat]; exact hsh)

/-! ## Mathlib's real functions satisfy every hypothesis -/

open Real

theorem real_cos_hyp :
    (0 : ℝ) < 2 * π ∧
    (∀ (x : ℝ) (k : ℤ), cos (x + k * (2 * π)) = cos x) ∧
    (∀ x : ℝ, -1 ≤ cos x ∧ cos x ≤ 1) ∧
    (∀ u v : ℝ, 0 ≤ u → u ≤ v → v ≤ 2 * π / 2 → cos v ≤ cos u) ∧
    (∀ u v : ℝ, 2 * π / 2 ≤ u → u ≤ v → v ≤ 2 * π → cos u ≤ cos v) := by
  have hpi := pi_pos
  have h2 : 2 * π / 2 = π := by ring
  refine ⟨by linarith, cos_add_int_mul_two_pi, fun x => ⟨neg_one_le_cos x, cos_le_one x⟩, ?_, ?_⟩
  · intro u v hu huv hv
    rw [h2] at hv
    exact strictAntiOn_cos.antitoneOn ⟨hu, by linarith⟩ ⟨by linarith, hv⟩ huv
  · intro u v hu huv hv
    rw [h2] at hu
    rw [← cos_two_pi_sub u, ← cos_two_pi_sub v]
    exact strictAntiOn_cos.antitoneOn ⟨by linarith, by linarith⟩ ⟨by linarith, by linarith⟩ (by linarith)

theorem real_sin_hyp :
    (∀ (x : ℝ) (k : ℤ), sin (x + k * (2 * π)) = sin x) ∧
    (∀ x : ℝ, -1 ≤ sin x ∧ sin x ≤ 1) ∧
    (∀ u v : ℝ, 0 ≤ u → u ≤ v → v ≤ 2 * π / 4 → sin u ≤ sin v) ∧
    (∀ u v : ℝ, 2 * π / 4 ≤ u → u ≤ v → v ≤ 3 * (2 * π / 4) → sin v ≤ sin u) ∧
    (∀ u v : ℝ, 3 * (2 * π / 4) ≤ u → u ≤ v → v ≤ 2 * π → sin u ≤ sin v) := by
  have hpi := pi_pos
  have h4 : 2 * π / 4 = π / 2 := by ring
  have h34 : 3 * (2 * π / 4) = 3 * π / 2 := by ring
  refine ⟨sin_add_int_mul_two_pi, fun x => ⟨neg_one_le_sin x, sin_le_one x⟩, ?_, ?_, ?_⟩
  · intro u v hu huv hv
    rw [h4] at hv
    exact strictMonoOn_sin.monotoneOn ⟨by linarith, by linarith⟩ ⟨by linarith, hv⟩ huv
  · intro u v hu huv hv
    rw [h4] at hu; rw [h34] at hv
    rw [← sin_pi_sub u, ← sin_pi_sub v]
    exact strictMonoOn_sin.monotoneOn ⟨by linarith, by linarith⟩ ⟨by linarith, by linarith⟩ (by linarith)
  · intro u v hu huv hv
    rw [h34] at hu
    rw [← sin_sub_two_pi u, ← sin_sub_two_pi v]
    exact strictMonoOn_sin.monotoneOn ⟨by linarith, by linarith⟩ ⟨by linarith, by linarith⟩ (by linarith)

theorem real_tan_hyp :
    (0 : ℝ) < π ∧
    (∀ (x : ℝ) (k : ℤ), tan (x + k * π) = tan x) ∧
    (∀ u v : ℝ, 0 ≤ u → u ≤ v → v < π / 2 → tan u ≤ tan v) ∧
    (∀ u v : ℝ, π / 2 < u → u ≤ v → v ≤ π → tan u ≤ tan v) := by
  have hpi := pi_pos
  refine ⟨hpi, tan_add_int_mul_pi, ?_, ?_⟩
  · intro u v hu huv hv
    exact strictMonoOn_tan.monotoneOn ⟨by linarith, by linarith⟩ ⟨by linarith, hv⟩ huv
  · intro u v hu huv hv
    rw [← tan_sub_pi u, ← tan_sub_pi v]
    exact strictMonoOn_tan.monotoneOn ⟨by linarith, by linarith⟩ ⟨by linarith, by linarith⟩ (by linarith)

/-! ## the case analyses enclose the real functions (no hypothesis left) -/

/-- the sine case analysis with the true period: for all real `lo ≤ x ≤ hi`, whatever shape it
selects from the width and the reduced endpoints encloses `Real.sin x` -/
theorem real_sin_encloses (lo hi x : ℝ) (h1 : lo ≤ x) (h2 : x ≤ hi) (sh : Shape)
    (hsh : sinShapeK (hi - lo) (fmodK lo (2 * π)) (fmodK hi (2 * π)) (2 * π) = some sh) :
    (boundsK (sin (fmodK lo (2 * π))) (sin (fmodK hi (2 * π))) sh).1 ≤ sin x ∧
    sin x ≤ (boundsK (sin (fmodK lo (2 * π))) (sin (fmodK hi (2 * π))) sh).2 := by
  obtain ⟨per, bd, m1, a2, m3⟩ := real_sin_hyp
  have hT : (0 : ℝ) < 2 * π := by have := pi_pos; linarith
  obtain ⟨dl, dl0, dlT⟩ := fmod_decompK lo (2 * π) hT
  obtain ⟨dh, dh0, dhT⟩ := fmod_decompK hi (2 * π) hT
  obtain ⟨dx, dx0, dxT⟩ := fmod_decompK x (2 * π) hT
  exact sin_soundK sin (2 * π) hT per bd m1 a2 m3 lo hi x _ _ _ _ _ _ dl dl0 dlT dh dh0 dhT dx dx0 dxT h1 h2 sh hsh

theorem real_cos_encloses (lo hi x : ℝ) (h1 : lo ≤ x) (h2 : x ≤ hi) (sh : Shape)
    (hsh : cosShapeK (hi - lo) (fmodK lo (2 * π)) (fmodK hi (2 * π)) (2 * π) = some sh) :
    (boundsK (cos (fmodK lo (2 * π))) (cos (fmodK hi (2 * π))) sh).1 ≤ cos x ∧
    cos x ≤ (boundsK (cos (fmodK lo (2 * π))) (cos (fmodK hi (2 * π))) sh).2 := by
  obtain ⟨hT, per, bd, anti, mono⟩ := real_cos_hyp
  obtain ⟨dl, dl0, dlT⟩ := fmod_decompK lo (2 * π) hT
  obtain ⟨dh, dh0, dhT⟩ := fmod_decompK hi (2 * π) hT
  obtain ⟨dx, dx0, dxT⟩ := fmod_decompK x (2 * π) hT
  exact cos_soundK cos (2 * π) hT per bd anti mono lo hi x _ _ _ _ _ _ dl dl0 dlT dh dh0 dhT dx dx0 dxT h1 h2 sh hsh

/-- when the tangent case analysis (true period `π`) answers "bounded", no point of `[lo,hi]` is
a pole (`x ≡ π/2 mod π`) and `[tan zl, tan zh]` encloses `Real.tan x` -/
theorem real_tan_encloses (lo hi x : ℝ) (h1 : lo ≤ x) (h2 : x ≤ hi)
    (hfin : tanInfK (hi - lo) (fmodK lo π) (fmodK hi π) π = false) :
    fmodK x π ≠ π / 2 ∧ tan (fmodK lo π) ≤ tan x ∧ tan x ≤ tan (fmodK hi π) := by
  obtain ⟨hP, per, m1, m2⟩ := real_tan_hyp
  obtain ⟨dl, dl0, dlT⟩ := fmod_decompK lo π hP
  obtain ⟨dh, dh0, dhT⟩ := fmod_decompK hi π hP
  obtain ⟨dx, dx0, dxT⟩ := fmod_decompK x π hP
  exact tan_soundK tan π hP per m1 m2 lo hi x _ _ _ _ _ _ dl dl0 dlT dh dh0 dhT dx dx0 dxT h1 h2 hfin

/-- a concrete non-trivial real instance: on `[-1, 1]` (wraps through 0) the selected shape is
`[sin yl, sin yh]`, and `sin yl = sin (-1)`, `sin yh = sin 1` -/
example : ∀ x : ℝ, -1 ≤ x → x ≤ 1 → sin (-1) ≤ sin x ∧ sin x ≤ sin 1 := by
  intro x h1 h2
  have hpi : (1 : ℝ) ≤ π / 2 := one_le_pi_div_two
  exact ⟨strictMonoOn_sin.monotoneOn ⟨by linarith, by linarith⟩ ⟨by linarith, by linarith⟩ h1,
         strictMonoOn_sin.monotoneOn ⟨by linarith, by linarith⟩ ⟨by linarith, by linarith⟩ h2⟩

end Pun.Elem
