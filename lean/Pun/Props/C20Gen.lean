import Pun.Props.C20
import Pun.Gen.HedgeGen
/-!
# C20, generated part: the keyword table *as the source has it now*

`Pun/Gen/HedgeGen.lean` is regenerated from the `match kwd` statement of `hedge_interpret` on
every run.  The hypotheses of the generic theorems are discharged for that table by evaluation,
so a harmless change of a coefficient still passes, a negative width, a one-sided hedge on the
wrong side or `about` wider than `around` does not.
-/
set_option linter.unusedSimpArgs false
set_option linter.unusedVariables false
namespace Pun.Gen
open Pun.Hedge

/-- shape and sign of every row demanded by the statement -/
def rowOK : String × Form → Bool
  | ("exactly", .sym k _) | ("about", .sym k _) | ("around", .sym k _) => decide (0 ≤ k)
  | ("count", .count) => true
  | ("almost", .left k) | ("below", .left k) => decide (0 < k)
  | ("over", .right k) | ("above", .right k) => decide (0 < k)
  | ("at most", .atMost) | ("at least", .atLeast) => true
  | ("order", .order a _) => decide (a ≠ 0)
  | ("between", .text) => true
  | _ => false

theorem table_rows_ok : hedgeTable.all rowOK = true := by decide +kernel
theorem table_nested_ok : nestedOK hedgeTable = true := by decide +kernel
theorem table_keys : hedgeTable.map Prod.fst = hedgeKwdList := by decide +kernel

/-- exactly ⊆ about ⊆ around, all containing the number, for every numeral -/
theorem gen_hedge_order (ν : Numeral) (sq : Rat) :
    ∃ a b c, hedge hedgeTable "exactly" ν sq = some a ∧ hedge hedgeTable "about" ν sq = some b ∧
      hedge hedgeTable "around" ν sq = some c ∧ a.sub b ∧ b.sub c ∧
      EB.le a.lo (.fin ν.val) ∧ EB.le (.fin ν.val) a.hi :=
  hedge_order hedgeTable table_nested_ok ν sq

/-- the symmetric hedges of the extracted table contain the number symmetrically -/
theorem gen_symmetric (kw : String) (k : Rat) (j : Nat) (h : lookup hedgeTable kw = some (.sym k j))
    (hk : 0 ≤ k) (ν : Numeral) (sq : Rat) :
    ∃ w, 0 ≤ w ∧ hedge hedgeTable kw ν sq = some ⟨.fin (ν.val - w), .fin (ν.val + w)⟩ := by
  obtain ⟨w, hw, e⟩ := hedge_contains k j ν sq hk
  exact ⟨w, hw, by simp [hedge, h, e]⟩

theorem lookup_mem (tbl : List (String × Form)) (kw : String) (f : Form) (h : lookup tbl kw = some f) :
    (kw, f) ∈ tbl := by
  induction tbl with
  | nil => simp [lookup] at h
  | cons hd tl ih =>
    obtain ⟨k, g⟩ := hd
    simp only [lookup] at h
    split at h
    · rename_i hk
      cases h; subst hk; simp
    · exact List.mem_cons_of_mem _ (ih h)

/-- almost / below end at the number, over / above start at it, at most / at least are rays -/
theorem gen_endpoints (ν : Numeral) (sq : Rat) :
    (∀ kw ∈ ["almost", "below"], ∃ lo, lo < ν.val ∧ hedge hedgeTable kw ν sq = some ⟨.fin lo, .fin ν.val⟩) ∧
    (∀ kw ∈ ["over", "above"], ∃ hi, ν.val < hi ∧ hedge hedgeTable kw ν sq = some ⟨.fin ν.val, .fin hi⟩) ∧
    hedge hedgeTable "at most" ν sq = some ⟨.ninf, .fin ν.val⟩ ∧
    hedge hedgeTable "at least" ν sq = some ⟨.fin ν.val, .pinf⟩ := by
  have key : ∀ kw f, lookup hedgeTable kw = some f → (kw, f) ∈ hedgeTable := fun kw f h => lookup_mem _ kw f h
  have rows := List.all_eq_true.mp table_rows_ok
  refine ⟨?_, ?_, ?_, ?_⟩
  · intro kw hkw
    have hl : ∃ k, lookup hedgeTable kw = some (.left k) ∧ 0 < k := by
      simp only [List.mem_cons, List.mem_nil_iff, or_false] at hkw
      rcases hkw with rfl | rfl
      all_goals
        cases hf : lookup hedgeTable _ with
        | none => exact absurd hf (by decide +kernel)
        | some f =>
          have := rows _ (key _ f hf)
          cases f <;> simp_all [rowOK]
    obtain ⟨k, hk, hpos⟩ := hl
    obtain ⟨lo, h1, h2⟩ := hedge_endpoint_left k ν sq hpos
    exact ⟨lo, h1, by simp [hedge, hk, h2]⟩
  · intro kw hkw
    have hl : ∃ k, lookup hedgeTable kw = some (.right k) ∧ 0 < k := by
      simp only [List.mem_cons, List.mem_nil_iff, or_false] at hkw
      rcases hkw with rfl | rfl
      all_goals
        cases hf : lookup hedgeTable _ with
        | none => exact absurd hf (by decide +kernel)
        | some f =>
          have := rows _ (key _ f hf)
          cases f <;> simp_all [rowOK]
    obtain ⟨k, hk, hpos⟩ := hl
    obtain ⟨hi, h1, h2⟩ := hedge_endpoint_right k ν sq hpos
    exact ⟨hi, h1, by simp [hedge, hk, h2]⟩
  · have : lookup hedgeTable "at most" = some .atMost := by decide +kernel
    simp [hedge, this, hedgeForm]
  · have : lookup hedgeTable "at least" = some .atLeast := by decide +kernel
    simp [hedge, this, hedgeForm]

end Pun.Gen
