import Pun.Props.C09
import Pun.Gen.ParamGen
/-!
# C09, generated part: the corner enumeration and the reductions *as the source has them now*

`Pun/Gen/ParamGen.lean` is regenerated from `pba/pbox_parametric.py` on every run: how the corner set is
enumerated (`cornersGen`), which reductions give the left / right bound (`paramBoundsGen`), the levels
(`levelsGen`, from `Params.p_values` via `GridGen`), how a corner is split into positional and keyword
arguments (`callGen`), the moment intervals and their guard (`momentsGen`), the wiring of the four results
into `Leaf(...)`.  Here each generated definition is proved equal to the hand model of `Model/Param.lean`
(so the theorems of `Props/C09.lean` are about what the source says now), the corner list is shown to have
exactly `2^k` elements and to contain every vertex, and the enclosure theorem is re-proved directly for
`paramBoundsGen`.  The equalities are structural (`rfl` / induction on the box), not finite tables; the
wiring and flag lemmas are `decide` over the generated literals.
-/
set_option linter.unusedSimpArgs false
set_option linter.unusedVariables false
namespace Pun.Gen.Param
open Pun Pun.Param

/-- `itertools.product` of the endpoint pairs is the hand model's `corners` -/
theorem cartesian_endpoints : ∀ b : List (Rat × Rat), cartesian (b.map endpoints) = corners b
  | [] => rfl
  | (lo, hi) :: b => by
    simp only [List.map_cons, cartesian, endpoints, List.flatMap_cons, List.flatMap_nil, List.append_nil,
      cartesian_endpoints b, corners]

/-- ★ the generated corner enumeration is the hand model's, positional parameters first -/
theorem gen_corners_eq (pos kw : List (Rat × Rat)) : cornersGen pos kw = corners (pos ++ kw) := by
  unfold cornersGen; exact cartesian_endpoints _

theorem corners_length : ∀ b : List (Rat × Rat), (corners b).length = 2 ^ b.length
  | [] => rfl
  | (lo, hi) :: b => by
    simp only [corners, List.length_append, List.length_map, corners_length b, List.length_cons]
    omega

/-- ★ exactly `2^k` corners for `k` parameters (seed C09-k: `range(n_par << 1)` gave `2k`) -/
theorem gen_corners_length (pos kw : List (Rat × Rat)) :
    (cornersGen pos kw).length = 2 ^ (pos.length + kw.length) := by
  rw [gen_corners_eq, corners_length, List.length_append]

/-- `v` is a vertex of the box: every coordinate is one of the two endpoints of its interval -/
def Vertex : List (Rat × Rat) → List Rat → Prop
  | [], [] => True
  | (lo, hi) :: b, x :: xs => (x = lo ∨ x = hi) ∧ Vertex b xs
  | _, _ => False

theorem mem_corners_iff : ∀ (b : List (Rat × Rat)) (v : List Rat), v ∈ corners b ↔ Vertex b v
  | [], v => by cases v <;> simp [corners, Vertex]
  | (lo, hi) :: b, [] => by simp [corners, Vertex]
  | (lo, hi) :: b, x :: xs => by
    simp only [corners, List.mem_append, List.mem_map, List.cons.injEq, Vertex, ← mem_corners_iff b xs]
    constructor
    · rintro (⟨c, hc, rfl, rfl⟩ | ⟨c, hc, rfl, rfl⟩)
      · exact ⟨Or.inl rfl, hc⟩
      · exact ⟨Or.inr rfl, hc⟩
    · rintro ⟨h | h, hc⟩
      · exact Or.inl ⟨xs, hc, h.symm, rfl⟩
      · exact Or.inr ⟨xs, hc, h.symm, rfl⟩

/-- ★ the generated corner list contains every vertex of the box, and nothing else -/
theorem gen_corners_complete (pos kw : List (Rat × Rat)) (v : List Rat) :
    v ∈ cornersGen pos kw ↔ Vertex (pos ++ kw) v := by
  rw [gen_corners_eq]; exact mem_corners_iff _ v

/-- ★ the levels are `Params.p_values` (the table of `GridGen`, regenerated from params.py) -/
theorem gen_levels_eq : levelsGen = Pun.Gen.pValues := rfl

/-- the level functions of a family `Q corner level` on the generated grid -/
def QsOf (Q : List Rat → Rat → Rat) : List (List Rat → Rat) := levelsGen.map (fun p c => Q c p)

theorem rowOf_QsOf (Q : List Rat → Rat → Rat) (c : List Rat) : rowOf (QsOf Q) c = levelsGen.map (fun p => Q c p) := by
  simp [rowOf, QsOf, List.map_map, Function.comp_def]

/-- ★ left = columnwise minimum, right = columnwise maximum of the corner rows of the hand model -/
theorem gen_bounds_eq (Q : List Rat → Rat → Rat) (pos kw : List (Rat × Rat)) :
    paramBoundsGen Q pos kw =
      (colMin ((corners (pos ++ kw)).map (rowOf (QsOf Q))), colMax ((corners (pos ++ kw)).map (rowOf (QsOf Q)))) := by
  have h : (fun a => levelsGen.map (fun p => Q a p)) = rowOf (QsOf Q) := by
    funext c; exact (rowOf_QsOf Q c).symm
  simp only [paramBoundsGen, gen_corners_eq, h]

/-- no NaN-ignoring reduction (`np.nanmin` / `np.nanmax` would drop corners outside the family's domain) -/
theorem gen_no_nan_ignoring : nanIgnoringReductions = [] := by decide

/-- ★ every corner value is handed to scipy: the first `nPos` positionally, all the others by keyword -/
theorem gen_call_eq : callGen = splitCall := rfl

theorem gen_call_lossless (nPos : Nat) (kwNames : List String) (a : List Rat) (h : nPos + kwNames.length = a.length) :
    (callGen nPos kwNames a).1 ++ (callGen nPos kwNames a).2.map Prod.snd = a := by
  have h2 : kwNames.length = (a.drop nPos).length := by rw [List.length_drop]; omega
  simp only [gen_call_eq, splitCall]
  rw [List.map_snd_zip (by omega), List.take_append_drop]

/-- ★ the moment intervals and their guard are the hand model's (`boundsFin`): hulls of the corner means /
    variances when they fit `[Left[0], Right[-1]]` -/
theorem gen_moments_eq (L R means vars : List Rat) (lo hi : Rat) (h1 : L.head? = some lo) (h2 : R.getLast? = some hi) :
    momentsGen L R means vars = some
      (if momentsFit lo hi (minL 0 means) (maxL 0 means) (maxL 0 vars)
       then some ⟨minL 0 means, maxL 0 means, minL 0 vars, maxL 0 vars⟩ else none) := by
  simp only [momentsGen, h1, h2, momentsFit]
  rfl

theorem gen_leaf_wiring : leafWiring = [("left", "left"), ("right", "right"), ("mean", "mean"), ("var", "var")] := by decide

theorem gen_wrapper_passes_all : wrapperPassesAll = true := by decide

/-- ★ the executed hand model computes its bounds from exactly the generated `(Left, Right)` -/
theorem gen_matches_model (Q : List Rat → Rat → Rat) (M V : List Rat → Rat) (pos kw : List PSpec) (t : Table)
    (bp bk : List (Rat × Rat)) (out : Out)
    (hbox : boxOf pos kw = .ok (bp ++ bk)) (ht : TableOf t (bp ++ bk) (QsOf Q) M V)
    (hout : parametric true pos kw t = some (.ok out)) :
    pboxInit (paramBoundsGen Q bp bk).1 (paramBoundsGen Q bp bk).2 = .ok (out.left, out.right) := by
  obtain ⟨c0, cs, hc⟩ := List.exists_cons_of_ne_nil (corners_ne_nil (bp ++ bk))
  obtain ⟨hp, _⟩ := parametric_out pos kw t (bp ++ bk) (QsOf Q) M V c0 cs out hbox ht hc hout
  rw [gen_bounds_eq, hc, colMin_rows, colMax_rows]
  exact hp

/-- ★ enclosure, re-proved for what the source says now: every member `θ` of the box has its quantile at every
    generated level between the generated bounds, for families monotone in each parameter separately -/
theorem gen_envelope_encloses (Q : List Rat → Rat → Rat) (pos kw : List (Rat × Rat)) (θ : List Rat)
    (hQ : ∀ p ∈ levelsGen, CoordMono (pos ++ kw) (fun c => Q c p)) (hθ : InBox (pos ++ kw) θ) :
    List.Forall₂ (· ≤ ·) (paramBoundsGen Q pos kw).1 (levelsGen.map (fun p => Q θ p)) ∧
    List.Forall₂ (· ≤ ·) (levelsGen.map (fun p => Q θ p)) (paramBoundsGen Q pos kw).2 := by
  obtain ⟨c0, cs, hc⟩ := List.exists_cons_of_ne_nil (corners_ne_nil (pos ++ kw))
  have hQ' : ∀ f ∈ QsOf Q, CoordMono (pos ++ kw) f := by
    intro f hf
    simp only [QsOf, List.mem_map] at hf
    obtain ⟨p, hp, rfl⟩ := hf
    exact hQ p hp
  rw [gen_bounds_eq, hc, colMin_rows, colMax_rows, ← rowOf_QsOf]
  show List.Forall₂ (· ≤ ·) (List.map (fun Q => List.foldl (fun m c => min m (Q c)) (Q c0) cs) (QsOf Q)) (rowOf (QsOf Q) θ) ∧
    List.Forall₂ (· ≤ ·) (rowOf (QsOf Q) θ) (List.map (fun Q => List.foldl (fun m c => max m (Q c)) (Q c0) cs) (QsOf Q))
  constructor
  · apply forall2_map_map
    intro f hf
    obtain ⟨c, hcm, hle⟩ := corner_below (pos ++ kw) f θ hθ (hQ' f hf)
    rw [hc, List.mem_cons] at hcm
    obtain ⟨h1, h2⟩ := foldl_min_le f cs (f c0)
    rcases hcm with rfl | hcm
    · exact le_trans h1 hle
    · exact le_trans (h2 c hcm) hle
  · apply forall2_map_map
    intro f hf
    obtain ⟨c, hcm, hle⟩ := corner_above (pos ++ kw) f θ hθ (hQ' f hf)
    rw [hc, List.mem_cons] at hcm
    obtain ⟨h1, h2⟩ := le_foldl_max f cs (f c0)
    rcases hcm with rfl | hcm
    · exact le_trans hle h1
    · exact le_trans hle (h2 c hcm)

/-- non-vacuity: the generated functions on a concrete box (loc ∈ [0,1] positional, scale ∈ [1,2] by keyword) -/
example : cornersGen [(0, 1)] [(1, 2)] = [[0, 1], [0, 2], [1, 1], [1, 2]] := by decide +kernel
example : callGen 1 ["scale"] [0, 2] = ([0], [("scale", 2)]) := by decide +kernel
example : CoordMono ([(0, 1)] ++ [(1, 2)]) (fun c => lsQ (-1) c) := locscale_instance _ _ (by simp)

end Pun.Gen.Param
