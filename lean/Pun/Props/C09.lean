import Pun.Lemmas.Param
import Mathlib.Tactic.Ring
import Mathlib.Tactic.NormNum
/-!
# C09 — a parametric p-box encloses every distribution of its parameter box

`Qs` is the list of the family's quantile functions at the grid levels (one function of the
parameter vector per level), `M`, `V` its mean and variance; they are *parameters* of the
theorems (scipy computes them; the harness sends their values at the corners as a table).
What is assumed about them is exactly `CoordMono`: monotone (in either direction) in each
parameter separately on the box.  The instances below discharge it for the loc-scale
families (normal, Gumbel, logistic, Laplace, Rayleigh, exponential), `exp ∘ loc-scale`
(lognormal) and, with the stochastic ordering in the shape as an assumption, gamma.
-/
set_option linter.unusedSimpArgs false
set_option linter.unusedVariables false
namespace Pun.Param
open Pun

/-- the table handed to the model holds the family's values at every corner of the box -/
def TableOf (t : Table) (b : List (Rat × Rat)) (Qs : List (List Rat → Rat)) (M V : List Rat → Rat) : Prop :=
  ∀ c ∈ corners b, lookup t c = some (some ⟨rowOf Qs c, M c, V c⟩)

/-- minimum / maximum of `f` over the non-empty corner list `c0 :: cs` -/
def cmin (f : List Rat → Rat) (c0 : List Rat) (cs : List (List Rat)) : Rat := cs.foldl (fun m c => min m (f c)) (f c0)
def cmax (f : List Rat → Rat) (c0 : List Rat) (cs : List (List Rat)) : Rat := cs.foldl (fun m c => max m (f c)) (f c0)

/-- the moment intervals handed to the constructor: the hulls of the corner moments when they fit the
    discretised support `[lo, hi]`, otherwise `none` (the constructor derives them from the bounds) -/
def momOf (lo hi : Rat) (M V : List Rat → Rat) (c0 : List Rat) (cs : List (List Rat)) : Option Mom :=
  if momentsFit lo hi (cmin M c0 cs) (cmax M c0 cs) (cmax V c0 cs)
  then some ⟨cmin M c0 cs, cmax M c0 cs, cmin V c0 cs, cmax V c0 cs⟩ else none

/-- what the executed model computes, in closed form: per level the min / max over the corners,
    then `Pbox.__init__`; the moment intervals are the hulls of the corner moments (if they fit) -/
theorem parametric_eq (pos kw : List PSpec) (t : Table) (b : List (Rat × Rat))
    (Qs : List (List Rat → Rat)) (M V : List Rat → Rat) (c0 : List Rat) (cs : List (List Rat))
    (hbox : boxOf pos kw = .ok b) (ht : TableOf t b Qs M V) (hc : corners b = c0 :: cs) :
    parametric true pos kw t = some
      (match (Qs.map fun Q => cmin Q c0 cs).head?, (Qs.map fun Q => cmax Q c0 cs).getLast? with
       | some lo, some hi =>
         (match pboxInit (Qs.map fun Q => cmin Q c0 cs) (Qs.map fun Q => cmax Q c0 cs) with
          | .error e => .error e
          | .ok (l, r) => .ok ⟨l, r, momOf lo hi M V c0 cs⟩)
       | _, _ => .error .Index) := by
  have hl := lookupAll_of t (fun c => ⟨rowOf Qs c, M c, V c⟩) (corners b) ht
  have hrows : List.map (fun e : Entry => e.row) (List.map (fun c => (⟨rowOf Qs c, M c, V c⟩ : Entry)) (c0 :: cs))
      = (c0 :: cs).map (rowOf Qs) := by
    rw [List.map_map]; rfl
  have hmeans : List.map (fun e : Entry => e.mean) (List.map (fun c => (⟨rowOf Qs c, M c, V c⟩ : Entry)) (c0 :: cs))
      = (c0 :: cs).map M := by
    rw [List.map_map]; rfl
  have hvars : List.map (fun e : Entry => e.var) (List.map (fun c => (⟨rowOf Qs c, M c, V c⟩ : Entry)) (c0 :: cs))
      = (c0 :: cs).map V := by
    rw [List.map_map]; rfl
  unfold parametric
  simp only [hbox, Bool.not_true, Bool.false_eq_true, if_false, hl]
  unfold bounds
  rw [allSome_map]
  simp only
  unfold boundsFin
  rw [hc]
  simp only [hrows, hmeans, hvars, colMin_rows, colMax_rows, minL_map_cons, maxL_map_cons, cmin, cmax, momOf]
  congr 1

/-- what a successful call returned -/
theorem parametric_out (pos kw : List PSpec) (t : Table) (b : List (Rat × Rat))
    (Qs : List (List Rat → Rat)) (M V : List Rat → Rat) (c0 : List Rat) (cs : List (List Rat)) (out : Out)
    (hbox : boxOf pos kw = .ok b) (ht : TableOf t b Qs M V) (hc : corners b = c0 :: cs)
    (hout : parametric true pos kw t = some (.ok out)) :
    pboxInit (Qs.map fun Q => cmin Q c0 cs) (Qs.map fun Q => cmax Q c0 cs) = .ok (out.left, out.right) ∧
    ∃ lo hi, (Qs.map fun Q => cmin Q c0 cs).head? = some lo ∧ (Qs.map fun Q => cmax Q c0 cs).getLast? = some hi ∧
      out.mom = momOf lo hi M V c0 cs := by
  rw [parametric_eq pos kw t b Qs M V c0 cs hbox ht hc] at hout
  cases h1 : (Qs.map fun Q => cmin Q c0 cs).head? with
  | none => rw [h1] at hout; simp at hout
  | some lo =>
    cases h2 : (Qs.map fun Q => cmax Q c0 cs).getLast? with
    | none => rw [h1, h2] at hout; simp at hout
    | some hi =>
      rw [h1, h2] at hout
      cases hp : pboxInit (Qs.map fun Q => cmin Q c0 cs) (Qs.map fun Q => cmax Q c0 cs) with
      | error e => rw [hp] at hout; simp at hout
      | ok lr =>
        obtain ⟨l, r⟩ := lr
        rw [hp] at hout
        simp only [Option.some.injEq, Except.ok.injEq] at hout
        subst hout
        exact ⟨rfl, lo, hi, rfl, rfl, rfl⟩

/-- the moment intervals, when the family's are handed over, are the corner hulls -/
theorem momOf_some {lo hi : Rat} {M V : List Rat → Rat} {c0 : List Rat} {cs : List (List Rat)} {m : Mom}
    (h : momOf lo hi M V c0 cs = some m) : m = ⟨cmin M c0 cs, cmax M c0 cs, cmin V c0 cs, cmax V c0 cs⟩ := by
  unfold momOf at h
  split at h
  · injection h with h; exact h.symm
  · cases h

/-- ★ `envelope_encloses`: every member of the parameter box has its quantile, at every grid
    level, between the returned bounds — for any family whose quantile is monotone (either
    direction) in each parameter separately -/
theorem envelope_encloses (pos kw : List PSpec) (t : Table) (b : List (Rat × Rat))
    (Qs : List (List Rat → Rat)) (M V : List Rat → Rat) (θ : List Rat) (out : Out)
    (hbox : boxOf pos kw = .ok b) (ht : TableOf t b Qs M V)
    (hQ : ∀ Q ∈ Qs, CoordMono b Q) (hθ : InBox b θ)
    (hout : parametric true pos kw t = some (.ok out)) :
    List.Forall₂ (· ≤ ·) out.left (rowOf Qs θ) ∧ List.Forall₂ (· ≤ ·) (rowOf Qs θ) out.right := by
  obtain ⟨c0, cs, hc⟩ := List.exists_cons_of_ne_nil (corners_ne_nil b)
  obtain ⟨hp, _⟩ := parametric_out pos kw t b Qs M V c0 cs out hbox ht hc hout
  have hL : List.Forall₂ (· ≤ ·) (Qs.map fun Q => cmin Q c0 cs) (rowOf Qs θ) := by
    apply forall2_map_map
    intro Q hQm
    obtain ⟨c, hcm, hle⟩ := corner_below b Q θ hθ (hQ Q hQm)
    rw [hc, List.mem_cons] at hcm
    obtain ⟨h1, h2⟩ := foldl_min_le Q cs (Q c0)
    rcases hcm with rfl | hcm
    · exact le_trans h1 hle
    · exact le_trans (h2 c hcm) hle
  have hR : List.Forall₂ (· ≤ ·) (rowOf Qs θ) (Qs.map fun Q => cmax Q c0 cs) := by
    apply forall2_map_map
    intro Q hQm
    obtain ⟨c, hcm, hle⟩ := corner_above b Q θ hθ (hQ Q hQm)
    rw [hc, List.mem_cons] at hcm
    obtain ⟨h1, h2⟩ := le_foldl_max Q cs (Q c0)
    rcases hcm with rfl | hcm
    · exact le_trans hle h1
    · exact le_trans hle (h2 c hcm)
  exact pboxInit_brackets hp hL hR

/-- ★ `moments_envelope`: whenever the family's mean and variance intervals are reported
    (`out.mom = some m`: they fit the discretised support) they contain the member's mean and
    variance, provided these are monotone in each parameter separately.  When they do not fit
    (`out.mom = none`) the constructor derives the moments from the bounds: NOT covered here. -/
theorem moments_envelope (pos kw : List PSpec) (t : Table) (b : List (Rat × Rat))
    (Qs : List (List Rat → Rat)) (M V : List Rat → Rat) (θ : List Rat) (out : Out) (m : Mom)
    (hbox : boxOf pos kw = .ok b) (ht : TableOf t b Qs M V)
    (hM : CoordMono b M) (hV : CoordMono b V) (hθ : InBox b θ)
    (hout : parametric true pos kw t = some (.ok out)) (hm : out.mom = some m) :
    (m.meanLo ≤ M θ ∧ M θ ≤ m.meanHi) ∧ (m.varLo ≤ V θ ∧ V θ ≤ m.varHi) := by
  obtain ⟨c0, cs, hc⟩ := List.exists_cons_of_ne_nil (corners_ne_nil b)
  obtain ⟨_, lo, hi, _, _, hmom⟩ := parametric_out pos kw t b Qs M V c0 cs out hbox ht hc hout
  rw [hm] at hmom
  rw [momOf_some hmom.symm]
  have key : ∀ f : List Rat → Rat, CoordMono b f → cmin f c0 cs ≤ f θ ∧ f θ ≤ cmax f c0 cs := by
    intro f hf
    constructor
    · obtain ⟨c, hcm, hle⟩ := corner_below b f θ hθ hf
      rw [hc, List.mem_cons] at hcm
      obtain ⟨h1, h2⟩ := foldl_min_le f cs (f c0)
      rcases hcm with rfl | hcm
      · exact le_trans h1 hle
      · exact le_trans (h2 c hcm) hle
    · obtain ⟨c, hcm, hle⟩ := corner_above b f θ hθ hf
      rw [hc, List.mem_cons] at hcm
      obtain ⟨h1, h2⟩ := le_foldl_max f cs (f c0)
      rcases hcm with rfl | hcm
      · exact le_trans hle h1
      · exact le_trans hle (h2 c hcm)
  exact ⟨key M hM, key V hV⟩

/-- when are the family's moments reported: exactly when the corner hulls fit the support
    `[left-envelope at the first level, right-envelope at the last level]` -/
theorem moments_reported_iff (pos kw : List PSpec) (t : Table) (b : List (Rat × Rat))
    (Qs : List (List Rat → Rat)) (M V : List Rat → Rat) (c0 : List Rat) (cs : List (List Rat)) (out : Out)
    (hbox : boxOf pos kw = .ok b) (ht : TableOf t b Qs M V) (hc : corners b = c0 :: cs)
    (hout : parametric true pos kw t = some (.ok out)) :
    ∃ lo hi, (Qs.map fun Q => cmin Q c0 cs).head? = some lo ∧ (Qs.map fun Q => cmax Q c0 cs).getLast? = some hi ∧
      (out.mom.isSome = true ↔ (lo ≤ cmin M c0 cs ∧ cmax M c0 cs ≤ hi ∧ cmax V c0 cs ≤ (hi - lo) * (hi - lo) / 4)) := by
  obtain ⟨_, lo, hi, h1, h2, hmom⟩ := parametric_out pos kw t b Qs M V c0 cs out hbox ht hc hout
  refine ⟨lo, hi, h1, h2, ?_⟩
  rw [hmom]
  unfold momOf momentsFit
  by_cases ha : lo ≤ cmin M c0 cs <;> by_cases hb : cmax M c0 cs ≤ hi <;>
    by_cases hcv : cmax V c0 cs ≤ (hi - lo) * (hi - lo) / 4 <;> simp [ha, hb, hcv]

/-- ★ `point_params_degenerate`: with point-valued parameters the bounds coincide with the
    family's quantile function at that point, and the moment intervals (when reported) are the
    point's moments -/
theorem point_params_degenerate (pos kw : List PSpec) (t : Table) (b : List (Rat × Rat))
    (Qs : List (List Rat → Rat)) (M V : List Rat → Rat) (out : Out)
    (hbox : boxOf pos kw = .ok b) (ht : TableOf t b Qs M V)
    (hpt : ∀ p ∈ b, p.1 = p.2)
    (hout : parametric true pos kw t = some (.ok out)) :
    out.left = rowOf Qs (b.map Prod.fst) ∧ out.right = rowOf Qs (b.map Prod.fst) ∧
    ∀ m, out.mom = some m →
      m = ⟨M (b.map Prod.fst), M (b.map Prod.fst), V (b.map Prod.fst), V (b.map Prod.fst)⟩ := by
  obtain ⟨c0, cs, hc⟩ := List.exists_cons_of_ne_nil (corners_ne_nil b)
  obtain ⟨hp, lo, hi, _, _, hmom⟩ := parametric_out pos kw t b Qs M V c0 cs out hbox ht hc hout
  have hall := corners_point b hpt
  rw [hc] at hall
  have h0 : c0 = b.map Prod.fst := hall c0 (by simp)
  have hcs : ∀ c ∈ cs, c = b.map Prod.fst := fun c hcm => hall c (by simp [hcm])
  have kmin : ∀ f : List Rat → Rat, cmin f c0 cs = f (b.map Prod.fst) := by
    intro f
    unfold cmin
    rw [h0]
    exact foldl_min_const f _ cs (fun c hcm => by rw [hcs c hcm])
  have kmax : ∀ f : List Rat → Rat, cmax f c0 cs = f (b.map Prod.fst) := by
    intro f
    unfold cmax
    rw [h0]
    exact foldl_max_const f _ cs (fun c hcm => by rw [hcs c hcm])
  simp only [kmin, kmax] at hp
  refine ⟨?_, ?_, ?_⟩
  · rcases pboxInit_cases hp with ⟨h1, _⟩ | ⟨h1, _, _⟩ <;> exact h1
  · rcases pboxInit_cases hp with ⟨_, h2⟩ | ⟨_, h2, _⟩ <;> exact h2
  · intro m hm
    rw [hm] at hmom
    have := momOf_some hmom.symm
    rw [this, kmin, kmax, kmin, kmax]

/-- ○ the bounds are attained: every returned value is the family's quantile at some corner
    (the envelope is the tightest one over the corners) -/
theorem envelope_attained (pos kw : List PSpec) (t : Table) (b : List (Rat × Rat))
    (Qs : List (List Rat → Rat)) (M V : List Rat → Rat) (out : Out)
    (hbox : boxOf pos kw = .ok b) (ht : TableOf t b Qs M V)
    (hout : parametric true pos kw t = some (.ok out)) :
    List.Forall₂ (fun v Q => ∃ c ∈ corners b, v = Q c) out.left Qs ∧
    List.Forall₂ (fun v Q => ∃ c ∈ corners b, v = Q c) out.right Qs := by
  obtain ⟨c0, cs, hc⟩ := List.exists_cons_of_ne_nil (corners_ne_nil b)
  obtain ⟨hp, _⟩ := parametric_out pos kw t b Qs M V c0 cs out hbox ht hc hout
  have amin : List.Forall₂ (fun v Q => ∃ c ∈ corners b, v = Q c) (Qs.map fun Q => cmin Q c0 cs) Qs := by
    rw [List.forall₂_map_left_iff]
    apply List.forall₂_same.mpr
    intro Q _
    rcases foldl_min_mem Q cs (Q c0) with h | ⟨c, hcm, h⟩
    · exact ⟨c0, by simp [hc], h⟩
    · exact ⟨c, by simp [hc, hcm], h⟩
  have amax : List.Forall₂ (fun v Q => ∃ c ∈ corners b, v = Q c) (Qs.map fun Q => cmax Q c0 cs) Qs := by
    rw [List.forall₂_map_left_iff]
    apply List.forall₂_same.mpr
    intro Q _
    rcases foldl_max_mem Q cs (Q c0) with h | ⟨c, hcm, h⟩
    · exact ⟨c0, by simp [hc], h⟩
    · exact ⟨c, by simp [hc, hcm], h⟩
  rcases pboxInit_cases hp with ⟨h1, h2⟩ | ⟨h1, h2, _⟩
  · rw [h1, h2]; exact ⟨amin, amax⟩
  · rw [h1, h2]; exact ⟨amax, amin⟩

/-- ○ a returned parametric p-box is well formed: equal lengths, increasing bounds, `left ≤ right` -/
theorem parametric_wf (pos kw : List PSpec) (t : Table) (b : List (Rat × Rat))
    (Qs : List (List Rat → Rat)) (M V : List Rat → Rat) (out : Out)
    (hbox : boxOf pos kw = .ok b) (ht : TableOf t b Qs M V)
    (hout : parametric true pos kw t = some (.ok out)) :
    out.left.length = out.right.length ∧ isIncreasing out.left = true ∧ isIncreasing out.right = true ∧
    List.Forall₂ (· ≤ ·) out.left out.right := by
  obtain ⟨c0, cs, hc⟩ := List.exists_cons_of_ne_nil (corners_ne_nil b)
  obtain ⟨hp, _⟩ := parametric_out pos kw t b Qs M V c0 cs out hbox ht hc hout
  exact pboxInit_wf hp

/-! ## instances of the monotonicity hypothesis -/

/-- loc-scale quantile `μ + σ·z` (`z` = the standard quantile at one level, any sign); with fewer
    positional parameters scipy's defaults `loc = 0`, `scale = 1` apply -/
def lsQ (z : Rat) : List Rat → Rat
  | [] => z
  | [μ] => μ + z
  | [μ, σ] => μ + σ * z
  | _ => 0

/-- ★ `locscale_instance`: normal, Gumbel, logistic, Laplace, Rayleigh, exponential (loc, scale) -/
theorem locscale_instance (z : Rat) : ∀ b : List (Rat × Rat), b.length ≤ 2 → CoordMono b (lsQ z)
  | [], _ => trivial
  | [(l, h)], _ => by
    refine ⟨Or.inl ?_, fun x _ _ => trivial⟩
    intro ys hys x y _ hxy _
    rw [inBox_nil_iff] at hys; subst hys
    simp only [lsQ]; linarith
  | [(l1, h1), (l2, h2)], _ => by
    refine ⟨Or.inl ?_, fun μ _ _ => ⟨?_, fun x _ _ => trivial⟩⟩
    · intro ys hys x y _ hxy _
      rw [inBox_cons_iff] at hys
      obtain ⟨s, xs, rfl, _, _, hxs⟩ := hys
      rw [inBox_nil_iff] at hxs; subst hxs
      simp only [lsQ]; linarith
    · by_cases hz : 0 ≤ z
      · left
        intro ys hys x y _ hxy _
        rw [inBox_nil_iff] at hys; subst hys
        simp only [lsQ]; nlinarith
      · right
        intro ys hys x y _ hxy _
        rw [inBox_nil_iff] at hys; subst hys
        simp only [lsQ]; nlinarith
  | _ :: _ :: _ :: _, h => by simp at h

/-- composing with a monotone map keeps the hypothesis (`exp ∘ loc-scale`) -/
theorem coordMono_comp (f : Rat → Rat) (hf : ∀ x y, x ≤ y → f x ≤ f y) :
    ∀ (b : List (Rat × Rat)) (Q : List Rat → Rat), CoordMono b Q → CoordMono b (fun θ => f (Q θ))
  | [], _, _ => trivial
  | (lo, hi) :: b, Q, ⟨hdir, hrest⟩ => by
    refine ⟨?_, fun x h1 h2 => coordMono_comp f hf b (fun ys => Q (x :: ys)) (hrest x h1 h2)⟩
    rcases hdir with h | h
    · exact Or.inl (fun ys hys x y h1 h2 h3 => hf _ _ (h ys hys x y h1 h2 h3))
    · exact Or.inr (fun ys hys x y h1 h2 h3 => hf _ _ (h ys hys x y h1 h2 h3))

/-- the library's lognormal: `scipy.stats.lognorm(s = σ, scale = exp μ).ppf = exp μ · exp(σ z)`;
    `ex` stands for `exp` — assumed monotone and positive, nothing else -/
def lognQ (ex : Rat → Rat) (z : Rat) : List Rat → Rat
  | [μ, σ] => ex μ * ex (σ * z)
  | _ => 0

theorem lognormal_instance (ex : Rat → Rat) (hmono : ∀ x y, x ≤ y → ex x ≤ ex y) (hpos : ∀ x, 0 < ex x)
    (z : Rat) (l1 h1 l2 h2 : Rat) : CoordMono [(l1, h1), (l2, h2)] (lognQ ex z) := by
  refine ⟨Or.inl ?_, fun μ _ _ => ⟨?_, fun x _ _ => trivial⟩⟩
  · intro ys hys x y _ hxy _
    rw [inBox_cons_iff] at hys
    obtain ⟨s, xs, rfl, _, _, hxs⟩ := hys
    rw [inBox_nil_iff] at hxs; subst hxs
    simp only [lognQ]
    exact mul_le_mul_of_nonneg_right (hmono x y hxy) (le_of_lt (hpos _))
  · by_cases hz : 0 ≤ z
    · left
      intro ys hys x y _ hxy _
      rw [inBox_nil_iff] at hys; subst hys
      simp only [lognQ]
      exact mul_le_mul_of_nonneg_left (hmono _ _ (by nlinarith)) (le_of_lt (hpos _))
    · right
      intro ys hys x y _ hxy _
      rw [inBox_nil_iff] at hys; subst hys
      simp only [lognQ]
      exact mul_le_mul_of_nonneg_left (hmono _ _ (by nlinarith)) (le_of_lt (hpos _))

/-- gamma `(a, loc, scale)`: `loc + scale · g a`, `g` = the standard gamma quantile at one level as
    a function of the shape -/
def gamQ (g : Rat → Rat) : List Rat → Rat
  | [a] => g a
  | [a, loc] => loc + g a
  | [a, loc, scale] => loc + scale * g a
  | _ => 0

/-- gamma instance.  ASSUMPTIONS about scipy's quantile (not proved here): `g` is monotone in the
    shape on the shape interval (stochastic ordering of gamma laws) and non-negative; the scale
    interval is non-negative -/
theorem gamma_instance (g : Rat → Rat) (a1 a2 l1 l2 s1 s2 : Rat)
    (hg : ∀ x y, a1 ≤ x → x ≤ y → y ≤ a2 → g x ≤ g y) (hg0 : ∀ x, a1 ≤ x → x ≤ a2 → 0 ≤ g x) (hs : 0 ≤ s1) :
    CoordMono [(a1, a2)] (gamQ g) ∧ CoordMono [(a1, a2), (l1, l2)] (gamQ g) ∧
    CoordMono [(a1, a2), (l1, l2), (s1, s2)] (gamQ g) := by
  refine ⟨⟨Or.inl ?_, fun x _ _ => trivial⟩, ⟨Or.inl ?_, fun a _ _ => ⟨Or.inl ?_, fun x _ _ => trivial⟩⟩,
    ⟨Or.inl ?_, fun a ha1 ha2 => ⟨Or.inl ?_, fun loc _ _ => ⟨Or.inl ?_, fun x _ _ => trivial⟩⟩⟩⟩
  · intro ys hys x y h1 h2 h3
    rw [inBox_nil_iff] at hys; subst hys
    simp only [gamQ]; exact hg x y h1 h2 h3
  · intro ys hys x y h1 h2 h3
    rw [inBox_cons_iff] at hys
    obtain ⟨s, xs, rfl, _, _, hxs⟩ := hys
    rw [inBox_nil_iff] at hxs; subst hxs
    simp only [gamQ]; linarith [hg x y h1 h2 h3]
  · intro ys hys x y _ hxy _
    rw [inBox_nil_iff] at hys; subst hys
    simp only [gamQ]; linarith
  · intro ys hys x y h1 h2 h3
    rw [inBox_cons_iff] at hys
    obtain ⟨loc, xs, rfl, _, _, hxs⟩ := hys
    rw [inBox_cons_iff] at hxs
    obtain ⟨sc, xs', rfl, hsc, _, hxs'⟩ := hxs
    rw [inBox_nil_iff] at hxs'; subst hxs'
    simp only [gamQ]
    have := hg x y h1 h2 h3
    have hsc0 : 0 ≤ sc := le_trans hs hsc
    nlinarith [mul_le_mul_of_nonneg_left this hsc0]
  · intro ys hys x y _ hxy _
    rw [inBox_cons_iff] at hys
    obtain ⟨sc, xs', rfl, _, _, hxs'⟩ := hys
    rw [inBox_nil_iff] at hxs'; subst hxs'
    simp only [gamQ]; linarith
  · intro ys hys x y _ hxy _
    rw [inBox_nil_iff] at hys; subst hys
    simp only [gamQ]
    have := hg0 a ha1 ha2
    nlinarith [mul_le_mul_of_nonneg_right hxy this]

/-- variance of a loc-scale family: `σ² · v` (`v ≥ 0` the standard variance) -/
def lsV (v : Rat) : List Rat → Rat
  | [] => v
  | [_] => v
  | [_, σ] => σ * σ * v
  | _ => 0

theorem locscale_var_instance (v : Rat) (hv : 0 ≤ v) (l1 h1 l2 h2 : Rat) (hs : 0 ≤ l2) :
    CoordMono [] (lsV v) ∧ CoordMono [(l1, h1)] (lsV v) ∧ CoordMono [(l1, h1), (l2, h2)] (lsV v) := by
  refine ⟨trivial, ⟨Or.inl ?_, fun x _ _ => trivial⟩, ⟨Or.inl ?_, fun μ _ _ => ⟨Or.inl ?_, fun x _ _ => trivial⟩⟩⟩
  · intro ys hys x y _ _ _
    rw [inBox_nil_iff] at hys; subst hys
    simp only [lsV]; exact le_refl _
  · intro ys hys x y _ _ _
    rw [inBox_cons_iff] at hys
    obtain ⟨s, xs, rfl, _, _, hxs⟩ := hys
    rw [inBox_nil_iff] at hxs; subst hxs
    simp only [lsV]; exact le_refl _
  · intro ys hys x y hx hxy _
    rw [inBox_nil_iff] at hys; subst hys
    simp only [lsV]
    have hx0 : 0 ≤ x := le_trans hs hx
    have : x * x ≤ y * y := by nlinarith
    exact mul_le_mul_of_nonneg_right this hv

/-- gamma variance `a · scale²` and mean `loc + scale · a` (= `gamQ id`) -/
def gamV : List Rat → Rat
  | [a] => a
  | [a, _] => a
  | [a, _, scale] => a * scale * scale
  | _ => 0

theorem gamma_var_instance (a1 a2 l1 l2 s1 s2 : Rat) (ha : 0 ≤ a1) (hs : 0 ≤ s1) :
    CoordMono [(a1, a2), (l1, l2), (s1, s2)] gamV := by
  refine ⟨Or.inl ?_, fun a ha1 _ => ⟨Or.inl ?_, fun loc _ _ => ⟨Or.inl ?_, fun x _ _ => trivial⟩⟩⟩
  · intro ys hys x y _ hxy _
    rw [inBox_cons_iff] at hys
    obtain ⟨loc, xs, rfl, _, _, hxs⟩ := hys
    rw [inBox_cons_iff] at hxs
    obtain ⟨sc, xs', rfl, hsc, _, hxs'⟩ := hxs
    rw [inBox_nil_iff] at hxs'; subst hxs'
    simp only [gamV]
    nlinarith [mul_self_nonneg sc, mul_le_mul_of_nonneg_right hxy (mul_self_nonneg sc)]
  · intro ys hys x y _ _ _
    rw [inBox_cons_iff] at hys
    obtain ⟨sc, xs', rfl, _, _, hxs'⟩ := hys
    rw [inBox_nil_iff] at hxs'; subst hxs'
    simp only [gamV]; exact le_refl _
  · intro ys hys x y hx hxy _
    rw [inBox_nil_iff] at hys; subst hys
    simp only [gamV]
    have hx0 : 0 ≤ x := le_trans hs hx
    have ha0 : 0 ≤ a := le_trans ha ha1
    have : x * x ≤ y * y := by nlinarith
    nlinarith [mul_le_mul_of_nonneg_left this ha0]

theorem gamma_mean_instance (a1 a2 l1 l2 s1 s2 : Rat) (ha : 0 ≤ a1) (hs : 0 ≤ s1) :
    CoordMono [(a1, a2), (l1, l2), (s1, s2)] (gamQ id) :=
  (gamma_instance id a1 a2 l1 l2 s1 s2 (fun x y _ h _ => h) (fun x h _ => le_trans ha h) hs).2.2

/-! ## parameter parsing (`wc_scalar_interval`) -/

theorem parse_num (x : Rat) : parseParam (.num x) = .ok ⟨x, x, true⟩ := rfl
theorem parse_single (x : Rat) : parseParam (.seq [x]) = .ok ⟨x, x, true⟩ := rfl
theorem parse_ivl (lo hi : Rat) : parseParam (.ivl lo hi) = .ok ⟨lo, hi, true⟩ := rfl

theorem parse_pair (a b : Rat) (h : a ≤ b) : parseParam (.seq [a, b]) = .ok ⟨a, b, true⟩ := by
  simp [parseParam, mkInterval, h]

/-- error branch: an inverted list / tuple raises `AssertionError` -/
theorem parse_pair_inverted (a b : Rat) (h : b < a) : parseParam (.seq [a, b]) = .error .Assertion := by
  simp [parseParam, mkInterval, not_le.mpr h]

/-- error branch: empty or more than three elements, or an unsupported type: `TypeError` -/
theorem parse_bad_arity (a b c d : Rat) (t : List Rat) :
    parseParam (.seq []) = .error .Type ∧ parseParam (.seq (a :: b :: c :: d :: t)) = .error .Type ∧
    parseParam .other = .error .Type := ⟨rfl, rfl, rfl⟩

/-- every accepted parameter that went through the `lo ≤ hi` check is an ordered interval
    (an `Interval` object handed in directly is ordered by its own constructor: `hI`) -/
theorem parse_checked_ordered (p : PSpec) (i : PIv) (h : parseParam p = .ok i) (hc : i.checked = true)
    (hI : ∀ lo hi, p = .ivl lo hi → lo ≤ hi) : i.lo ≤ i.hi := by
  have mk : ∀ a b : Rat, mkInterval a b = .ok i → i.lo ≤ i.hi := by
    intro a b hm
    unfold mkInterval at hm
    by_cases hab : a ≤ b
    · rw [if_pos hab] at hm; injection hm with hm; subst hm; exact hab
    · rw [if_neg hab] at hm; cases hm
  cases p with
  | num x => injection h with h; subst h; exact le_refl _
  | ivl lo hi => injection h with h; subst h; exact hI lo hi rfl
  | other => cases h
  | seq xs =>
    match xs, h with
    | [], h => cases h
    | [x], h => injection h with h; subst h; exact le_refl _
    | [a, b], h => exact mk a b h
    | [a, b, c], h =>
      simp only [parseParam] at h
      by_cases hc0 : c ≠ 0
      · rw [if_pos hc0] at h; exact mk a b h
      · rw [if_neg hc0] at h; injection h with h; subst h; simp at hc
    | _ :: _ :: _ :: _ :: _, h => cases h

/-- a call with two-element lists for every positional parameter denotes exactly that box -/
theorem boxOf_pairs : ∀ (b : List (Rat × Rat)), (∀ p ∈ b, p.1 ≤ p.2) →
    boxOf (b.map fun p => .seq [p.1, p.2]) [] = .ok b := by
  intro b hb
  have h1 : ∀ (b : List (Rat × Rat)), (∀ p ∈ b, p.1 ≤ p.2) →
      parseParams (b.map fun p => .seq [p.1, p.2]) = .ok (b.map fun p => ⟨p.1, p.2, true⟩) := by
    intro b
    induction b with
    | nil => intro _; rfl
    | cons p t ih =>
      intro hb
      simp only [List.map_cons, parseParams, parse_pair p.1 p.2 (hb p (by simp)),
        ih (fun q hq => hb q (by simp [hq]))]
  have h2 : ∀ (b : List (Rat × Rat)), toNumpy (b.map fun p => (⟨p.1, p.2, true⟩ : PIv)) = .ok b := by
    intro b
    induction b with
    | nil => rfl
    | cons p t ih => simp only [List.map_cons, toNumpy, ih, if_true]
  simp only [boxOf, h1 b hb, parseParams, List.append_nil, h2 b]

/-! ## bespoke `uniform` -/

/-- the library's grid level `i` of `n`: `np.linspace(0.001, 0.999, n)[i]` -/
def pLevel (n i : Nat) : Rat := 1 / 1000 + (i : Rat) * ((999 / 1000 - 1 / 1000) / ((n : Rat) - 1))

theorem linspace_getElem? (a b : Rat) (n i : Nat) (hi : i < n) :
    (linspace a b n)[i]? = some (a + (i : Rat) * ((b - a) / ((n : Rat) - 1))) := by
  simp [linspace, List.getElem?_map, List.getElem?_range hi]

theorem pLevel_is_grid (n i : Nat) (hi : i < n) :
    (linspace (1 / 1000) (999 / 1000) n)[i]? = some (pLevel n i) := by
  rw [linspace_getElem? _ _ n i hi]; rfl

theorem linspace_length (a b : Rat) (n : Nat) : (linspace a b n).length = n := by
  simp [linspace]

theorem linspace_increasing_imp (a b : Rat) (n : Nat) (hn : 2 ≤ n) (h : isIncreasing (linspace a b n) = true) : a ≤ b := by
  obtain ⟨k, rfl⟩ : ∃ k, n = k + 2 := ⟨n - 2, by omega⟩
  have hr : List.range (k + 2) = 0 :: 1 :: (List.range k).map (fun j => j + 2) := by
    rw [List.range_succ_eq_map, List.range_succ_eq_map]
    simp [List.map_map, Function.comp_def]
  simp only [linspace, hr, List.map_cons, isIncreasing, Bool.and_eq_true, decide_eq_true_eq] at h
  have h01 := h.1
  have hk : (0 : Rat) < ((k + 2 : Nat) : Rat) - 1 := by push_cast; linarith [(Nat.cast_nonneg k : (0 : Rat) ≤ k)]
  have : 0 ≤ (b - a) / (((k + 2 : Nat) : Rat) - 1) := by
    simp only [Nat.cast_zero, zero_mul, add_zero, Nat.cast_one, one_mul] at h01
    linarith
  have := (div_nonneg_iff.mp this)
  rcases this with ⟨h1, _⟩ | ⟨_, h2⟩
  · linarith
  · linarith

theorem allGe_getElem? : ∀ (l r : List Rat) (j : Nat) (x y : Rat), allGe l r = true →
    l[j]? = some x → r[j]? = some y → y ≤ x
  | [], _, j, x, y, _, hx, _ => by simp at hx
  | _ :: _, [], j, x, y, _, _, hy => by simp at hy
  | a :: l, b :: r, 0, x, y, hg, hx, hy => by
    simp only [allGe, List.zipWith_cons_cons, List.all_cons, Bool.and_eq_true, id, decide_eq_true_eq] at hg
    simp at hx hy; subst hx; subst hy; exact hg.1
  | a :: l, b :: r, j + 1, x, y, hg, hx, hy => by
    simp only [allGe, List.zipWith_cons_cons, List.all_cons, Bool.and_eq_true, id, decide_eq_true_eq] at hg
    simp at hx hy
    exact allGe_getElem? l r j x y (by simpa [allGe] using hg.2) hx hy

/-- what `uniform` returns when it returns -/
theorem uniform_ok (n : Nat) (pa pb : PSpec) (a b : PIv) (out : Out)
    (ha : parseParam pa = .ok a) (hb : parseParam pb = .ok b) (hout : uniform n pa pb = .ok out) :
    pboxInit (linspace a.lo b.lo n) (linspace a.hi b.hi n) = .ok (out.left, out.right) ∧
    out.mom = some ⟨(a.lo + b.lo) / 2, (a.hi + b.hi) / 2,
      max (b.lo - a.hi) 0 * max (b.lo - a.hi) 0 / 12, (b.hi - a.lo) * (b.hi - a.lo) / 12⟩ := by
  simp only [uniform, ha, hb] at hout
  split at hout
  · cases hout
  · split at hout
    · cases hout
    · cases hp : pboxInit (linspace a.lo b.lo n) (linspace a.hi b.hi n) with
      | error e => rw [hp] at hout; cases hout
      | ok lr =>
        obtain ⟨l, r⟩ := lr
        rw [hp] at hout
        injection hout with hout
        subst hout
        exact ⟨rfl, rfl⟩

theorem uni_core_lower (alo a0 blo b0 p τ : Rat) (h1 : alo ≤ a0) (h2 : blo ≤ b0) (hs : alo ≤ blo)
    (hp0 : 0 ≤ p) (hp1 : p ≤ 1) (hτ : τ ≤ p) : alo + τ * (blo - alo) ≤ a0 + p * (b0 - a0) := by
  nlinarith [mul_nonneg (sub_nonneg.2 hp1) (sub_nonneg.2 h1), mul_nonneg hp0 (sub_nonneg.2 h2),
    mul_nonneg (sub_nonneg.2 hτ) (sub_nonneg.2 hs)]

theorem uni_core_upper (ahi a0 bhi b0 p τ : Rat) (h1 : a0 ≤ ahi) (h2 : b0 ≤ bhi) (hs : ahi ≤ bhi)
    (hp0 : 0 ≤ p) (hp1 : p ≤ 1) (hτ : p ≤ τ) : a0 + p * (b0 - a0) ≤ ahi + τ * (bhi - ahi) := by
  nlinarith [mul_nonneg (sub_nonneg.2 hp1) (sub_nonneg.2 h1), mul_nonneg hp0 (sub_nonneg.2 h2),
    mul_nonneg (sub_nonneg.2 hτ) (sub_nonneg.2 hs)]

/-- ★ `uniform_one_step`: for every member `U(a0,b0)` (`a0 ∈ a`, `b0 ∈ b`, `a0 ≤ b0`) the quantile at
    the grid level `p_i` lies between the left bound of the previous step and the right bound of
    the next step (the constructor draws its lines over `i/(n−1)`, not over `p_i`; the two differ
    by at most 0.001 < one step).  `n ≤ 1001` is necessary: beyond it 0.001 exceeds a step. -/
theorem uniform_one_step (n : Nat) (hn2 : 2 ≤ n) (hn : n ≤ 1001) (pa pb : PSpec) (a b : PIv) (out : Out)
    (ha : parseParam pa = .ok a) (hb : parseParam pb = .ok b) (hout : uniform n pa pb = .ok out)
    (a0 b0 : Rat) (ha0 : a.lo ≤ a0 ∧ a0 ≤ a.hi) (hb0 : b.lo ≤ b0 ∧ b0 ≤ b.hi) (hab : a0 ≤ b0)
    (i : Nat) (hi : i < n) :
    out.left.length = n ∧ out.right.length = n ∧
    ∀ l r, out.left[i - 1]? = some l → out.right[min (i + 1) (n - 1)]? = some r →
      l ≤ a0 + pLevel n i * (b0 - a0) ∧ a0 + pLevel n i * (b0 - a0) ≤ r := by
  obtain ⟨hp, _⟩ := uniform_ok n pa pb a b out ha hb hout
  obtain ⟨hlen, hincl, hincr, _⟩ := pboxInit_wf hp
  -- the two lines, and the facts that do not depend on the exchange
  have hm : (0 : Rat) < (n : Rat) - 1 := by
    have : (2 : Rat) ≤ n := by exact_mod_cast hn2
    linarith
  have hm1000 : (n : Rat) - 1 ≤ 1000 := by
    have : (n : Rat) ≤ 1001 := by exact_mod_cast hn
    linarith
  have hd : (1 : Rat) / 1000 ≤ 1 / ((n : Rat) - 1) := one_div_le_one_div_of_le hm hm1000
  have hiq : (i : Rat) + 1 ≤ n := by exact_mod_cast hi
  have ht0 : (0 : Rat) ≤ (i : Rat) * (1 / ((n : Rat) - 1)) := by positivity
  have ht1 : (i : Rat) * (1 / ((n : Rat) - 1)) ≤ 1 := by
    rw [mul_one_div, div_le_one hm]; linarith
  have hpl : pLevel n i = 1 / 1000 + 998 / 1000 * ((i : Rat) * (1 / ((n : Rat) - 1))) := by
    unfold pLevel; ring
  have hp0 : 0 ≤ pLevel n i := by rw [hpl]; linarith
  have hp1 : pLevel n i ≤ 1 := by rw [hpl]; linarith
  have hj1 : i - 1 < n := by omega
  have hj2 : min (i + 1) (n - 1) < n := by omega
  -- τ for the previous step is below p_i, τ for the next step is above
  have hτlo : ((i - 1 : Nat) : Rat) * (1 / ((n : Rat) - 1)) ≤ pLevel n i := by
    rcases Nat.eq_zero_or_pos i with h0 | hpos
    · subst h0; simpa using hp0
    · have : ((i - 1 : Nat) : Rat) = (i : Rat) - 1 := by
        rw [Nat.cast_sub hpos]; simp
      rw [this, hpl]
      have : ((i : Rat) - 1) * (1 / ((n : Rat) - 1)) = (i : Rat) * (1 / ((n : Rat) - 1)) - 1 / ((n : Rat) - 1) := by ring
      rw [this]; linarith
  have hτhi : pLevel n i ≤ ((min (i + 1) (n - 1) : Nat) : Rat) * (1 / ((n : Rat) - 1)) := by
    by_cases hc : i + 1 ≤ n - 1
    · rw [Nat.min_eq_left hc, hpl]
      push_cast
      have : ((i : Rat) + 1) * (1 / ((n : Rat) - 1)) = (i : Rat) * (1 / ((n : Rat) - 1)) + 1 / ((n : Rat) - 1) := by ring
      rw [this]; linarith
    · rw [Nat.min_eq_right (by omega)]
      have : ((n - 1 : Nat) : Rat) = (n : Rat) - 1 := by
        rw [Nat.cast_sub (by omega)]; simp
      rw [this, mul_one_div, div_self (ne_of_gt hm), hpl]; linarith
  have elt : ∀ (x y : Rat) (j : Nat), x + (j : Rat) * ((y - x) / ((n : Rat) - 1)) = x + ((j : Rat) * (1 / ((n : Rat) - 1))) * (y - x) := by
    intro x y j; ring
  have hloL : a.lo ≤ a.hi := le_trans ha0.1 ha0.2
  have hloB : b.lo ≤ b.hi := le_trans hb0.1 hb0.2
  -- bounds for the unexchanged lines, given both are increasing
  have main : a.lo ≤ b.lo → a.hi ≤ b.hi →
      a.lo + ((i - 1 : Nat) : Rat) * ((b.lo - a.lo) / ((n : Rat) - 1)) ≤ a0 + pLevel n i * (b0 - a0) ∧
      a0 + pLevel n i * (b0 - a0) ≤ a.hi + ((min (i + 1) (n - 1) : Nat) : Rat) * ((b.hi - a.hi) / ((n : Rat) - 1)) := by
    intro h1 h2
    rw [elt, elt]
    exact ⟨uni_core_lower _ _ _ _ _ _ ha0.1 hb0.1 h1 hp0 hp1 hτlo, uni_core_upper _ _ _ _ _ _ ha0.2 hb0.2 h2 hp0 hp1 hτhi⟩
  rcases pboxInit_cases hp with ⟨h1, h2⟩ | ⟨h1, h2, hg⟩
  · rw [h1, h2, linspace_length, linspace_length]
    refine ⟨rfl, rfl, ?_⟩
    intro l r hl hr
    rw [linspace_getElem? _ _ n _ hj1] at hl
    rw [linspace_getElem? _ _ n _ hj2] at hr
    injection hl with hl; injection hr with hr
    rw [h1] at hincl; rw [h2] at hincr
    have := main (linspace_increasing_imp _ _ n hn2 hincl) (linspace_increasing_imp _ _ n hn2 hincr)
    rw [← hl, ← hr]; exact this
  · rw [h1, h2, linspace_length, linspace_length]
    refine ⟨rfl, rfl, ?_⟩
    intro l r hl hr
    rw [h1] at hincl; rw [h2] at hincr
    have := main (linspace_increasing_imp _ _ n hn2 hincr) (linspace_increasing_imp _ _ n hn2 hincl)
    -- exchanged: left = upper line, right = lower line, and upper ≤ lower pointwise
    have hl' := linspace_getElem? a.lo b.lo n _ hj1
    have hr' := linspace_getElem? a.hi b.hi n _ hj2
    have e1 := allGe_getElem? _ _ _ _ _ hg hl' hl
    have e2 := allGe_getElem? _ _ _ _ _ hg hr hr'
    exact ⟨le_trans e1 this.1, le_trans this.2 e2⟩

/-- ★ the bespoke uniform's moment intervals contain every member's mean `(a0+b0)/2` and variance
    `(b0−a0)²/12` (after the `fix:`; before it they were the LP estimates of a discretisation) -/
theorem uniform_moments (n : Nat) (pa pb : PSpec) (a b : PIv) (out : Out)
    (ha : parseParam pa = .ok a) (hb : parseParam pb = .ok b) (hout : uniform n pa pb = .ok out)
    (a0 b0 : Rat) (ha0 : a.lo ≤ a0 ∧ a0 ≤ a.hi) (hb0 : b.lo ≤ b0 ∧ b0 ≤ b.hi) (hab : a0 ≤ b0) :
    ∃ m, out.mom = some m ∧
    (m.meanLo ≤ (a0 + b0) / 2 ∧ (a0 + b0) / 2 ≤ m.meanHi) ∧
    (m.varLo ≤ (b0 - a0) * (b0 - a0) / 12 ∧ (b0 - a0) * (b0 - a0) / 12 ≤ m.varHi) := by
  obtain ⟨_, hm⟩ := uniform_ok n pa pb a b out ha hb hout
  refine ⟨_, hm, ?_⟩
  simp only
  have hw0 : 0 ≤ max (b.lo - a.hi) 0 := le_max_right _ _
  have hw1 : max (b.lo - a.hi) 0 ≤ b0 - a0 := max_le (by linarith [ha0.2, hb0.1]) (by linarith)
  have hw2 : b0 - a0 ≤ b.hi - a.lo := by linarith [ha0.1, hb0.2]
  have hw3 : 0 ≤ b0 - a0 := by linarith
  refine ⟨⟨by linarith [ha0.1, hb0.1], by linarith [ha0.2, hb0.2]⟩, ⟨?_, ?_⟩⟩
  · have : max (b.lo - a.hi) 0 * max (b.lo - a.hi) 0 ≤ (b0 - a0) * (b0 - a0) := mul_le_mul hw1 hw1 hw0 hw3
    linarith
  · have : (b0 - a0) * (b0 - a0) ≤ (b.hi - a.lo) * (b.hi - a.lo) := mul_le_mul hw2 hw2 hw3 (le_trans hw3 hw2)
    linarith

/-- ★ point parameters: the bespoke uniform degenerates to a single line, `left = right` -/
theorem uniform_point_degenerate (n : Nat) (pa pb : PSpec) (a b : PIv) (out : Out)
    (ha : parseParam pa = .ok a) (hb : parseParam pb = .ok b) (hout : uniform n pa pb = .ok out)
    (hpa : a.lo = a.hi) (hpb : b.lo = b.hi) :
    out.left = linspace a.lo b.lo n ∧ out.right = linspace a.lo b.lo n ∧
    ∃ m, out.mom = some m ∧ m.meanLo = m.meanHi := by
  obtain ⟨hp, hm⟩ := uniform_ok n pa pb a b out ha hb hout
  rw [← hpa, ← hpb] at hp hm
  refine ⟨?_, ?_, _, hm, rfl⟩
  · rcases pboxInit_cases hp with ⟨e1, _⟩ | ⟨e1, _, _⟩ <;> exact e1
  · rcases pboxInit_cases hp with ⟨_, e2⟩ | ⟨_, e2, _⟩ <;> exact e2

/-! ## `exponential_by_lambda` -/

/-- ★ the rate-parameterised exponential: rows `z/lo` and `z/hi` (`z ≥ 0` the standard exponential
    quantiles) bracket `z/λ` for every rate `λ ∈ [lo, hi]`, `lo > 0`; the moment intervals contain
    `1/λ` and `1/λ²` (after the `fix:`) -/
theorem ebl_encloses (p : PSpec) (i : PIv) (zs : List Rat) (out : Out) (lam : Rat)
    (hp : parseParam p = .ok i) (hlo : 0 < i.lo) (hz : ∀ z ∈ zs, 0 ≤ z)
    (hlam : i.lo ≤ lam ∧ lam ≤ i.hi)
    (hout : exponentialByLambda p (some (zs.map (· / i.lo))) (some (zs.map (· / i.hi))) = .ok out) :
    List.Forall₂ (· ≤ ·) out.left (zs.map (· / lam)) ∧ List.Forall₂ (· ≤ ·) (zs.map (· / lam)) out.right ∧
    ∃ m, out.mom = some m ∧ (m.meanLo ≤ 1 / lam ∧ 1 / lam ≤ m.meanHi) ∧
      (m.varLo ≤ 1 / (lam * lam) ∧ 1 / (lam * lam) ≤ m.varHi) := by
  have hl0 : 0 < lam := lt_of_lt_of_le hlo hlam.1
  have hhi : 0 < i.hi := lt_of_lt_of_le hl0 hlam.2
  have hB : List.Forall₂ (· ≤ ·) (zs.map (· / i.hi)) (zs.map (· / lam)) :=
    forall2_map_map zs _ _ (fun z hzm => div_le_div_of_nonneg_left (hz z hzm) hl0 hlam.2)
  have hA : List.Forall₂ (· ≤ ·) (zs.map (· / lam)) (zs.map (· / i.lo)) :=
    forall2_map_map zs _ _ (fun z hzm => div_le_div_of_nonneg_left (hz z hzm) hlo hlam.1)
  have hm1 : 1 / i.hi ≤ 1 / lam := one_div_le_one_div_of_le hl0 hlam.2
  have hm2 : 1 / lam ≤ 1 / i.lo := one_div_le_one_div_of_le hlo hlam.1
  have hv1 : 1 / (i.hi * i.hi) ≤ 1 / (lam * lam) :=
    one_div_le_one_div_of_le (mul_pos hl0 hl0) (mul_le_mul hlam.2 hlam.2 (le_of_lt hl0) (le_of_lt hhi))
  have hv2 : 1 / (lam * lam) ≤ 1 / (i.lo * i.lo) :=
    one_div_le_one_div_of_le (mul_pos hlo hlo) (mul_le_mul hlam.1 hlam.1 (le_of_lt hlo) (le_of_lt hl0))
  -- `Staircase(a, b)` or `Staircase(b, a)`: either way the result brackets
  have key : ∀ l r, (pboxInit (zs.map (· / i.lo)) (zs.map (· / i.hi)) = .ok (l, r) ∨
      pboxInit (zs.map (· / i.hi)) (zs.map (· / i.lo)) = .ok (l, r)) →
      List.Forall₂ (· ≤ ·) l (zs.map (· / lam)) ∧ List.Forall₂ (· ≤ ·) (zs.map (· / lam)) r := by
    intro l r h
    have hge : allGe (zs.map (· / i.lo)) (zs.map (· / i.hi)) = true := allGe_of_forall2 (forall2_le_trans hB hA)
    rcases h with h | h
    · unfold pboxInit at h
      rw [if_pos hge] at h
      obtain ⟨e1, e2, _⟩ := pboxCheck_ok h
      rw [e1, e2]; exact ⟨hB, hA⟩
    · exact pboxInit_brackets h hB hA
  simp only [exponentialByLambda, hp, hlo, hhi, and_self, if_true] at hout
  split at hout
  · cases hout
  · split at hout
    · cases hout
    · simp only [staircaseO] at hout
      cases h1 : pboxInit (zs.map (· / i.lo)) (zs.map (· / i.hi)) with
      | ok lr =>
        obtain ⟨l, r⟩ := lr
        rw [h1] at hout
        injection hout with hout
        subst hout
        obtain ⟨k1, k2⟩ := key l r (Or.inl h1)
        exact ⟨k1, k2, _, rfl, ⟨hm1, hm2⟩, ⟨hv1, hv2⟩⟩
      | error e =>
        rw [h1] at hout
        cases h2 : pboxInit (zs.map (· / i.hi)) (zs.map (· / i.lo)) with
        | ok lr =>
          obtain ⟨l, r⟩ := lr
          rw [h2] at hout
          injection hout with hout
          subst hout
          obtain ⟨k1, k2⟩ := key l r (Or.inr h2)
          exact ⟨k1, k2, _, rfl, ⟨hm1, hm2⟩, ⟨hv1, hv2⟩⟩
        | error e' => rw [h2] at hout; cases hout

/-! ## non-vacuity: the hypotheses of the theorems above are satisfiable, on the executed model -/

/-- the table the harness builds: one entry per corner -/
def canonicalTable (b : List (Rat × Rat)) (Qs : List (List Rat → Rat)) (M V : List Rat → Rat) : Table :=
  (corners b).map fun c => (c, some ⟨rowOf Qs c, M c, V c⟩)

theorem lookup_canonical (E : List Rat → Entry) : ∀ (cs : List (List Rat)) (c : List Rat), c ∈ cs →
    lookup (cs.map fun c => (c, some (E c))) c = some (some (E c))
  | c' :: cs, c, hc => by
    by_cases h : c' = c
    · subst h; simp [lookup, List.find?_cons]
    · have hc' : c ∈ cs := by
        rcases List.mem_cons.mp hc with h' | h'
        · exact absurd h'.symm h
        · exact h'
      have ih := lookup_canonical E cs c hc'
      simp only [lookup, List.map_cons, List.find?_cons] at ih ⊢
      have hb : (c' == c) = false := by simpa using h
      simp only [hb]
      exact ih

/-- `TableOf` holds for the canonical table of any box and any family -/
theorem tableOf_canonical (b : List (Rat × Rat)) (Qs : List (List Rat → Rat)) (M V : List Rat → Rat) :
    TableOf (canonicalTable b Qs M V) b Qs M V :=
  fun c hc => lookup_canonical (fun c => ⟨rowOf Qs c, M c, V c⟩) (corners b) c hc

/-- a normal-like family at three levels (standard quantiles −1, 0, 1), box μ ∈ [0,1], σ ∈ [1,2] -/
def exBox : List (Rat × Rat) := [(0, 1), (1, 2)]
def exQs : List (List Rat → Rat) := [lsQ (-1), lsQ 0, lsQ 1]
def exPos : List PSpec := [.seq [0, 1], .seq [1, 2]]

example : parametric true exPos [] (canonicalTable exBox exQs (lsQ 0) (lsV 1))
    = some (.ok ⟨[-2, 0, 1], [0, 1, 3], some ⟨0, 1, 1, 4⟩⟩) := by decide +kernel

example : boxOf exPos [] = .ok exBox := by decide +kernel
example : InBox exBox [1/2, 3/2] := by simp [InBox, exBox]; norm_num
example : ∀ Q ∈ exQs, CoordMono exBox Q := by
  intro Q hQ
  simp only [exQs, List.mem_cons, List.not_mem_nil, or_false] at hQ
  rcases hQ with rfl | rfl | rfl <;> exact locscale_instance _ exBox (by simp [exBox])

/-- the whole chain on the concrete instance: member (μ,σ) = (1/2, 3/2) is enclosed at the three levels -/
example : List.Forall₂ (· ≤ ·) [-2, 0, 1] (rowOf exQs [1/2, 3/2]) ∧ List.Forall₂ (· ≤ ·) (rowOf exQs [1/2, 3/2]) [0, 1, 3] :=
  envelope_encloses exPos [] _ exBox exQs (lsQ 0) (lsV 1) [1/2, 3/2] ⟨[-2, 0, 1], [0, 1, 3], some ⟨0, 1, 1, 4⟩⟩
    (by decide +kernel) (tableOf_canonical _ _ _ _)
    (by
      intro Q hQ
      simp only [exQs, List.mem_cons, List.not_mem_nil, or_false] at hQ
      rcases hQ with rfl | rfl | rfl <;> exact locscale_instance _ exBox (by simp [exBox]))
    (by simp [InBox, exBox]; norm_num) (by decide +kernel)

/-- point parameters on the executed model: left = right = the quantile row -/
example : parametric true [.num 3, .seq [2]] [] (canonicalTable [(3, 3), (2, 2)] exQs (lsQ 0) (lsV 1))
    = some (.ok ⟨[1, 3, 5], [1, 3, 5], some ⟨3, 3, 4, 4⟩⟩) := by decide +kernel

/-- bespoke uniform on the executed model (n = 5): lines over i/(n−1), exact moments -/
example : uniform 5 (.seq [0, 1]) (.seq [2, 3]) = .ok ⟨[0, 1/2, 1, 3/2, 2], [1, 3/2, 2, 5/2, 3], some ⟨1, 2, 1/12, 3/4⟩⟩ := by
  decide +kernel

/-- family moments that do not fit the discretised support are not handed over (`mom = none`) -/
example : parametric true exPos [] (canonicalTable exBox exQs (lsQ 0) (lsV 100))
    = some (.ok ⟨[-2, 0, 1], [0, 1, 3], none⟩) := by decide +kernel

/-- a corner where scipy answers NaN (e.g. scale 0): the constructor raises (generic Exception) -/
example : parametric true [.seq [0, 1]] [] [([0], none), ([1], some ⟨[1, 2], 1, 1⟩)] = some (.error .Other) := by
  decide +kernel

/-- crossing bounds are rejected by the constructor -/
example : pboxInit [0, 3] [1, 2] = .error .Other := by decide +kernel

/-- error branches of the executed model -/
example : uniform 5 (.seq [2, 3]) (.seq [0, 1]) = .error .Other := by decide +kernel
example : parametric true [.seq [2, 1]] [] [] = some (.error .Assertion) := by decide +kernel
example : parametric true [.seq [1, 2, 0]] [] [] = some (.error .Attribute) := by decide +kernel
example : parametric false [.seq [1, 2]] [] [] = some (.error .Type) := by decide +kernel

/-- `exponential_by_lambda` on the executed model: rates [1,2], standard quantiles 0, 1, 2 -/
example : exponentialByLambda (.seq [1, 2]) (some ([0, 1, 2].map (· / 1))) (some ([0, 1, 2].map (· / 2)))
    = .ok ⟨[0, 1/2, 1], [0, 1, 2], some ⟨1/2, 1, 1/4, 1⟩⟩ := by decide +kernel

/-- the gamma hypotheses are satisfiable (e.g. `g a = a`, shape in [1,2], scale in [1,3]) -/
example : CoordMono [(1, 2), (0, 1), (1, 3)] (gamQ id) :=
  gamma_mean_instance 1 2 0 1 1 3 (by norm_num) (by norm_num)

end Pun.Param
