import Pun.Props.C17
import Pun.Gen.KSGen
namespace Pun.Gen.KS
theorem gen_consts_eq : c1 = Pun.KS.c1 ∧ table = Pun.KS.table ∧ dflt = Pun.KS.dflt := by decide +kernel
end Pun.Gen.KS
