import Pun.Props.C17
import Pun.Gen.KSGen
/-!
# C17, generated part: the constants of `d_alpha` *as the source has them now*

`Pun/Gen/KSGen.lean` is regenerated from `pba/pbox_free.py` on every run (table, `0.16693`, what a level outside the
table gets, numeric brackets of `c_α = √(ln(1/α)/2)` for the table keys).  Here:
* the extracted constants equal the hand model the driver executes (`gen_consts_eq`) — in particular a level outside the
  table raises (`dflt = none`);
* the extracted table passes the certificate `tableOK` (`gen_certified`), hence `D > 0`, `D` decreasing in `n`, `D`
  decreasing in `alpha` for every `n ≥ 1`, for every value of `c_α` inside its bracket, over every ordered field.
-/
set_option linter.unusedSimpArgs false
set_option linter.unusedVariables false
namespace Pun.Gen.KS
open Pun.KS

theorem gen_consts_eq : c1 = Pun.KS.c1 ∧ table = Pun.KS.table ∧ dflt = Pun.KS.dflt := by
  refine ⟨?_, ?_, ?_⟩
  · norm_num [c1, Pun.KS.c1]
  · norm_num [table, Pun.KS.table, k010, k005, k0025]
  · simp [dflt, Pun.KS.dflt]

/-- every row of the extracted table got a bracket and the whole table passes the certificate -/
def certified : Bool :=
  match entries table cBounds with
  | some es => tableOK c1 es && decide ((es.map fun e => (e.key, e.A)) = table)
  | none => false

theorem gen_certified : certified = true := by decide +kernel

theorem gen_entries : ∃ es, entries table cBounds = some es ∧ tableOK c1 es = true ∧
    (es.map fun e => (e.key, e.A)) = table := by
  have h := gen_certified
  unfold certified at h
  cases he : entries table cBounds with
  | none => rw [he] at h; exact absurd h (by simp)
  | some es =>
    rw [he] at h
    simp only [Bool.and_eq_true, decide_eq_true_eq] at h
    exact ⟨es, rfl, h.1, h.2⟩

variable {K : Type*} [Field K] [LinearOrder K] [IsStrictOrderedRing K]

/-- ★ `D_pos_mono` for the constants in the source: positive for every `n ≥ 1` (`t = 1/√n ∈ (0,1]`) -/
theorem gen_D_pos {es : List Entry} (h : entries table cBounds = some es) {e : Entry} (he : e ∈ es)
    {c t : K} (hc : (e.lo : K) ≤ c) (ht : 0 < t) (ht1 : t ≤ 1) : 0 < Dpoly c (c1 : K) (e.A : K) t := by
  obtain ⟨es', h', hok, _⟩ := gen_entries
  rw [h] at h'; cases h'
  exact D_pos_of_tableOK hok he hc ht ht1

/-- ★ decreasing in the sample size -/
theorem gen_D_decreasing_n {es : List Entry} (h : entries table cBounds = some es) {e : Entry} (he : e ∈ es)
    {c : K} (hc : (e.lo : K) ≤ c) {n m : ℕ} (hn : 0 < n) (hnm : n < m) {tn tm : K} (htn : 0 < tn) (htm : 0 < tm)
    (hn' : (n : K) * tn ^ 2 = 1) (hm' : (m : K) * tm ^ 2 = 1) :
    Dpoly c (c1 : K) (e.A : K) tm < Dpoly c (c1 : K) (e.A : K) tn := by
  obtain ⟨es', h', hok, _⟩ := gen_entries
  rw [h] at h'; cases h'
  exact D_decreasing_n_of_tableOK hok he hc hn hnm htn htm hn' hm'

/-- ★ decreasing in the level -/
theorem gen_D_decreasing_alpha {es : List Entry} (h : entries table cBounds = some es) {e e' : Entry}
    (he : e ∈ es) (he' : e' ∈ es) (hk : e.key < e'.key) {c c' t : K} (hc : (e.lo : K) ≤ c)
    (hc' : c' ≤ (e'.hi : K)) (ht : 0 < t) (ht1 : t ≤ 1) :
    Dpoly c' (c1 : K) (e'.A : K) t < Dpoly c (c1 : K) (e.A : K) t := by
  obtain ⟨es', h', hok, _⟩ := gen_entries
  rw [h] at h'; cases h'
  exact D_decreasing_alpha_of_tableOK hok he he' hk hc hc' ht ht1

/-- ★ `unsupported_alpha_rejected` for the constants in the source -/
theorem gen_unsupported_rejected {α : ℚ} (h : lookup table α = none) (n : ℕ) (r1 r2 : ℚ) :
    dAlphaWith c1 table dflt n α r1 r2 = .error .Value := by
  obtain ⟨h1, h2, h3⟩ := gen_consts_eq
  rw [h1, h2, h3]
  rw [h2] at h
  exact unsupported_alpha_rejected h n r1 r2

end Pun.Gen.KS
