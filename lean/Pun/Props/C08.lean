import Pun.Model.Dss
import Pun.Gen.GridGen
namespace Pun.Props.C08
theorem placeholder : True := trivial
end Pun.Props.C08
