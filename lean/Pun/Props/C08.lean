import Pun.Lemmas.Grid
import Pun.Gen.GridGen
import Mathlib.Tactic.FieldSimp
import Mathlib.Tactic.Positivity
import Mathlib.Tactic.NormNum
import Mathlib.Tactic.Push
/-!
# C08 — Dempster–Shafer structures convert to their belief / plausibility p-box

All theorems are about `Pun.Dss.stacking` / `Pun.Dss.roundtrip`, the functions the driver executes,
for ANY grid `g` of levels in `(0,1]` and any number of focal elements; the last section instantiates
the grid hypotheses for the grid regenerated from `params.py` (`Pun.Gen.pValues`).

* `stacking_geninv`         ★ left/right bound at every grid level = generalised inverse of the
                              plausibility / belief function (smallest endpoint whose cumulated mass reaches the level)
* `stacking_perm_invariant` ★ any listing order of the focal elements gives the same p-box
* `stacking_split_invariant`★ a focal element split into copies sharing its mass gives the same p-box
* `roundtrip`               ★ `to_dss().to_pbox()` is the identity on well-formed p-boxes
* `grid_hit`                ○ a cumulated mass equal to the level selects that focal element
-/
set_option linter.unusedSimpArgs false
set_option linter.unusedVariables false
namespace Pun.Props.C08
open Pun Pun.Grid Pun.Dss

/-- every grid level is a probability level in `(0,1]`, and the levels are listed in non-decreasing order -/
def GridOK (g : List ℚ) : Prop := (∀ p ∈ g, 0 < p ∧ p ≤ 1) ∧ g.Pairwise (· ≤ ·)

theorem mapOpt_spec (f : ℚ → Option ℚ) (Q : ℚ → ℚ → Prop) (g : List ℚ)
    (h : ∀ p ∈ g, ∃ v, f p = some v ∧ Q p v) :
    ∃ l, mapOpt f g = some l ∧ l.length = g.length ∧
      ∀ (i : Nat) (p : ℚ), g[i]? = some p → ∃ a, l[i]? = some a ∧ Q p a := by
  induction g with
  | nil => exact ⟨[], rfl, rfl, by simp⟩
  | cons x r ih =>
    obtain ⟨v, hv, hq⟩ := h x (by simp)
    obtain ⟨l, hl, hlen, hspec⟩ := ih (fun p hp => h p (List.mem_cons_of_mem _ hp))
    refine ⟨v :: l, by simp only [mapOpt, hv, hl], by simp [hlen], ?_⟩
    intro i p hp
    cases i with
    | zero => simp only [List.getElem?_cons_zero, Option.some.injEq] at hp; subst hp; exact ⟨v, by simp, hq⟩
    | succ j => simp only [List.getElem?_cons_succ] at hp ⊢; exact hspec j p hp

/-- one bound: the model's lookup at every grid level is the generalised inverse of the cumulated mass -/
theorem bound_spec (g s w : List ℚ) (hv : ValidW s w) (hg : GridOK g) :
    ∃ e l, getEcdf s w = some e ∧ bound g e = some l ∧ l.length = g.length ∧
      ∀ (i : Nat) (p : ℚ), g[i]? = some p → ∃ a, l[i]? = some a ∧ IsGenInv (massLE (s.zip w)) p a := by
  obtain ⟨e0, he0⟩ : ∃ e, getEcdf s w = some e := by
    obtain ⟨e, _, he, _⟩ := model_geninv s w hv 1 (by norm_num) (le_refl _)
    exact ⟨e, he⟩
  have h : ∀ p ∈ g, ∃ v, interpNext (extendEcdf e0) p = some v ∧ IsGenInv (massLE (s.zip w)) p v := by
    intro p hp
    obtain ⟨e, v, he, hi, hgi⟩ := model_geninv s w hv p (hg.1 p hp).1 (hg.1 p hp).2
    rw [he0, Option.some.injEq] at he; subst he
    exact ⟨v, hi, hgi⟩
  obtain ⟨l, hl, hlen, hspec⟩ := mapOpt_spec _ _ g h
  exact ⟨e0, l, he0, hl, hlen, hspec⟩

theorem allLE_get {l r : List ℚ} (h : allLE l r = true) {i : Nat} {a b : ℚ}
    (ha : l[i]? = some a) (hb : r[i]? = some b) : a ≤ b := by
  induction l generalizing r i with
  | nil => simp at ha
  | cons x l ih =>
    cases r with
    | nil => simp at hb
    | cons y r =>
      simp only [allLE, Bool.and_eq_true, decide_eq_true_eq] at h
      cases i with
      | zero => simp at ha hb; subst ha; subst hb; exact h.1
      | succ j => simp at ha hb; exact ih h.2 ha hb

theorem allGE_get {l r : List ℚ} (h : allGE l r = true) {i : Nat} {a b : ℚ}
    (ha : l[i]? = some a) (hb : r[i]? = some b) : b ≤ a := by
  induction l generalizing r i with
  | nil => simp at ha
  | cons x l ih =>
    cases r with
    | nil => simp at hb
    | cons y r =>
      simp only [allGE, Bool.and_eq_true, decide_eq_true_eq] at h
      cases i with
      | zero => simp at ha hb; subst ha; subst hb; exact h.1
      | succ j => simp at ha hb; exact ih h.2 ha hb

/-- belief ≤ plausibility: the mass of focal elements entirely below `t` is at most the mass of those starting below `t` -/
theorem bel_le_pl (lo hi w : List ℚ) (hlen : lo.length = hi.length) (hle : allLE lo hi = true)
    (hw : ∀ x ∈ w, 0 ≤ x) (t : ℚ) :
    massLE (hi.zip w) t ≤ massLE (lo.zip w) t := by
  induction lo generalizing hi w with
  | nil =>
    cases hi with
    | nil => simp [massLE]
    | cons y hi => simp at hlen
  | cons x lo ih =>
    cases hi with
    | nil => simp at hlen
    | cons y hi =>
      cases w with
      | nil => simp [massLE]
      | cons m w =>
        simp only [allLE, Bool.and_eq_true, decide_eq_true_eq] at hle
        have hm : 0 ≤ m := hw m (by simp)
        have := ih hi w (by simpa using hlen) hle.2 (fun x hx => hw x (List.mem_cons_of_mem _ hx))
        simp only [List.zip_cons_cons, massLE]
        by_cases h1 : y ≤ t
        · have h2 : x ≤ t := le_trans hle.1 h1
          simp only [h1, h2, if_true]; linarith
        · simp only [h1, if_false]; split <;> linarith

theorem allLE_of_get (l r : List ℚ) (hlen : l.length = r.length)
    (h : ∀ (i : Nat) (a b : ℚ), l[i]? = some a → r[i]? = some b → a ≤ b) : allLE l r = true := by
  induction l generalizing r with
  | nil => cases r <;> rfl
  | cons x l ih =>
    cases r with
    | nil => simp at hlen
    | cons y r =>
      simp only [allLE, Bool.and_eq_true, decide_eq_true_eq]
      exact ⟨h 0 x y (by simp) (by simp), ih r (by simpa using hlen)
        (fun i a b ha hb => h (i + 1) a b (by simpa using ha) (by simpa using hb))⟩

theorem sortedB_of_get (l : List ℚ)
    (h : ∀ (i : Nat) (a b : ℚ), l[i]? = some a → l[i + 1]? = some b → a ≤ b) : sortedB l = true := by
  induction l with
  | nil => rfl
  | cons x l ih =>
    cases l with
    | nil => rfl
    | cons y r =>
      simp only [sortedB, Bool.and_eq_true, decide_eq_true_eq]
      exact ⟨h 0 x y (by simp) (by simp),
        ih (fun i a b ha hb => h (i + 1) a b (by simpa using ha) (by simpa using hb))⟩

theorem pairwise_of_sortedB (l : List ℚ) (h : sortedB l = true) : l.Pairwise (· ≤ ·) := by
  induction l with
  | nil => simp
  | cons x l ih =>
    cases l with
    | nil => simp
    | cons y r =>
      simp only [sortedB, Bool.and_eq_true, decide_eq_true_eq] at h
      have hp := ih h.2
      rw [List.pairwise_cons] at hp ⊢
      refine ⟨?_, ih h.2⟩
      intro z hz
      rcases List.mem_cons.mp hz with rfl | hz
      · exact h.1
      · exact le_trans h.1 (hp.1 z hz)

theorem pairwise_get (l : List ℚ) (hs : l.Pairwise (· ≤ ·)) :
    ∀ (i j : Nat) (a b : ℚ), i ≤ j → l[i]? = some a → l[j]? = some b → a ≤ b := by
  induction l with
  | nil => intro i j a b _ ha; simp at ha
  | cons x r ih =>
    rw [List.pairwise_cons] at hs
    intro i j a b hij ha hb
    cases i with
    | zero =>
      simp at ha; subst ha
      cases j with
      | zero => simp at hb; subst hb; exact le_refl _
      | succ j => simp only [List.getElem?_cons_succ] at hb; exact hs.1 b (List.mem_of_getElem? hb)
    | succ i =>
      cases j with
      | zero => omega
      | succ j =>
        simp only [List.getElem?_cons_succ] at ha hb
        exact ih hs.2 i j a b (by omega) ha hb

/-- the generalised inverse is monotone in the level -/
theorem geninv_mono {F : ℚ → ℚ} {p p' a a' : ℚ} (hp : p ≤ p') (h : IsGenInv F p a) (h' : IsGenInv F p' a') : a ≤ a' := by
  by_contra hc
  have := h.2 a' (not_le.mp hc)
  have := h'.1
  linarith

/-- a bound array that is the generalised inverse at every level of a sorted grid is non-decreasing -/
theorem sortedB_of_geninv (g l : List ℚ) (F : ℚ → ℚ) (hgs : g.Pairwise (· ≤ ·)) (hlen : l.length = g.length)
    (hspec : ∀ (i : Nat) (p : ℚ), g[i]? = some p → ∃ a, l[i]? = some a ∧ IsGenInv F p a) : sortedB l = true := by
  apply sortedB_of_get
  intro i a b ha hb
  have hi : i + 1 < g.length := by rw [← hlen]; exact (List.getElem?_eq_some_iff.mp hb).1
  have hi0 : i < g.length := by omega
  obtain ⟨a1, ha1, h1⟩ := hspec i g[i] (by simp [hi0])
  obtain ⟨b1, hb1, h2⟩ := hspec (i + 1) g[i + 1] (by simp [hi])
  rw [ha] at ha1; rw [hb] at hb1
  simp only [Option.some.injEq] at ha1 hb1; subst ha1; subst hb1
  exact geninv_mono (pairwise_get g hgs i (i + 1) _ _ (by omega) (by simp [hi0]) (by simp [hi])) h1 h2

theorem allLE_of_allGE (l r : List ℚ) (hlen : l.length = r.length) (h : allGE l r = true) : allLE r l = true := by
  induction l generalizing r with
  | nil => cases r <;> rfl
  | cons x l ih =>
    cases r with
    | nil => simp at hlen
    | cons y r =>
      simp only [allGE, allLE, Bool.and_eq_true, decide_eq_true_eq] at h ⊢
      exact ⟨h.1, ih r (by simpa using hlen) h.2⟩

theorem geninv_le {F G : ℚ → ℚ} (hFG : ∀ t, G t ≤ F t) {x a b : ℚ}
    (ha : IsGenInv F x a) (hb : IsGenInv G x b) : a ≤ b := by
  by_contra hc
  have := ha.2 b (not_le.mp hc)
  have := hb.1
  have := hFG b
  linarith

/-- ★ `stacking` on a valid DS structure (at least one focal interval, `lo ≤ hi`, non-negative masses summing
to one): it succeeds, and at every grid level the left bound is the generalised inverse of the plausibility
function `t ↦ Σ{m_k | lo_k ≤ t}` and the right bound that of the belief function `t ↦ Σ{m_k | hi_k ≤ t}`. -/
theorem stacking_geninv (g lo hi w : List ℚ) (hlen : lo.length = hi.length) (hv : ValidW lo w)
    (hle : allLE lo hi = true) (hg : GridOK g) :
    ∃ P, stacking g lo hi (some w) = .ok P ∧ P.left.length = g.length ∧ P.right.length = g.length ∧
      ∀ (i : Nat) (p : ℚ), g[i]? = some p → ∃ a b, P.left[i]? = some a ∧ P.right[i]? = some b ∧
        IsGenInv (massLE (lo.zip w)) p a ∧ IsGenInv (massLE (hi.zip w)) p b := by
  have hv2 : ValidW hi w := ⟨hlen ▸ hv.len, by
    intro h; apply hv.ne; apply List.eq_nil_of_length_eq_zero; rw [hlen, h]; rfl, hv.nonneg, hv.sum1⟩
  obtain ⟨e1, l, he1, hl, hllen, hlspec⟩ := bound_spec g lo w hv hg
  obtain ⟨e2, r, he2, hr, hrlen, hrspec⟩ := bound_spec g hi w hv2 hg
  have hpos : ¬ lo.length < 1 := by
    have := List.length_pos_iff.mpr hv.ne; omega
  have hsl : sortedB l = true := sortedB_of_geninv g l _ hg.2 hllen hlspec
  have hsr : sortedB r = true := sortedB_of_geninv g r _ hg.2 hrlen hrspec
  have hlr : allLE l r = true := by
    apply allLE_of_get l r (hllen.trans hrlen.symm)
    intro i a b ha hb
    have hig : i < g.length := by rw [← hllen]; exact (List.getElem?_eq_some_iff.mp ha).1
    obtain ⟨a1, ha1, h1⟩ := hlspec i g[i] (by simp [hig])
    obtain ⟨b1, hb1, h2⟩ := hrspec i g[i] (by simp [hig])
    rw [ha] at ha1; rw [hb] at hb1
    simp only [Option.some.injEq] at ha1 hb1; subst ha1; subst hb1
    exact geninv_le (bel_le_pl lo hi w hlen hle hv.nonneg) h1 h2
  have hwf : wfB (switch l r) = true := by
    unfold switch wfB
    by_cases hsw : allGE l r = true
    · simp only [hsw, if_true, hsl, hsr, allLE_of_allGE l r (hllen.trans hrlen.symm) hsw, Bool.and_self]
    · simp only [hsw, Bool.false_eq_true, if_false, hsl, hsr, hlr, Bool.and_self]
  have hst : stacking g lo hi (some w) = .ok (switch l r) := by
    simp only [stacking, hlen, ne_eq, not_true_eq_false, if_false, hle, Bool.not_true, Bool.false_eq_true,
      weightsOf, hv2.len.symm, he1, he2, hl, hr, hlen ▸ hpos, hwf, if_true]
  refine ⟨switch l r, hst, ?_⟩
  have key : ∀ (i : Nat) (p : ℚ), g[i]? = some p → ∃ a b, l[i]? = some a ∧ r[i]? = some b ∧
      IsGenInv (massLE (lo.zip w)) p a ∧ IsGenInv (massLE (hi.zip w)) p b ∧ a ≤ b := by
    intro i p hp
    obtain ⟨a, ha, hga⟩ := hlspec i p hp
    obtain ⟨b, hb, hgb⟩ := hrspec i p hp
    exact ⟨a, b, ha, hb, hga, hgb, geninv_le (bel_le_pl lo hi w hlen hle hv.nonneg) hga hgb⟩
  unfold switch
  by_cases hsw : allGE l r = true
  · simp only [hsw, if_true]
    refine ⟨hrlen, hllen, ?_⟩
    intro i p hp
    obtain ⟨a, b, ha, hb, hga, hgb, hab⟩ := key i p hp
    have hba : b ≤ a := allGE_get hsw ha hb
    have : a = b := le_antisymm hab hba
    subst this
    exact ⟨a, a, hb, ha, hga, hgb⟩
  · simp only [hsw, if_false]
    refine ⟨hllen, hrlen, ?_⟩
    intro i p hp
    obtain ⟨a, b, ha, hb, hga, hgb, _⟩ := key i p hp
    exact ⟨a, b, ha, hb, hga, hgb⟩

example : ValidW [1, 2] [1/2, 1/2] ∧ allLE [1, 2] [3, 4] = true ∧ GridOK [1/4, 3/4] :=
  ⟨⟨rfl, by simp, by intro x hx; simp at hx; subst hx; norm_num, by norm_num⟩, by decide +kernel,
   by intro p hp; simp at hp; rcases hp with rfl | rfl <;> norm_num, by norm_num⟩

/-- two valid structures with the same plausibility and belief functions give the same p-box -/
theorem stacking_eq_of_same_mass (g lo hi w lo' hi' w' : List ℚ)
    (hlen : lo.length = hi.length) (hv : ValidW lo w) (hle : allLE lo hi = true)
    (hlen' : lo'.length = hi'.length) (hv' : ValidW lo' w') (hle' : allLE lo' hi' = true) (hg : GridOK g)
    (hpl : ∀ t, massLE (lo.zip w) t = massLE (lo'.zip w') t)
    (hbel : ∀ t, massLE (hi.zip w) t = massLE (hi'.zip w') t) :
    stacking g lo hi (some w) = stacking g lo' hi' (some w') := by
  obtain ⟨P, hP, hl, hr, hs⟩ := stacking_geninv g lo hi w hlen hv hle hg
  obtain ⟨P', hP', hl', hr', hs'⟩ := stacking_geninv g lo' hi' w' hlen' hv' hle' hg
  rw [hP, hP']
  have hFl : massLE (lo.zip w) = massLE (lo'.zip w') := funext hpl
  have hFr : massLE (hi.zip w) = massLE (hi'.zip w') := funext hbel
  have e1 : P.left = P'.left := by
    apply List.ext_getElem?
    intro i
    by_cases hi' : i < g.length
    · obtain ⟨a, b, ha, hb, hga, hgb⟩ := hs i g[i] (by simp [hi'])
      obtain ⟨a', b', ha', hb', hga', hgb'⟩ := hs' i g[i] (by simp [hi'])
      rw [ha, ha', hga.unique (hFl ▸ hga')]
    · rw [List.getElem?_eq_none (by omega), List.getElem?_eq_none (by omega)]
  have e2 : P.right = P'.right := by
    apply List.ext_getElem?
    intro i
    by_cases hi' : i < g.length
    · obtain ⟨a, b, ha, hb, hga, hgb⟩ := hs i g[i] (by simp [hi'])
      obtain ⟨a', b', ha', hb', hga', hgb'⟩ := hs' i g[i] (by simp [hi'])
      rw [hb, hb', hgb.unique (hFr ▸ hgb')]
    · rw [List.getElem?_eq_none (by omega), List.getElem?_eq_none (by omega)]
  cases P; cases P'; simp_all

/-! ## focal elements as triples `(lo, hi, mass)` : order and splitting -/

abbrev Focal := ℚ × ℚ × ℚ
def los (F : List Focal) : List ℚ := F.map (·.1)
def his (F : List Focal) : List ℚ := F.map (·.2.1)
def ms (F : List Focal) : List ℚ := F.map (·.2.2)

/-- `stacking` applied to a list of focal elements -/
def stackF (g : List ℚ) (F : List Focal) : Except Err PB := stacking g (los F) (his F) (some (ms F))

/-- a finite DS structure: at least one focal interval, each `lo ≤ hi`, masses non-negative and summing to one -/
structure ValidDS (F : List Focal) : Prop where
  ne : F ≠ []
  ivl : ∀ f ∈ F, f.1 ≤ f.2.1
  nonneg : ∀ f ∈ F, 0 ≤ f.2.2
  sum1 : (ms F).sum = 1

theorem zip_lo (F : List Focal) : (los F).zip (ms F) = F.map (fun f => (f.1, f.2.2)) := by
  induction F with
  | nil => rfl
  | cons f r ih => simp only [los, ms, List.map_cons, List.zip_cons_cons] at ih ⊢; rw [ih]

theorem zip_hi (F : List Focal) : (his F).zip (ms F) = F.map (fun f => (f.2.1, f.2.2)) := by
  induction F with
  | nil => rfl
  | cons f r ih => simp only [his, ms, List.map_cons, List.zip_cons_cons] at ih ⊢; rw [ih]

theorem allLE_of_valid (F : List Focal) (h : ∀ f ∈ F, f.1 ≤ f.2.1) : allLE (los F) (his F) = true := by
  induction F with
  | nil => rfl
  | cons f r ih =>
    simp only [los, his, List.map_cons, allLE, Bool.and_eq_true, decide_eq_true_eq]
    exact ⟨h f (by simp), ih (fun f' hf' => h f' (List.mem_cons_of_mem _ hf'))⟩

theorem validW_of_valid (F : List Focal) (h : ValidDS F) : ValidW (los F) (ms F) :=
  ⟨by simp [los, ms], by simpa [los] using h.ne,
   by intro x hx; simp only [ms, List.mem_map] at hx; obtain ⟨f, hf, rfl⟩ := hx; exact h.nonneg f hf, h.sum1⟩

/-- plausibility / belief cumulative functions of a DS structure -/
def pl (F : List Focal) (t : ℚ) : ℚ := massLE (F.map (fun f => (f.1, f.2.2))) t
def bel (F : List Focal) (t : ℚ) : ℚ := massLE (F.map (fun f => (f.2.1, f.2.2))) t

/-- ★ the statement of the property for a list of focal elements -/
theorem stackF_geninv (g : List ℚ) (F : List Focal) (hF : ValidDS F) (hg : GridOK g) :
    ∃ P, stackF g F = .ok P ∧ P.left.length = g.length ∧ P.right.length = g.length ∧
      ∀ (i : Nat) (p : ℚ), g[i]? = some p → ∃ a b, P.left[i]? = some a ∧ P.right[i]? = some b ∧
        IsGenInv (pl F) p a ∧ IsGenInv (bel F) p b := by
  have := stacking_geninv g (los F) (his F) (ms F) (by simp [los, his]) (validW_of_valid F hF)
    (allLE_of_valid F hF.ivl) hg
  rw [zip_lo, zip_hi] at this
  exact this

theorem stackF_eq_of_same_mass (g : List ℚ) (F F' : List Focal) (hF : ValidDS F) (hF' : ValidDS F') (hg : GridOK g)
    (hpl : ∀ t, pl F t = pl F' t) (hbel : ∀ t, bel F t = bel F' t) : stackF g F = stackF g F' := by
  apply stacking_eq_of_same_mass g _ _ _ _ _ _ (by simp [los, his]) (validW_of_valid F hF) (allLE_of_valid F hF.ivl)
    (by simp [los, his]) (validW_of_valid F' hF') (allLE_of_valid F' hF'.ivl) hg
  · intro t; rw [zip_lo, zip_lo]; exact hpl t
  · intro t; rw [zip_hi, zip_hi]; exact hbel t

theorem ValidDS.perm {F F' : List Focal} (h : F.Perm F') (hF : ValidDS F) : ValidDS F' :=
  ⟨by intro h0; subst h0; exact hF.ne (List.Perm.eq_nil h), fun f hf => hF.ivl f (h.mem_iff.mpr hf),
   fun f hf => hF.nonneg f (h.mem_iff.mpr hf), by rw [← hF.sum1]; exact (sum_perm (h.map _)).symm⟩

/-- ★ the p-box does not depend on the order in which the focal elements are listed -/
theorem stacking_perm_invariant (g : List ℚ) (F F' : List Focal) (h : F.Perm F') (hF : ValidDS F) (hg : GridOK g) :
    stackF g F = stackF g F' :=
  stackF_eq_of_same_mass g F F' hF (hF.perm h) hg
    (fun t => massLE_perm (h.map _) t) (fun t => massLE_perm (h.map _) t)

/-- ★ splitting one focal element into two copies sharing its mass (anywhere in the list, by
`stacking_perm_invariant`) does not change the p-box -/
theorem stacking_split_invariant (g : List ℚ) (a b m1 m2 : ℚ) (R : List Focal) (h1 : 0 ≤ m1) (h2 : 0 ≤ m2)
    (hF : ValidDS ((a, b, m1 + m2) :: R)) (hg : GridOK g) :
    stackF g ((a, b, m1) :: (a, b, m2) :: R) = stackF g ((a, b, m1 + m2) :: R) := by
  have hF' : ValidDS ((a, b, m1) :: (a, b, m2) :: R) := by
    refine ⟨by simp, ?_, ?_, ?_⟩
    · intro f hf
      simp only [List.mem_cons] at hf
      rcases hf with rfl | rfl | hf
      · exact hF.ivl (a, b, m1 + m2) (by simp)
      · exact hF.ivl (a, b, m1 + m2) (by simp)
      · exact hF.ivl f (List.mem_cons_of_mem _ hf)
    · intro f hf
      simp only [List.mem_cons] at hf
      rcases hf with rfl | rfl | hf
      · exact h1
      · exact h2
      · exact hF.nonneg f (List.mem_cons_of_mem _ hf)
    · have := hF.sum1
      simp only [ms, List.map_cons, List.sum_cons] at this ⊢
      linarith
  apply stackF_eq_of_same_mass g _ _ hF' hF hg
  · intro t; simp only [pl, List.map_cons]; exact massLE_split a m1 m2 _ t
  · intro t; simp only [bel, List.map_cons]; exact massLE_split b m1 m2 _ t

example : ValidDS [((1 : ℚ), (3 : ℚ), (1/4 : ℚ) + 1/4), (2, 4, 1/2)] :=
  ⟨by simp, by intro f hf; simp at hf; rcases hf with rfl | rfl <;> norm_num,
   by intro f hf; simp at hf; rcases hf with rfl | rfl <;> norm_num, by norm_num [ms]⟩

/-- ○ a cumulated mass that equals the level selects that focal endpoint (the comparison is `≥`, not `>`):
if the mass up to and including `s` is exactly `p`, the bound at level `p` is at most `s` -/
theorem grid_hit {F : ℚ → ℚ} {p s a : ℚ} (h : IsGenInv F p a) (hit : F s = p) : a ≤ s := by
  by_contra hc
  have := h.2 s (not_le.mp hc)
  linarith

/-! ## the masses matter only through the comparisons of their cumulated sums with the grid levels

The binary64 `np.cumsum` of the masses is not modelled; this section shows what about it can matter.  Take the
exact masses `w` (non-negative, summing to one) and ANY other positive mass vector `w'` of the same length (for
the real code: the differences of the binary64 cumulated sums, which end at `1 ± a few ulp`).  If, along the
value-sorted lower (upper) endpoints, the running sums of `w` and of `w'` compare the same way (`≤`) against every
grid level, and every running sum of `w'` except the last is below one, then `stacking` returns the same p-box for
`w'` as for `w`.  The harness evaluates exactly this hypothesis on every case (exact rational arithmetic on the
binary64 sums numpy produces) and demands equality whenever it holds. -/

structure SameCmpAll (g s w w' : List ℚ) : Prop where
  cmp : ∀ x ∈ g, SameCmp x (sort3 (zip3 s w w')) 0 0
  nonlast : NonLastBelow (sortByFst (s.zip w')) 0

theorem mapOpt_congr (f f' : ℚ → Option ℚ) (g : List ℚ) (h : ∀ p ∈ g, f p = f' p) : mapOpt f g = mapOpt f' g := by
  induction g with
  | nil => rfl
  | cons x r ih =>
    simp only [mapOpt, h x (by simp), ih (fun p hp => h p (List.mem_cons_of_mem _ hp))]

theorem getEcdf_some (s w : List ℚ) (h : s.zip w ≠ []) : ∃ e, getEcdf s w = some e := by
  cases hL : sortByFst (s.zip w) with
  | nil =>
    have := (sortByFst_perm (s.zip w)).length_eq
    rw [hL] at this
    exact absurd (List.eq_nil_of_length_eq_zero this.symm) h
  | cons p r => obtain ⟨s0, w0⟩ := p; exact ⟨(0, s0) :: (cumW ((s0, w0) :: r) 0).map swap, by simp only [getEcdf, hL]⟩

theorem bound_same_cmp (g s w w' : List ℚ) (hv : ValidW s w) (hlen' : w.length = w'.length)
    (hpos : ∀ x ∈ w', 0 < x) (hg : GridOK g) (hc : SameCmpAll g s w w') :
    ∃ e e', getEcdf s w = some e ∧ getEcdf s w' = some e' ∧ bound g e' = bound g e := by
  obtain ⟨e, he⟩ : ∃ e, getEcdf s w = some e := by
    obtain ⟨e, _, he, _⟩ := model_geninv s w hv 1 (by norm_num) (le_refl _)
    exact ⟨e, he⟩
  have hzne : s.zip w' ≠ [] := by
    intro h
    have hl : (s.zip w').length = 0 := by rw [h]; rfl
    simp only [List.length_zip] at hl
    have := List.length_pos_iff.mpr hv.ne
    have := hv.len
    omega
  obtain ⟨e', he'⟩ := getEcdf_some s w' hzne
  refine ⟨e, e', he, he', ?_⟩
  obtain ⟨hne, hnn, hsum⟩ := sorted_zip_facts s w hv
  unfold bound
  apply mapOpt_congr
  intro x hx
  obtain ⟨h0, h1⟩ := hg.1 x hx
  obtain ⟨e0, he0, hq⟩ := model_eq_nextQ s w hv x h0 h1
  rw [he, Option.some.injEq] at he0; subst he0
  obtain ⟨v, hv'⟩ := nextQ_total (sortByFst (s.zip w)) 0 x (by rw [hsum]; linarith) hne
  have hcong : nextQ (sortByFst (s.zip w')) 0 x = nextQ (sortByFst (s.zip w)) 0 x := by
    rw [← sort3_pi1 s w w' hlen', ← sort3_pi2 s w w' hlen']
    exact (nextQ_congr x _ 0 0 (hc.cmp x hx)).symm
  obtain ⟨e1, he1, hq'⟩ := model_eq_nextQ_pos s w' hpos hc.nonlast x v h0 h1 (hcong.trans hv')
  rw [he', Option.some.injEq] at he1; subst he1
  rw [hq', hq, hv']

/-- ★ two mass vectors whose cumulated sums compare the same way against every grid level give the same p-box:
`w` the exact masses (valid DS structure), `w'` any positive masses of the same length satisfying
`SameCmpAll` for the lower and for the upper endpoints -/
theorem stacking_same_cmp (g lo hi w w' : List ℚ) (hlen : lo.length = hi.length) (hv : ValidW lo w)
    (hg : GridOK g) (hlen' : w.length = w'.length) (hpos : ∀ x ∈ w', 0 < x)
    (hclo : SameCmpAll g lo w w') (hchi : SameCmpAll g hi w w') :
    stacking g lo hi (some w') = stacking g lo hi (some w) := by
  have hv2 : ValidW hi w := ⟨hlen ▸ hv.len, by
    intro h; apply hv.ne; apply List.eq_nil_of_length_eq_zero; rw [hlen, h]; rfl, hv.nonneg, hv.sum1⟩
  obtain ⟨e1, e1', h1, h1', b1⟩ := bound_same_cmp g lo w w' hv hlen' hpos hg hclo
  obtain ⟨e2, e2', h2, h2', b2⟩ := bound_same_cmp g hi w w' hv2 hlen' hpos hg hchi
  simp only [stacking, weightsOf, h1, h1', h2, h2', b1, b2, ← hlen']

example : SameCmp (1/2) [((1 : ℚ), (1/4 : ℚ), (3/10 : ℚ)), (2, 3/4, 7/10)] 0 0 := by
  simp only [SameCmp]; norm_num

/-- ★ the masses as given (exact rationals of the binary64 masses, which sum to one only up to an ulp): for ANY
positive mass vector whose running sums along the value-sorted endpoints stay below one before the last, the
model's bound at a level `0 < x ≤ 1` reached by the total mass is the generalised inverse of the cumulated mass of
those very masses — no normalisation is involved.  This is the exact-rational belief / plausibility reference the
harness evaluates (a cumulated mass that EQUALS a grid level selects that focal element, `grid_hit`). -/
theorem model_geninv_pos (s w : List ℚ) (hpos : ∀ x ∈ w, 0 < x)
    (hnl : NonLastBelow (sortByFst (s.zip w)) 0) (x : ℚ) (h0 : 0 < x) (h1 : x ≤ 1)
    (hreach : x ≤ ((sortByFst (s.zip w)).map (·.2)).sum) (hne : s.zip w ≠ []) :
    ∃ e v, getEcdf s w = some e ∧ interpNext (extendEcdf e) x = some v ∧ IsGenInv (massLE (s.zip w)) x v := by
  have hLne : sortByFst (s.zip w) ≠ [] := by
    intro h
    have := (sortByFst_perm (s.zip w)).length_eq
    rw [h] at this
    exact hne (List.eq_nil_of_length_eq_zero this.symm)
  have hnn : ∀ p ∈ sortByFst (s.zip w), 0 ≤ p.2 := by
    intro p hp
    have hp' : p ∈ s.zip w := (sortByFst_perm _).mem_iff.mp hp
    obtain ⟨a, b⟩ := p
    exact le_of_lt (hpos b (List.of_mem_zip hp').2)
  obtain ⟨v, hv⟩ := nextQ_total (sortByFst (s.zip w)) 0 x (by linarith) hLne
  obtain ⟨e, he, hq⟩ := model_eq_nextQ_pos s w hpos hnl x v h0 h1 hv
  refine ⟨e, v, he, hq, ?_⟩
  obtain ⟨g1, g2⟩ := nextQ_is_geninv _ (sortByFst_sorted _) hnn 0 x v h0 hv
  have hp : ∀ t, massLE (sortByFst (s.zip w)) t = massLE (s.zip w) t := fun t => massLE_perm (sortByFst_perm _) t
  constructor
  · rw [← hp]; linarith
  · intro t ht; rw [← hp]; have := g2 t ht; linarith

/-! ## round trip `to_dss().to_pbox()` -/

/-- a well-formed p-box with `n` steps -/
structure WF (n : Nat) (P : PB) : Prop where
  llen : P.left.length = n
  rlen : P.right.length = n
  lsorted : P.left.Pairwise (· ≤ ·)
  rsorted : P.right.Pairwise (· ≤ ·)
  le : allLE P.left P.right = true

/-- the `i`-th grid level lies in the `i`-th of `n` equal probability bands: `i/n < p_i ≤ (i+1)/n` -/
def GridStep (g : List ℚ) (n : Nat) : Prop :=
  g.length = n ∧ ∀ (i : Nat) (p : ℚ), g[i]? = some p → (i : ℚ) / n < p ∧ p ≤ ((i : ℚ) + 1) / n

theorem sum_replicate (k : Nat) (c : ℚ) : (List.replicate k c).sum = k * c := by
  induction k with
  | zero => simp
  | succ k ih => rw [List.replicate_succ, List.sum_cons, ih]; push_cast; ring

theorem zip_replicate (l : List ℚ) (c : ℚ) : l.zip (List.replicate l.length c) = l.map (fun x => (x, c)) := by
  induction l with
  | nil => rfl
  | cons x r ih => simp only [List.length_cons, List.replicate_succ, List.zip_cons_cons, List.map_cons, ih]

theorem massLE_const (l : List ℚ) (c t : ℚ) :
    massLE (l.map (fun x => (x, c))) t = c * (l.countP (fun y => decide (y ≤ t)) : ℕ) := by
  induction l with
  | nil => simp [massLE]
  | cons x r ih =>
    simp only [List.map_cons, massLE, ih, List.countP_cons]
    by_cases h : x ≤ t
    · simp only [h, if_true, decide_true]; push_cast; ring
    · simp only [h, if_false, decide_false]; push_cast; ring

theorem count_ge (l : List ℚ) (hs : l.Pairwise (· ≤ ·)) (i : Nat) (a : ℚ) (ha : l[i]? = some a) :
    i + 1 ≤ l.countP (fun y => decide (y ≤ a)) := by
  induction l generalizing i with
  | nil => simp at ha
  | cons x r ih =>
    rw [List.pairwise_cons] at hs
    cases i with
    | zero =>
      simp only [List.getElem?_cons_zero, Option.some.injEq] at ha; subst ha
      simp [List.countP_cons]
    | succ j =>
      simp only [List.getElem?_cons_succ] at ha
      have hx : x ≤ a := hs.1 a (List.mem_of_getElem? ha)
      have := ih hs.2 j ha
      simp only [List.countP_cons, hx, decide_true, if_true]
      omega

theorem count_le (l : List ℚ) (hs : l.Pairwise (· ≤ ·)) (i : Nat) (a t : ℚ) (ha : l[i]? = some a) (ht : t < a) :
    l.countP (fun y => decide (y ≤ t)) ≤ i := by
  induction l generalizing i with
  | nil => simp at ha
  | cons x r ih =>
    rw [List.pairwise_cons] at hs
    cases i with
    | zero =>
      simp only [List.getElem?_cons_zero, Option.some.injEq] at ha; subst ha
      have : (x :: r).countP (fun y => decide (y ≤ t)) = 0 := by
        rw [List.countP_eq_zero]
        intro y hy
        simp only [decide_eq_true_eq, not_le]
        rcases List.mem_cons.mp hy with rfl | hy
        · exact ht
        · exact lt_of_lt_of_le ht (hs.1 y hy)
      omega
    | succ j =>
      simp only [List.getElem?_cons_succ] at ha
      have := ih hs.2 j ha
      simp only [List.countP_cons]
      split <;> omega

/-- in a sorted list of `n` equally weighted values the `i`-th value is the generalised inverse of the
cumulated mass at any level in `(i/n, (i+1)/n]` -/
theorem sorted_geninv (l : List ℚ) (n : Nat) (hn : l.length = n) (hs : l.Pairwise (· ≤ ·))
    (i : Nat) (a p : ℚ) (ha : l[i]? = some a) (h1 : (i : ℚ) / n < p) (h2 : p ≤ ((i : ℚ) + 1) / n) :
    IsGenInv (massLE (l.zip (equalW n))) p a := by
  have hnpos : 0 < n := by
    have := (List.getElem?_eq_some_iff.mp ha).1; omega
  have hnq : (0 : ℚ) < n := by exact_mod_cast hnpos
  have hz : l.zip (equalW n) = l.map (fun x => (x, 1 / (n : ℚ))) := by
    unfold equalW; rw [← hn]; exact zip_replicate l _
  rw [hz]
  constructor
  · rw [massLE_const]
    have hc : ((i : ℚ) + 1) ≤ (l.countP (fun y => decide (y ≤ a)) : ℕ) := by
      exact_mod_cast count_ge l hs i a ha
    have : ((i : ℚ) + 1) / n ≤ 1 / (n : ℚ) * (l.countP (fun y => decide (y ≤ a)) : ℕ) := by
      rw [div_le_iff₀ hnq]
      have : 1 / (n : ℚ) * (l.countP (fun y => decide (y ≤ a)) : ℕ) * n = (l.countP (fun y => decide (y ≤ a)) : ℕ) := by
        field_simp
      rw [this]; exact hc
    linarith
  · intro t ht
    rw [massLE_const]
    have hc : ((l.countP (fun y => decide (y ≤ t)) : ℕ) : ℚ) ≤ i := by
      exact_mod_cast count_le l hs i a t ha ht
    have : 1 / (n : ℚ) * (l.countP (fun y => decide (y ≤ t)) : ℕ) ≤ (i : ℚ) / n := by
      rw [le_div_iff₀ hnq]
      have : 1 / (n : ℚ) * (l.countP (fun y => decide (y ≤ t)) : ℕ) * n = (l.countP (fun y => decide (y ≤ t)) : ℕ) := by
        field_simp
      rw [this]; exact hc
    linarith

theorem validW_equal (l : List ℚ) (n : Nat) (hn : l.length = n) (hpos : 0 < n) : ValidW l (equalW n) := by
  have hnq : (n : ℚ) ≠ 0 := by exact_mod_cast (Nat.pos_iff_ne_zero.mp hpos)
  refine ⟨by simp [equalW, hn], by intro h; subst h; simp at hn; omega, ?_, ?_⟩
  · intro x hx
    simp only [equalW, List.mem_replicate] at hx
    rw [hx.2]; positivity
  · simp only [equalW, sum_replicate]; field_simp

/-- ★ converting a well-formed p-box to a DS structure (its `n` steps as focal intervals with mass `1/n`) and
back returns the same p-box, for every grid whose `i`-th level lies in `(i/n, (i+1)/n]` -/
theorem roundtrip_id (g : List ℚ) (n : Nat) (P : PB) (hn : 0 < n) (hP : WF n P) (hg : GridOK g) (hs : GridStep g n) :
    roundtrip g n P = .ok P := by
  obtain ⟨P', hP', hl, hr, hspec⟩ := stacking_geninv g P.left P.right (equalW n) (hP.llen.trans hP.rlen.symm)
    (validW_equal _ n hP.llen hn) hP.le hg
  simp only [roundtrip, toDss]
  rw [hP']
  congr 1
  have e1 : P'.left = P.left := by
    apply List.ext_getElem?
    intro i
    by_cases hi : i < g.length
    · obtain ⟨a, b, ha, hb, hga, hgb⟩ := hspec i g[i] (by simp [hi])
      have hi' : i < P.left.length := by rw [hP.llen, ← hs.1]; exact hi
      obtain ⟨h1, h2⟩ := hs.2 i g[i] (by simp [hi])
      have := sorted_geninv P.left n hP.llen hP.lsorted i P.left[i] g[i] (by simp [hi']) h1 h2
      rw [ha, hga.unique this]; simp [hi']
    · rw [List.getElem?_eq_none (by omega), List.getElem?_eq_none (by rw [hP.llen, ← hs.1]; omega)]
  have e2 : P'.right = P.right := by
    apply List.ext_getElem?
    intro i
    by_cases hi : i < g.length
    · obtain ⟨a, b, ha, hb, hga, hgb⟩ := hspec i g[i] (by simp [hi])
      have hi' : i < P.right.length := by rw [hP.rlen, ← hs.1]; exact hi
      obtain ⟨h1, h2⟩ := hs.2 i g[i] (by simp [hi])
      have := sorted_geninv P.right n hP.rlen hP.rsorted i P.right[i] g[i] (by simp [hi']) h1 h2
      rw [hb, hgb.unique this]; simp [hi']
    · rw [List.getElem?_eq_none (by omega), List.getElem?_eq_none (by rw [hP.rlen, ← hs.1]; omega)]
  cases P; cases P'; simp_all

example : WF 2 ⟨[1, 2], [2, 5]⟩ ∧ GridStep [1/4, 3/4] 2 :=
  ⟨⟨rfl, rfl, by norm_num, by norm_num, by decide +kernel⟩, rfl, by
    intro i p hp
    match i with
    | 0 => simp at hp; subst hp; norm_num
    | 1 => simp at hp; subst hp; norm_num
    | k + 2 => simp at hp⟩

/-! ## the grid of the source (`Params.p_values`, regenerated on every run) satisfies the hypotheses -/

def stepCheck (n : Nat) : List ℚ → Nat → Bool
  | [], _ => true
  | p :: r, i => decide ((i : ℚ) / n < p ∧ p ≤ ((i : ℚ) + 1) / n) && stepCheck n r (i + 1)

theorem stepCheck_spec (n : Nat) (g : List ℚ) (k : Nat) (h : stepCheck n g k = true) :
    ∀ (i : Nat) (p : ℚ), g[i]? = some p → ((k + i : ℕ) : ℚ) / n < p ∧ p ≤ (((k + i : ℕ) : ℚ) + 1) / n := by
  induction g generalizing k with
  | nil => intro i p hp; simp at hp
  | cons x r ih =>
    simp only [stepCheck, Bool.and_eq_true, decide_eq_true_eq] at h
    intro i p hp
    cases i with
    | zero => simp only [List.getElem?_cons_zero, Option.some.injEq] at hp; subst hp; simpa using h.1
    | succ j =>
      simp only [List.getElem?_cons_succ] at hp
      have := ih (k + 1) h.2 j p hp
      have e : k + 1 + j = k + (j + 1) := by omega
      rw [e] at this; exact this

theorem pValues_gridOK : GridOK Gen.pValues :=
  ⟨by decide +kernel, pairwise_of_sortedB _ (by decide +kernel)⟩

theorem pValues_gridStep : GridStep Gen.pValues Gen.steps := by
  refine ⟨by decide +kernel, ?_⟩
  have h : stepCheck Gen.steps Gen.pValues 0 = true := by decide +kernel
  intro i p hp
  have := stepCheck_spec _ _ 0 h i p hp
  simpa using this

/-- ★ `stacking_geninv` for the grid of the source -/
theorem stacking_geninv_source (F : List Focal) (hF : ValidDS F) :
    ∃ P, stackF Gen.pValues F = .ok P ∧ P.left.length = Gen.pValues.length ∧ P.right.length = Gen.pValues.length ∧
      ∀ (i : Nat) (p : ℚ), Gen.pValues[i]? = some p → ∃ a b, P.left[i]? = some a ∧ P.right[i]? = some b ∧
        IsGenInv (pl F) p a ∧ IsGenInv (bel F) p b :=
  stackF_geninv _ F hF pValues_gridOK

/-- ★ `roundtrip_id` for the grid and step count of the source: `Pbox.to_dss().to_pbox()` is the identity -/
theorem roundtrip_source (P : PB) (hP : WF Gen.steps P) : roundtrip Gen.pValues Gen.steps P = .ok P :=
  roundtrip_id _ _ P (by decide) hP pValues_gridOK pValues_gridStep

/-- no grid level is within `10⁻⁹` of a multiple of `1/steps` (the fractional part of `p·steps` stays
`2·10⁻⁷` away from 0 and 1): binary64 rounding of the cumulated masses `k/steps` cannot flip a comparison
in the round trip -/
theorem no_near_coincidence :
    ∀ p ∈ Gen.pValues, (2 : ℚ) / 10000000 < p * Gen.steps - (p * Gen.steps).floor ∧
      p * Gen.steps - (p * Gen.steps).floor < 1 - 2 / 10000000 := by
  decide +kernel

end Pun.Props.C08
