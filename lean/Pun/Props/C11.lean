import Pun.Lemmas.EnvImp
set_option linter.unusedSimpArgs false
set_option linter.unusedVariables false
namespace Pun.EnvImp
open Pun Pun.PBox

theorem env_comm (n : Nat) (X Y : PB) : env n X Y = env n Y X := by
  unfold env
  rw [List.zipWith_comm (as := X.left), List.zipWith_comm (as := X.right)]
  simp only [min_comm, max_comm]

end Pun.EnvImp
