import Pun.Lemmas.EnvImp
/-!
# C11 — envelope and imposition are the lattice join and meet of uncertain numbers

All theorems are about the functions the model driver executes: `Pun.PBox.env`, `Pun.PBox.imp`
(`Pbox.env`, `Pbox.imp`), `Pun.EnvImp.envelope`, `Pun.EnvImp.imposition` (`aggregation.envelope`,
`aggregation.imposition` with their conversion, interval shortcut and left fold) and
`Pun.EnvImp.containsP` (`Pbox.__contains__`), for ANY number of steps `n` and families of ANY size.

Order: `Sub P Q` (`Q` contains `P`) is `Q.left ≤ P.left` and `P.right ≤ Q.right` at every step.
Inputs: `WF n P` (n steps, sorted bounds, `left ≤ right`) — what the `Staircase` constructor
guarantees; operands of the public functions: `Valid n` (proper scalar interval, number, well-formed
p-box).  Outside of that the functions raise; those branches are `envelope_empty`, `convert_other`, ….

"No common distribution" is stated on selections: `Sel P z` — one value per step inside the step
(a sorted selection is a quantile function lying between the bounds, i.e. a distribution in the box).
-/
set_option linter.unusedSimpArgs false
set_option linter.unusedVariables false
namespace Pun.EnvImp
open Pun Pun.PBox

/-! ## ★ the binary methods: least upper bound / greatest lower bound -/

/-- `X.env(Y)` is the pointwise min of the left bounds and max of the right bounds -/
theorem env_pointwise {n : Nat} {X Y : PB} (hX : WF n X) (hY : WF n Y) :
    env n X Y = .ok ⟨List.zipWith min X.left Y.left, List.zipWith max X.right Y.right⟩ := env_ok hX hY

/-- the envelope contains both operands … -/
theorem env_upper {n : Nat} {X Y E : PB} (hX : WF n X) (hY : WF n Y) (h : env n X Y = .ok E) :
    WF n E ∧ Sub X E ∧ Sub Y E := by
  rw [env_ok hX hY] at h
  cases h
  exact ⟨envSpec_wf hX hY, sub_envSpec_left hX hY, sub_envSpec_right hX hY⟩

/-- … and is contained in every p-box that contains both -/
theorem env_least {n : Nat} {X Y E Q : PB} (hX : WF n X) (hY : WF n Y) (h : env n X Y = .ok E)
    (h1 : Sub X Q) (h2 : Sub Y Q) : Sub E Q := by
  rw [env_ok hX hY] at h
  cases h
  exact envSpec_sub h1 h2

/-- `X.imp(Y)` raises exactly when the operands have no common selection, i.e. when some step of
`X` does not meet the same step of `Y`; its own exception (`Exception` → `Other`) is the only one -/
theorem imp_raises_iff {n : Nat} {X Y : PB} (hX : WF n X) (hY : WF n Y) :
    (imp n X Y = .error .Other ↔ ¬ ∃ z, Sel X z ∧ Sel Y z) ∧
    ((∃ E, imp n X Y = .ok E) ↔ ∃ z, Sel X z ∧ Sel Y z) ∧
    ((∃ z, Sel X z ∧ Sel Y z) ↔
      List.Forall₂ (· ≤ ·) (List.zipWith max X.left Y.left) (List.zipWith min X.right Y.right)) := by
  have hiff := compat_iff_common hX hY
  refine ⟨⟨fun h hc => ?_, fun h => imp_err hX hY (fun hc => h (hiff.mp hc))⟩,
    ⟨fun ⟨E, h⟩ => ?_, fun h => ⟨_, imp_ok hX hY (hiff.mpr h)⟩⟩, hiff.symm⟩
  · rw [imp_ok hX hY (hiff.mpr hc)] at h; cases h
  · by_contra hc
    rw [imp_err hX hY (fun hh => hc (hiff.mp hh))] at h; cases h

/-- when it exists the imposition is the pointwise max of the left and min of the right bounds,
it is well formed, and the left bound is a sorted common selection (a common distribution) -/
theorem imp_pointwise {n : Nat} {X Y E : PB} (hX : WF n X) (hY : WF n Y) (h : imp n X Y = .ok E) :
    E = ⟨List.zipWith max X.left Y.left, List.zipWith min X.right Y.right⟩ ∧ WF n E ∧
    E.left.Pairwise (· ≤ ·) ∧ Sel X E.left ∧ Sel Y E.left := by
  have hc : Compat X Y := by
    by_contra hc; rw [imp_err hX hY hc] at h; cases h
  rw [imp_ok hX hY hc] at h
  cases h
  have w := impSpec_wf hX hY hc
  have sE : Sel (impSpec X Y) (impSpec X Y).left := ⟨PLe.rfl _, w.le⟩
  exact ⟨rfl, w, w.lsorted, sel_of_sub (impSpec_sub_left hX hY) sE, sel_of_sub (impSpec_sub_right hX hY) sE⟩

/-- the imposition is contained in both operands … -/
theorem imp_lower {n : Nat} {X Y E : PB} (hX : WF n X) (hY : WF n Y) (h : imp n X Y = .ok E) :
    Sub E X ∧ Sub E Y := by
  obtain ⟨rfl, -⟩ := imp_pointwise hX hY h
  exact ⟨impSpec_sub_left hX hY, impSpec_sub_right hX hY⟩

/-- … and contains every p-box contained in both -/
theorem imp_greatest {n : Nat} {X Y E Q : PB} (hX : WF n X) (hY : WF n Y) (h : imp n X Y = .ok E)
    (h1 : Sub Q X) (h2 : Sub Q Y) : Sub Q E := by
  obtain ⟨rfl, -⟩ := imp_pointwise hX hY h
  exact sub_impSpec h1 h2

/-! ## ★ commutative, idempotent, associative -/

/-- holds for all inputs, well formed or not (same exception included) -/
theorem env_comm (n : Nat) (X Y : PB) : env n X Y = env n Y X := by
  unfold env
  rw [List.zipWith_comm (as := X.left), List.zipWith_comm (as := X.right)]
  simp only [min_comm, max_comm]

theorem imp_comm (n : Nat) (X Y : PB) : imp n X Y = imp n Y X := by
  unfold imp
  rw [List.zipWith_comm (as := X.left), List.zipWith_comm (as := X.right)]
  simp only [min_comm, max_comm]

theorem env_idem {n : Nat} {X : PB} (hX : WF n X) : env n X X = .ok X := by
  rw [env_ok hX hX]; simp [envSpec, zipWith_min_self, zipWith_max_self]

theorem imp_idem {n : Nat} {X : PB} (hX : WF n X) : imp n X X = .ok X := by
  have hc : Compat X X := by simp [Compat, zipWith_min_self, zipWith_max_self]; exact hX.le
  rw [imp_ok hX hX hc]; simp [impSpec, zipWith_min_self, zipWith_max_self]

theorem foldEnv_three (n : Nat) (X Y Z : PB) : foldEnv n [X, Y, Z] = (env n X Y >>= fun E => env n E Z) := by
  simp [foldEnv, reduceM, List.foldlM]

theorem foldImp_three (n : Nat) (X Y Z : PB) : foldImp n [X, Y, Z] = (imp n X Y >>= fun E => imp n E Z) := by
  simp [foldImp, reduceM, List.foldlM]

/-- `(X.env(Y)).env(Z) = X.env(Y.env(Z))` -/
theorem env_assoc {n : Nat} {X Y Z : PB} (hX : WF n X) (hY : WF n Y) (hZ : WF n Z) :
    (env n X Y >>= fun E => env n E Z) = (env n Y Z >>= fun E => env n X E) := by
  have hl : ∀ P ∈ [X, Y, Z], WF n P := by
    intro P hP; simp at hP; rcases hP with rfl | rfl | rfl <;> assumption
  have e : (env n Y Z >>= fun E => env n X E) = (env n Y Z >>= fun E => env n E X) := by
    congr 1; funext E; exact env_comm n X E
  rw [e, ← foldEnv_three, ← foldEnv_three]
  exact foldEnv_perm (by
    have : [X, Y, Z].Perm ([Y, Z] ++ [X]) := List.perm_append_comm (l₁ := [X]) (l₂ := [Y, Z])
    simpa using this) hl

/-- `(X.imp(Y)).imp(Z) = X.imp(Y.imp(Z))`: the same p-box, or both raise -/
theorem imp_assoc {n : Nat} {X Y Z : PB} (hX : WF n X) (hY : WF n Y) (hZ : WF n Z) :
    (imp n X Y >>= fun E => imp n E Z) = (imp n Y Z >>= fun E => imp n X E) := by
  have hl : ∀ P ∈ [X, Y, Z], WF n P := by
    intro P hP; simp at hP; rcases hP with rfl | rfl | rfl <;> assumption
  have e : (imp n Y Z >>= fun E => imp n X E) = (imp n Y Z >>= fun E => imp n E X) := by
    congr 1; funext E; exact imp_comm n X E
  rw [e, ← foldImp_three, ← foldImp_three]
  exact foldImp_perm (by
    have : [X, Y, Z].Perm ([Y, Z] ++ [X]) := List.perm_append_comm (l₁ := [X]) (l₂ := [Y, Z])
    simpa using this) hl

/-! ## ★ absorption, the order recovered from join / meet, monotonicity (the remaining lattice laws) -/

/-- `X.imp(X.env(Y)) = X`: the imposition never raises against an envelope of its own operand -/
theorem imp_env_absorb {n : Nat} {X Y E : PB} (hX : WF n X) (hY : WF n Y) (h : env n X Y = .ok E) :
    imp n X E = .ok X := by
  obtain ⟨wE, sXE, -⟩ := env_upper hX hY h
  have hsel : ∃ z, Sel X z ∧ Sel E z :=
    ⟨X.left, ⟨PLe.rfl _, hX.le⟩, sel_of_sub sXE ⟨PLe.rfl _, hX.le⟩⟩
  obtain ⟨F, hF⟩ := (imp_raises_iff hX wE).2.1.mpr hsel
  have h1 : Sub F X := (imp_lower hX wE hF).1
  have h2 : Sub X F := imp_greatest hX wE hF (Sub.rfl X) sXE
  rw [hF, Sub.antisymm h1 h2]

/-- `X.env(X.imp(Y)) = X` whenever the imposition exists -/
theorem env_imp_absorb {n : Nat} {X Y E : PB} (hX : WF n X) (hY : WF n Y) (h : imp n X Y = .ok E) :
    env n X E = .ok X := by
  obtain ⟨-, wE, -⟩ := imp_pointwise hX hY h
  have sEX : Sub E X := (imp_lower hX hY h).1
  have hF := env_ok hX wE
  have h1 : Sub X (envSpec X E) := (env_upper hX wE hF).2.1
  have h2 : Sub (envSpec X E) X := env_least hX wE hF (Sub.rfl X) sEX
  rw [hF, Sub.antisymm h2 h1]

/-- containment is recovered from the join: `Y` contains `X` iff `X.env(Y) = Y` -/
theorem sub_iff_env {n : Nat} {X Y : PB} (hX : WF n X) (hY : WF n Y) : Sub X Y ↔ env n X Y = .ok Y := by
  constructor
  · intro h
    have hF := env_ok hX hY
    have h1 : Sub Y (envSpec X Y) := (env_upper hX hY hF).2.2
    have h2 : Sub (envSpec X Y) Y := env_least hX hY hF h (Sub.rfl Y)
    rw [hF, Sub.antisymm h2 h1]
  · intro h; exact (env_upper hX hY h).2.1

/-- … and from the meet: `Y` contains `X` iff `X.imp(Y) = X` -/
theorem sub_iff_imp {n : Nat} {X Y : PB} (hX : WF n X) (hY : WF n Y) : Sub X Y ↔ imp n X Y = .ok X := by
  constructor
  · intro h
    have hsel : ∃ z, Sel X z ∧ Sel Y z := ⟨X.left, ⟨PLe.rfl _, hX.le⟩, sel_of_sub h ⟨PLe.rfl _, hX.le⟩⟩
    obtain ⟨F, hF⟩ := (imp_raises_iff hX hY).2.1.mpr hsel
    have h1 : Sub F X := (imp_lower hX hY hF).1
    have h2 : Sub X F := imp_greatest hX hY hF (Sub.rfl X) h
    rw [hF, Sub.antisymm h1 h2]
  · intro h; exact (imp_lower hX hY h).2

/-- the envelope is monotone in both operands -/
theorem env_mono {n : Nat} {X Y X' Y' E E' : PB} (hX : WF n X) (hY : WF n Y) (hX' : WF n X') (hY' : WF n Y')
    (sX : Sub X X') (sY : Sub Y Y') (h : env n X Y = .ok E) (h' : env n X' Y' = .ok E') : Sub E E' := by
  obtain ⟨-, a, b⟩ := env_upper hX' hY' h'
  exact env_least hX hY h (Sub.trans sX a) (Sub.trans sY b)

/-- the imposition is monotone in both operands: widening operands that meet cannot make them miss each
other, and the result only widens -/
theorem imp_mono {n : Nat} {X Y X' Y' E : PB} (hX : WF n X) (hY : WF n Y) (hX' : WF n X') (hY' : WF n Y')
    (sX : Sub X X') (sY : Sub Y Y') (h : imp n X Y = .ok E) : ∃ E', imp n X' Y' = .ok E' ∧ Sub E E' := by
  obtain ⟨-, -, -, s1, s2⟩ := imp_pointwise hX hY h
  obtain ⟨E', hE'⟩ := (imp_raises_iff hX' hY').2.1.mpr ⟨E.left, sel_of_sub sX s1, sel_of_sub sY s2⟩
  obtain ⟨a, b⟩ := imp_lower hX hY h
  exact ⟨E', hE', imp_greatest hX' hY' hE' (Sub.trans a sX) (Sub.trans b sY)⟩

/-! ## ★ the public functions: fold over 1..k operands of mixed kinds, any listing order -/

/-- a family that is not made of intervals only: `envelope` returns the least p-box containing the
(converted) operands -/
theorem envelope_lub {n : Nat} (l : List Opnd) (hv : ∀ x ∈ l, Valid n x) (hmix : l.all Opnd.isIvl = false) :
    ∃ E, envelope n l = .ok (.pb E) ∧ WF n E ∧ (∀ x ∈ l, Sub (conv n x) E) ∧
      (∀ Q, (∀ x ∈ l, Sub (conv n x) Q) → Sub E Q) := by
  have hne : l.map (conv n) ≠ [] := by
    intro h; rw [List.map_eq_nil_iff] at h; subst h; simp at hmix
  obtain ⟨E, e, w, u, m⟩ := foldEnv_spec (l.map (conv n)) hne (conv_wf l hv)
  refine ⟨E, ?_, w, fun x hx => u _ (List.mem_map.mpr ⟨x, hx, rfl⟩), fun Q hQ => m Q ?_⟩
  · simp only [envelope, hmix, convertAll_ok l hv, e, bind, Except.bind]; rfl
  · intro P hP
    obtain ⟨x, hx, rfl⟩ := List.mem_map.mp hP
    exact hQ x hx

/-- a non-empty family of intervals only: the shortcut returns the interval hull `[a, b]` — the
least lower end and the greatest upper end, both attained — and the hull, converted to a p-box, IS
the p-box envelope of the converted intervals -/
theorem hull_is_env {n : Nat} (l : List Opnd) (hne : l ≠ []) (hv : ∀ x ∈ l, Valid n x)
    (hall : l.all Opnd.isIvl = true) :
    ∃ a b, envelope n l = .ok (.ivl a b) ∧ a ≤ b ∧
      (∀ lo hi, Opnd.ivl lo hi ∈ l → a ≤ lo ∧ hi ≤ b) ∧
      (∃ lo hi, Opnd.ivl lo hi ∈ l ∧ lo = a) ∧ (∃ lo hi, Opnd.ivl lo hi ∈ l ∧ hi = b) ∧
      (ivlToPbox n a b >>= fun H => pure (Res.pb H)) =
        (convertAll n l >>= fun xs => foldEnv n xs >>= fun E => pure (Res.pb E)) := by
  obtain ⟨a, b, e, hab, u, ⟨ya, hya, ea⟩, ⟨yb, hyb, eb⟩⟩ :=
    hull_spec (ivlEnds l) (ivlEnds_ne_nil hne hall) (ivlEnds_valid hv)
  have hU : ∀ lo hi, Opnd.ivl lo hi ∈ l → a ≤ lo ∧ hi ≤ b := fun lo hi h => u (lo, hi) (mem_ivlEnds.mpr h)
  refine ⟨a, b, ?_, hab, hU, ⟨ya.1, ya.2, mem_ivlEnds.mp hya, ea⟩, ⟨yb.1, yb.2, mem_ivlEnds.mp hyb, eb⟩, ?_⟩
  · simp only [envelope, hall, e, if_true, bind, Except.bind]
  · -- the constant box on the hull is the least upper bound of the converted operands
    have hne' : l.map (conv n) ≠ [] := by
      intro h; rw [List.map_eq_nil_iff] at h; exact hne h
    obtain ⟨E, eE, -, uE, mE⟩ := foldEnv_spec (l.map (conv n)) hne' (conv_wf l hv)
    have hform : ∀ x ∈ l, ∃ lo hi, x = Opnd.ivl lo hi := by
      intro x hx
      have := (List.all_eq_true.mp hall) x hx
      cases x <;> simp [Opnd.isIvl] at this
      exact ⟨_, _, rfl⟩
    let H : PB := ⟨List.replicate n a, List.replicate n b⟩
    have h1 : Sub E H := by
      apply mE
      intro P hP
      obtain ⟨x, hx, rfl⟩ := List.mem_map.mp hP
      obtain ⟨lo, hi, rfl⟩ := hform x hx
      obtain ⟨h1, h2⟩ := hU lo hi hx
      exact ⟨ple_replicate n h1, ple_replicate n h2⟩
    have h2 : Sub H E := by
      have ha := uE _ (List.mem_map.mpr ⟨_, mem_ivlEnds.mp hya, rfl⟩)
      have hb := uE _ (List.mem_map.mpr ⟨_, mem_ivlEnds.mp hyb, rfl⟩)
      simp only [conv, Sub, ea, eb] at ha hb
      exact ⟨ha.1, hb.2⟩
    have : E = H := Sub.antisymm h1 h2
    simp only [ivlToPbox_ok n hab, convertAll_ok l hv, eE, this, bind, Except.bind, pure, Except.pure, H]

/-- ★ `fold_perm_invariant` for `envelope`: any listing order of the same operands gives the same
result (an `Interval` for intervals only, else the same p-box) -/
theorem envelope_perm {n : Nat} {l₁ l₂ : List Opnd} (hp : l₁.Perm l₂) (hv : ∀ x ∈ l₁, Valid n x) :
    envelope n l₁ = envelope n l₂ := by
  have hv2 : ∀ x ∈ l₂, Valid n x := fun x hx => hv x (hp.mem_iff.mpr hx)
  unfold envelope
  rw [← all_isIvl_perm hp]
  by_cases hall : l₁.all Opnd.isIvl = true
  · simp only [hall, if_true]
    have : reduceM hull2 (ivlEnds l₁) = reduceM hull2 (ivlEnds l₂) :=
      hull_perm (hp.filterMap _) (ivlEnds_valid hv)
    rw [this]
  · have hall' : l₁.all Opnd.isIvl = false := by simpa using hall
    simp only [hall']
    rw [convertAll_ok l₁ hv, convertAll_ok l₂ hv2]
    simp only [bind, Except.bind]
    rw [foldEnv_perm (hp.map _) (conv_wf l₁ hv)]
    rfl

/-- `imposition` of a non-empty valid family with a common selection: the greatest p-box contained
in every (converted) operand; the common selection is a selection of it -/
theorem imposition_glb {n : Nat} (l : List Opnd) (hne : l ≠ []) (hv : ∀ x ∈ l, Valid n x)
    (z : List Rat) (hz : ∀ x ∈ l, Sel (conv n x) z) :
    ∃ E, imposition n l = .ok E ∧ WF n E ∧ Sel E z ∧ (∀ x ∈ l, Sub E (conv n x)) ∧
      (∀ Q, (∀ x ∈ l, Sub Q (conv n x)) → Sub Q E) := by
  have hne' : l.map (conv n) ≠ [] := by
    intro h; rw [List.map_eq_nil_iff] at h; exact hne h
  have hz' : CommonSel (l.map (conv n)) z := by
    intro P hP
    obtain ⟨x, hx, rfl⟩ := List.mem_map.mp hP
    exact hz x hx
  obtain ⟨E, e, w, s, u, m⟩ := foldImp_ok (l.map (conv n)) hne' (conv_wf l hv) z hz'
  refine ⟨E, ?_, w, s, fun x hx => u _ (List.mem_map.mpr ⟨x, hx, rfl⟩), fun Q hQ => m Q ?_⟩
  · simp only [imposition, convertAll_ok l hv, e, bind, Except.bind]
  · intro P hP
    obtain ⟨x, hx, rfl⟩ := List.mem_map.mp hP
    exact hQ x hx

/-- … and it raises (its own exception) when the operands have no common selection -/
theorem imposition_raises {n : Nat} (l : List Opnd) (hne : l ≠ []) (hv : ∀ x ∈ l, Valid n x)
    (hno : ¬ ∃ z, ∀ x ∈ l, Sel (conv n x) z) : imposition n l = .error .Other := by
  have hne' : l.map (conv n) ≠ [] := by
    intro h; rw [List.map_eq_nil_iff] at h; exact hne h
  have hno' : ¬ ∃ z, CommonSel (l.map (conv n)) z := by
    rintro ⟨z, hz⟩
    exact hno ⟨z, fun x hx => hz _ (List.mem_map.mpr ⟨x, hx, rfl⟩)⟩
  simp only [imposition, convertAll_ok l hv, foldImp_err _ hne' (conv_wf l hv) hno', bind, Except.bind]

/-- ★ `fold_perm_invariant` for `imposition` (same p-box, or every order raises) -/
theorem imposition_perm {n : Nat} {l₁ l₂ : List Opnd} (hp : l₁.Perm l₂) (hv : ∀ x ∈ l₁, Valid n x) :
    imposition n l₁ = imposition n l₂ := by
  have hv2 : ∀ x ∈ l₂, Valid n x := fun x hx => hv x (hp.mem_iff.mpr hx)
  unfold imposition
  rw [convertAll_ok l₁ hv, convertAll_ok l₂ hv2]
  simp only [bind, Except.bind]
  exact foldImp_perm (hp.map _) (conv_wf l₁ hv)

/-- the bounds of the fold ARE the iterated pointwise min of the left / max of the right bounds
of the converted operands -/
theorem envelope_pointwise {n : Nat} (x : Opnd) (xs : List Opnd) (hv : ∀ y ∈ x :: xs, Valid n y)
    (hmix : (x :: xs).all Opnd.isIvl = false) :
    envelope n (x :: xs) = .ok (.pb ((xs.map (conv n)).foldl envSpec (conv n x))) := by
  have hw := conv_wf (x :: xs) hv
  simp only [List.map_cons] at hw
  have h := (foldlM_env_eq (xs.map (conv n)) (conv n x) (hw _ (by simp)) (fun P hP => hw P (by simp [hP]))).1
  simp only [envelope, hmix, convertAll_ok (x :: xs) hv, List.map_cons, foldEnv, reduceM, h, bind, Except.bind]
  rfl

/-- when the operands have a common selection the imposition is the iterated pointwise max of the
left / min of the right bounds -/
theorem imposition_pointwise {n : Nat} (x : Opnd) (xs : List Opnd) (hv : ∀ y ∈ x :: xs, Valid n y)
    (z : List Rat) (hz : ∀ y ∈ x :: xs, Sel (conv n y) z) :
    imposition n (x :: xs) = .ok ((xs.map (conv n)).foldl impSpec (conv n x)) := by
  have hw := conv_wf (x :: xs) hv
  simp only [List.map_cons] at hw
  have hz' : CommonSel (conv n x :: xs.map (conv n)) z := by
    intro P hP
    rw [← List.map_cons] at hP
    obtain ⟨y, hy, rfl⟩ := List.mem_map.mp hP
    exact hz y hy
  obtain ⟨E, e, -, -, -, -, rfl⟩ := foldlM_imp_ok (xs.map (conv n)) (conv n x) (hw _ (by simp))
    (fun P hP => hw P (by simp [hP])) z hz'
  simp only [imposition, convertAll_ok (x :: xs) hv, List.map_cons, foldImp, reduceM, e, bind, Except.bind]

/-- ★ `fold_perm_invariant`: both folds, any listing order -/
theorem fold_perm_invariant {n : Nat} {l₁ l₂ : List Opnd} (hp : l₁.Perm l₂) (hv : ∀ x ∈ l₁, Valid n x) :
    envelope n l₁ = envelope n l₂ ∧ imposition n l₁ = imposition n l₂ :=
  ⟨envelope_perm hp hv, imposition_perm hp hv⟩

/-! ## rejected inputs -/

theorem envelope_empty (n : Nat) : envelope n [] = .error .Type := rfl
theorem imposition_empty (n : Nat) : imposition n [] = .error .Type := rfl
/-- an operand that `convert` does not know makes both functions raise `TypeError` whatever the
other (valid) operands are -/
theorem envelope_other {n : Nat} (l₁ l₂ : List Opnd) (hv : ∀ x ∈ l₁, Valid n x) :
    envelope n (l₁ ++ .other :: l₂) = .error .Type ∧ imposition n (l₁ ++ .other :: l₂) = .error .Type := by
  have hc : convertAll n (l₁ ++ .other :: l₂) = .error .Type := by
    induction l₁ with
    | nil => simp [convertAll, convert, bind, Except.bind]
    | cons x xs ih =>
      have h1 := (convert_ok (hv x (by simp))).1
      have h2 := ih (fun y hy => hv y (by simp [hy]))
      simp only [List.cons_append, convertAll, h1, h2, bind, Except.bind]
  have hall : (l₁ ++ .other :: l₂).all Opnd.isIvl = false := by
    simp [Opnd.isIvl]
  constructor
  · simp only [envelope, hall, hc, bind, Except.bind]; rfl
  · simp only [imposition, hc, bind, Except.bind]

/-! ## ★ containment test -/

theorem getLastD_le {a b : List Rat} (h : PLe a b) (d e : Rat) (hde : d ≤ e) : a.getLastD d ≤ b.getLastD e := by
  induction h generalizing d e with
  | nil => simpa using hde
  | cons hab _ ih => simp only [List.getLastD_cons]; exact ih _ _ hab

theorem headD_le {a b : List Rat} (h : PLe a b) (d e : Rat) (hde : d ≤ e) : a.headD d ≤ b.headD e := by
  cases h with
  | nil => simpa using hde
  | cons hab _ => simpa using hab

/-- `Pbox.__contains__` on an object is exactly the support test -/
theorem contains_iff_support (P : PB) (l h : Rat) :
    containsP P (.obj l h) = .ok true ↔ (PBox.lo P ≤ l ∧ h ≤ PBox.hi P) := by
  simp [containsP]

theorem contains_num_iff (P : PB) (c : Rat) :
    containsP P (.num c) = .ok true ↔ (PBox.lo P ≤ c ∧ c ≤ PBox.hi P) := by
  simp [containsP]

/-- auxiliary form without the size guard (for a 0-step box `lo`/`hi` of the model read a default
where the real code raises `IndexError`; the property theorems below carry `0 < n`) -/
theorem contains_of_sub {X P : PB} (h : Sub X P) : containsP P (itemOf X) = .ok true := by
  rw [itemOf, contains_iff_support]
  exact ⟨headD_le h.1 0 0 (le_refl _), getLastD_le h.2 0 0 (le_refl _)⟩

/-- ★ `contains_sound`: the ordering implies `in` -/
theorem contains_sound {n : Nat} (hn : 0 < n) {X P : PB} (hX : WF n X) (hP : WF n P) (h : Sub X P) :
    containsP P (itemOf X) = .ok true := contains_of_sub h

theorem getLastD_replicate (k : Nat) (c : Rat) : (List.replicate k c).getLastD c = c := by
  induction k with
  | zero => rfl
  | succ m ih => rw [List.replicate_succ, List.getLastD_cons, ih]

/-- a real number lying in every step is `in` the p-box -/
theorem contains_num_sound {n : Nat} {P : PB} {c : Rat} (hn : 0 < n)
    (h : Sub ⟨List.replicate n c, List.replicate n c⟩ P) : containsP P (.num c) = .ok true := by
  have := contains_of_sub h
  rw [itemOf, contains_iff_support] at this
  rw [contains_num_iff]
  obtain ⟨k, rfl⟩ : ∃ k, n = k + 1 := ⟨n - 1, by omega⟩
  have e1 : PBox.lo ⟨List.replicate (k+1) c, List.replicate (k+1) c⟩ = c := by simp [PBox.lo, List.replicate_succ]
  have e2 : PBox.hi ⟨List.replicate (k+1) c, List.replicate (k+1) c⟩ = c := by
    simp only [PBox.hi]; rw [List.replicate_succ, List.getLastD_cons, getLastD_replicate]
  rw [e1, e2] at this
  exact this

/-- `in` is never true for an item whose range leaves the range of the p-box -/
theorem contains_excludes_outside (P : PB) (l h : Rat) (hout : l < PBox.lo P ∨ PBox.hi P < h) :
    containsP P (.obj l h) = .ok false := by
  rcases hout with h1 | h1
  · simp [containsP, not_le.mpr h1]
  · simp [containsP, not_le.mpr h1]

/-- every operand is `in` the envelope, the imposition is `in` every operand -/
theorem operand_in_env {n : Nat} (hn : 0 < n) {X Y E : PB} (hX : WF n X) (hY : WF n Y) (h : env n X Y = .ok E) :
    containsP E (itemOf X) = .ok true ∧ containsP E (itemOf Y) = .ok true := by
  obtain ⟨-, h1, h2⟩ := env_upper hX hY h
  exact ⟨contains_of_sub h1, contains_of_sub h2⟩

theorem imp_in_operand {n : Nat} (hn : 0 < n) {X Y E : PB} (hX : WF n X) (hY : WF n Y) (h : imp n X Y = .ok E) :
    containsP X (itemOf E) = .ok true ∧ containsP Y (itemOf E) = .ok true := by
  obtain ⟨h1, h2⟩ := imp_lower hX hY h
  exact ⟨contains_of_sub h1, contains_of_sub h2⟩

/-- every operand of `envelope` is `in` the result (p-box result; objects by their `lo`/`hi`) -/
theorem operand_in_envelope {n : Nat} (hn : 0 < n) (l : List Opnd) (hv : ∀ x ∈ l, Valid n x) (E : PB)
    (h : envelope n l = .ok (.pb E)) : ∀ x ∈ l, containsP E (itemOf (conv n x)) = .ok true := by
  have hmix : l.all Opnd.isIvl = false := by
    by_contra hh
    have hall : l.all Opnd.isIvl = true := by simpa using hh
    simp only [envelope, hall, if_true, bind, Except.bind] at h
    cases hr : reduceM hull2 (ivlEnds l) with
    | error e => rw [hr] at h; cases h
    | ok v => rw [hr] at h; cases h
  obtain ⟨E', e, -, u, -⟩ := envelope_lub l hv hmix
  rw [e] at h
  cases h
  exact fun x hx => contains_of_sub (u x hx)

/-- … a number operand also through the `Number` branch of `__contains__` -/
theorem number_in_envelope {n : Nat} (hn : 0 < n) (l : List Opnd) (hv : ∀ x ∈ l, Valid n x) (E : PB)
    (h : envelope n l = .ok (.pb E)) (c : Rat) (hc : Opnd.num c ∈ l) : containsP E (.num c) = .ok true := by
  have hmix : l.all Opnd.isIvl = false := by
    rw [Bool.eq_false_iff]; intro hall
    have := (List.all_eq_true.mp hall) _ hc
    simp [Opnd.isIvl] at this
  obtain ⟨E', e, -, u, -⟩ := envelope_lub l hv hmix
  rw [e] at h
  cases h
  exact contains_num_sound hn (u _ hc)

/-- the imposition is `in` every operand (as a p-box) -/
theorem imposition_in_operand {n : Nat} (hn : 0 < n) (l : List Opnd) (hne : l ≠ []) (hv : ∀ x ∈ l, Valid n x) (E : PB)
    (h : imposition n l = .ok E) : ∀ x ∈ l, containsP (conv n x) (itemOf E) = .ok true := by
  by_cases hc : ∃ z, ∀ x ∈ l, Sel (conv n x) z
  · obtain ⟨z, hz⟩ := hc
    obtain ⟨E', e, -, -, u, -⟩ := imposition_glb l hne hv z hz
    rw [e] at h
    cases h
    exact fun x hx => contains_of_sub (u x hx)
  · rw [imposition_raises l hne hv hc] at h; cases h

/-- `Interval.__contains__` is exact on reals and on scalar intervals -/
theorem interval_contains_exact (lo hi c l h : Rat) :
    (containsINum lo hi c = true ↔ (lo ≤ c ∧ c ≤ hi)) ∧
    (containsIIvl lo hi l h = true ↔ (lo ≤ l ∧ h ≤ hi)) := by
  simp [containsINum, containsIIvl]

/-- every interval of a family is `in` the hull returned by the shortcut -/
theorem interval_in_hull {n : Nat} (l : List Opnd) (hne : l ≠ []) (hv : ∀ x ∈ l, Valid n x)
    (hall : l.all Opnd.isIvl = true) (a b : Rat) (h : envelope n l = .ok (.ivl a b)) :
    ∀ lo hi, Opnd.ivl lo hi ∈ l → containsIIvl a b lo hi = true := by
  obtain ⟨a', b', e, -, u, -⟩ := hull_is_env l hne hv hall
  rw [e] at h
  cases h
  intro lo hi hm
  have := u lo hi hm
  simp [containsIIvl, this.1, this.2]

/-! ## non-vacuity: concrete instances of the hypotheses, and the functions computed on them -/

def exX : PB := ⟨[1, 2, 3], [2, 3, 4]⟩
def exY : PB := ⟨[0, 5/2, 3], [1, 3, 5]⟩
def exZ : PB := ⟨[3, 4, 5], [3, 4, 6]⟩

theorem exX_wf : WF 3 exX :=
  ⟨rfl, rfl, by decide, by decide, .cons (by decide) (.cons (by decide) (.cons (by decide) .nil))⟩
theorem exY_wf : WF 3 exY :=
  ⟨rfl, rfl, by decide +kernel, by decide, .cons (by decide) (.cons (by decide +kernel) (.cons (by decide) .nil))⟩
theorem exZ_wf : WF 3 exZ :=
  ⟨rfl, rfl, by decide, by decide, .cons (by decide) (.cons (by decide) (.cons (by decide) .nil))⟩

example : env 3 exX exY = .ok ⟨[0, 2, 3], [2, 3, 5]⟩ := by decide +kernel
/-- the steps touch (step 0 in the single point 1): the imposition exists -/
example : imp 3 exX exY = .ok ⟨[1, 5/2, 3], [1, 3, 4]⟩ := by decide +kernel
/-- no common selection: step 0 of `exX` is `[1,2]`, of `exZ` is `[3,3]` -/
example : imp 3 exX exZ = .error .Other := by decide +kernel
example : ∃ z, Sel exX z ∧ Sel exY z := ((imp_raises_iff exX_wf exY_wf).2.1).mp ⟨⟨[1, 5/2, 3], [1, 3, 4]⟩, by decide +kernel⟩
example : ¬ ∃ z, Sel exX z ∧ Sel exZ z := ((imp_raises_iff exX_wf exZ_wf).1).mp (by decide +kernel)
example : Sub exX ⟨[0, 2, 3], [2, 3, 5]⟩ := (env_upper exX_wf exY_wf (by decide +kernel)).2.1
example : (env 3 exX exY >>= fun E => env 3 E exZ) = .ok ⟨[0, 2, 3], [3, 4, 6]⟩ := by decide +kernel
/-- absorption on concrete boxes (the hypotheses are met and the executable functions agree) -/
example : imp 3 exX ⟨[0, 2, 3], [2, 3, 5]⟩ = .ok exX := imp_env_absorb exX_wf exY_wf (by decide +kernel)
example : imp 3 exX ⟨[0, 2, 3], [2, 3, 5]⟩ = .ok exX := by decide +kernel
example : env 3 exX ⟨[1, 5/2, 3], [1, 3, 4]⟩ = .ok exX := env_imp_absorb exX_wf exY_wf (by decide +kernel)
example : env 3 exX ⟨[1, 5/2, 3], [1, 3, 4]⟩ = .ok exX := by decide +kernel
/-- the order is NOT total: neither `exX ⊆ exY` nor the converse, seen through `sub_iff_env` -/
example : ¬ Sub exX exY := fun h => by
  have := (sub_iff_env exX_wf exY_wf).mp h; revert this; decide +kernel

/-- a mixed family: interval, number, p-box -/
def exFam : List Opnd := [.ivl 1 2, .num 3, .box exX]
theorem exFam_valid : ∀ x ∈ exFam, Valid 3 x := by
  intro x hx
  simp [exFam] at hx
  rcases hx with rfl | rfl | rfl
  · show (1 : Rat) ≤ 2; decide
  · trivial
  · exact exX_wf
example : exFam.all Opnd.isIvl = false := by decide
example : envelope 3 exFam = .ok (.pb ⟨[1, 1, 1], [3, 3, 4]⟩) := by decide +kernel
example : envelope 3 [.box exX, .ivl 1 2, .num 3] = envelope 3 exFam :=
  envelope_perm (by decide) (by
    intro x hx; exact exFam_valid x (by simp [exFam] at hx ⊢; tauto))
example : imposition 3 exFam = .error .Other := by decide +kernel
example : imposition 3 [.ivl 1 3, .num 2, .box exX] = .error .Other := by decide +kernel
example : imposition 3 [.ivl 1 3, .box exX, .box exY] = .ok ⟨[1, 5/2, 3], [1, 3, 3]⟩ := by decide +kernel
example : envelope 3 [.ivl 1 2, .ivl 0 1, .ivl (3/2) 5] = .ok (.ivl 0 5) := by decide +kernel
example : ([Opnd.ivl 1 2, .ivl 0 1, .ivl (3/2) 5]).all Opnd.isIvl = true := by decide
example : containsP ⟨[0, 2, 3], [2, 3, 5]⟩ (itemOf exX) = .ok true := by decide +kernel
example : containsP exX (.obj 0 3) = .ok false := by decide +kernel
example : envelope 3 exFam =
    .ok (.pb (([Opnd.num 3, .box exX].map (conv 3)).foldl envSpec (conv 3 (.ivl 1 2)))) :=
  envelope_pointwise _ _ exFam_valid (by decide)
example : imposition 3 [.ivl 1 3, .box exX, .box exY] =
    .ok (([Opnd.box exX, .box exY].map (conv 3)).foldl impSpec (conv 3 (.ivl 1 3))) :=
  imposition_pointwise _ _
    (by
      intro y hy; simp at hy
      rcases hy with rfl | rfl | rfl
      · show (1 : Rat) ≤ 3; decide
      · exact exX_wf
      · exact exY_wf)
    [1, 5/2, 3]
    (by
      intro y hy; simp at hy
      rcases hy with rfl | rfl | rfl <;>
        exact ⟨.cons (by decide +kernel) (.cons (by decide +kernel) (.cons (by decide +kernel) .nil)),
          .cons (by decide +kernel) (.cons (by decide +kernel) (.cons (by decide +kernel) .nil))⟩)
example : containsP ⟨[0, 2, 3], [2, 3, 5]⟩ (itemOf exX) = .ok true :=
  contains_sound (n := 3) (by decide) exX_wf (env_upper exX_wf exY_wf (by decide +kernel)).1
    (env_upper exX_wf exY_wf (by decide +kernel)).2.1
example : containsP exX .noattr = .error .Attribute := rfl

end Pun.EnvImp
