import Pun.Props.C16
import Pun.Gen.DispatchGen
/-!
# C16, generated part: the dispatch tables, operator bodies and the context manager *as the source has them now*

`Pun/Gen/DispatchGen.lean` is regenerated on every run from `Staircase.{add,mul,pow,sub,div}`, the bare
operators of `Staircase`, `Distribution.__pow__` and `pba/context.py`.  Everything here is a proof over FINITE
tables (the five dependency codes × nine operators, the shape of three statements of `dependency()`), done by
case analysis / `rfl`.  The equality lemmas lift the unbounded theorems of `Props/C16.lean` (any depth of nesting,
every schedule) to what the source says now:

* `bodyGen_eq_method`, `depArgGen_is_ambient`, `operatorGen_eq_operator` — the extracted `match` tables, swap
  chains, delegation targets and `dependency=` arguments coincide with the hand model;
* `subSwapGen_eq`, `divSwapGen_eq`, `swapGen_eq` — the p↔o exchange of `sub` and `div`, also against
  `Pun.PBox.swapPO` (used by C03's sub/div mirror theorems);
* `stepGen_eq_stepCtx`, `runGen_eq_run`, `defaultGen_eq` — set / try-yield-finally-reset(token) is the model's step;
* `operator_eq_method_src`, `unknown_code_fails_in_block_src`, `balanced_restores_src` — the transferred theorems.
-/
set_option linter.unusedSimpArgs false
set_option linter.unusedVariables false
namespace Pun.Gen.Dispatch
open Pun Pun.DepCtx

/-- the extracted tables (match statements, swap chains, delegation, reflection) are the hand model's `method` -/
theorem bodyGen_eq_method (op : Op) (d : Code) : bodyGen op d = method op d := by
  cases op <;> cases d <;> rfl

/-- every bare operator passes `get_current_dependency()` -/
theorem depArgGen_is_ambient (op : Op) (c : Ctx) : depArgGen op c = get c := by
  cases op <;> rfl

theorem operatorGen_eq_operator (op : Op) (c : Ctx) : operatorGen op c = operator op c := by
  unfold operatorGen
  rw [depArgGen_is_ambient, bodyGen_eq_method]
  rfl

/-- the p↔o exchange of `Staircase.sub` as the source has it -/
theorem subSwapGen_eq : subSwapGen = swapPO := by
  funext d; cases d <;> rfl

/-- … and of `Staircase.div` -/
theorem divSwapGen_eq : divSwapGen = swapPO := by
  funext d; cases d <;> rfl

/-- the same exchange over the dependency type of the p-box model (for C03's sub / div mirror theorems) -/
theorem swapGen_eq : subSwapDepGen = Pun.PBox.swapPO ∧ divSwapDepGen = Pun.PBox.swapPO := by
  constructor <;> (funext d; cases d <;> rfl)

/-- the unmatched-code behaviour: `add` (hence `sub`) raises ValueError, `mul` / `pow` (hence `div`) fall through to
an unbound local -/
theorem unmatched_code_gen (n : Nat) :
    addGen (.unk n) = .error .Value ∧ mulGen (.unk n) = .error .Unbound ∧ powGen (.unk n) = .error .Unbound := by
  refine ⟨rfl, rfl, rfl⟩

/-- `ContextVar(..., default="f")` -/
theorem defaultGen_eq : defaultGen = Ctx.init.cur := rfl

/-- `token = VAR.set(dep_type)` … `finally: VAR.reset(token)` is the model's step, for every way of leaving -/
theorem stepGen_eq_stepCtx (c : Ctx) (e : Ev) : stepGen c e = stepCtx c e := by
  cases e <;> first
    | rfl
    | (cases c with
       | mk cur toks => cases toks <;> rfl)

theorem runGen_eq_run (c : Ctx) (es : List Ev) : runGen c es = run c es := by
  induction es generalizing c with
  | nil => rfl
  | cons e es ih =>
    simp only [runGen, run, stepGen_eq_stepCtx]
    cases stepCtx c e with
    | none => rfl
    | some c' => simp [ih]

/-! ### the property theorems, for what the source says now -/

/-- the bare operator (as extracted) is the explicit method (as extracted) at the value read at call time -/
theorem operator_eq_method_src (op : Op) (c : Ctx) : operatorGen op c = bodyGen op (get c) := by
  rw [operatorGen_eq_operator, bodyGen_eq_method]; rfl

/-- every extracted operator fails inside a block with an unknown code, after any well-nested prefix -/
theorem unknown_code_fails_in_block_src (op : Op) (n : Nat) {es : List Ev} (h : Balanced es) (c : Ctx) :
    ∃ c' e, runGen c (Ev.enter (.unk n) :: es) = some c' ∧ operatorGen op c' = .error e := by
  obtain ⟨e, he⟩ := unknown_code_fails op n
  refine ⟨⟨.unk n, c.cur :: c.toks⟩, e, ?_, ?_⟩
  · rw [runGen_eq_run]
    simp only [run, stepCtx, Option.bind_some]
    exact balanced_restores h _
  · rw [operatorGen_eq_operator]; exact he

/-- restoration for every well-nested history with the extracted set / reset semantics -/
theorem balanced_restores_src {es : List Ev} (h : Balanced es) (c : Ctx) : runGen c es = some c := by
  rw [runGen_eq_run]; exact balanced_restores h c

/-- a fresh thread reads the extracted default -/
theorem fresh_thread_reads_default : get Ctx.init = defaultGen := rfl

end Pun.Gen.Dispatch
