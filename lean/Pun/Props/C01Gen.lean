import Pun.Props.C01
import Pun.Gen.ArithGen
/-!
# C01, generated part: the eight tables *as the source has them now*

`Pun/Gen/ArithGen.lean` is regenerated from `arithmetic.py` on every run.  Each
product table is proved to select the exact corner hull (same 16-way sign
split as the hand model, so a harmless reordering of the `if`s still passes,
a wrong guard or corner does not); each quotient table is proved equal to the
hand model `divCore` on valid operands, and the zero-straddle guard is proved
to be `c ≤ 0 ∧ 0 ≤ d`.
-/
set_option linter.unusedSimpArgs false
set_option linter.unusedVariables false
namespace Pun.Gen
open Pun.Arith

set_option hygiene false in
/-- closes `T a b c d = some (min4 …, max4 …)` for a generated product table `T` -/
macro "gen_mul_exact" t:ident : tactic => `(tactic|
  (by_cases ha : 0 ≤ a <;> by_cases hb : b ≤ 0 <;> by_cases hc : 0 ≤ c <;> by_cases hd : d ≤ 0 <;>
   simp only [$t:ident, step, ge_iff_le, gt_iff_lt, ← not_le, ha, hb, hc, hd, not_true_eq_false,
     not_false_eq_true, and_true, true_and, and_false, false_and, or_true, true_or, or_false, false_or,
     if_true, if_false] <;>
   (try simp only [not_le] at ha hb hc hd) <;>
   rw [Option.some.injEq, Prod.mk.injEq] <;>
   first
   | (constructor
      · symm
        apply min4_eq
        · first | exact Or.inl rfl | exact Or.inr (Or.inl rfl) | exact Or.inr (Or.inr (Or.inl rfl)) | exact Or.inr (Or.inr (Or.inr rfl))
        all_goals nlinarith
      · symm
        apply max4_eq
        · first | exact Or.inl rfl | exact Or.inr (Or.inl rfl) | exact Or.inr (Or.inr (Or.inl rfl)) | exact Or.inr (Or.inr (Or.inr rfl))
        all_goals nlinarith)
   | (constructor <;> simp only [min4, max4] <;> ac_rfl)))

theorem mul_ss_exact (a b c d : Rat) (hab : a ≤ b) (hcd : c ≤ d) :
    mul_ss a b c d = some (min4 (a*c) (a*d) (b*c) (b*d), max4 (a*c) (a*d) (b*c) (b*d)) := by
  gen_mul_exact mul_ss
theorem mul_aa_exact (a b c d : Rat) (hab : a ≤ b) (hcd : c ≤ d) :
    mul_aa a b c d = some (min4 (a*c) (a*d) (b*c) (b*d), max4 (a*c) (a*d) (b*c) (b*d)) := by
  gen_mul_exact mul_aa
theorem mul_sa_exact (a b c d : Rat) (hab : a ≤ b) (hcd : c ≤ d) :
    mul_sa a b c d = some (min4 (a*c) (a*d) (b*c) (b*d), max4 (a*c) (a*d) (b*c) (b*d)) := by
  gen_mul_exact mul_sa
theorem mul_as_exact (a b c d : Rat) (hab : a ≤ b) (hcd : c ≤ d) :
    mul_as a b c d = some (min4 (a*c) (a*d) (b*c) (b*d), max4 (a*c) (a*d) (b*c) (b*d)) := by
  gen_mul_exact mul_as

set_option hygiene false in
/-- closes `T a b c d = divCore a b c d` on valid operands with a zero-free divisor -/
macro "gen_div_eq" t:ident : tactic => `(tactic|
  first
  | rfl
  | (rcases h0 with h0 | h0
     · have hd0 : 0 < d := lt_of_lt_of_le h0 hcd
       by_cases ha : 0 ≤ a <;> by_cases hb : b ≤ 0 <;>
       simp [$t:ident, divCore, step, ha, hb, h0, hd0, le_of_lt h0, le_of_lt hd0, not_le.mpr h0, not_le.mpr hd0,
         not_lt.mpr (le_of_lt h0), not_lt.mpr (le_of_lt hd0)] <;>
       (first | done | (have ha0 : a = 0 := le_antisymm (le_trans hab hb) ha
                        have hb0 : b = 0 := le_antisymm hb (le_trans ha hab)
                        subst ha0; subst hb0; simp))
     · have hc0 : c < 0 := lt_of_le_of_lt hcd h0
       by_cases ha : 0 ≤ a <;> by_cases hb : b ≤ 0 <;>
       simp [$t:ident, divCore, step, ha, hb, h0, hc0, le_of_lt h0, le_of_lt hc0, not_le.mpr h0, not_le.mpr hc0,
         not_lt.mpr (le_of_lt h0), not_lt.mpr (le_of_lt hc0)] <;>
       (first | done | (have ha0 : a = 0 := le_antisymm (le_trans hab hb) ha
                        have hb0 : b = 0 := le_antisymm hb (le_trans ha hab)
                        subst ha0; subst hb0; simp))))

theorem div_ss_eq (a b c d : Rat) (hab : a ≤ b) (hcd : c ≤ d) (h0 : 0 < c ∨ d < 0) :
    div_ss a b c d = divCore a b c d := by gen_div_eq div_ss
theorem div_aa_eq (a b c d : Rat) (hab : a ≤ b) (hcd : c ≤ d) (h0 : 0 < c ∨ d < 0) :
    div_aa a b c d = divCore a b c d := by gen_div_eq div_aa
theorem div_sa_eq (a b c d : Rat) (hab : a ≤ b) (hcd : c ≤ d) (h0 : 0 < c ∨ d < 0) :
    div_sa a b c d = divCore a b c d := by gen_div_eq div_sa
theorem div_as_eq (a b c d : Rat) (hab : a ≤ b) (hcd : c ≤ d) (h0 : 0 < c ∨ d < 0) :
    div_as a b c d = divCore a b c d := by gen_div_eq div_as

/-- the source's zero-straddle guard is `0 ∈ [c,d]` -/
theorem div_guard_iff (c d : Rat) : div_guard c d ↔ (c ≤ 0 ∧ 0 ≤ d) := by
  unfold div_guard; constructor <;> intro h <;> simpa using h

end Pun.Gen
