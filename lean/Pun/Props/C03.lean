import Pun.Lemmas.PBoxFrechet
import Pun.Props.C01
import Mathlib.Tactic.Ring
/-!
# C03 — perfect / opposite / independent arithmetic match their random-set meaning

* `focal_mul_exact`, `focal_add_exact`: the four-corner min/max used for every focal pair is the
  exact interval combination (sound for every point selection, endpoints attained);
* `perfectOp_perm_sorted`, `oppositeOp_perm_sorted`: the returned bounds are the sorted lower /
  upper endpoints of the paired focal combinations (pairing `k ↦ k`, resp. `k ↦ n-1-k`);
* `perfect_add_steps`: for the sum the unsorted arrays are already monotone, so step `k` of the
  result IS `X_k + Y_k`;
* `condense_index`, `condense_block`: condensing the `n²` sorted endpoints of the independent rule
  takes entry `k(n+1)`, which lies in the `k`-th block of `n` — "within one probability step".
Not proved here (tie + oracle only): the `p ↔ o` mirroring of `sub`/`div` through the constructor.
-/
set_option linter.unusedSimpArgs false
set_option linter.unusedVariables false
namespace Pun.PBox
open Pun

theorem min4_eq_arith (a b c d : Rat) : min4 a b c d = Arith.min4 a b c d := by
  unfold min4 Arith.min4; rw [min_assoc (min a b) c d]

theorem max4_eq_arith (a b c d : Rat) : max4 a b c d = Arith.max4 a b c d := by
  unfold max4 Arith.max4; rw [max_assoc (max a b) c d]

/-- product of two focal intervals: the corner min/max encloses every pointwise product and both
are attained at corners -/
theorem focal_mul_exact (a b c d : Rat) (hab : a ≤ b) (hcd : c ≤ d) :
    (∀ x y, a ≤ x → x ≤ b → c ≤ y → y ≤ d →
      min4 (a*c) (a*d) (b*c) (b*d) ≤ x*y ∧ x*y ≤ max4 (a*c) (a*d) (b*c) (b*d)) ∧
    (∃ x y, a ≤ x ∧ x ≤ b ∧ c ≤ y ∧ y ≤ d ∧ x*y = min4 (a*c) (a*d) (b*c) (b*d)) ∧
    (∃ x y, a ≤ x ∧ x ≤ b ∧ c ≤ y ∧ y ≤ d ∧ x*y = max4 (a*c) (a*d) (b*c) (b*d)) := by
  rw [min4_eq_arith, max4_eq_arith]
  obtain ⟨l, h, htab, hs, hlo, hhi⟩ := Arith.mul_exact_image a b c d hab hcd
  rw [Arith.mulTable_exact a b c d hab hcd] at htab
  have e := Option.some.inj htab
  have e1 : Arith.min4 (a*c) (a*d) (b*c) (b*d) = l := congrArg Prod.fst e
  have e2 : Arith.max4 (a*c) (a*d) (b*c) (b*d) = h := congrArg Prod.snd e
  rw [e1, e2]
  exact ⟨hs, hlo, hhi⟩

/-- sum of two focal intervals: the corner min/max are `a+c` and `b+d` -/
theorem focal_add_exact (a b c d : Rat) (hab : a ≤ b) (hcd : c ≤ d) :
    min4 (a+c) (a+d) (b+c) (b+d) = a + c ∧ max4 (a+c) (a+d) (b+c) (b+d) = b + d := by
  unfold min4 max4
  constructor
  · rw [min_eq_left (by linarith : a + c ≤ a + d), min_eq_left (by linarith : a + c ≤ b + c),
      min_eq_left (by linarith : a + c ≤ b + d)]
  · exact max_eq_right (max_le (max_le (by linarith) (by linarith)) (by linarith))

theorem sortR_perm (l : List Rat) : (sortR l).Perm l := List.mergeSort_perm l _

theorem sortR_sorted (l : List Rat) : (sortR l).Pairwise (· ≤ ·) := by
  have := List.pairwise_mergeSort (le := fun a b : Rat => decide (a ≤ b))
    (fun a b c h1 h2 => by simp at h1 h2 ⊢; exact le_trans h1 h2)
    (fun a b => by simp; exact le_total a b) l
  exact this.imp (fun h => by simpa using h)

/-- perfect dependence: the bounds are the sorted lower / upper endpoints of the focal pairs `(X_k, Y_k)` -/
theorem perfectOp_perm_sorted (op : Rat → Rat → Rat) (X Y : PB) :
    let fp := cornerPair op X.left X.right Y.left Y.right
    (perfectOp op X Y).1.Perm fp.1 ∧ (perfectOp op X Y).2.Perm fp.2 ∧
    (perfectOp op X Y).1.Pairwise (· ≤ ·) ∧ (perfectOp op X Y).2.Pairwise (· ≤ ·) :=
  ⟨sortR_perm _, sortR_perm _, sortR_sorted _, sortR_sorted _⟩

/-- opposite dependence: the same with the pairing `(X_k, Y_{n-1-k})` -/
theorem oppositeOp_perm_sorted (op : Rat → Rat → Rat) (X Y : PB) :
    let fp := cornerPair op X.left X.right Y.left.reverse Y.right.reverse
    (oppositeOp op X Y).1.Perm fp.1 ∧ (oppositeOp op X Y).2.Perm fp.2 ∧
    (oppositeOp op X Y).1.Pairwise (· ≤ ·) ∧ (oppositeOp op X Y).2.Pairwise (· ≤ ·) :=
  ⟨sortR_perm _, sortR_perm _, sortR_sorted _, sortR_sorted _⟩

/-- the independent rule returns the sorted endpoints of all `n²` focal combinations -/
theorem independentOp_sorted (op : Rat → Rat → Rat) (X Y : PB) :
    (independentOp op X Y).1.Pairwise (· ≤ ·) ∧ (independentOp op X Y).2.Pairwise (· ≤ ·) :=
  ⟨sortR_sorted _, sortR_sorted _⟩

/-- focal sums: with `left ≤ right` step by step the four-corner rule is `left+left`, `right+right` -/
theorem cornerPair_add (xl xr yl yr : List Rat) (hx : List.Forall₂ (· ≤ ·) xl xr)
    (hy : List.Forall₂ (· ≤ ·) yl yr) :
    cornerPair (· + ·) xl xr yl yr = (List.zipWith (· + ·) xl yl, List.zipWith (· + ·) xr yr) := by
  induction hx generalizing yl yr with
  | nil => simp [cornerPair, zip4]
  | @cons a b ta tb hab _ ih =>
    cases hy with
    | nil => simp [cornerPair, zip4]
    | @cons c d tc td hcd htl =>
      have := ih tc td htl
      simp only [cornerPair, List.zipWith_cons_cons, zip4, Prod.mk.injEq] at this ⊢
      obtain ⟨e1, e2⟩ := focal_add_exact a b c d hab hcd
      rw [e1, e2, this.1, this.2]
      exact ⟨rfl, rfl⟩

theorem zipWith_add_sorted (a b : List Rat) (sa : a.Pairwise (· ≤ ·)) (sb : b.Pairwise (· ≤ ·)) :
    (List.zipWith (· + ·) a b).Pairwise (· ≤ ·) := by
  rw [List.pairwise_iff_getElem]
  intro i j hi hj hij
  simp only [List.length_zipWith, lt_min_iff] at hi hj
  simp only [List.getElem_zipWith]
  exact add_le_add ((List.pairwise_iff_getElem.mp sa) i j hi.1 hj.1 hij)
    ((List.pairwise_iff_getElem.mp sb) i j hi.2 hj.2 hij)

/-- **perfect dependence, sum**: step `k` of the result is exactly `X_k + Y_k` (no re-ordering) -/
theorem perfect_add_steps (X Y : PB) (hX : List.Forall₂ (· ≤ ·) X.left X.right)
    (hY : List.Forall₂ (· ≤ ·) Y.left Y.right)
    (sxl : X.left.Pairwise (· ≤ ·)) (sxr : X.right.Pairwise (· ≤ ·))
    (syl : Y.left.Pairwise (· ≤ ·)) (syr : Y.right.Pairwise (· ≤ ·)) :
    perfectOp (· + ·) X Y =
      (List.zipWith (· + ·) X.left Y.left, List.zipWith (· + ·) X.right Y.right) := by
  unfold perfectOp
  rw [cornerPair_add _ _ _ _ hX hY]
  simp only
  rw [sortR_of_sorted _ (zipWith_add_sorted _ _ sxl syl), sortR_of_sorted _ (zipWith_add_sorted _ _ sxr syr)]

example : perfectOp (· + ·) ⟨[1, 2], [2, 4]⟩ ⟨[0, 5], [1, 6]⟩ = ([1, 7], [3, 10]) := by
  rw [perfect_add_steps] <;> decide +kernel

/-- condensation index for `n²` values down to `n`: entry `k(n+1)` -/
theorem condense_index (n k : Nat) (hn : 2 ≤ n) : condenseIdx (n * n) n k = k * (n + 1) := by
  unfold condenseIdx
  have h1 : ¬ n ≤ 1 := by omega
  simp only [h1, if_false]
  have h2 : n * n - 1 = (n + 1) * (n - 1) := by
    obtain ⟨m, rfl⟩ : ∃ m, n = m + 2 := ⟨n - 2, by omega⟩
    have e1 : m + 2 - 1 = m + 1 := by omega
    have e2 : (m + 2) * (m + 2) = (m + 2 + 1) * (m + 1) + 1 := by ring
    rw [e1, e2]; omega
  rw [h2, ← Nat.mul_assoc, Nat.mul_div_cancel _ (by omega : 0 < n - 1)]

/-- … which lies in the `k`-th block of `n` consecutive order statistics -/
theorem condense_block (n k : Nat) (hn : 2 ≤ n) (hk : k < n) :
    k * n ≤ condenseIdx (n * n) n k ∧ condenseIdx (n * n) n k ≤ k * n + (n - 1) := by
  rw [condense_index n k hn]
  constructor
  · nlinarith
  · have : k * (n + 1) = k * n + k := by ring
    omega

example : condenseIdx (200 * 200) 200 7 = 7 * 201 := by decide +kernel

end Pun.PBox
