import Pun.Model.PBox
namespace Pun.PBox
theorem placeholder_c03 : True := trivial
end Pun.PBox
