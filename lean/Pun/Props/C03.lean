import Pun.Lemmas.PBoxFrechet
import Pun.Lemmas.PBoxFrechet2
import Pun.Lemmas.PBoxRecip
import Pun.Props.C01
import Mathlib.Tactic.Ring
/-!
# C03 — perfect / opposite / independent arithmetic match their random-set meaning

* `focal_mul_exact`, `focal_add_exact`, `focal_div_exact_pos`: the four-corner min/max used for every
  focal pair is the exact interval combination (sound for every point selection, endpoints attained);
* `perfectOp_perm_sorted`, `oppositeOp_perm_sorted`: the returned bounds are the sorted lower /
  upper endpoints of the paired focal combinations (pairing `k ↦ k`, resp. `k ↦ n-1-k`);
* `perfect_add_steps`, `perfect_mul_steps_pos`: for the sum (any operands) and the product
  (non-negative operands) under perfect dependence the unsorted arrays are already monotone, so step
  `k` of the result IS `X_k + Y_k` / `X_k · Y_k`; `add_p_steps`, `mul_p_steps_pos` say so for the public
  methods (through the constructor);
* `opposite_add_spec`, `add_o_spec`: under opposite dependence the sum is the sorted endpoints of
  `X_k + Y_{n-1-k}`;
* **`sub_mirror_p`, `sub_mirror_o`** (public level, through `__neg__` and the constructor):
  `X.sub(Y,'p')` returns the sorted endpoints of the focal differences `X_k − Y_k` (the pairing is
  `k ↦ k` because `−Y` lists its steps in reverse order and `'p'` is swapped to `'o'`), and
  `X.sub(Y,'o')` returns step by step `X_k − Y_{n-1-k}`;
* **`div_mirror_p`, `div_mirror_o`, `div_mirror_pos`** (public level, through `reciprocal`,
  `1 * ·` and the constructor; any zero-free divisor, in particular a positive one): `X.div(Y,'p')`
  returns the sorted endpoints of the focal quotients `X_k / Y_k`, `X.div(Y,'o')` those of
  `X_k / Y_{n-1-k}`;
* `condense_index`, `condense_block` (now in `Pun.Lemmas.PBoxFrechet2`): condensing the `n²` sorted
  endpoints of the independent rule takes entry `k(n+1)`, which lies in the `k`-th block of `n` —
  "within one probability step"; `mk_indep_ok` there says the constructor does exactly that.
Missing (tie + oracle only): `perfect_mul_steps` for operands that are not both non-negative (the
product then re-orders the steps; only `perfectOp_perm_sorted` holds); the `sub`/`div` mirroring under
`'i'` is trivial (`swapPO .i = .i`) and not stated; a divisor with a zero bound raises
(`div_zero_bound_raises` in `Props/C02.lean`), a zero-straddling divisor without a zero bound is not
covered by `div_mirror_*` (its reciprocal is not a p-box).
-/
set_option linter.unusedSimpArgs false
set_option linter.unusedVariables false
namespace Pun.PBox
open Pun

theorem min4_eq_arith (a b c d : Rat) : min4 a b c d = Arith.min4 a b c d := by
  unfold min4 Arith.min4; rw [min_assoc (min a b) c d]

theorem max4_eq_arith (a b c d : Rat) : max4 a b c d = Arith.max4 a b c d := by
  unfold max4 Arith.max4; rw [max_assoc (max a b) c d]

/-- product of two focal intervals: the corner min/max encloses every pointwise product and both
are attained at corners -/
theorem focal_mul_exact (a b c d : Rat) (hab : a ≤ b) (hcd : c ≤ d) :
    (∀ x y, a ≤ x → x ≤ b → c ≤ y → y ≤ d →
      min4 (a*c) (a*d) (b*c) (b*d) ≤ x*y ∧ x*y ≤ max4 (a*c) (a*d) (b*c) (b*d)) ∧
    (∃ x y, a ≤ x ∧ x ≤ b ∧ c ≤ y ∧ y ≤ d ∧ x*y = min4 (a*c) (a*d) (b*c) (b*d)) ∧
    (∃ x y, a ≤ x ∧ x ≤ b ∧ c ≤ y ∧ y ≤ d ∧ x*y = max4 (a*c) (a*d) (b*c) (b*d)) := by
  rw [min4_eq_arith, max4_eq_arith]
  obtain ⟨l, h, htab, hs, hlo, hhi⟩ := Arith.mul_exact_image a b c d hab hcd
  rw [Arith.mulTable_exact a b c d hab hcd] at htab
  have e := Option.some.inj htab
  have e1 : Arith.min4 (a*c) (a*d) (b*c) (b*d) = l := congrArg Prod.fst e
  have e2 : Arith.max4 (a*c) (a*d) (b*c) (b*d) = h := congrArg Prod.snd e
  rw [e1, e2]
  exact ⟨hs, hlo, hhi⟩

/-- sum of two focal intervals: the corner min/max are `a+c` and `b+d` -/
theorem focal_add_exact (a b c d : Rat) (hab : a ≤ b) (hcd : c ≤ d) :
    min4 (a+c) (a+d) (b+c) (b+d) = a + c ∧ max4 (a+c) (a+d) (b+c) (b+d) = b + d := by
  unfold min4 max4
  constructor
  · rw [min_eq_left (by linarith : a + c ≤ a + d), min_eq_left (by linarith : a + c ≤ b + c),
      min_eq_left (by linarith : a + c ≤ b + d)]
  · exact max_eq_right (max_le (max_le (by linarith) (by linarith)) (by linarith))

/-- perfect dependence: the bounds are the sorted lower / upper endpoints of the focal pairs `(X_k, Y_k)` -/
theorem perfectOp_perm_sorted (op : Rat → Rat → Rat) (X Y : PB) :
    let fp := cornerPair op X.left X.right Y.left Y.right
    (perfectOp op X Y).1.Perm fp.1 ∧ (perfectOp op X Y).2.Perm fp.2 ∧
    (perfectOp op X Y).1.Pairwise (· ≤ ·) ∧ (perfectOp op X Y).2.Pairwise (· ≤ ·) :=
  ⟨sortR_perm _, sortR_perm _, sortR_sorted _, sortR_sorted _⟩

/-- opposite dependence: the same with the pairing `(X_k, Y_{n-1-k})` -/
theorem oppositeOp_perm_sorted (op : Rat → Rat → Rat) (X Y : PB) :
    let fp := cornerPair op X.left X.right Y.left.reverse Y.right.reverse
    (oppositeOp op X Y).1.Perm fp.1 ∧ (oppositeOp op X Y).2.Perm fp.2 ∧
    (oppositeOp op X Y).1.Pairwise (· ≤ ·) ∧ (oppositeOp op X Y).2.Pairwise (· ≤ ·) :=
  ⟨sortR_perm _, sortR_perm _, sortR_sorted _, sortR_sorted _⟩

/-- the independent rule returns the sorted endpoints of all `n²` focal combinations -/
theorem independentOp_sorted (op : Rat → Rat → Rat) (X Y : PB) :
    (independentOp op X Y).1.Pairwise (· ≤ ·) ∧ (independentOp op X Y).2.Pairwise (· ≤ ·) :=
  ⟨sortR_sorted _, sortR_sorted _⟩

/-- focal sums: with `left ≤ right` step by step the four-corner rule is `left+left`, `right+right` -/
theorem cornerPair_add (xl xr yl yr : List Rat) (hx : List.Forall₂ (· ≤ ·) xl xr)
    (hy : List.Forall₂ (· ≤ ·) yl yr) :
    cornerPair (· + ·) xl xr yl yr = (List.zipWith (· + ·) xl yl, List.zipWith (· + ·) xr yr) := by
  induction hx generalizing yl yr with
  | nil => simp [cornerPair, zip4]
  | @cons a b ta tb hab _ ih =>
    cases hy with
    | nil => simp [cornerPair, zip4]
    | @cons c d tc td hcd htl =>
      have := ih tc td htl
      simp only [cornerPair, List.zipWith_cons_cons, zip4, Prod.mk.injEq] at this ⊢
      obtain ⟨e1, e2⟩ := focal_add_exact a b c d hab hcd
      rw [e1, e2, this.1, this.2]
      exact ⟨rfl, rfl⟩

theorem zipWith_add_sorted (a b : List Rat) (sa : a.Pairwise (· ≤ ·)) (sb : b.Pairwise (· ≤ ·)) :
    (List.zipWith (· + ·) a b).Pairwise (· ≤ ·) := by
  rw [List.pairwise_iff_getElem]
  intro i j hi hj hij
  simp only [List.length_zipWith, lt_min_iff] at hi hj
  simp only [List.getElem_zipWith]
  exact add_le_add ((List.pairwise_iff_getElem.mp sa) i j hi.1 hj.1 hij)
    ((List.pairwise_iff_getElem.mp sb) i j hi.2 hj.2 hij)

/-- **perfect dependence, sum**: step `k` of the result is exactly `X_k + Y_k` (no re-ordering) -/
theorem perfect_add_steps (X Y : PB) (hX : List.Forall₂ (· ≤ ·) X.left X.right)
    (hY : List.Forall₂ (· ≤ ·) Y.left Y.right)
    (sxl : X.left.Pairwise (· ≤ ·)) (sxr : X.right.Pairwise (· ≤ ·))
    (syl : Y.left.Pairwise (· ≤ ·)) (syr : Y.right.Pairwise (· ≤ ·)) :
    perfectOp (· + ·) X Y =
      (List.zipWith (· + ·) X.left Y.left, List.zipWith (· + ·) X.right Y.right) := by
  unfold perfectOp
  rw [cornerPair_add _ _ _ _ hX hY]
  simp only
  rw [sortR_of_sorted _ (zipWith_add_sorted _ _ sxl syl), sortR_of_sorted _ (zipWith_add_sorted _ _ sxr syr)]

example : perfectOp (· + ·) ⟨[1, 2], [2, 4]⟩ ⟨[0, 5], [1, 6]⟩ = ([1, 7], [3, 10]) := by
  rw [perfect_add_steps] <;> decide +kernel

/-! ## perfect / opposite dependence at the level of the public methods -/

/-- **`X.add(Y,'p')`**: step `k` of the result is exactly `X_k + Y_k` -/
theorem add_p_steps (n : Nat) (X Y : PB) (hX : WF n X) (hY : WF n Y) :
    binop n .add .p X Y =
      .ok ⟨List.zipWith (· + ·) X.left Y.left, List.zipWith (· + ·) X.right Y.right⟩ := by
  obtain ⟨e1, e2, -⟩ := perfectOp_mono (· + ·) add_mono2 n X Y hX hY
  simp only [perfF] at e1 e2
  rw [sortR_of_sorted _ (zipWith_mono_sorted (· + ·) add_mono2 _ _ hX.lsorted hY.lsorted),
    sortR_of_sorted _ (zipWith_mono_sorted (· + ·) add_mono2 _ _ hX.rsorted hY.rsorted)] at e1 e2
  simp only [binop, add, e1, e2]

/-- **opposite dependence, sum**: the bounds are the sorted endpoints of `X_k + Y_{n-1-k}` -/
theorem opposite_add_spec (n : Nat) (X Y : PB) (hX : WF n X) (hY : WF n Y) :
    oppositeOp (· + ·) X Y =
      (sortR (List.zipWith (· + ·) X.left Y.left.reverse), sortR (List.zipWith (· + ·) X.right Y.right.reverse)) :=
  (oppositeOp_mono (· + ·) add_mono2 n X Y hX hY).1

/-- **`X.add(Y,'o')`** through the constructor -/
theorem add_o_spec (n : Nat) (X Y : PB) (hX : WF n X) (hY : WF n Y) :
    binop n .add .o X Y =
      .ok ⟨sortR (List.zipWith (· + ·) X.left Y.left.reverse), sortR (List.zipWith (· + ·) X.right Y.right.reverse)⟩ := by
  obtain ⟨e1, e2, -⟩ := oppositeOp_mono (· + ·) add_mono2 n X Y hX hY
  simp only [oppF] at e1 e2
  simp only [binop, add, e1, e2]

/-- **perfect dependence, product of non-negative operands**: step `k` of the result is exactly
`X_k · Y_k` (no re-ordering) -/
theorem perfect_mul_steps_pos (n : Nat) (X Y : PB) (hX : WF n X) (hY : WF n Y) (pX : NonNeg X) (pY : NonNeg Y) :
    perfectOp (· * ·) X Y =
      (List.zipWith (· * ·) X.left Y.left, List.zipWith (· * ·) X.right Y.right) := by
  rw [perfectOp_mul_eq X Y pX pY, (perfectOp_mono mulPos mulPos_mono2 n X Y hX hY).1]
  simp only [perfF]
  rw [sortR_of_sorted _ (zipWith_mono_sorted mulPos mulPos_mono2 _ _ hX.lsorted hY.lsorted),
    sortR_of_sorted _ (zipWith_mono_sorted mulPos mulPos_mono2 _ _ hX.rsorted hY.rsorted),
    zipWith_congr_mem mulPos (· * ·) X.left Y.left (fun x hx y hy => mulPos_eq x y (pX.1 x hx) (pY.1 y hy)),
    zipWith_congr_mem mulPos (· * ·) X.right Y.right (fun x hx y hy => mulPos_eq x y (pX.2 x hx) (pY.2 y hy))]

/-- **`X.mul(Y,'p')`** for non-negative operands, through the constructor -/
theorem mul_p_steps_pos (n : Nat) (X Y : PB) (hX : WF n X) (hY : WF n Y) (pX : NonNeg X) (pY : NonNeg Y) :
    binop n .mul .p X Y =
      .ok ⟨List.zipWith (· * ·) X.left Y.left, List.zipWith (· * ·) X.right Y.right⟩ := by
  have h := perfect_mul_steps_pos n X Y hX hY pX pY
  obtain ⟨e1, e2, -⟩ := perfectOp_mono mulPos mulPos_mono2 n X Y hX hY
  rw [← perfectOp_mul_eq X Y pX pY, h] at e1
  have el : (perfF mulPos X Y).left = List.zipWith (· * ·) X.left Y.left := (congrArg Prod.fst e1).symm
  have er : (perfF mulPos X Y).right = List.zipWith (· * ·) X.right Y.right := (congrArg Prod.snd e1).symm
  simp only [binop, mul, h]
  rw [← el, ← er]
  exact e2

/-! ## `sub` mirrors `p ↔ o` through negation -/

theorem zipWith_add_map_neg (a b : List Rat) :
    List.zipWith (· + ·) a (b.map (fun v => -v)) = List.zipWith (· - ·) a b := by
  rw [List.zipWith_map_right]
  congr 1
  funext x y
  exact (sub_eq_add_neg x y).symm

theorem flipB_left_reverse (φ : Rat → Rat) (Y : PB) : (flipB φ Y).left.reverse = Y.right.map φ := by
  simp [flipB, List.map_reverse]

theorem flipB_right_reverse (φ : Rat → Rat) (Y : PB) : (flipB φ Y).right.reverse = Y.left.map φ := by
  simp [flipB, List.map_reverse]

/-- **`X.sub(Y,'p')` = sorted endpoints of the focal differences `X_k − Y_k = [xl_k − yr_k, xr_k − yl_k]`.**
The method computes `X.add(−Y,'o')`; `−Y` lists the steps of `Y` in reverse order, and opposite
pairing `k ↦ n-1-k` of the reversed list is the pairing `k ↦ k` of the original. -/
theorem sub_mirror_p (n : Nat) (X Y : PB) (hX : WF n X) (hY : WF n Y) :
    binop n .sub .p X Y =
      .ok ⟨sortR (List.zipWith (· - ·) X.left Y.right), sortR (List.zipWith (· - ·) X.right Y.left)⟩ := by
  obtain ⟨en, wn⟩ := neg_wf n Y hY
  obtain ⟨e1, e2, -⟩ := oppositeOp_mono (· + ·) add_mono2 n X (negB Y) hX wn
  simp only [oppF, flipB_left_reverse, flipB_right_reverse, zipWith_add_map_neg] at e1 e2
  simp only [binop, sub, en, swapPO, bind, Except.bind, add, e1, e2]

/-- **`X.sub(Y,'o')` = step by step `X_k − Y_{n-1-k}`** (computed as `X.add(−Y,'p')`; no re-ordering) -/
theorem sub_mirror_o (n : Nat) (X Y : PB) (hX : WF n X) (hY : WF n Y) :
    binop n .sub .o X Y =
      .ok ⟨List.zipWith (· - ·) X.left Y.right.reverse, List.zipWith (· - ·) X.right Y.left.reverse⟩ := by
  obtain ⟨en, wn⟩ := neg_wf n Y hY
  have h := add_p_steps n X (negB Y) hX wn
  simp only [binop] at h
  simp only [binop, sub, en, swapPO, bind, Except.bind, h]
  have e1 : (negB Y).left = Y.right.reverse.map (fun v => -v) := rfl
  have e2 : (negB Y).right = Y.left.reverse.map (fun v => -v) := rfl
  rw [e1, e2, zipWith_add_map_neg, zipWith_add_map_neg]

/-! ## `div` mirrors `p ↔ o` through the reciprocal -/

theorem zipWith_mul_map_inv (a b : List Rat) :
    List.zipWith (· * ·) a (b.map (fun v => 1 / v)) = List.zipWith (· / ·) a b := by
  rw [List.zipWith_map_right]
  congr 1
  funext x y
  exact mul_one_div x y

theorem cornerPair_mul_inv (xl xr yl yr : List Rat) :
    cornerPair (· * ·) xl xr (yl.map (fun v => 1 / v)) (yr.map (fun v => 1 / v)) =
      cornerPair (· / ·) xl xr yl yr := by
  simp only [cornerPair, zipWith_mul_map_inv]

/-- **`X.div(Y,'p')` = sorted endpoints of the focal quotients `X_k / Y_k`** for every well-formed
zero-free divisor (each `X_k / Y_k` is the four-corner hull of `x / y`, `x ∈ {xl_k, xr_k}`,
`y ∈ {yr_k, yl_k}`).  The method computes `X.mul(1/Y,'o')`; `1/Y` lists the steps of `Y` in reverse
order, so the opposite pairing of the reversed list is the pairing `k ↦ k` of the original. -/
theorem div_mirror_p (n : Nat) (X Y : PB) (hX : WF n X) (hY : WF n Y) (z : ZeroFree Y) :
    binop n .div .p X Y =
      .ok ⟨sortR (cornerPair (· / ·) X.left X.right Y.right Y.left).1,
           sortR (cornerPair (· / ·) X.left X.right Y.right Y.left).2⟩ := by
  simp only [binop, div_eq_mul_recip n .p X Y hY z, swapPO, mul, oppositeOp]
  rw [flipB_left_reverse, flipB_right_reverse, cornerPair_mul_inv]
  exact mk_cornerPair_ok (· / ·) n _ _ _ _ hX.llen hX.rlen hY.rlen hY.llen

/-- **`X.div(Y,'o')` = sorted endpoints of the focal quotients `X_k / Y_{n-1-k}`** -/
theorem div_mirror_o (n : Nat) (X Y : PB) (hX : WF n X) (hY : WF n Y) (z : ZeroFree Y) :
    binop n .div .o X Y =
      .ok ⟨sortR (cornerPair (· / ·) X.left X.right Y.right.reverse Y.left.reverse).1,
           sortR (cornerPair (· / ·) X.left X.right Y.right.reverse Y.left.reverse).2⟩ := by
  simp only [binop, div_eq_mul_recip n .o X Y hY z, swapPO, mul, perfectOp]
  have e1 : (recipB Y).left = Y.right.reverse.map (fun v => 1 / v) := rfl
  have e2 : (recipB Y).right = Y.left.reverse.map (fun v => 1 / v) := rfl
  rw [e1, e2, cornerPair_mul_inv]
  exact mk_cornerPair_ok (· / ·) n _ _ _ _ hX.llen hX.rlen (by simp [hY.rlen]) (by simp [hY.llen])

/-- both mirrorings for a positive divisor -/
theorem div_mirror_pos (n : Nat) (X Y : PB) (hX : WF n X) (hY : WF n Y) (pY : ∀ v ∈ Y.left, 0 < v) :
    binop n .div .p X Y =
      .ok ⟨sortR (cornerPair (· / ·) X.left X.right Y.right Y.left).1,
           sortR (cornerPair (· / ·) X.left X.right Y.right Y.left).2⟩ ∧
    binop n .div .o X Y =
      .ok ⟨sortR (cornerPair (· / ·) X.left X.right Y.right.reverse Y.left.reverse).1,
           sortR (cornerPair (· / ·) X.left X.right Y.right.reverse Y.left.reverse).2⟩ :=
  ⟨div_mirror_p n X Y hX hY (Or.inl pY), div_mirror_o n X Y hX hY (Or.inl pY)⟩

/-- quotient of two focal intervals with a positive divisor `[c, d]`: the four-corner min/max (corners
in the order the method visits them: `a/d, a/c, b/d, b/c`) encloses every pointwise quotient and both
are attained -/
theorem focal_div_exact_pos (a b c d : Rat) (hab : a ≤ b) (hc : 0 < c) (hcd : c ≤ d) :
    (∀ x y, a ≤ x → x ≤ b → c ≤ y → y ≤ d →
      min4 (a/d) (a/c) (b/d) (b/c) ≤ x/y ∧ x/y ≤ max4 (a/d) (a/c) (b/d) (b/c)) ∧
    (∃ x y, a ≤ x ∧ x ≤ b ∧ c ≤ y ∧ y ≤ d ∧ x/y = min4 (a/d) (a/c) (b/d) (b/c)) ∧
    (∃ x y, a ≤ x ∧ x ≤ b ∧ c ≤ y ∧ y ≤ d ∧ x/y = max4 (a/d) (a/c) (b/d) (b/c)) := by
  have hd : 0 < d := lt_of_lt_of_le hc hcd
  have hinv : 1 / d ≤ 1 / c := one_div_le_one_div_of_le hc hcd
  obtain ⟨h1, h2, h3⟩ := focal_mul_exact a b (1 / d) (1 / c) hab hinv
  simp only [mul_one_div] at h1 h2 h3
  have back : ∀ y', 1 / d ≤ y' → y' ≤ 1 / c → c ≤ 1 / y' ∧ 1 / y' ≤ d := by
    intro y' hy1 hy2
    have hy0 : 0 < y' := lt_of_lt_of_le (one_div_pos.mpr hd) hy1
    constructor
    · have := one_div_le_one_div_of_le hy0 hy2
      rwa [one_div_one_div] at this
    · have := one_div_le_one_div_of_le (one_div_pos.mpr hd) hy1
      rwa [one_div_one_div] at this
  refine ⟨?_, ?_, ?_⟩
  · intro x y hx1 hx2 hy1 hy2
    have hy0 : 0 < y := lt_of_lt_of_le hc hy1
    have := h1 x (1 / y) hx1 hx2 (one_div_le_one_div_of_le hy0 hy2) (one_div_le_one_div_of_le hc hy1)
    rwa [mul_one_div] at this
  · obtain ⟨x, y', hx1, hx2, hy1, hy2, e⟩ := h2
    obtain ⟨b1, b2⟩ := back y' hy1 hy2
    exact ⟨x, 1 / y', hx1, hx2, b1, b2, by rw [div_div_eq_mul_div, div_one]; exact e⟩
  · obtain ⟨x, y', hx1, hx2, hy1, hy2, e⟩ := h3
    obtain ⟨b1, b2⟩ := back y' hy1 hy2
    exact ⟨x, 1 / y', hx1, hx2, b1, b2, by rw [div_div_eq_mul_div, div_one]; exact e⟩

example : WF 2 ⟨[1, 2], [2, 4]⟩ := ⟨⟨rfl, rfl, by decide, by decide⟩, by decide⟩
example : ZeroFree ⟨[1, 2], [2, 4]⟩ := Or.inl (by decide)
example : List.zipWith (· - ·) [1, 2] [6, 1] = ([-5, 1] : List Rat) := by decide +kernel

/-! `condense_index`, `condense_block` are in `Pun.Lemmas.PBoxFrechet2` (shared with C02's enclosure of the
independent result). -/
example : condenseIdx (200 * 200) 200 7 = 7 * 201 := by decide +kernel

end Pun.PBox
