import Pun.Lemmas.PBoxNum
namespace Pun.PBox.Num
end Pun.PBox.Num
