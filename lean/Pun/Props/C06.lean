import Pun.Lemmas.PBoxNum
import Pun.Lemmas.PBoxList
import Mathlib.Tactic.NormNum
import Mathlib.Tactic.FieldSimp
import Mathlib.Algebra.Order.Ring.Basic
import Mathlib.Algebra.Ring.Parity
/-!
# C06 — p-box with a real number, negation and monotone maps act step by step, exactly

All statements are about the functions the driver executes (`numRightK`, `numLeftK`, `neg`,
`recip`, `expP`, `logP`, `sqrtP`, `powNat`, `powW` and, through them, `numRight`, `numLeft`,
`numberOp`, `unaryTemplate`, `mk`) for a well-formed p-box with ANY number `n` of steps
(`WF n P`: `n` entries per bound, both bounds sorted, `left[i] ≤ right[i]`).

* focal level (`IsImage`): the image of `[a,b]` under `x+c`, `x-c`, `c-x`, `x*c`, `x/c`, `-x`, `1/x`
  is exactly the interval between the images of the endpoints, exchanged for a decreasing map;
* `numAdd_steps`, `numSub_steps`, `numMul_steps_pos`, `numMul_steps_neg`, `numDiv_steps_pos`,
  `numDiv_steps_neg`: the result of `P op c` is `ok` and its bound lists are the images of the
  operand's bound lists — same order for an increasing map; for a decreasing map the bounds are
  exchanged and the order of the steps reversed (step `i` of the result is the image of step
  `n-1-i`); `radd_eq`, `rmul_eq`, `rsub_steps`, `rdiv_steps_nonneg`, `rdiv_steps_nonpos` for the
  constant on the left; `num_step_image_*` combine both levels ("step = exact image of a step");
* `neg_steps`, `neg_neg_box : -(-P) = P`, `rsub_eq : c - P = -(P - c)`,
  `rdiv_eq : c / P = c * (1/P)`, `mul_zero_box`, `rmul_zero_box : P*0 = 0*P =` all steps `[0,0]`,
  `div_zero_raises` (every constant kind), `numRightK_eq`, `numLeftK_eq` (kinds do not matter else);
* `unary_mono_steps` (+ `exp_steps`, `log_steps`, `log_nonpos_raises`, `sqrt_steps`,
  `sqrt_neg_raises`), `recip_steps`, `pow_pos_steps`, `pow_neg_even_steps`, `pow_neg_odd_steps`,
  `powW_steps`.
`exp`, `log`, `sqrt` and real powers are parameters `g` with exactly the order fact used
(monotone on the values of the p-box).
-/
set_option linter.unusedSimpArgs false
set_option linter.unusedVariables false
namespace Pun.PBox.Num
open Pun Pun.PBox List

/-! ## focal intervals: the image of `[a,b]` is exactly `[lo,hi]` -/

def IsImage (g : Rat → Rat) (a b lo hi : Rat) : Prop :=
  ∀ y, (∃ x, a ≤ x ∧ x ≤ b ∧ g x = y) ↔ (lo ≤ y ∧ y ≤ hi)

theorem image_add (a b c : Rat) : IsImage (· + c) a b (a + c) (b + c) := by
  intro y; constructor
  · rintro ⟨x, h1, h2, rfl⟩; constructor <;> simp only <;> linarith
  · rintro ⟨h1, h2⟩; exact ⟨y - c, by linarith, by linarith, by simp⟩

theorem image_sub (a b c : Rat) : IsImage (· - c) a b (a - c) (b - c) := by
  intro y; constructor
  · rintro ⟨x, h1, h2, rfl⟩; constructor <;> simp only <;> linarith
  · rintro ⟨h1, h2⟩; exact ⟨y + c, by linarith, by linarith, by simp⟩

theorem image_rsub (a b c : Rat) : IsImage (c - ·) a b (c - b) (c - a) := by
  intro y; constructor
  · rintro ⟨x, h1, h2, rfl⟩; constructor <;> simp only <;> linarith
  · rintro ⟨h1, h2⟩; exact ⟨c - y, by linarith, by linarith, by simp⟩

theorem image_neg (a b : Rat) : IsImage (- ·) a b (-b) (-a) := by
  intro y; constructor
  · rintro ⟨x, h1, h2, rfl⟩; constructor <;> simp only <;> linarith
  · rintro ⟨h1, h2⟩; exact ⟨-y, by linarith, by linarith, by simp⟩

theorem image_mul_nonneg (a b c : Rat) (hab : a ≤ b) (hc : 0 ≤ c) :
    IsImage (· * c) a b (a * c) (b * c) := by
  intro y; constructor
  · rintro ⟨x, h1, h2, rfl⟩
    exact ⟨mul_le_mul_of_nonneg_right h1 hc, mul_le_mul_of_nonneg_right h2 hc⟩
  · rintro ⟨h1, h2⟩
    rcases eq_or_lt_of_le hc with h0 | hpos
    · subst h0; simp only [mul_zero] at h1 h2 ⊢
      exact ⟨a, le_refl a, hab, le_antisymm h1 h2⟩
    · refine ⟨y / c, ?_, ?_, by field_simp⟩
      · rw [le_div_iff₀ hpos]; exact h1
      · rw [div_le_iff₀ hpos]; exact h2

theorem image_mul_nonpos (a b c : Rat) (hab : a ≤ b) (hc : c ≤ 0) :
    IsImage (· * c) a b (b * c) (a * c) := by
  intro y; constructor
  · rintro ⟨x, h1, h2, rfl⟩
    exact ⟨mul_le_mul_of_nonpos_right h2 hc, mul_le_mul_of_nonpos_right h1 hc⟩
  · rintro ⟨h1, h2⟩
    rcases eq_or_lt_of_le hc with h0 | hneg
    · subst h0; simp only [mul_zero] at h1 h2 ⊢
      exact ⟨a, le_refl a, hab, le_antisymm h1 h2⟩
    · have hc0 : c ≠ 0 := ne_of_lt hneg
      refine ⟨y / c, ?_, ?_, by field_simp⟩
      · rw [le_div_iff_of_neg hneg]; exact h2
      · rw [div_le_iff_of_neg hneg]; exact h1

theorem image_div_pos (a b c : Rat) (hc : 0 < c) : IsImage (· / c) a b (a / c) (b / c) := by
  intro y; constructor
  · rintro ⟨x, h1, h2, rfl⟩
    exact ⟨div_le_div_of_nonneg_right h1 hc.le, div_le_div_of_nonneg_right h2 hc.le⟩
  · rintro ⟨h1, h2⟩
    refine ⟨y * c, ?_, ?_, by field_simp⟩
    · rw [div_le_iff₀ hc] at h1; exact h1
    · rw [le_div_iff₀ hc] at h2; exact h2

theorem image_div_neg (a b c : Rat) (hc : c < 0) : IsImage (· / c) a b (b / c) (a / c) := by
  intro y; constructor
  · rintro ⟨x, h1, h2, rfl⟩
    exact ⟨div_le_div_of_nonpos_of_le hc.le h2, div_le_div_of_nonpos_of_le hc.le h1⟩
  · rintro ⟨h1, h2⟩
    have hc0 : c ≠ 0 := ne_of_lt hc
    refine ⟨y * c, ?_, ?_, by field_simp⟩
    · rw [le_div_iff_of_neg hc] at h2; exact h2
    · rw [div_le_iff_of_neg hc] at h1; exact h1

theorem image_recip_pos (a b : Rat) (hab : a ≤ b) (ha : 0 < a) :
    IsImage (1 / ·) a b (1 / b) (1 / a) := by
  have hb : 0 < b := lt_of_lt_of_le ha hab
  intro y; constructor
  · rintro ⟨x, h1, h2, rfl⟩
    exact ⟨one_div_le_one_div_of_le (lt_of_lt_of_le ha h1) h2, one_div_le_one_div_of_le ha h1⟩
  · rintro ⟨h1, h2⟩
    have hy : 0 < y := lt_of_lt_of_le (one_div_pos.mpr hb) h1
    refine ⟨1 / y, ?_, ?_, by simp⟩
    · rw [le_one_div ha hy]; exact h2
    · rw [one_div_le hy hb]; exact h1

theorem image_recip_neg (a b : Rat) (hab : a ≤ b) (hb : b < 0) :
    IsImage (1 / ·) a b (1 / b) (1 / a) := by
  have ha : a < 0 := lt_of_le_of_lt hab hb
  intro y; constructor
  · rintro ⟨x, h1, h2, rfl⟩
    have hx : x < 0 := lt_of_le_of_lt h2 hb
    exact ⟨(one_div_le_one_div_of_neg hb hx).mpr h2, (one_div_le_one_div_of_neg hx ha).mpr h1⟩
  · rintro ⟨h1, h2⟩
    have hy : y < 0 := lt_of_le_of_lt h2 (one_div_neg.mpr ha)
    refine ⟨1 / y, ?_, ?_, by simp⟩
    · have := (one_div_le_one_div_of_neg (one_div_neg.mpr ha) hy).mpr h2
      simpa using this
    · have := (one_div_le_one_div_of_neg hy (one_div_neg.mpr hb)).mpr h1
      simpa using this

/-! ## `lo`, `hi`, `straddlesZero` of a sorted p-box -/

theorem lo_le (P : PB) (s : P.left.Pairwise (· ≤ ·)) : ∀ x ∈ P.left, lo P ≤ x := by
  unfold lo
  cases hl : P.left with
  | nil => intro x hx; simp at hx
  | cons a t =>
    rw [hl] at s
    intro x hx
    simp only [List.headD_cons]
    rcases List.mem_cons.mp hx with e | e
    · rw [e]
    · exact (List.pairwise_cons.mp s).1 x e

theorem getLastD_ge (t : List Rat) (d : Rat) (hd : ∀ y ∈ t, d ≤ y) (s : t.Pairwise (· ≤ ·)) :
    d ≤ t.getLastD d ∧ ∀ y ∈ t, y ≤ t.getLastD d := by
  induction t generalizing d with
  | nil => simp
  | cons a u ih =>
    rw [List.getLastD_cons]
    have s' := List.pairwise_cons.mp s
    obtain ⟨h1, h2⟩ := ih a (fun y hy => s'.1 y hy) s'.2
    refine ⟨le_trans (hd a (by simp)) h1, ?_⟩
    intro y hy
    rcases List.mem_cons.mp hy with e | e
    · rw [e]; exact h1
    · exact h2 y e

theorem le_hi (P : PB) (s : P.right.Pairwise (· ≤ ·)) : ∀ y ∈ P.right, y ≤ hi P := by
  unfold hi
  cases hr : P.right with
  | nil => intro x hx; simp at hx
  | cons a t =>
    rw [hr] at s
    have s' := List.pairwise_cons.mp s
    obtain ⟨h1, h2⟩ := getLastD_ge t a (fun y hy => s'.1 y hy) s'.2
    rw [List.getLastD_cons]
    intro y hy
    rcases List.mem_cons.mp hy with e | e
    · rw [e]; exact h1
    · exact h2 y e

theorem not_straddles_of_nonneg (P : PB) (h : ∀ x ∈ P.left, 0 ≤ x) : straddlesZero P = false := by
  unfold straddlesZero
  have : ¬ minL 0 P.left < 0 := by
    by_cases hne : P.left = []
    · simp [hne, minL]
    · exact not_lt.mpr (h _ (minL_spec 0 P.left hne).1)
  simp [this]

theorem not_straddles_of_nonpos (P : PB) (h : ∀ x ∈ P.right, x ≤ 0) : straddlesZero P = false := by
  unfold straddlesZero
  have : ¬ maxL 0 P.right > 0 := by
    by_cases hne : P.right = []
    · simp [hne, maxL]
    · exact not_lt.mpr (h _ (maxL_spec 0 P.right hne).1)
  simp [this]

/-- the support of `P` excludes zero: what the order facts about `1/x` need -/
theorem excl_zero_pred (n : Nat) (P : PB) (h : WF n P) (hz : 0 < lo P ∨ hi P < 0) :
    ∃ p : Rat → Prop, (∀ x ∈ P.left, p x) ∧ (∀ x ∈ P.right, p x) ∧ (∀ x, p x → x ≠ 0) ∧
      (∀ x y : Rat, p x → p y → x ≤ y → 1 / y ≤ 1 / x) := by
  rcases hz with hpos | hneg
  · have hl : ∀ x ∈ P.left, 0 < x := fun x hx => lt_of_lt_of_le hpos (lo_le P h.sortedL x hx)
    exact ⟨fun x => 0 < x, hl, forall₂_lb h.le 0 hl, fun x hx => ne_of_gt hx, recip_anti_pos⟩
  · have hr : ∀ y ∈ P.right, y < 0 := fun y hy => lt_of_le_of_lt (le_hi P h.sortedR y hy) hneg
    exact ⟨fun x => x < 0, forall₂_ub h.le 0 hr, hr, fun x hx => ne_of_lt hx, recip_anti_neg⟩

/-! ## `P op c` : the steps are the images of the operand's steps -/

/-- ★ `P + c` -/
theorem numAdd_steps (n : Nat) (P : PB) (c : Rat) (h : WF n P) :
    numRight n .add P c = .ok ⟨P.left.map (· + c), P.right.map (· + c)⟩ :=
  numberOp_mono n (· + ·) P c h (fun _ => True) (fun _ _ => trivial) (fun _ _ => trivial)
    (fun x y _ _ hxy => by show _ ≤ _; linarith)

/-- ★ `P - c` (coded as `P.add(-c)`) -/
theorem numSub_steps (n : Nat) (P : PB) (c : Rat) (h : WF n P) :
    numRight n .sub P c = .ok ⟨P.left.map (· - c), P.right.map (· - c)⟩ := by
  have e : (fun x : Rat => x - c) = (fun x => x + -c) := funext (fun x => sub_eq_add_neg x c)
  rw [e]
  exact numAdd_steps n P (-c) h

/-- ★ `P * c`, `c ≥ 0` (for `c = 0` every step is `[0,0]`) -/
theorem numMul_steps_pos (n : Nat) (P : PB) (c : Rat) (h : WF n P) (hc : 0 ≤ c) :
    numRight n .mul P c = .ok ⟨P.left.map (· * c), P.right.map (· * c)⟩ :=
  numberOp_mono n (· * ·) P c h (fun _ => True) (fun _ _ => trivial) (fun _ _ => trivial)
    (fun x y _ _ hxy => mul_le_mul_of_nonneg_right hxy hc)

/-- ★ `P * c`, `c ≤ 0`: bounds exchanged, order of the steps reversed -/
theorem numMul_steps_neg (n : Nat) (P : PB) (c : Rat) (h : WF n P) (hc : c ≤ 0) :
    numRight n .mul P c = .ok ⟨P.right.reverse.map (· * c), P.left.reverse.map (· * c)⟩ :=
  numberOp_anti n (· * ·) P c h (fun _ => True) (fun _ _ => trivial) (fun _ _ => trivial)
    (fun x y _ _ hxy => mul_le_mul_of_nonpos_right hxy hc)

theorem numRight_div_ne (n : Nat) (P : PB) (c : Rat) (hc : c ≠ 0) :
    numRight n .div P c = numberOp n (· * ·) P (1 / c) := by
  simp [numRight, hc]

/-- ★ `P / c`, `c > 0` (coded as `P.mul(1/c)`) -/
theorem numDiv_steps_pos (n : Nat) (P : PB) (c : Rat) (h : WF n P) (hc : 0 < c) :
    numRight n .div P c = .ok ⟨P.left.map (· / c), P.right.map (· / c)⟩ := by
  have e : (fun x : Rat => x / c) = (fun x => x * (1 / c)) := funext (fun x => (mul_one_div x c).symm)
  rw [e, numRight_div_ne n P c hc.ne']
  exact numberOp_mono n (· * ·) P (1 / c) h (fun _ => True) (fun _ _ => trivial) (fun _ _ => trivial)
    (fun x y _ _ hxy => mul_le_mul_of_nonneg_right hxy (one_div_pos.mpr hc).le)

/-- ★ `P / c`, `c < 0` -/
theorem numDiv_steps_neg (n : Nat) (P : PB) (c : Rat) (h : WF n P) (hc : c < 0) :
    numRight n .div P c = .ok ⟨P.right.reverse.map (· / c), P.left.reverse.map (· / c)⟩ := by
  have e : (fun x : Rat => x / c) = (fun x => x * (1 / c)) := funext (fun x => (mul_one_div x c).symm)
  rw [e, numRight_div_ne n P c hc.ne]
  exact numberOp_anti n (· * ·) P (1 / c) h (fun _ => True) (fun _ _ => trivial) (fun _ _ => trivial)
    (fun x y _ _ hxy => mul_le_mul_of_nonpos_right hxy (one_div_neg.mpr hc).le)

/-- the kind of the constant (int, float, numpy scalar) matters only for `P / 0` -/
theorem numRightK_eq (n : Nat) (k : CKind) (o : Op) (P : PB) (c : Rat) (h : o ≠ .div ∨ c ≠ 0) :
    numRightK n k o P c = numRight n o P c := by
  cases o with
  | div =>
    rcases h with h | h
    · exact absurd rfl h
    · simp [numRightK, h]
  | add => rfl
  | sub => rfl
  | mul => rfl

theorem numLeftK_eq (n : Nat) (k : CKind) (o : Op) (c : Rat) (P : PB) (h : o ≠ .div) :
    numLeftK n k o c P = numLeft n o c P := by
  cases o with
  | div => exact absurd rfl h
  | add => rfl
  | sub => rfl
  | mul => rfl

theorem numLeftK_div_ok (n : Nat) (k : CKind) (c : Rat) (P R : PB)
    (h : numLeft n .div c P = .ok R) : numLeftK n k .div c P = .ok R := by
  simp [numLeftK, h]

/-- ★ `P / 0` is an error for every kind of zero -/
theorem div_zero_raises (n : Nat) (k : CKind) (P : PB) : ∃ e, numRightK n k .div P 0 = .error e := by
  cases k <;> exact ⟨_, rfl⟩

theorem div_zero_python (n : Nat) (P : PB) :
    numRightK n .pyInt .div P 0 = .error .ZeroDivision ∧ numRightK n .pyFloat .div P 0 = .error .ZeroDivision :=
  ⟨rfl, rfl⟩

/-- `c + P = P + c`, `c * P = P * c` (reflected operators call the same method) -/
theorem radd_eq (n : Nat) (c : Rat) (P : PB) : numLeft n .add c P = numRight n .add P c := rfl
theorem rmul_eq (n : Nat) (c : Rat) (P : PB) : numLeft n .mul c P = numRight n .mul P c := rfl

/-! ## negation, `c - P` -/

/-- ★ `-P`: step `i` of the result is the negated step `n-1-i`, bounds exchanged -/
theorem neg_steps (n : Nat) (P : PB) (h : WF n P) :
    neg n P = .ok ⟨P.right.reverse.map (- ·), P.left.reverse.map (- ·)⟩ := neg_ok n P h

/-- ★ `-(-P) = P` -/
theorem neg_neg_box (n : Nat) (P : PB) (h : WF n P) : (neg n P >>= neg n) = .ok P := by
  rw [neg_ok n P h]
  show neg n _ = _
  rw [neg_ok n _ (neg_wf n P h)]
  cases P with
  | mk l r => simp [List.map_reverse, Function.comp]

/-- `c - P` (coded as `(-P).add(c)`): step `i` is `c -` step `n-1-i` -/
theorem rsub_steps (n : Nat) (c : Rat) (P : PB) (h : WF n P) :
    numLeft n .sub c P = .ok ⟨P.right.reverse.map (c - ·), P.left.reverse.map (c - ·)⟩ := by
  have h1 := neg_ok n P h
  have h2 := numAdd_steps n _ c (neg_wf n P h)
  have e : (fun x : Rat => c - x) = (fun x => x + c) ∘ (fun x => -x) := by
    funext x; simp only [Function.comp]; ring
  show (neg n P >>= fun np => numberOp n (· + ·) np c) = _
  rw [h1]
  show numRight n .add _ c = _
  rw [h2, e, ← List.map_map, ← List.map_map]

/-- ★ `c - P = -(P - c)` -/
theorem rsub_eq (n : Nat) (c : Rat) (P : PB) (h : WF n P) :
    numLeft n .sub c P = (numRight n .sub P c >>= neg n) := by
  rw [rsub_steps n c P h, numSub_steps n P c h]
  show _ = neg n _
  have w : WF n ⟨P.left.map (· - c), P.right.map (· - c)⟩ :=
    wf_map_mono n P h (· - c) (fun _ => True) (fun _ _ => trivial) (fun _ _ => trivial)
      (fun x y _ _ hxy => by show _ ≤ _; linarith)
  rw [neg_ok n _ w]
  simp [List.map_reverse, Function.comp]

/-! ## reciprocal, `c / P` -/

/-- ★ `1/P` for a p-box whose support excludes zero: step `i` is the reciprocal of step `n-1-i` -/
theorem recip_steps (n : Nat) (P : PB) (h : WF n P) (hz : 0 < lo P ∨ hi P < 0) :
    recip n P = .ok ⟨P.right.reverse.map (1 / ·), P.left.reverse.map (1 / ·)⟩ := by
  obtain ⟨p, hpl, hpr, hne, hg⟩ := excl_zero_pred n P h hz
  exact recip_ok n P h p hpl hpr hne hg

theorem recip_wf (n : Nat) (P : PB) (h : WF n P) (hz : 0 < lo P ∨ hi P < 0) :
    WF n ⟨P.right.reverse.map (1 / ·), P.left.reverse.map (1 / ·)⟩ := by
  obtain ⟨p, hpl, hpr, hne, hg⟩ := excl_zero_pred n P h hz
  exact wf_map_anti n P h (1 / ·) p hpl hpr hg

theorem numLeft_div_eq (n : Nat) (c : Rat) (P : PB) (h : WF n P) (hz : 0 < lo P ∨ hi P < 0) :
    numLeft n .div c P =
      numRight n .mul ⟨P.right.reverse.map (1 / ·), P.left.reverse.map (1 / ·)⟩ c := by
  show (recip n P >>= fun r => numberOp n (· * ·) r c) = _
  rw [recip_steps n P h hz]
  rfl

/-- `c / P`, `c ≥ 0` (coded as `c * P.reciprocal()`): step `i` is `c /` step `n-1-i` -/
theorem rdiv_steps_nonneg (n : Nat) (c : Rat) (P : PB) (h : WF n P) (hz : 0 < lo P ∨ hi P < 0)
    (hc : 0 ≤ c) :
    numLeft n .div c P = .ok ⟨P.right.reverse.map (c / ·), P.left.reverse.map (c / ·)⟩ := by
  rw [numLeft_div_eq n c P h hz, numMul_steps_pos n _ c (recip_wf n P h hz) hc]
  have e : (fun x : Rat => c / x) = (fun x => x * c) ∘ (fun x => 1 / x) := by
    funext x; simp only [Function.comp]; rw [one_div_mul_eq_div]
  rw [e, ← List.map_map, ← List.map_map]

/-- `c / P`, `c ≤ 0`: the two reversals cancel, step `i` is `c /` step `i` with bounds exchanged twice -/
theorem rdiv_steps_nonpos (n : Nat) (c : Rat) (P : PB) (h : WF n P) (hz : 0 < lo P ∨ hi P < 0)
    (hc : c ≤ 0) :
    numLeft n .div c P = .ok ⟨P.left.map (c / ·), P.right.map (c / ·)⟩ := by
  rw [numLeft_div_eq n c P h hz, numMul_steps_neg n _ c (recip_wf n P h hz) hc]
  have e : (fun x : Rat => c / x) = (fun x => x * c) ∘ (fun x => 1 / x) := by
    funext x; simp only [Function.comp]; rw [one_div_mul_eq_div]
  simp only [e, ← List.map_map, List.map_reverse, List.reverse_reverse]

/-- ★ `c / P = c * (1/P)` where `1/P` is itself the reflected division `1 / P` -/
theorem rdiv_eq (n : Nat) (c : Rat) (P : PB) (h : WF n P) (hz : 0 < lo P ∨ hi P < 0) :
    numLeft n .div c P = (numLeft n .div 1 P >>= fun Q => numLeft n .mul c Q) := by
  have h1 := rdiv_steps_nonneg n 1 P h hz (by norm_num)
  have e : (fun x : Rat => 1 / x) = (1 / ·) := rfl
  rw [h1]
  show _ = numRight n .mul _ c
  exact numLeft_div_eq n c P h hz

/-! ## zero -/

/-- ★ `P * 0`: every step is `[0,0]` -/
theorem mul_zero_box (n : Nat) (P : PB) (h : WF n P) :
    numRight n .mul P 0 = .ok ⟨List.replicate n 0, List.replicate n 0⟩ := by
  rw [numMul_steps_pos n P 0 h (le_refl 0)]
  simp [mul_zero, h.lenL, h.lenR]

theorem rmul_zero_box (n : Nat) (P : PB) (h : WF n P) :
    numLeft n .mul 0 P = .ok ⟨List.replicate n 0, List.replicate n 0⟩ := mul_zero_box n P h

/-- `0 / P = 0` when the support excludes zero -/
theorem rdiv_zero_box (n : Nat) (P : PB) (h : WF n P) (hz : 0 < lo P ∨ hi P < 0) :
    numLeft n .div 0 P = .ok ⟨List.replicate n 0, List.replicate n 0⟩ := by
  rw [rdiv_steps_nonneg n 0 P h hz (le_refl 0)]
  simp [h.lenL, h.lenR]

/-! ## step = exact image of a step -/

theorem forall₂_get {l r : List Rat} (h : Forall₂ (· ≤ ·) l r) (i : Nat) (hi : i < l.length)
    (hi' : i < r.length) : l[i] ≤ r[i] := by
  induction h generalizing i with
  | nil => simp at hi
  | @cons a b s t hab _ ih =>
    cases i with
    | zero => simpa using hab
    | succ j => simpa using ih j (by simpa using hi) (by simpa using hi')

/-- `P * c`, `c ≥ 0`: step `i` of the result is exactly the image of step `i` of `P` -/
theorem num_step_image_mul_pos (n : Nat) (P : PB) (c : Rat) (h : WF n P) (hc : 0 ≤ c) (i : Nat) (hi : i < n) :
    ∃ R, numRightK n .pyFloat .mul P c = .ok R ∧ ∃ (h1 : i < R.left.length) (h2 : i < R.right.length)
      (h3 : i < P.left.length) (h4 : i < P.right.length),
      IsImage (· * c) P.left[i] P.right[i] R.left[i] R.right[i] := by
  refine ⟨_, numMul_steps_pos n P c h hc, by simp [h.lenL, hi], by simp [h.lenR, hi],
    by simp [h.lenL, hi], by simp [h.lenR, hi], ?_⟩
  simp only [List.getElem_map]
  exact image_mul_nonneg _ _ c (forall₂_get h.le i _ _) hc

/-- `P * c`, `c ≤ 0`: step `i` of the result is exactly the image of step `n-1-i` of `P` -/
theorem num_step_image_mul_neg (n : Nat) (P : PB) (c : Rat) (h : WF n P) (hc : c ≤ 0) (i : Nat) (hi : i < n) :
    ∃ R, numRightK n .pyFloat .mul P c = .ok R ∧ ∃ (h1 : i < R.left.length) (h2 : i < R.right.length)
      (h3 : n - 1 - i < P.left.length) (h4 : n - 1 - i < P.right.length),
      IsImage (· * c) P.left[n - 1 - i] P.right[n - 1 - i] R.left[i] R.right[i] := by
  have hl := h.lenL
  have hr := h.lenR
  refine ⟨_, numMul_steps_neg n P c h hc, by simp [hr, hi], by simp [hl, hi],
    by omega, by omega, ?_⟩
  simp only [List.getElem_map, List.getElem_reverse, hl, hr]
  exact image_mul_nonpos _ _ c (forall₂_get h.le (n - 1 - i) _ _) hc

/-- `1/P`: step `i` of the result is exactly the image of step `n-1-i` of `P` -/
theorem recip_step_image (n : Nat) (P : PB) (h : WF n P) (hz : 0 < lo P ∨ hi P < 0) (i : Nat) (hi : i < n) :
    ∃ R, recip n P = .ok R ∧ ∃ (h1 : i < R.left.length) (h2 : i < R.right.length)
      (h3 : n - 1 - i < P.left.length) (h4 : n - 1 - i < P.right.length),
      IsImage (1 / ·) P.left[n - 1 - i] P.right[n - 1 - i] R.left[i] R.right[i] := by
  have hl := h.lenL
  have hr := h.lenR
  refine ⟨_, recip_steps n P h hz, by simp [hr, hi], by simp [hl, hi], by omega, by omega, ?_⟩
  simp only [List.getElem_map, List.getElem_reverse, hl, hr]
  have hab := forall₂_get h.le (n - 1 - i) (by omega) (by omega)
  rcases hz with hpos | hneg
  · exact image_recip_pos _ _ hab (lt_of_lt_of_le hpos (lo_le P h.sortedL _ (List.getElem_mem _)))
  · exact image_recip_neg _ _ hab (lt_of_le_of_lt (le_hi P h.sortedR _ (List.getElem_mem _)) hneg)

/-! ## monotone unary maps (`exp`, `log`, `sqrt` are parameters `g`) -/

/-- ★ `_unary_template(g)` for `g` increasing on a set holding every bound of `P` -/
theorem unary_mono_steps (n : Nat) (P : PB) (h : WF n P) (g : Rat → Rat) (p : Rat → Prop)
    (hpl : ∀ x ∈ P.left, p x) (hpr : ∀ x ∈ P.right, p x)
    (hg : ∀ x y, p x → p y → x ≤ y → g x ≤ g y) :
    unaryTemplate n (P.left.map g) (P.right.map g) = .ok ⟨P.left.map g, P.right.map g⟩ :=
  unaryTemplate_mono n P h g p hpl hpr hg

theorem exp_steps (n : Nat) (P : PB) (h : WF n P) (g : Rat → Rat) (hg : ∀ x y, x ≤ y → g x ≤ g y) :
    expP n P (P.left.map g) (P.right.map g) = .ok ⟨P.left.map g, P.right.map g⟩ :=
  unaryTemplate_mono n P h g (fun _ => True) (fun _ _ => trivial) (fun _ _ => trivial)
    (fun x y _ _ hxy => hg x y hxy)

theorem log_steps (n : Nat) (P : PB) (h : WF n P) (g : Rat → Rat)
    (hg : ∀ x y, 0 < x → 0 < y → x ≤ y → g x ≤ g y) (hpos : 0 < lo P) :
    logP n P (P.left.map g) (P.right.map g) = .ok ⟨P.left.map g, P.right.map g⟩ := by
  have hl : ∀ x ∈ P.left, 0 < x := fun x hx => lt_of_lt_of_le hpos (lo_le P h.sortedL x hx)
  unfold logP
  rw [if_neg (not_le.mpr hpos)]
  exact unaryTemplate_mono n P h g (fun x => 0 < x) hl (forall₂_lb h.le 0 hl) hg

theorem log_nonpos_raises (n : Nat) (P : PB) (fl fr : List Rat) (hle : lo P ≤ 0) :
    logP n P fl fr = .error .Value := by
  unfold logP; rw [if_pos hle]

theorem sqrt_steps (n : Nat) (P : PB) (h : WF n P) (g : Rat → Rat)
    (hg : ∀ x y, 0 ≤ x → 0 ≤ y → x ≤ y → g x ≤ g y) (h0 : 0 ≤ lo P) :
    sqrtP n P (P.left.map g) (P.right.map g) = .ok ⟨P.left.map g, P.right.map g⟩ := by
  have hl : ∀ x ∈ P.left, 0 ≤ x := fun x hx => le_trans h0 (lo_le P h.sortedL x hx)
  have hr := forall₂_lb' h.le 0 hl
  unfold sqrtP
  have e1 : P.left.any (fun x => decide (x < 0)) = false := by
    rw [List.any_eq_false]; intro x hx; simpa using hl x hx
  have e2 : P.right.any (fun x => decide (x < 0)) = false := by
    rw [List.any_eq_false]; intro x hx; simpa using hr x hx
  rw [e1, e2]
  simp only [Bool.or_self, Bool.false_eq_true, if_false]
  exact unaryTemplate_mono n P h g (fun x => 0 ≤ x) hl hr hg

theorem sqrt_neg_raises (n : Nat) (P : PB) (fl fr : List Rat) (hneg : lo P < 0) :
    sqrtP n P fl fr = .error .Other := by
  unfold sqrtP
  have : P.left.any (fun x => decide (x < 0)) = true := by
    unfold lo at hneg
    cases hl : P.left with
    | nil => rw [hl] at hneg; simp at hneg
    | cons a t => rw [hl] at hneg; simp only [List.headD_cons] at hneg; simp [hneg]
  rw [this]; rfl

/-! ## powers -/

/-- ○ `P ** k` for `P ≥ 0` -/
theorem pow_pos_steps (n : Nat) (P : PB) (h : WF n P) (k : Nat) (h0 : 0 ≤ lo P) :
    powNat n P k = some (.ok ⟨P.left.map (· ^ k), P.right.map (· ^ k)⟩) := by
  have hl : ∀ x ∈ P.left, 0 ≤ x := fun x hx => le_trans h0 (lo_le P h.sortedL x hx)
  have hr := forall₂_lb' h.le 0 hl
  unfold powNat
  rw [not_straddles_of_nonneg P hl]
  simp only [Bool.false_eq_true, if_false]
  congr 1
  exact numberOp_mono n (fun x _ => x ^ k) P 0 h (fun x => 0 ≤ x) hl hr
    (fun x y hx _ hxy => pow_le_pow_left₀ hx hxy k)

/-- ○ `P ** k` for `P ≤ 0`, `k` even: decreasing map, bounds exchanged and order reversed -/
theorem pow_neg_even_steps (n : Nat) (P : PB) (h : WF n P) (k : Nat) (hk : Even k) (h0 : hi P ≤ 0) :
    powNat n P k = some (.ok ⟨P.right.reverse.map (· ^ k), P.left.reverse.map (· ^ k)⟩) := by
  have hr : ∀ x ∈ P.right, x ≤ 0 := fun x hx => le_trans (le_hi P h.sortedR x hx) h0
  have hl := forall₂_ub' h.le 0 hr
  unfold powNat
  rw [not_straddles_of_nonpos P hr]
  simp only [Bool.false_eq_true, if_false]
  congr 1
  refine numberOp_anti n (fun x _ => x ^ k) P 0 h (fun x => x ≤ 0) hl hr ?_
  intro x y hx hy hxy
  show y ^ k ≤ x ^ k
  rw [← Even.neg_pow hk y, ← Even.neg_pow hk x]
  exact pow_le_pow_left₀ (by linarith) (by linarith) k

/-- ○ `P ** k` for `k` odd (any sign that does not straddle zero): increasing map -/
theorem pow_neg_odd_steps (n : Nat) (P : PB) (h : WF n P) (k : Nat) (hk : Odd k) (h0 : hi P ≤ 0) :
    powNat n P k = some (.ok ⟨P.left.map (· ^ k), P.right.map (· ^ k)⟩) := by
  have hr : ∀ x ∈ P.right, x ≤ 0 := fun x hx => le_trans (le_hi P h.sortedR x hx) h0
  unfold powNat
  rw [not_straddles_of_nonpos P hr]
  simp only [Bool.false_eq_true, if_false]
  congr 1
  exact numberOp_mono n (fun x _ => x ^ k) P 0 h (fun _ => True) (fun _ _ => trivial) (fun _ _ => trivial)
    (fun x y _ _ hxy => hk.strictMono_pow.monotone hxy)

/-- ○ `P ** c` for a real exponent: `g = (· ** c)` is a parameter, increasing on `[0,∞)` -/
theorem powW_steps (n : Nat) (P : PB) (h : WF n P) (g : Rat → Rat)
    (hg : ∀ x y, 0 ≤ x → 0 ≤ y → x ≤ y → g x ≤ g y) (h0 : 0 ≤ lo P) :
    powW n P (P.left.map g) (P.right.map g) = some (.ok ⟨P.left.map g, P.right.map g⟩) := by
  have hl : ∀ x ∈ P.left, 0 ≤ x := fun x hx => le_trans h0 (lo_le P h.sortedL x hx)
  have hr := forall₂_lb' h.le 0 hl
  unfold powW
  rw [not_straddles_of_nonneg P hl]
  simp only [Bool.false_eq_true, if_false]
  congr 1
  exact numberOpW_mono n P h g (fun x => 0 ≤ x) hl hr hg

/-! ## non-vacuity: the hypotheses are met by concrete p-boxes, and the model computes the stated steps -/

def exP : PB := ⟨[1, 2], [2, 4]⟩
def exN : PB := ⟨[-4, -2], [-2, -1]⟩

theorem exP_wf : WF 2 exP :=
  ⟨rfl, rfl, by norm_num [exP], by norm_num [exP],
    Forall₂.cons (by norm_num) (Forall₂.cons (by norm_num) Forall₂.nil)⟩

theorem exN_wf : WF 2 exN :=
  ⟨rfl, rfl, by norm_num [exN], by norm_num [exN],
    Forall₂.cons (by norm_num) (Forall₂.cons (by norm_num) Forall₂.nil)⟩

theorem exP_pos : 0 < lo exP := by norm_num [lo, exP]
theorem exN_neg : hi exN < 0 := by norm_num [hi, exN]

example : IsImage (· * (-3)) 1 2 (2 * (-3)) (1 * (-3)) := image_mul_nonpos 1 2 (-3) (by norm_num) (by norm_num)
example : IsImage (1 / ·) 2 4 (1 / 4) (1 / 2) := image_recip_pos 2 4 (by norm_num) (by norm_num)
example := numAdd_steps 2 exP 5 exP_wf
example := numSub_steps 2 exP 5 exP_wf
example := numMul_steps_pos 2 exP 3 exP_wf (by norm_num)
example := numMul_steps_neg 2 exP (-3) exP_wf (by norm_num)
example := numDiv_steps_pos 2 exP 4 exP_wf (by norm_num)
example := numDiv_steps_neg 2 exP (-4) exP_wf (by norm_num)
example := numRightK_eq 2 .npFloat .div exP 4 (Or.inr (by norm_num))
example := neg_neg_box 2 exP exP_wf
example := rsub_steps 2 7 exP exP_wf
example := rsub_eq 2 7 exP exP_wf
example := recip_steps 2 exP exP_wf (Or.inl exP_pos)
example := recip_steps 2 exN exN_wf (Or.inr exN_neg)
example := rdiv_steps_nonneg 2 3 exN exN_wf (Or.inr exN_neg) (by norm_num)
example := rdiv_steps_nonpos 2 (-3) exP exP_wf (Or.inl exP_pos) (by norm_num)
example := rdiv_eq 2 (-3) exP exP_wf (Or.inl exP_pos)
example := mul_zero_box 2 exP exP_wf
example := num_step_image_mul_neg 2 exP (-3) exP_wf (by norm_num) 0 (by norm_num)
example := recip_step_image 2 exN exN_wf (Or.inr exN_neg) 1 (by norm_num)
example := log_steps 2 exP exP_wf id (fun _ _ _ _ h => h) exP_pos
example := log_nonpos_raises 2 exN [] [] (by norm_num [lo, exN])
example := sqrt_steps 2 exP exP_wf id (fun _ _ _ _ h => h) exP_pos.le
example := sqrt_neg_raises 2 exN [] [] (by norm_num [lo, exN])
example := unary_mono_steps 2 exN exN_wf (fun x => 2 * x) (fun _ => True) (fun _ _ => trivial)
  (fun _ _ => trivial) (fun x y _ _ h => by linarith)
example := pow_pos_steps 2 exP exP_wf 3 exP_pos.le
example := pow_neg_even_steps 2 exN exN_wf 2 (by decide) exN_neg.le
example := pow_neg_odd_steps 2 exN exN_wf 3 (by decide) exN_neg.le
example := powW_steps 2 exP exP_wf id (fun _ _ _ _ h => h) exP_pos.le

example : numRightK 2 .npInt .mul exP (-3) = .ok ⟨[-12, -6], [-6, -3]⟩ := by
  rw [numRightK_eq _ _ _ _ _ (Or.inl (by decide)), numMul_steps_neg 2 exP (-3) exP_wf (by norm_num)]
  norm_num [exP]
example : numLeftK 2 .npFloat .sub 7 exP = .ok ⟨[3, 5], [5, 6]⟩ := by
  rw [numLeftK_eq _ _ _ _ _ (by decide), rsub_steps 2 7 exP exP_wf]
  norm_num [exP]
example : numLeftK 2 .pyInt .div 4 exN = .ok ⟨[-4, -2], [-2, -1]⟩ := by
  apply numLeftK_div_ok
  rw [rdiv_steps_nonneg 2 4 exN exN_wf (Or.inr exN_neg) (by norm_num)]
  norm_num [exN]
example : recip 2 exP = .ok ⟨[1/4, 1/2], [1/2, 1]⟩ := by decide +kernel
example : powNat 2 exN 2 = some (.ok ⟨[1, 4], [4, 16]⟩) := by
  rw [pow_neg_even_steps 2 exN exN_wf 2 (by decide) exN_neg.le]
  norm_num [exN]
example : numRightK 2 .npFloat .div exP 0 = .error .Other := by decide +kernel
example : numRightK 2 .pyFloat .div exP 0 = .error .ZeroDivision := by decide +kernel
/-- the reciprocal of a p-box straddling zero is NOT covered: `reciprocal` raises `ZeroDivisionError` -/
example : recip 2 ⟨[-2, 1], [-1, 3]⟩ = .error .ZeroDivision := by decide +kernel

end Pun.PBox.Num
