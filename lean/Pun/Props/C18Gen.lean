import Pun.Props.C18
import Pun.Gen.CutsGen
/-!
# C18 — the query logic regenerated from the source equals the hand model

`Pun/Gen/CutsGen.lean` is rewritten on every run by `harness/pv/translator/cuts.py` from `Staircase.alpha_cut`, `cdf`,
`discretise`, `outer_discretisation`, `condensation` and `get_PI` (pba/pbox_abc.py): which bound array feeds which endpoint
of the alpha-cut, of the cumulative-probability interval and of the native discretisation; for the outer discretisation, per
endpoint, the slice of the level array (`[0:-1]` / `[1:]`) and the end of the cut taken there; for `get_PI` the two level
expressions as rational functions of `alpha`, and per style (and for the fall-back inside `except`) which level and which end
of its cut feeds which endpoint.  The choices live in finite enums; the fixed interpreter below runs them.

`cutRawGen_eq`, `cdfRawGen_eq`, `discretiseGen_eq`, `outerGen_eq`, `getPIGen_eq` prove the interpreter on the CURRENT
constants equal to the hand model for ALL grids, p-boxes, levels and coverages; the `gen_*` theorems restate the unbounded
theorems of `Props/C18.lean` for what the source says now.  A source edit that swaps a bound, a slice, an end or a level, or
changes a level formula, changes a constant and breaks the corresponding `…_eq` proof.
-/
set_option linter.unusedSimpArgs false
set_option linter.unusedVariables false
namespace Pun.Props.C18
open Pun Pun.Grid Pun.Dss Pun.Query Pun.Props Pun.Gen.Cuts

/-! ## fixed interpreter of the extracted choices -/

def sideGet (P : PB) : Side → List Rat
  | .left => P.left
  | .right => P.right

def endGet (c : Ivl) : End → Rat
  | .lo => c.1
  | .hi => c.2

def sliceAp (lv : List Rat) : Slice → List Rat
  | .dropLast => lv.dropLast
  | .tail => lv.tail
  | .all => lv

def lvlGet (alpha : Rat) : Lvl → Rat
  | .first => piFirst alpha
  | .second => piSecond alpha

def cutRawGen (g : List Rat) (P : PB) (a : Rat) : Except Err Ivl := do
  let k ← nearestE g a
  let l ← getE (sideGet P cutLo) k
  let r ← getE (sideGet P cutHi) k
  pure (l, r)

def cdfRawGen (g : List Rat) (P : PB) (x : Rat) : Except Err Ivl := do
  let lo ← getE g (stepOf (g.length - 1) (sideGet P cdfLo) x)
  let hi ← getE g (stepOf (g.length - 1) (sideGet P cdfHi) x)
  pure (lo, hi)

def discretiseGen (g : List Rat) (steps : Nat) (P : PB) (n : Option Nat) (lv : List Rat) : Except Err (List Ivl) :=
  if n = none ∨ n = some steps then
    if (sideGet P nativeLo).length = (sideGet P nativeHi).length ∧ allLE (sideGet P nativeLo) (sideGet P nativeHi)
    then .ok ((sideGet P nativeLo).zip (sideGet P nativeHi))
    else .error .Assertion
  else alphaCutArr g P lv

def outerGen (g : List Rat) (P : PB) (lv : List Rat) : Except Err (List Ivl) := do
  let ls ← alphaCutArr g P (sliceAp lv outerLo.s)
  let rs ← alphaCutArr g P (sliceAp lv outerHi.s)
  pure ((ls.map (fun c => endGet c outerLo.e)).zip (rs.map (fun c => endGet c outerHi.e)))

/-- `hi = self.alpha_cut(<level>).<end>; lo = self.alpha_cut(<level>).<end>` (the order written: `hi` first) -/
def piBranch (g : List Rat) (P : PB) (alpha : Rat) (lo hi : Pick) : Except Err Ivl := do
  let h ← alphaCut g P (lvlGet alpha hi.lvl)
  let l ← alphaCut g P (lvlGet alpha lo.lvl)
  pure (endGet l lo.e, endGet h hi.e)

def getPIGen (g : List Rat) (P : PB) (alpha : Rat) (narrow : Bool) : Except Err Ivl :=
  if narrow then do
    let p ← piBranch g P alpha narrowLo narrowHi
    if p.1 ≤ p.2 then pure p
    else do
      let q ← piBranch g P alpha fallbackLo fallbackHi
      mkIvl q.1 q.2
  else do
    let q ← piBranch g P alpha widestLo widestHi
    mkIvl q.1 q.2

/-! ## the interpreter on the current constants is the hand model -/

theorem cutRawGen_eq (g : List Rat) (P : PB) (a : Rat) : cutRawGen g P a = cutRaw g P a := rfl

theorem cdfRawGen_eq (g : List Rat) (P : PB) (x : Rat) : cdfRawGen g P x = cdfRaw g P x := rfl

theorem discretiseGen_eq (g : List Rat) (steps : Nat) (P : PB) (n : Option Nat) (lv : List Rat) :
    discretiseGen g steps P n lv = discretise g steps P n lv := rfl

theorem outerGen_eq (g : List Rat) (P : PB) (lv : List Rat) : outerGen g P lv = outerDiscretisation g P lv := rfl

theorem piLevels_eq (alpha : Rat) : (lvlGet alpha .first, lvlGet alpha .second) = piLevels alpha := rfl

theorem getPIGen_eq (g : List Rat) (P : PB) (alpha : Rat) (narrow : Bool) :
    getPIGen g P alpha narrow = getPI g P alpha narrow := by
  have e1 : lvlGet alpha .first = (piLevels alpha).1 := rfl
  have e2 : lvlGet alpha .second = (piLevels alpha).2 := rfl
  unfold getPIGen getPI piWidest piBranch
  simp only [narrowLo, narrowHi, widestLo, widestHi, fallbackLo, fallbackHi, e1, e2, endGet]
  cases narrow <;> cases alphaCut g P (piLevels alpha).2 <;> cases alphaCut g P (piLevels alpha).1 <;>
    simp [bind, Except.bind, pure, Except.pure]

/-- the default style of `get_PI` is 'narrowest' (the branch with the fall-back) -/
theorem default_style_narrowest : defaultNarrow = true := rfl

/-! ## the theorems of `Props/C18.lean`, for what the source says now -/

/-- `alpha_cut` as generated: the check of `Interval(lo, hi)` on the generated pair -/
def alphaCutGen (g : List Rat) (P : PB) (a : Rat) : Except Err Ivl := do
  let c ← cutRawGen g P a
  mkIvl c.1 c.2

theorem alphaCutGen_eq (g : List Rat) (P : PB) (a : Rat) : alphaCutGen g P a = alphaCut g P a := rfl

theorem gen_alphacut_spec (g : List ℚ) (P : PB) (a l r : ℚ) (h : alphaCutGen g P a = .ok (l, r)) :
    ∃ k, findNearest g a = some k ∧ P.left[k]? = some l ∧ P.right[k]? = some r ∧ l ≤ r :=
  alphacut_spec g P a l r ((alphaCutGen_eq g P a).symm.trans h)

theorem gen_discretise_native (g : List ℚ) (steps : Nat) (P : PB) (lv : List ℚ) (n : Option Nat)
    (hn : n = none ∨ n = some steps) (hlen : P.left.length = P.right.length) (hle : allLE P.left P.right = true) :
    discretiseGen g steps P n lv = .ok (P.left.zip P.right) :=
  (discretiseGen_eq g steps P n lv).trans (discretise_native g steps P lv n hn hlen hle)

theorem gen_outer_contains_band (g : List ℚ) (P : PB) (hg : g.Pairwise (· ≤ ·))
    (hL : P.left.Pairwise (· ≤ ·)) (hR : P.right.Pairwise (· ≤ ·))
    (p0 p1 a : ℚ) (h0 : p0 ≤ a) (h1 : a ≤ p1) (c0 c1 c : Ivl)
    (e0 : cutRawGen g P p0 = .ok c0) (e1 : cutRawGen g P p1 = .ok c1) (e : cutRawGen g P a = .ok c) :
    c0.1 ≤ c.1 ∧ c.2 ≤ c1.2 :=
  outer_contains_band g P hg hL hR p0 p1 a h0 h1 c0 c1 c e0 e1 e

theorem gen_outer_pairs (g : List ℚ) (P : PB) (lv : List ℚ) (o : List Ivl) (h : outerGen g P lv = .ok o) :
    ∃ ls rs, alphaCutArr g P lv.dropLast = .ok ls ∧ alphaCutArr g P lv.tail = .ok rs ∧
      o = (ls.map (·.1)).zip (rs.map (·.2)) :=
  outer_pairs g P lv o ((outerGen_eq g P lv).symm.trans h)

theorem gen_pi_widest_contains_narrowest (g : List ℚ) (P : PB) (alpha : ℚ) (n w : Ivl)
    (hn : getPIGen g P alpha true = .ok n) (hw : getPIGen g P alpha false = .ok w) : w.1 ≤ n.1 ∧ n.2 ≤ w.2 :=
  pi_widest_contains_narrowest g P alpha n w ((getPIGen_eq g P alpha true).symm.trans hn)
    ((getPIGen_eq g P alpha false).symm.trans hw)

theorem gen_cdf_bracket (g : List ℚ) (P : PB) (x : ℚ) (c : Ivl) (h : cdfRawGen g P x = .ok c) :
    g[stepOf (g.length - 1) P.right x]? = some c.1 ∧ g[stepOf (g.length - 1) P.left x]? = some c.2 := by
  rw [cdfRawGen_eq] at h
  unfold cdfRaw getE at h
  cases h1 : g[stepOf (g.length - 1) P.right x]? with
  | none => simp [h1, bind, Except.bind] at h
  | some a =>
    cases h2 : g[stepOf (g.length - 1) P.left x]? with
    | none => simp [h1, h2, bind, Except.bind] at h
    | some b =>
      simp only [h1, h2, bind, Except.bind, pure, Except.pure, Except.ok.injEq] at h
      subst h; exact ⟨rfl, rfl⟩

/-- non-vacuity: the generated functions answer on a concrete 3-step box -/
example : alphaCutGen [1/4, 1/2, 3/4] ⟨[1, 2, 3], [2, 3, 5]⟩ (3/5) = .ok (2, 3) := by decide +kernel
example : outerGen [1/4, 1/2, 3/4] ⟨[1, 2, 3], [2, 3, 5]⟩ [1/4, 1/2, 3/4] = .ok [(1, 3), (2, 5)] := by decide +kernel
example : getPIGen [1/4, 1/2, 3/4] ⟨[1, 2, 3], [2, 3, 5]⟩ (1/2) true = .ok (2, 3) := by decide +kernel
example : getPIGen [1/4, 1/2, 3/4] ⟨[1, 2, 3], [2, 3, 5]⟩ (1/2) false = .ok (1, 5) := by decide +kernel

end Pun.Props.C18
