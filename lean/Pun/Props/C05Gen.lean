import Pun.Props.C05
import Pun.Gen.TrigGen
import Mathlib.Tactic.Tauto
/-!
# C05 — the case tables regenerated from `methods.py` equal the hand model

`Pun/Gen/TrigGen.lean` is rewritten on every run by `harness/pv/translator/trig.py` from the scalar
`sin`, `cos`, `tan` of `pba/intervals/methods.py`: the period each endpoint is reduced by, every
threshold (as an expression in `numpy_pi`), the strictness of every comparison, the order of the
tests and the endpoint expressions returned.  Here they are proved equal, for all inputs, to the
hand-written `sinShape / cosShape / tanInf` + `bounds` that the theorems of `Props/C05.lean` and
`Props/C05Real.lean` are about (period `T = 2·p`, resp. `P = p`).
-/
set_option linter.unusedSimpArgs false
set_option linter.unusedVariables false
set_option linter.unusedTactic false
namespace Pun.Elem
open Pun.Gen.Trig

/-- closes `if c then a else r = if c' then a else r'` chains: conditions equal up to
propositional rearrangement, branches syntactically equal -/
macro "ite_chain" : tactic =>
  `(tactic| repeat (first | with_reducible rfl | (refine if_congr ?_ (by with_reducible rfl) ?_; · first | with_reducible exact Iff.rfl | tauto)))

theorem sinGen_eq (p w yl yh sl sh : ℚ) :
    sinGen p w yl yh sl sh = (sinShape w yl yh (2 * p)).map (bounds sl sh) := by
  have e4 : 2 * p / 4 = p / 2 := by ring
  unfold sinGen sinShape
  simp only [e4, ge_iff_le, gt_iff_lt, and_assoc, or_assoc, apply_ite (Option.map (bounds sl sh)), Option.map_some, Option.map_none, bounds]
  ite_chain

theorem cosGen_eq (p w yl yh sl sh : ℚ) :
    cosGen p w yl yh sl sh = (cosShape w yl yh (2 * p)).map (bounds sl sh) := by
  have e2 : 2 * p / 2 = p := by ring
  unfold cosGen cosShape
  simp only [e2, ge_iff_le, gt_iff_lt, and_assoc, or_assoc, apply_ite (Option.map (bounds sl sh)), Option.map_some, Option.map_none, bounds]
  ite_chain

theorem tanGen_eq (p w zl zh tl th : ℚ) :
    tanGen p w zl zh tl th = some (if tanInf w zl zh p then none else some (tl, th)) := by
  unfold tanGen tanInf
  simp only [ge_iff_le, gt_iff_lt, and_assoc, or_assoc, decide_eq_true_eq, apply_ite some, ite_self]
  ite_chain

/-- the periods the code reduces by are the model's -/
theorem periods_eq : sinPeriod piD = twopiD ∧ cosPeriod piD = twopiD ∧ tanPeriod piD = piD := ⟨rfl, rfl, rfl⟩

/-- consequently the interval the regenerated scalar sine returns is what the hand model's `sinI`
returns (before the constructor's assertion) — the enclosure theorems transfer -/
theorem sinGen_sinI (p w yl yh sl sh : ℚ) (a b : ℚ) (h : sinGen p w yl yh sl sh = some (a, b)) :
    sinI (2 * p) w yl yh sl sh = mkI a b := by
  rw [sinGen_eq] at h
  unfold sinI trigI
  cases hs : sinShape w yl yh (2 * p) with
  | none => rw [hs] at h; cases h
  | some s => rw [hs] at h; simp only [Option.map_some, Option.some.injEq] at h; simp only [h]

theorem cosGen_cosI (p w yl yh sl sh : ℚ) (a b : ℚ) (h : cosGen p w yl yh sl sh = some (a, b)) :
    cosI (2 * p) w yl yh sl sh = mkI a b := by
  rw [cosGen_eq] at h
  unfold cosI trigI
  cases hs : cosShape w yl yh (2 * p) with
  | none => rw [hs] at h; cases h
  | some s => rw [hs] at h; simp only [Option.map_some, Option.some.injEq] at h; simp only [h]

end Pun.Elem
