import Pun.Gen.CornersGen
import Pun.Props.C02Gen
/-!
# C03 — the corner rules `perfect_op`, `opposite_op`, `independent_op`, regenerated from the source, are the hand model

`Pun.Gen.Corners.*Spec` is what `harness/pv/translator/frechet.py` read in `operation.py` on this run: the four
corner combinations (which bound of `x` with which bound of `y`, in the order written), whether `y`'s bounds are
flipped first, whether the corners range over the `n × n` grid (`vectorized_cartesian_op`, whose body is checked
to be `op(a[:, np.newaxis], b).ravel()`), the two reductions, the sorts and the order of the returned pair.
The theorems prove, for ALL operands and operations, that executing those specifications gives exactly
`Pun.PBox.perfectOp`, `oppositeOp`, `independentOp` — the functions `Props/C03.lean` proves to be the random-set
results and `Props/C02.lean` proves to be enclosed by the Frechet bounds.  A missing or repeated corner, a
dropped flip, `minimum`↔`maximum`, a dropped sort or a swapped return each break these proofs.
-/
namespace Pun.C03Gen
open Pun Pun.PBox Pun.FrechetInterp Pun.Gen.Corners

theorem perfectGen_eq_model (op : Rat → Rat → Rat) (x y : PB) :
    cornerGen perfectSpec op x y = perfectOp op x y := by
  simp [cornerGen, perfectSpec, perfectOp, cornerPair, red4, Side.of]

theorem oppositeGen_eq_model (op : Rat → Rat → Rat) (x y : PB) :
    cornerGen oppositeSpec op x y = oppositeOp op x y := by
  simp [cornerGen, oppositeSpec, oppositeOp, cornerPair, red4, Side.of]

theorem independentGen_eq_model (op : Rat → Rat → Rat) (x y : PB) :
    cornerGen independentSpec op x y = independentOp op x y := by
  simp [cornerGen, independentSpec, independentOp, cornersSorted, red4, Side.of]

/-- the generated rules compute the model's values on a concrete pair (nothing is vacuous here: no hypotheses) -/
example : cornerGen oppositeSpec (· * ·) ⟨[-1, 2], [0, 3]⟩ ⟨[1, 2], [2, 5]⟩
    = oppositeOp (· * ·) ⟨[-1, 2], [0, 3]⟩ ⟨[1, 2], [2, 5]⟩ := oppositeGen_eq_model _ _ _

end Pun.C03Gen
