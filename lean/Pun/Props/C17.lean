import Pun.Model.KS
namespace Pun.KS
theorem placeholder : clip 2 = 1 := by decide +kernel
end Pun.KS
