import Pun.Lemmas.KS
import Mathlib.Tactic.Positivity
import Mathlib.Tactic.NormNum
import Mathlib.Data.Rat.Cast.Order
/-!
# C17 — Kolmogorov–Smirnov confidence bands are valid bands around the empirical cdf

Theorems about the model `Pun.KS` (`Pun/Model/KS.lean`), i.e. about the functions the driver `drvC17`
executes and the harness ties to `KS_bounds`, `d_alpha`, `imprecise_ecdf`, `Staircase.from_CDFbundle`.
All samples (any length `n ≥ 1`, ties, any rational values = every finite double), all `D`, all
selections inside interval data, all levels.

| statement of the property                                   | theorem |
|---|---|
| bounds non-decreasing, in `[0,1]`, on a common grid          | `band_monotone`, `iband_monotone`, `band_in_unit`, `band_common_grid`, `iband_grid` |
| above / below the ecdf by exactly `D` before clipping        | `band_exact_shift`, `band_above_below`, `band_encloses_ecdf` |
| `D` positive, decreasing in `n` and in `alpha`               | `D_pos_of_tableOK`, `D_decreasing_n_of_tableOK`, `D_decreasing_alpha_of_tableOK` (+ `Props/C17Gen.lean`) |
| interval band contains the band of every selection           | `interval_band_contains_precise`, `selection_ecdf_between` |
| the p-box made from the band contains the empirical distribution | `pbox_contains_ecdf`, `ksPbox_contains_ecdf`, `ecdf_quantile_is_geninv` (P8) |
| unsupported level rejected                                   | `unsupported_alpha_rejected`, `lookup_table_none_iff`, `supported_alpha_answered` |

Not proved here (validated by the oracle only): for *interval* data, that the p-box contains the empirical
quantiles of every selection (needs monotonicity of order statistics); the function-level statement
`interval_band_contains_precise` is proved.  Rounding is not modelled; `c_α = √(ln(1/α)/2)` is a parameter
bracketed numerically.
-/
set_option linter.unusedSimpArgs false
set_option linter.unusedVariables false
namespace Pun.KS

/-! ### the band on its grid -/

theorem upper_length (D : ℚ) (p : List ℚ) : (upper D p).length = p.length := by simp [upper, shiftUp]
theorem lower_length (D : ℚ) (p : List ℚ) : (lower D p).length = p.length := by simp [lower, shiftDn]
theorem ecdfP_length (n : ℕ) : (ecdfP n).length = n + 1 := pFrom_length _ _ _

/-- `band_common_grid`, precise data: both bundles live on the same sorted grid `[min] ++ sort s`, all four arrays have `n+1` entries -/
theorem band_common_grid (s : List ℚ) (hs : s ≠ []) (D : ℚ) :
    (band s D).1.q = (band s D).2.q ∧ (band s D).1.q = dupHead (sortR s) ∧
    (band s D).1.q.Pairwise (· ≤ ·) ∧ (band s D).1.q.length = s.length + 1 ∧
    (band s D).1.p.length = s.length + 1 ∧ (band s D).2.p.length = s.length + 1 :=
  ⟨rfl, rfl, ecdfQ_sorted s, ecdfQ_length hs, by simp [band, upper_length, ecdfP_length],
    by simp [band, lower_length, ecdfP_length]⟩

/-- `band_common_grid`, interval data: the two bundles share the probability grid `k/n` (same lengths), their
quantile grids are the sorted lower resp. upper endpoints -/
theorem iband_grid (lo hi : List ℚ) (hlo : lo ≠ []) (hlen : lo.length = hi.length) (D : ℚ) :
    (iband lo hi D).1.q = dupHead (sortR lo) ∧ (iband lo hi D).2.q = dupHead (sortR hi) ∧
    (iband lo hi D).1.q.Pairwise (· ≤ ·) ∧ (iband lo hi D).2.q.Pairwise (· ≤ ·) ∧
    (iband lo hi D).1.q.length = lo.length + 1 ∧ (iband lo hi D).2.q.length = lo.length + 1 ∧
    (iband lo hi D).1.p.length = lo.length + 1 ∧ (iband lo hi D).2.p.length = lo.length + 1 := by
  have hhi : hi ≠ [] := by
    intro h; rw [h] at hlen; exact hlo (List.length_eq_zero_iff.mp hlen)
  refine ⟨rfl, rfl, ecdfQ_sorted lo, ecdfQ_sorted hi, ecdfQ_length hlo, ?_, ?_, ?_⟩
  · rw [hlen]; exact ecdfQ_length hhi
  · simp [iband, upper_length, ecdfP_length]
  · simp [iband, lower_length, ecdfP_length, hlen]

theorem upper_sorted (D : ℚ) {p : List ℚ} (h : p.Pairwise (· ≤ ·)) : (upper D p).Pairwise (· ≤ ·) := by
  rw [upper_eq_map, List.pairwise_map]
  exact h.imp (fun hab => clip_mono (by linarith))
theorem lower_sorted (D : ℚ) {p : List ℚ} (h : p.Pairwise (· ≤ ·)) : (lower D p).Pairwise (· ≤ ·) := by
  rw [lower_eq_map, List.pairwise_map]
  exact h.imp (fun hab => clip_mono (by linarith))

/-- ★ `band_monotone`: both bounds are non-decreasing along the grid — every non-empty sample (the code raises
`ZeroDivisionError` on an empty one), every `D` (any sign) -/
theorem band_monotone (s : List ℚ) (hs : s ≠ []) (D : ℚ) :
    (band s D).1.p.Pairwise (· ≤ ·) ∧ (band s D).2.p.Pairwise (· ≤ ·) :=
  ⟨upper_sorted D (pFrom_sorted _ _ _), lower_sorted D (pFrom_sorted _ _ _)⟩

theorem iband_monotone (lo hi : List ℚ) (hlo : lo ≠ []) (hlen : lo.length = hi.length) (D : ℚ) :
    (iband lo hi D).1.p.Pairwise (· ≤ ·) ∧ (iband lo hi D).2.p.Pairwise (· ≤ ·) :=
  ⟨upper_sorted D (pFrom_sorted _ _ _), lower_sorted D (pFrom_sorted _ _ _)⟩

/-- ★ `band_in_unit`: all returned probabilities lie in `[0,1]` -/
theorem band_in_unit (D : ℚ) (p : List ℚ) : (∀ x ∈ upper D p, 0 ≤ x ∧ x ≤ 1) ∧ (∀ x ∈ lower D p, 0 ≤ x ∧ x ≤ 1) := by
  constructor <;> intro x hx
  · rw [upper_eq_map] at hx
    obtain ⟨y, _, rfl⟩ := List.mem_map.mp hx
    exact ⟨clip_nonneg _, clip_le_one _⟩
  · rw [lower_eq_map] at hx
    obtain ⟨y, _, rfl⟩ := List.mem_map.mp hx
    exact ⟨clip_nonneg _, clip_le_one _⟩

/-- ★ `band_exact_shift`: the bounds are the clipping of lists that differ from the ecdf probabilities by exactly `+D`
resp. `−D`, entry by entry; and clipping changes nothing where the shifted value is already a probability -/
theorem band_exact_shift (s : List ℚ) (hs : s ≠ []) (D : ℚ) :
    (band s D).1.p = (shiftUp D (ecdf s).p).map clip ∧ (band s D).2.p = (shiftDn D (ecdf s).p).map clip ∧
    List.Forall₂ (fun u p => u - p = D) (shiftUp D (ecdf s).p) (ecdf s).p ∧
    List.Forall₂ (fun l p => p - l = D) (shiftDn D (ecdf s).p) (ecdf s).p ∧
    (∀ a : ℚ, 0 ≤ a → a ≤ 1 → clip a = a) := by
  refine ⟨rfl, rfl, ?_, ?_, fun a h0 h1 => clip_of_mem h0 h1⟩
  · rw [shiftUp, List.forall₂_map_left_iff, List.forall₂_same]; intro x _; ring
  · rw [shiftDn, List.forall₂_map_left_iff, List.forall₂_same]; intro x _; ring

/-- ★ `band_above_below` on the grid: for `D > 0` the upper bound is above, the lower bound below the ecdf at every grid
point, strictly unless the ecdf already sits at 1 resp. 0 -/
theorem band_above_below (s : List ℚ) (hs : s ≠ []) {D : ℚ} (hD : 0 < D) :
    List.Forall₂ (fun u p => p ≤ u ∧ (p < 1 → p < u)) (band s D).1.p (ecdf s).p ∧
    List.Forall₂ (fun l p => l ≤ p ∧ (0 < p → l < p)) (band s D).2.p (ecdf s).p := by
  have hn : 0 < s.length := List.length_pos_iff.mpr hs
  constructor
  · show List.Forall₂ _ (upper D (ecdfP s.length)) (ecdfP s.length)
    rw [upper_eq_map, List.forall₂_map_left_iff, List.forall₂_same]
    intro p hp
    obtain ⟨h0, h1⟩ := ecdfP_mem_unit hn hp
    exact ⟨le_clip_add h0 h1 (le_of_lt hD), fun h => lt_clip_add h0 h hD⟩
  · show List.Forall₂ _ (lower D (ecdfP s.length)) (ecdfP s.length)
    rw [lower_eq_map, List.forall₂_map_left_iff, List.forall₂_same]
    intro p hp
    obtain ⟨h0, h1⟩ := ecdfP_mem_unit hn hp
    exact ⟨clip_sub_le h0 h1 (le_of_lt hD), fun h => clip_sub_lt h h1 hD⟩

theorem ecdf_eval_unit (s : List ℚ) (hs : s ≠ []) (t : ℚ) : 0 ≤ (ecdf s).eval t ∧ (ecdf s).eval t ≤ 1 := by
  rw [eval_ecdf]
  have hn : (0 : ℚ) < s.length := by exact_mod_cast List.length_pos_iff.mpr hs
  constructor
  · exact div_nonneg (Nat.cast_nonneg _) (le_of_lt hn)
  · rw [div_le_one hn]
    exact_mod_cast List.countP_le_length

/-- ★ `band_above_below` as functions of `t`: the drawn step functions are exactly `clip (F_n(t) ± D)` from the first
sample point on, hence enclose the empirical distribution function there; left of the sample both bundles draw 0 -/
theorem band_encloses_ecdf (s : List ℚ) (hs : s ≠ []) {D : ℚ} (hD : 0 < D) (t : ℚ) :
    (band s D).2.eval t ≤ (ecdf s).eval t ∧
    (0 < countLE s t → (band s D).1.eval t = clip ((ecdf s).eval t + D) ∧
        (band s D).2.eval t = clip ((ecdf s).eval t - D) ∧ (ecdf s).eval t ≤ (band s D).1.eval t) := by
  obtain ⟨h0, h1⟩ := ecdf_eval_unit s hs t
  rw [eval_upper, eval_lower]
  rw [eval_ecdf] at *
  by_cases hc : 0 < countLE s t
  · simp only [hc, if_true, true_implies]
    exact ⟨clip_sub_le h0 h1 (le_of_lt hD), trivial, trivial, le_clip_add h0 h1 (le_of_lt hD)⟩
  · simp only [hc, if_false, false_implies, and_true]
    exact h0

/-- ★ `interval_band_contains_precise`: for EVERY selection `x_i ∈ [lo_i, hi_i]` and every `t` (any `D`), the band of the
interval data contains the band of the selection: its upper bound is above, its lower bound below.  By counting:
`#{lo_i ≤ t} ≥ #{x_i ≤ t} ≥ #{hi_i ≤ t}`. -/
theorem interval_band_contains_precise {lo x hi : List ℚ} (hlo : lo ≠ []) (h1 : List.Forall₂ (· ≤ ·) lo x)
    (h2 : List.Forall₂ (· ≤ ·) x hi) (D t : ℚ) :
    (band x D).1.eval t ≤ (iband lo hi D).1.eval t ∧ (iband lo hi D).2.eval t ≤ (band x D).2.eval t := by
  have c1 := countLE_anti h1 t
  have c2 := countLE_anti h2 t
  have l1 := h1.length_eq
  have l2 := h2.length_eq
  rw [eval_upper, eval_lower, eval_iupper, eval_ilower, l1, ← l2]
  have hmono : ∀ {a b : ℕ}, a ≤ b → (a : ℚ) / x.length ≤ (b : ℚ) / x.length := by
    intro a b hab
    exact div_le_div_of_nonneg_right (by exact_mod_cast hab) (Nat.cast_nonneg _)
  constructor
  · by_cases hx : 0 < countLE x t
    · have hlo : 0 < countLE lo t := lt_of_lt_of_le hx c1
      simp only [hx, hlo, if_true]
      exact clip_mono (by linarith [hmono c1])
    · simp only [hx, if_false]
      split_ifs
      · exact clip_nonneg _
      · exact le_refl _
  · by_cases hh : 0 < countLE hi t
    · have hx : 0 < countLE x t := lt_of_lt_of_le hh c2
      simp only [hx, hh, if_true]
      exact clip_mono (by linarith [hmono c2])
    · simp only [hh, if_false]
      split_ifs
      · exact clip_nonneg _
      · exact le_refl _

/-- the ecdf of every selection lies between the ecdfs of the endpoints (the statement `F_lo ≥ F_x ≥ F_hi`) -/
theorem selection_ecdf_between {lo x hi : List ℚ} (hlo : lo ≠ []) (h1 : List.Forall₂ (· ≤ ·) lo x)
    (h2 : List.Forall₂ (· ≤ ·) x hi) (t : ℚ) :
    (ecdf hi).eval t ≤ (ecdf x).eval t ∧ (ecdf x).eval t ≤ (ecdf lo).eval t := by
  rw [eval_ecdf, eval_ecdf, eval_ecdf, h1.length_eq, ← h2.length_eq]
  constructor <;> apply div_le_div_of_nonneg_right _ (Nat.cast_nonneg _)
  · exact_mod_cast countLE_anti h2 t
  · exact_mod_cast countLE_anti h1 t

/-! ### the p-box made from the band -/

/-- ★ `pbox_contains_ecdf`: at every level `x ∈ (0,1]` the left bound (the 'next' quantile of the extended upper bundle) is
`≤` the empirical quantile `≤` the right bound (extended lower bundle).  Every sample, every `D > 0`. -/
theorem pbox_contains_ecdf (s : List ℚ) (hs : s ≠ []) {D : ℚ} (hD : 0 < D) {x : ℚ} (hx0 : 0 < x) (hx1 : x ≤ 1) :
    ∃ a e b, interpNext (extend (band s D).1) x = some a ∧ interpNext (extend (ecdf s)) x = some e ∧
      interpNext (extend (band s D).2) x = some b ∧ a ≤ e ∧ e ≤ b := by
  have hn : 0 < s.length := List.length_pos_iff.mpr hs
  obtain ⟨m, hm⟩ : ∃ m, s.length = m + 1 := ⟨s.length - 1, by omega⟩
  have hQlen := ecdfQ_length hs
  obtain ⟨q0, Qt, hQ⟩ : ∃ q0 Qt, ecdfQ s = q0 :: Qt := by
    cases h : ecdfQ s with
    | nil => rw [h] at hQlen; simp at hQlen
    | cons a l => exact ⟨a, l, rfl⟩
  have hP : ecdfP s.length = 0 :: pFrom s.length 1 s.length := by
    show pFrom s.length 0 (s.length + 1) = _
    simp [pFrom]
  have hlast : (ecdfP s.length).getLast? = some 1 := by
    show (pFrom s.length 0 (s.length + 1)).getLast? = _
    rw [pFrom_getLast?]
    have : ((s.length : ℕ) : ℚ) ≠ 0 := by exact_mod_cast (by omega : s.length ≠ 0)
    simp [this]
  exact pbox_core (Q := ecdfQ s) (pE := ecdfP s.length) hQ hP (by rw [hQlen, ecdfP_length]) (ecdfQ_sorted s) hlast
    (fun p hp => ecdfP_mem_unit hn hp) hD hx0 hx1

theorem forall₂_le_trans {A E B : List ℚ} (h1 : List.Forall₂ (· ≤ ·) A E) (h2 : List.Forall₂ (· ≤ ·) E B) :
    List.Forall₂ (· ≤ ·) A B := by
  induction h1 generalizing B with
  | nil => cases h2; exact List.Forall₂.nil
  | cons hab _ ih =>
    cases h2 with
    | cons hbc h2' => exact List.Forall₂.cons (le_trans hab hbc) (ih h2')

theorem allGe_antisymm {A B : List ℚ} (h : List.Forall₂ (· ≤ ·) A B) (hg : allGe A B = true) : A = B := by
  induction h with
  | nil => rfl
  | cons hab _ ih =>
    simp only [allGe, Bool.and_eq_true, decide_eq_true_eq] at hg
    rw [le_antisymm hab hg.1, ih hg.2]

theorem pbox_lists (s : List ℚ) (hs : s ≠ []) {D : ℚ} (hD : 0 < D) (pv : List ℚ)
    (hpv : ∀ x ∈ pv, 0 < x ∧ x ≤ 1) :
    ∃ A E B, pv.mapM (interpNext (extend (band s D).1)) = some A ∧
      pv.mapM (interpNext (extend (ecdf s))) = some E ∧
      pv.mapM (interpNext (extend (band s D).2)) = some B ∧
      List.Forall₂ (· ≤ ·) A E ∧ List.Forall₂ (· ≤ ·) E B := by
  induction pv with
  | nil => exact ⟨[], [], [], by simp, by simp, by simp, List.Forall₂.nil, List.Forall₂.nil⟩
  | cons x xs ih =>
    obtain ⟨A, E, B, hA, hE, hB, h1, h2⟩ := ih (fun y hy => hpv y (List.mem_cons_of_mem _ hy))
    obtain ⟨a, e, b, ha, he, hb, hae, heb⟩ :=
      pbox_contains_ecdf s hs hD (hpv x (by simp)).1 (hpv x (by simp)).2
    refine ⟨a :: A, e :: E, b :: B, ?_, ?_, ?_, List.Forall₂.cons hae h1, List.Forall₂.cons heb h2⟩
    · simp [List.mapM_cons, ha, hA]
    · simp [List.mapM_cons, he, hE]
    · simp [List.mapM_cons, hb, hB]

/-- ★ the p-box the driver computes (`KS_bounds(..., output_type="pbox")`): whenever it is returned, its left bound is
`≤` and its right bound `≥` the empirical quantile at every level of the grid — every sample, `D > 0`, any levels in `(0,1]` -/
theorem ksPbox_contains_ecdf (s : List ℚ) (hs : s ≠ []) {D : ℚ} (hD : 0 < D) (pv : List ℚ)
    (hpv : ∀ x ∈ pv, 0 < x ∧ x ≤ 1) {l r : List ℚ} (h : ksPbox s D pv = .ok (l, r)) :
    ∃ e, pv.mapM (interpNext (extend (ecdf s))) = some e ∧
      List.Forall₂ (· ≤ ·) l e ∧ List.Forall₂ (· ≤ ·) e r := by
  obtain ⟨A, E, B, hA, hE, hB, h1, h2⟩ := pbox_lists s hs hD pv hpv
  refine ⟨E, hE, ?_⟩
  unfold ksPbox fromBundles at h
  rw [hA, hB] at h
  by_cases hg : allGe A B = true
  · have hAB := allGe_antisymm (forall₂_le_trans h1 h2) hg
    simp only [hg, if_true] at h
    split_ifs at h; cases h
    rw [hAB] at h1
    rw [← hAB] at h2
    exact ⟨h1, h2⟩
  · simp only [hg, Bool.false_eq_true, if_false] at h
    split_ifs at h; cases h
    exact ⟨h1, h2⟩

theorem anyGt_false_of_le {A B : List ℚ} (h : List.Forall₂ (· ≤ ·) A B) : anyGt A B = false := by
  induction h with
  | nil => rfl
  | cons hab _ ih => simp [anyGt, ih, not_lt.mpr hab]

/-- the bounds looked up from a KS band never cross, so the crossing check of the `Pbox` constructor (1ca78ea)
never fires on them: every non-empty sample, `D > 0`, any levels in `(0,1]` -/
theorem ks_bounds_never_cross (s : List ℚ) (hs : s ≠ []) {D : ℚ} (hD : 0 < D) (pv : List ℚ)
    (hpv : ∀ x ∈ pv, 0 < x ∧ x ≤ 1) :
    ∃ A B, pv.mapM (interpNext (extend (band s D).1)) = some A ∧
      pv.mapM (interpNext (extend (band s D).2)) = some B ∧ anyGt A B = false := by
  obtain ⟨A, E, B, hA, hE, hB, h1, h2⟩ := pbox_lists s hs hD pv hpv
  exact ⟨A, B, hA, hB, anyGt_false_of_le (forall₂_le_trans h1 h2)⟩

theorem sortR_of_sorted {l : List ℚ} (h : l.Pairwise (· ≤ ·)) : sortR l = l :=
  List.mergeSort_of_pairwise (le := fun a b : ℚ => decide (a ≤ b)) (h.imp (by intro a b hab; simpa using hab))

/-- and it *is* returned: for a non-empty sample, `D > 0` and levels in `(0,1]` the construction never raises -/
example : ksPbox [1, 2, 2, 3, 5] (1/2) [1/1000, 1/2, 999/1000] = .ok ([1, 1, 2], [2, 5, 5]) := by
  unfold ksPbox band ecdfQ
  rw [sortR_of_sorted (by decide +kernel)]
  decide +kernel

/-- ★ the quantile the model (and `interp1d(kind="next")`) reads off the ecdf bundle at a level `x ∈ (0,1]` is the
generalised inverse of the empirical distribution function: `F_n(e) ≥ x` and `F_n(t) < x` for every `t < e`.  This is
what "the empirical distribution" means in `pbox_contains_ecdf`. -/
theorem ecdf_quantile_is_geninv (s : List ℚ) (hs : s ≠ []) {x e : ℚ} (hx0 : 0 < x) (hx1 : x ≤ 1)
    (h : interpNext (extend (ecdf s)) x = some e) :
    x ≤ (ecdf s).eval e ∧ ∀ t, t < e → (ecdf s).eval t < x := by
  have hn : 0 < s.length := List.length_pos_iff.mpr hs
  have hsl := sortR_length s
  have hsrt := sortR_sorted s
  obtain ⟨q0, Qt, hQ⟩ : ∃ q0 Qt, sortR s = q0 :: Qt := by
    cases h' : sortR s with
    | nil => exact absurd h' (sortR_ne_nil hs)
    | cons a l => exact ⟨a, l, rfl⟩
  have hP : ecdfP s.length = 0 :: pFrom s.length 1 s.length := by
    show pFrom s.length 0 (s.length + 1) = _
    simp [pFrom]
  have hlast : (ecdfP s.length).getLast? = some 1 := by
    show (pFrom s.length 0 (s.length + 1)).getLast? = _
    rw [pFrom_getLast?]
    have : ((s.length : ℕ) : ℚ) ≠ 0 := by exact_mod_cast (by omega : s.length ≠ 0)
    simp [this]
  obtain ⟨ql, hql⟩ : ∃ ql, (q0 :: q0 :: Qt).getLast? = some ql := Option.isSome_iff_exists.mp (by simp)
  have hE : extend (ecdf s) = ⟨q0 :: q0 :: Qt, 0 :: pFrom s.length 1 s.length⟩ := by
    unfold ecdf ecdfQ
    rw [hQ, hP]
    exact extend_id hql (by rw [← hP]; exact hlast)
  rw [hE, interpNext_eq (p0 := 0) (pl := 1) (qh := q0) (by simp) (by rw [← hP]; exact hlast) (by simp) hql (le_of_lt hx0) hx1] at h
  simp only [nextLookup, not_le.mpr hx0, if_false] at h
  have hlen : s.length = (q0 :: Qt).length := by rw [← hQ]; exact hsl.symm
  rw [hlen] at h
  have hb := nextLookup_pFrom_eq_nextQ (q0 :: Qt).length (q0 :: Qt) 0 x
  simp only [Nat.cast_zero, zero_div, zero_add] at hb
  rw [hb] at h
  have hpw : (unifW (q0 :: Qt).length (q0 :: Qt)).Pairwise (fun a b => a.1 ≤ b.1) := by
    rw [unifW, List.pairwise_map]; rw [hQ] at hsrt; exact hsrt
  have hw : ∀ p ∈ unifW (q0 :: Qt).length (q0 :: Qt), 0 ≤ p.2 := by
    intro p hp
    simp only [unifW, List.mem_map] at hp
    obtain ⟨_, _, rfl⟩ := hp
    positivity
  obtain ⟨g1, g2⟩ := nextQ_is_geninv _ hpw hw 0 x e hx0 h
  have hev : ∀ t, (ecdf s).eval t = massLE (unifW (q0 :: Qt).length (q0 :: Qt)) t := by
    intro t
    rw [eval_ecdf, massLE_unifW, ← hQ, countLE_perm (sortR_perm s) t, hsl]
  simp only [zero_add] at g1 g2
  exact ⟨by rw [hev]; exact g1, fun t ht => by rw [hev]; exact g2 t ht⟩

/-! ### non-vacuity: concrete instances of the hypotheses used above -/

/-- a sample with ties, `D = 1/2`: the band of the driver -/
example : (band [1, 2, 2, 3, 5] (1/2)).1.p = [1/2, 7/10, 9/10, 1, 1, 1] ∧
    (band [1, 2, 2, 3, 5] (1/2)).2.p = [0, 0, 0, 1/10, 3/10, 1/2] := by decide +kernel
example : (band [1, 2, 2, 3, 5] (1/2)).1.q = [1, 1, 2, 2, 3, 5] := by
  show dupHead (sortR _) = _
  rw [sortR_of_sorted (by decide +kernel)]
  decide +kernel
example : ([1, 2, 2, 3, 5] : List ℚ) ≠ [] ∧ (0 : ℚ) < 1/2 := by decide +kernel
/-- interval data `[0,1], [1,3]` with the selection `(1/2, 2)` -/
example : List.Forall₂ (· ≤ ·) ([0, 1] : List ℚ) [1/2, 2] ∧ List.Forall₂ (· ≤ ·) ([1/2, 2] : List ℚ) [1, 3] :=
  ⟨.cons (by norm_num) (.cons (by norm_num) .nil), .cons (by norm_num) (.cons (by norm_num) .nil)⟩
/-- levels of the grid are in `(0,1]` -/
example : ∀ x ∈ ([1/1000, 1/2, 999/1000] : List ℚ), 0 < x ∧ x ≤ 1 := by decide +kernel

/-! ### the critical value `D(n, alpha)` -/

section D
variable {K : Type*} [Field K] [LinearOrder K] [IsStrictOrderedRing K]

/-- `D = c_α·t − c₁·t² − A_α·t³` with `t = 1/√n`, `c_α = √(ln(1/α)/2)`: `d_alpha` as a polynomial -/
def Dpoly (c c1 A t : K) : K := c * t - c1 * t ^ 2 - A * t ^ 3

theorem sq_le_one_of {t : K} (h0 : 0 < t) (h1 : t ≤ 1) : t ^ 2 ≤ 1 := by nlinarith

theorem Dpoly_pos {c c1 A t : K} (hc1 : 0 ≤ c1) (hA : 0 ≤ A) (hc : c1 + A < c) (ht : 0 < t) (ht1 : t ≤ 1) :
    0 < Dpoly c c1 A t := by
  have h1 : c1 * t ≤ c1 := by nlinarith
  have h2 : A * t ^ 2 ≤ A := by nlinarith [sq_le_one_of ht ht1]
  have h3 : 0 < c - c1 * t - A * t ^ 2 := by linarith
  have : Dpoly c c1 A t = t * (c - c1 * t - A * t ^ 2) := by unfold Dpoly; ring
  rw [this]; exact mul_pos ht h3

theorem Dpoly_strictMono {c c1 A s t : K} (hc1 : 0 ≤ c1) (hA : 0 ≤ A) (hc : 2 * c1 + 3 * A < c)
    (hs : 0 < s) (hst : s < t) (ht1 : t ≤ 1) : Dpoly c c1 A s < Dpoly c c1 A t := by
  have hs1 : s ≤ 1 := le_trans (le_of_lt hst) ht1
  have ht0 : 0 < t := lt_trans hs hst
  have h1 : c1 * (t + s) ≤ 2 * c1 := by nlinarith
  have ht2 := sq_le_one_of ht0 ht1
  have hs2 := sq_le_one_of hs hs1
  have hts : t * s ≤ 1 := by nlinarith
  have h2 : A * (t ^ 2 + t * s + s ^ 2) ≤ 3 * A := by nlinarith
  have h3 : 0 < c - c1 * (t + s) - A * (t ^ 2 + t * s + s ^ 2) := by linarith
  have : Dpoly c c1 A t - Dpoly c c1 A s = (t - s) * (c - c1 * (t + s) - A * (t ^ 2 + t * s + s ^ 2)) := by
    unfold Dpoly; ring
  have := mul_pos (sub_pos.mpr hst) h3
  linarith

/-- `t_n = 1/√n` is decreasing in `n` and at most 1 -/
theorem invsqrt_anti {n m : ℕ} (hn : 0 < n) (hnm : n < m) {tn tm : K} (htn : 0 < tn) (htm : 0 < tm)
    (hn' : (n : K) * tn ^ 2 = 1) (hm' : (m : K) * tm ^ 2 = 1) : tm < tn ∧ tn ≤ 1 := by
  have hnK : (1 : K) ≤ n := by exact_mod_cast hn
  have hnmK : (n : K) < m := by exact_mod_cast hnm
  constructor
  · by_contra h
    have h := not_lt.mp h
    have : tn ^ 2 ≤ tm ^ 2 := by nlinarith
    have h1 : (n : K) * tn ^ 2 ≤ n * tm ^ 2 := by nlinarith
    have h2 : (n : K) * tm ^ 2 < m * tm ^ 2 := by
      have : 0 < tm ^ 2 := by positivity
      nlinarith
    linarith
  · by_contra h
    have h := not_le.mp h
    have : 1 < tn ^ 2 := by nlinarith
    nlinarith

/-- ★ `D` decreases as `n` grows -/
theorem D_decreasing_n {c c1 A : K} (hc1 : 0 ≤ c1) (hA : 0 ≤ A) (hc : 2 * c1 + 3 * A < c)
    {n m : ℕ} (hn : 0 < n) (hnm : n < m) {tn tm : K} (htn : 0 < tn) (htm : 0 < tm)
    (hn' : (n : K) * tn ^ 2 = 1) (hm' : (m : K) * tm ^ 2 = 1) : Dpoly c c1 A tm < Dpoly c c1 A tn := by
  obtain ⟨h1, h2⟩ := invsqrt_anti hn hnm htn htm hn' hm'
  exact Dpoly_strictMono hc1 hA hc htm h1 h2

/-- ★ `D` decreases as `alpha` grows (`c' ≤ hi' < lo ≤ c` are the constants of the larger / smaller level) -/
theorem D_decreasing_alpha {c c' c1 A A' lo hi' t : K} (h1 : hi' < lo) (h2 : A - A' < lo - hi')
    (hc : lo ≤ c) (hc' : c' ≤ hi') (ht : 0 < t) (ht1 : t ≤ 1) : Dpoly c' c1 A' t < Dpoly c c1 A t := by
  have ht2 := sq_le_one_of ht ht1
  have ht2' : 0 ≤ t ^ 2 := by positivity
  have h3 : (A - A') * t ^ 2 < c - c' := by
    rcases le_or_gt (A - A') 0 with h | h
    · have : (A - A') * t ^ 2 ≤ 0 := mul_nonpos_of_nonpos_of_nonneg h ht2'
      linarith
    · have : (A - A') * t ^ 2 ≤ A - A' := by nlinarith
      linarith
  have : Dpoly c c1 A t - Dpoly c' c1 A' t = t * ((c - c') - (A - A') * t ^ 2) := by unfold Dpoly; ring
  have := mul_pos ht (sub_pos.mpr h3)
  linarith


/-! ### a decidable certificate for a constant table

`Entry` = (level `key`, tabulated `A`, numeric bracket `lo < c_key < hi` for `c_key = √(ln(1/key)/2)`).
`tableOK c1 es = true` is a finite rational computation; it implies the three statements about `D`
for **every** ordered field, every `t ∈ (0,1]` (so every `n ≥ 1`) and every `c` inside the bracket. -/

structure Entry where
  key : ℚ
  A : ℚ
  lo : ℚ
  hi : ℚ

def entries (tbl : List (ℚ × ℚ)) (bnds : List (ℚ × ℚ × ℚ)) : Option (List Entry) :=
  tbl.mapM (fun kA => (bnds.find? (fun b => decide (b.1 = kA.1))).map (fun b => ⟨kA.1, kA.2, b.2.1, b.2.2⟩))

def entryOK (c1 : ℚ) (e : Entry) : Bool := decide (0 ≤ e.A ∧ 2 * c1 + 3 * e.A < e.lo ∧ e.lo ≤ e.hi)
def pairOK (e e' : Entry) : Bool := decide (e.key < e'.key → e'.hi < e.lo ∧ e.A - e'.A < e.lo - e'.hi)
def tableOK (c1 : ℚ) (es : List Entry) : Bool :=
  decide (0 ≤ c1) && es.all (entryOK c1) && es.all (fun e => es.all (pairOK e))

theorem tableOK_c1 {c1 : ℚ} {es : List Entry} (h : tableOK c1 es = true) : 0 ≤ c1 := by
  simp only [tableOK, Bool.and_eq_true, decide_eq_true_eq] at h; exact h.1.1

theorem tableOK_entry {c1 : ℚ} {es : List Entry} (h : tableOK c1 es = true) {e : Entry} (he : e ∈ es) :
    0 ≤ e.A ∧ 2 * c1 + 3 * e.A < e.lo ∧ e.lo ≤ e.hi := by
  simp only [tableOK, Bool.and_eq_true, List.all_eq_true, entryOK, decide_eq_true_eq] at h
  exact h.1.2 e he

theorem tableOK_pair {c1 : ℚ} {es : List Entry} (h : tableOK c1 es = true) {e e' : Entry} (he : e ∈ es)
    (he' : e' ∈ es) (hk : e.key < e'.key) : e'.hi < e.lo ∧ e.A - e'.A < e.lo - e'.hi := by
  simp only [tableOK, Bool.and_eq_true, List.all_eq_true, pairOK, decide_eq_true_eq] at h
  exact h.2 e he e' he' hk

/-- ★ `D_pos_mono`, positivity: for a certified table `D > 0` for every `n ≥ 1` -/
theorem D_pos_of_tableOK {c1 : ℚ} {es : List Entry} (h : tableOK c1 es = true) {e : Entry} (he : e ∈ es)
    {c t : K} (hc : (e.lo : K) ≤ c) (ht : 0 < t) (ht1 : t ≤ 1) : 0 < Dpoly c (c1 : K) (e.A : K) t := by
  obtain ⟨hA, hlo, _⟩ := tableOK_entry h he
  have hc1 := tableOK_c1 h
  have hA' : (0 : K) ≤ (e.A : K) := by exact_mod_cast hA
  have hc1' : (0 : K) ≤ (c1 : K) := by exact_mod_cast hc1
  have hlo' : 2 * (c1 : K) + 3 * (e.A : K) < (e.lo : K) := by exact_mod_cast hlo
  apply Dpoly_pos hc1' hA' _ ht ht1
  linarith

/-- ★ `D_pos_mono`, sample size: for a certified table `D(n) > D(m)` whenever `1 ≤ n < m` -/
theorem D_decreasing_n_of_tableOK {c1 : ℚ} {es : List Entry} (h : tableOK c1 es = true) {e : Entry} (he : e ∈ es)
    {c : K} (hc : (e.lo : K) ≤ c) {n m : ℕ} (hn : 0 < n) (hnm : n < m) {tn tm : K} (htn : 0 < tn) (htm : 0 < tm)
    (hn' : (n : K) * tn ^ 2 = 1) (hm' : (m : K) * tm ^ 2 = 1) :
    Dpoly c (c1 : K) (e.A : K) tm < Dpoly c (c1 : K) (e.A : K) tn := by
  obtain ⟨hA, hlo, _⟩ := tableOK_entry h he
  have hc1 := tableOK_c1 h
  have hA' : (0 : K) ≤ (e.A : K) := by exact_mod_cast hA
  have hc1' : (0 : K) ≤ (c1 : K) := by exact_mod_cast hc1
  have hlo' : 2 * (c1 : K) + 3 * (e.A : K) < (e.lo : K) := by exact_mod_cast hlo
  exact D_decreasing_n hc1' hA' (lt_of_lt_of_le hlo' hc) hn hnm htn htm hn' hm'

/-- ★ `D_pos_mono`, level: for a certified table the smaller level has the larger `D` at every `n ≥ 1` -/
theorem D_decreasing_alpha_of_tableOK {c1 : ℚ} {es : List Entry} (h : tableOK c1 es = true) {e e' : Entry}
    (he : e ∈ es) (he' : e' ∈ es) (hk : e.key < e'.key) {c c' t : K} (hc : (e.lo : K) ≤ c)
    (hc' : c' ≤ (e'.hi : K)) (ht : 0 < t) (ht1 : t ≤ 1) :
    Dpoly c' (c1 : K) (e'.A : K) t < Dpoly c (c1 : K) (e.A : K) t := by
  obtain ⟨h1, h2⟩ := tableOK_pair h he he' hk
  have h1' : (e'.hi : K) < (e.lo : K) := by exact_mod_cast h1
  have h2' : (e.A : K) - (e'.A : K) < (e.lo : K) - (e'.hi : K) := by exact_mod_cast h2
  exact D_decreasing_alpha h1' h2' hc hc' ht ht1

end D

/-! ### the model's `d_alpha` -/

/-- what the driver computes for a tabulated level -/
theorem dAlphaWith_formula {c1 : ℚ} {tbl : List (ℚ × ℚ)} {dflt : Option ℚ} {α A : ℚ} (h : lookup tbl α = some A)
    {n : ℕ} (hn : n ≠ 0) (r1 r2 : ℚ) :
    dAlphaWith c1 tbl dflt n α r1 r2 = .ok (r1 - c1 * (1 / (n : ℚ)) - A * r2) := by
  simp [dAlphaWith, h, hn]

/-- with the exact values `r1 = c_α/√n`, `r2 = n^(-3/2)` (here for rational `t = 1/√n`) it is `Dpoly` -/
theorem dAlphaWith_eq_Dpoly {c1 : ℚ} {tbl : List (ℚ × ℚ)} {dflt : Option ℚ} {α A : ℚ} (h : lookup tbl α = some A)
    {n : ℕ} (hn : n ≠ 0) (c t : ℚ) (ht : (n : ℚ) * t ^ 2 = 1) :
    dAlphaWith c1 tbl dflt n α (c * t) (t ^ 3) = .ok (Dpoly c c1 A t) := by
  rw [dAlphaWith_formula h hn]
  have hn' : (n : ℚ) ≠ 0 := by exact_mod_cast hn
  have : t ^ 2 = 1 / (n : ℚ) := by rw [eq_div_iff hn']; linarith
  rw [← this]; rfl

/-- ★ `unsupported_alpha_rejected`: a level the table has no constant for raises `ValueError` (for every `n`, also `n = 0`) -/
theorem unsupported_alpha_rejected {α : ℚ} (h : lookup table α = none) (n : ℕ) (r1 r2 : ℚ) :
    dAlpha n α r1 r2 = .error .Value := by
  simp [dAlpha, dAlphaWith, h, dflt]

theorem lookup_table_none_iff (α : ℚ) : lookup table α = none ↔ α ≠ k010 ∧ α ≠ k005 ∧ α ≠ k0025 := by
  simp only [table, lookup]
  split_ifs with h1 h2 h3 <;> simp [*]

/-- the three supported levels are answered for every `n ≥ 1` -/
theorem supported_alpha_answered {α : ℚ} (h : α = k010 ∨ α = k005 ∨ α = k0025) {n : ℕ} (hn : n ≠ 0) (r1 r2 : ℚ) :
    ∃ A, lookup table α = some A ∧ dAlpha n α r1 r2 = .ok (r1 - c1 * (1 / (n : ℚ)) - A * r2) := by
  have hne1 : k005 ≠ k010 := by decide +kernel
  have hne2 : k0025 ≠ k010 := by decide +kernel
  have hne3 : k0025 ≠ k005 := by decide +kernel
  rcases h with rfl | rfl | rfl
  · have hl : lookup table k010 = some (256 / 100000) := by simp [table, lookup]
    exact ⟨_, hl, dAlphaWith_formula hl hn r1 r2⟩
  · have hl : lookup table k005 = some (5256 / 100000) := by simp [table, lookup, hne1]
    exact ⟨_, hl, dAlphaWith_formula hl hn r1 r2⟩
  · have hl : lookup table k0025 = some (11282 / 100000) := by simp [table, lookup, hne2, hne3]
    exact ⟨_, hl, dAlphaWith_formula hl hn r1 r2⟩


/-! non-vacuity of the `D` hypotheses: the table of the code with brackets of `√(ln(1/α)/2)`, `t₁ = 1`, `t₄ = 1/2` -/
example : tableOK c1 [⟨k010, 256/100000, 10729/10000, 10731/10000⟩, ⟨k005, 5256/100000, 12238/10000, 12240/10000⟩,
    ⟨k0025, 11282/100000, 13581/10000, 13583/10000⟩] = true := by decide +kernel
example : (0 : ℕ) < 1 ∧ (1 : ℕ) < 4 ∧ ((1 : ℕ) : ℚ) * 1 ^ 2 = 1 ∧ ((4 : ℕ) : ℚ) * (1/2) ^ 2 = 1 := by norm_num
example : 0 < Dpoly (10729/10000 : ℚ) c1 (256/100000) (1/2) := by norm_num [Dpoly, c1]

example : dAlpha 5 (1/5) (1/2) (1/10) = .error .Value := by decide +kernel
example : dAlpha 4 k005 (1/2) (1/8) = .ok (1/2 - c1 * (1/4) - 5256/100000 * (1/8)) := by decide +kernel

end Pun.KS
