import Pun.Model.Tmcmc
import Mathlib.Tactic.Linarith
import Mathlib.Tactic.Ring
import Mathlib.Tactic.Positivity
import Mathlib.Tactic.FieldSimp
import Mathlib.Algebra.Order.Field.Rat
import Mathlib.Algebra.Order.Field.Basic
import Mathlib.Order.Monotone.Basic
/-!
# C19 — TMCMC tempering progresses to the posterior; its MH kernel respects the target

All statements are about the functions the driver executes (`Pun.Tmcmc.loopO`, `computeBeta`,
`weights`, `evidenceArg`, `mhStep`, `mhRun`, `retemper`, `stage`, `runStages`), for every oracle
`ess`, every rational input, every list length and every proposal / uniform stream.
-/
set_option linter.unusedSimpArgs false
set_option linter.unusedVariables false
namespace Pun.Tmcmc

/-! ## 1. the bisection on the exponent -/

/-- strict progress of the loop (P12 `loop_gt`): the exponent returned exceeds every lower bound
`b ≤ min` that the current candidate already exceeds -/
theorem loopO_gt (ess : Rat → Ans) (rN tol b : Rat) (htol : 0 ≤ tol) (f : Nat) (mn mx nb e r er : Rat)
    (hb : b ≤ mn) (hnb : b < nb) (h : loopO ess rN tol f mn mx nb e = .done r er) : b < r := by
  induction f generalizing mn mx nb e with
  | zero => simp [loopO] at h; obtain ⟨rfl, _⟩ := h; exact hnb
  | succ f ih =>
    simp only [loopO] at h
    split_ifs at h with h1
    · split at h
      · simp at h
      · simp at h
      · split_ifs at h with h2 h3
        · simp at h; obtain ⟨rfl, _⟩ := h; linarith
        · exact ih mn _ _ _ hb (by linarith) h
        · exact ih _ mx _ _ (by linarith) (by linarith) h
    · simp at h; obtain ⟨rfl, _⟩ := h; exact hnb

/-- (P12 `loop_gt_of_wide`) when the bracket is wider than the tolerance the first candidate is tried -/
theorem loopO_gt_of_wide (ess : Rat → Ans) (rN tol : Rat) (htol : 0 ≤ tol) (f : Nat) (mn mx nb e r er : Rat)
    (hw : tol < mx - mn) (h : loopO ess rN tol (f + 1) mn mx nb e = .done r er) : mn < r := by
  simp only [loopO, hw, if_true] at h
  split at h
  · simp at h
  · simp at h
  · split_ifs at h with h2 h3
    · simp at h; obtain ⟨rfl, _⟩ := h; linarith
    · exact loopO_gt ess rN tol mn htol f mn _ _ _ r er (le_refl _) (by linarith) h
    · exact loopO_gt ess rN tol mn htol f _ mx _ _ r er (by linarith) (by linarith) h

/-- (P12 `loop_le`) the exponent returned never exceeds the upper end of the bracket -/
theorem loopO_le (ess : Rat → Ans) (rN tol : Rat) (f : Nat) (mn mx nb e r er : Rat)
    (hmm : mn ≤ mx) (hnb : nb ≤ mx) (h : loopO ess rN tol f mn mx nb e = .done r er) : r ≤ mx := by
  induction f generalizing mn mx nb e with
  | zero => simp [loopO] at h; obtain ⟨rfl, _⟩ := h; exact hnb
  | succ f ih =>
    simp only [loopO] at h
    split_ifs at h with h1
    · split at h
      · simp at h
      · simp at h
      · split_ifs at h with h2 h3
        · simp at h; obtain ⟨rfl, _⟩ := h; linarith
        · have := ih mn ((mx + mn) / 2) _ _ (by linarith) (le_refl _) h; linarith
        · exact ih _ mx _ _ (by linarith) (by linarith) h
    · simp at h; obtain ⟨rfl, _⟩ := h; exact hnb

/-- (P12 `loop_fuel`) termination: once `tol · 2^f` covers the bracket, extra fuel changes nothing,
i.e. the fuelled loop *is* the Python `while` loop -/
theorem loopO_fuel (ess : Rat → Ans) (rN tol : Rat) (htol : 0 < tol) (f g : Nat) (mn mx nb e : Rat)
    (hw : mx - mn ≤ tol * 2 ^ f) :
    loopO ess rN tol (f + g) mn mx nb e = loopO ess rN tol f mn mx nb e := by
  induction f generalizing mn mx nb e with
  | zero =>
    have hstop : ¬ tol < mx - mn := by simp at hw; linarith
    cases g with
    | zero => rfl
    | succ g => simp [loopO, hstop]
  | succ f ih =>
    have e1 : f + 1 + g = (f + g) + 1 := by omega
    rw [e1]
    simp only [loopO]
    have hhalf : ∀ a c : Rat, c - a = (mx - mn) / 2 → c - a ≤ tol * 2 ^ f := by
      intro a c h; rw [h]; rw [pow_succ] at hw; linarith
    split_ifs with h1
    · split
      · rfl
      · rfl
      · split_ifs with h2 h3
        · rfl
        · exact ih _ _ _ _ (hhalf _ _ (by ring))
        · exact ih _ _ _ _ (hhalf _ _ (by ring))
    · rfl

/-- ★ every stage strictly increases the tempering exponent and never exceeds 1 -/
theorem beta_strictly_increases (c : Consts) (ess : Rat → Ans) (old prev b e : Rat) (cl : Bool)
    (htol : 0 ≤ c.tol) (hold : old < 1)
    (h : computeBeta c ess old prev = .done b e cl) : old < b := by
  unfold computeBeta at h
  split_ifs at h with hw
  split at h
  · simp at h
  · simp at h
  · rename_i r er hl
    have hr : old < r := loopO_gt_of_wide ess (rN c prev) c.tol htol 63 old c.maxBeta old 0 r er hw hl
    split_ifs at h with h1
    · simp at h; obtain ⟨rfl, _, _⟩ := h; exact hold
    · simp at h; obtain ⟨rfl, _, _⟩ := h; exact hr

/-- ★ the exponent is at most 1 -/
theorem beta_le_one (c : Consts) (ess : Rat → Ans) (old prev b e : Rat) (cl : Bool)
    (h : computeBeta c ess old prev = .done b e cl) : b ≤ 1 := by
  unfold computeBeta at h
  split_ifs at h with hw
  split at h
  · simp at h
  · simp at h
  · split_ifs at h with h1
    · simp at h; obtain ⟨rfl, _, _⟩ := h; exact le_refl _
    · simp at h; obtain ⟨rfl, _, _⟩ := h; linarith

/-- ★ the stage loop `while beta < 1` can only stop at exponent exactly 1 -/
theorem loop_ends_at_one (c : Consts) (ess : Rat → Ans) (old prev b e : Rat) (cl : Bool)
    (h : computeBeta c ess old prev = .done b e cl) (hstop : ¬ b < 1) : b = 1 :=
  le_antisymm (beta_le_one c ess old prev b e cl h) (not_lt.mp hstop)

/-- the clamp flag is set exactly when the exponent returned is 1 and then the raw candidate was ≥ 1 -/
theorem clamped_iff (c : Consts) (ess : Rat → Ans) (old prev b e : Rat) (cl : Bool)
    (h : computeBeta c ess old prev = .done b e cl) : cl = true ↔ b = 1 := by
  unfold computeBeta at h
  split_ifs at h with hw
  split at h
  · simp at h
  · simp at h
  · split_ifs at h with h1
    · simp at h; obtain ⟨rfl, _, rfl⟩ := h; simp
    · simp at h; obtain ⟨rfl, _, rfl⟩ := h
      constructor
      · intro h; simp at h
      · intro h; exact absurd (le_of_eq h.symm) h1

/-- the error branch: the loop body never runs (`old ≥ max_beta − tol`) ⇒ `UnboundLocalError` -/
theorem unbound_iff (c : Consts) (ess : Rat → Ans) (old prev : Rat) :
    computeBeta c ess old prev = .raise .Unbound ↔ ¬ c.tol < c.maxBeta - old := by
  unfold computeBeta
  split_ifs with hw
  · simp only [hw, not_true_eq_false, iff_false]
    split
    · simp
    · simp
    · split_ifs <;> simp
  · simp [hw]

/-- ★ `fuel = 64` suffices for every `old ≥ 0`-style bracket: with `max_beta − old ≤ tol·2^64` the
fuelled loop equals the loop with any larger fuel (the unbounded `while`) -/
theorem bisect_fuel_suffices (c : Consts) (ess : Rat → Ans) (old prev : Rat) (htol : 0 < c.tol)
    (hw : c.maxBeta - old ≤ c.tol * 2 ^ fuel) (g : Nat) :
    loopO ess (rN c prev) c.tol (fuel + g) old c.maxBeta old 0
      = loopO ess (rN c prev) c.tol fuel old c.maxBeta old 0 :=
  loopO_fuel ess (rN c prev) c.tol htol fuel g old c.maxBeta old 0 hw

/-- bracket invariant of the bisection w.r.t. a total ESS function `E` -/
def LoOK (E : Rat → Rat) (rN old lo : Rat) : Prop := lo = old ∨ rN < E lo
def HiOK (E : Rat → Rat) (rN top hi : Rat) : Prop := hi = top ∨ E hi < rN

/-- the loop ends either exactly on target or with a bracket of width ≤ tol around the result whose
lower end is above target and whose upper end is below target -/
theorem loopO_bracket (ess : Rat → Ans) (E : Rat → Rat) (hE : ∀ b e, ess b = .val e → e = E b)
    (rN tol old top : Rat) (f : Nat) (mn mx nb e r er : Rat)
    (hw : mx - mn ≤ tol * 2 ^ f) (hmm : mn ≤ mx) (hnb : nb = mn ∨ nb = mx)
    (hlo : LoOK E rN old mn) (hhi : HiOK E rN top mx)
    (h : loopO ess rN tol f mn mx nb e = .done r er) :
    (er = rN ∧ E r = rN) ∨
    (∃ lo hi, lo ≤ r ∧ r ≤ hi ∧ hi - lo ≤ tol ∧ LoOK E rN old lo ∧ HiOK E rN top hi) := by
  induction f generalizing mn mx nb e with
  | zero =>
    simp [loopO] at h; obtain ⟨rfl, _⟩ := h
    right
    refine ⟨mn, mx, ?_, ?_, by simpa using hw, hlo, hhi⟩ <;> rcases hnb with rfl | rfl <;> linarith
  | succ f ih =>
    simp only [loopO] at h
    split_ifs at h with h1
    · split at h
      · simp at h
      · simp at h
      · rename_i e' he'
        have hEe : e' = E ((mx + mn) / 2) := hE _ _ he'
        have hhalf : ∀ a c : Rat, c - a = (mx - mn) / 2 → c - a ≤ tol * 2 ^ f := by
          intro a c h; rw [h]; rw [pow_succ] at hw; linarith
        split_ifs at h with h2 h3
        · simp at h; obtain ⟨rfl, rfl⟩ := h
          left; exact ⟨h2, by rw [← hEe]; exact h2⟩
        · exact ih mn _ _ _ (hhalf _ _ (by ring)) (by linarith) (Or.inr rfl) hlo
            (Or.inr (by rw [← hEe]; exact h3)) h
        · have h4 : rN < e' := lt_of_le_of_ne (not_lt.mp h3) (Ne.symm h2)
          exact ih _ mx _ _ (hhalf _ _ (by ring)) (by linarith) (Or.inl rfl)
            (Or.inr (by rw [← hEe]; exact h4)) hhi h
    · simp at h; obtain ⟨rfl, _⟩ := h
      right
      refine ⟨mn, mx, ?_, ?_, by linarith, hlo, hhi⟩ <;> rcases hnb with rfl | rfl <;> linarith

/-- the `(new_beta, ESS)` pair returned by the loop is consistent: the ESS is that of the exponent -/
theorem loopO_pair (ess : Rat → Ans) (E : Rat → Rat) (hE : ∀ b e, ess b = .val e → e = E b)
    (rN tol : Rat) (f : Nat) (mn mx nb e0 r er : Rat)
    (h0 : e0 = E nb ∨ (tol < mx - mn ∧ 0 < f))
    (h : loopO ess rN tol f mn mx nb e0 = .done r er) : er = E r := by
  induction f generalizing mn mx nb e0 with
  | zero =>
    simp [loopO] at h; obtain ⟨rfl, rfl⟩ := h
    rcases h0 with h0 | ⟨_, h0⟩
    · exact h0
    · exact absurd h0 (lt_irrefl 0)
  | succ f ih =>
    simp only [loopO] at h
    split_ifs at h with g1
    · split at h
      · simp at h
      · simp at h
      · rename_i e' he'
        have := hE _ _ he'
        split_ifs at h with g2 g3
        · simp at h; obtain ⟨rfl, rfl⟩ := h; exact this
        · exact ih _ _ _ _ (Or.inl this) h
        · exact ih _ _ _ _ (Or.inl this) h
    · simp at h; obtain ⟨rfl, rfl⟩ := h
      rcases h0 with h0 | ⟨h0, _⟩
      · exact h0
      · exact absurd h0 g1

/-- ★ optimality of the increment (exponent below 1).  For an antitone effective sample size `E`
the exponent chosen either meets the target exactly, or lies within `tol` of the threshold:
every exponent at least `tol` smaller keeps the ESS above the target, every exponent at least
`tol` larger drops it below — i.e. `|b − sup {x | E x ≥ rN}| ≤ tol`.  Also the ESS returned is
the ESS of the exponent returned. -/
theorem bisect_optimal (c : Consts) (ess : Rat → Ans) (E : Rat → Rat)
    (hE : ∀ b e, ess b = .val e → e = E b) (hanti : Antitone E)
    (old prev b e : Rat) (htol : 0 < c.tol) (hfuel : c.maxBeta - old ≤ c.tol * 2 ^ fuel)
    (h : computeBeta c ess old prev = .done b e false) :
    e = E b ∧
    (E b = rN c prev ∨
     ((∀ x, old < x → x ≤ b - c.tol → rN c prev < E x) ∧
      (∀ x, b + c.tol ≤ x → x < c.maxBeta → E x < rN c prev))) := by
  unfold computeBeta at h
  split_ifs at h with hw
  split at h
  · simp at h
  · simp at h
  · rename_i r er hl
    split_ifs at h with h1
    simp at h; obtain ⟨rfl, rfl⟩ := h
    have hwide : old ≤ c.maxBeta := by linarith
    have hb := loopO_bracket ess E hE (rN c prev) c.tol old c.maxBeta fuel old c.maxBeta old 0 b e
      hfuel hwide (Or.inl rfl) (Or.inl rfl) (Or.inl rfl) hl
    have her : e = E b := loopO_pair ess E hE (rN c prev) c.tol fuel old c.maxBeta old 0 b e
      (Or.inr ⟨hw, by decide⟩) hl
    refine ⟨her, ?_⟩
    rcases hb with ⟨_, h2⟩ | ⟨lo, hi, h1', h2', h3', hlo, hhi⟩
    · exact Or.inl h2
    · right
      constructor
      · intro x hx1 hx2
        rcases hlo with rfl | hlo
        · linarith
        · exact lt_of_lt_of_le hlo (hanti (by linarith))
      · intro x hx1 hx2
        rcases hhi with rfl | hhi
        · linarith
        · exact lt_of_le_of_lt (hanti (by linarith)) hhi

/-- ★ optimality, clamped case: the exponent is set to 1 only when the target is still met by
every exponent up to `1 − tol` (so the whole remaining increment is admissible) -/
theorem bisect_clamp_justified (c : Consts) (ess : Rat → Ans) (E : Rat → Rat)
    (hE : ∀ b e, ess b = .val e → e = E b) (hanti : Antitone E)
    (old prev b e : Rat) (htol : 0 < c.tol) (hfuel : c.maxBeta - old ≤ c.tol * 2 ^ fuel)
    (h : computeBeta c ess old prev = .done b e true) :
    b = 1 ∧ ∀ x, old < x → x ≤ 1 - c.tol → rN c prev ≤ E x := by
  unfold computeBeta at h
  split_ifs at h with hw
  split at h
  · simp at h
  · simp at h
  · rename_i r er hl
    split_ifs at h with h1
    · simp at h; obtain ⟨rfl, rfl⟩ := h
      refine ⟨rfl, ?_⟩
      have hwide : old ≤ c.maxBeta := by linarith
      have hb := loopO_bracket ess E hE (rN c prev) c.tol old c.maxBeta fuel old c.maxBeta old 0 r er
        hfuel hwide (Or.inl rfl) (Or.inl rfl) (Or.inl rfl) hl
      intro x hx1 hx2
      rcases hb with ⟨_, h2⟩ | ⟨lo, hi, h1', h2', h3', hlo, hhi⟩
      · rw [← h2]; exact hanti (by linarith)
      · rcases hlo with rfl | hlo
        · linarith
        · exact le_of_lt (lt_of_lt_of_le hlo (hanti (by linarith)))
    · simp at h

/-! ## 2. importance weights and evidence -/

theorem sumL_nonneg (w : List Rat) (h : ∀ x ∈ w, 0 ≤ x) : 0 ≤ sumL w := by
  induction w with
  | nil => simp [sumL]
  | cons a t ih =>
    have h1 := h a (by simp)
    have h2 := ih (fun x hx => h x (by simp [hx]))
    simp only [sumL, List.foldr_cons] at *
    linarith

theorem sumL_ge_mem (w : List Rat) (h : ∀ x ∈ w, 0 ≤ x) (a : Rat) (ha : a ∈ w) : a ≤ sumL w := by
  induction w with
  | nil => simp at ha
  | cons b t ih =>
    have hb := h b (by simp)
    have ht := sumL_nonneg t (fun x hx => h x (by simp [hx]))
    simp only [sumL, List.foldr_cons] at *
    rcases List.mem_cons.mp ha with rfl | ha'
    · linarith
    · have := ih (fun x hx => h x (by simp [hx])) ha'; linarith

theorem sumL_map_div (w : List Rat) (s : Rat) : sumL (w.map (· / s)) = sumL w / s := by
  induction w with
  | nil => simp [sumL]
  | cons a t ih => simp only [sumL, List.map_cons, List.foldr_cons] at *; rw [ih]; ring

/-- ★ the importance weights are a probability vector -/
theorem weights_probability_vector (w : List Rat) (hnn : ∀ x ∈ w, 0 ≤ x) (hpos : 0 < sumL w) :
    (∀ y ∈ weights w, 0 ≤ y) ∧ sumL (weights w) = 1 ∧ (weights w).length = w.length := by
  refine ⟨?_, ?_, by simp [weights]⟩
  · intro y hy
    simp only [weights, List.mem_map] at hy
    obtain ⟨x, hx, rfl⟩ := hy
    exact div_nonneg (hnn x hx) (le_of_lt hpos)
  · unfold weights; rw [sumL_map_div]; exact div_self (ne_of_gt hpos)

/-- ★ …proportional to the unnormalised weights `likelihood^(increment)` supplied as `w`:
one positive constant `k = 1/Σw` scales every entry -/
theorem weights_proportional (w : List Rat) (hpos : 0 < sumL w) :
    ∃ k : Rat, 0 < k ∧ weights w = w.map (k * ·) := by
  refine ⟨1 / sumL w, by positivity, ?_⟩
  unfold weights
  apply List.map_congr_left
  intro x _; ring

/-- ★ the evidence update takes the logarithm of a number in `(0, ∞)`: some unnormalised weight is
1 (the particle with maximal likelihood), so `Σw ≥ 1` and `Σw / N ≥ 1/N > 0` -/
theorem evidence_finite (w : List Rat) (hnn : ∀ x ∈ w, 0 ≤ x) (hone : (1 : Rat) ∈ w) :
    1 ≤ sumL w ∧ 0 < evidenceArg w ∧ 1 / (w.length : Rat) ≤ evidenceArg w := by
  have h1 : 1 ≤ sumL w := sumL_ge_mem w hnn 1 hone
  have hlen : 0 < (w.length : Rat) := by
    have : 0 < w.length := List.length_pos_of_mem hone
    exact_mod_cast this
  refine ⟨h1, ?_, ?_⟩
  · unfold evidenceArg; exact div_pos (by linarith) hlen
  · unfold evidenceArg; exact div_le_div_of_nonneg_right h1 (le_of_lt hlen)

/-! ## 3. the Metropolis–Hastings kernel -/

/-- a step either keeps the state or makes the accepting move, and the latter only for a proposal
with finite log-prior, finite log-acceptance and `log u < log_acceptance` -/
theorem mhStep_cases (β : Rat) (s : MState) (p : Proposal) (lus : List Rat) (s' : MState)
    (rest : List Rat) (cd : Nat) (h : mhStep β s p lus = some (s', rest, cd)) :
    (s' = s ∧ cd ≠ 2) ∨
    (s' = accept β s p ∧ cd = 2 ∧ ∃ la lu, logAcc β s p = some la ∧ lus = lu :: rest ∧ lu < la) := by
  unfold mhStep at h
  split at h
  · simp at h; obtain ⟨rfl, _, rfl⟩ := h; left; refine ⟨rfl, ?_⟩; split_ifs <;> simp
  · rename_i la hla
    split at h
    · simp at h
    · rename_i lu rest'
      split_ifs at h with hlt
      · simp at h; obtain ⟨rfl, rfl, rfl⟩ := h
        right; exact ⟨rfl, rfl, la, lu, hla, rfl, hlt⟩
      · simp at h; obtain ⟨rfl, rfl, rfl⟩ := h; left; exact ⟨rfl, by simp⟩

/-- ★ acceptance rule: a step accepts iff the log-acceptance is finite and the next log-uniform is
below it -/
theorem mh_accept_iff (β : Rat) (s : MState) (p : Proposal) (lus : List Rat) (s' : MState)
    (rest : List Rat) (cd : Nat) (h : mhStep β s p lus = some (s', rest, cd)) :
    cd = 2 ↔ ∃ la lu, logAcc β s p = some la ∧ lus = lu :: rest ∧ lu < la := by
  constructor
  · intro hc
    rcases mhStep_cases β s p lus s' rest cd h with ⟨_, h2⟩ | ⟨_, _, h3⟩
    · exact absurd hc h2
    · exact h3
  · rintro ⟨la, lu, h1, rfl, h3⟩
    unfold mhStep at h
    rw [h1] at h
    simp [h3] at h
    exact h.2.symm

/-- …which is acceptance with probability `min(1, ratio)`: for a strictly increasing `exp`,
`log u < log_acceptance ⇔ u < min(1, exp(log_acceptance))` for every `u = exp(log u) < 1` -/
theorem accept_iff_uniform_lt_min {K : Type*} [LinearOrder K] [One K] (ex : Rat → K) (hex : StrictMono ex)
    (lu la : Rat) (hu : ex lu < 1) : lu < la ↔ ex lu < min 1 (ex la) := by
  rw [lt_min_iff]
  constructor
  · intro h; exact ⟨hu, hex h⟩
  · intro h; exact hex.lt_iff_lt.mp h.2

/-- accepted proposals have a finite log-prior (the support guard) -/
theorem accept_prior_finite (β : Rat) (s : MState) (p : Proposal) (la : Rat)
    (h : logAcc β s p = some la) : p.prior.isSome := by
  unfold logAcc propLP at h
  cases hp : p.prior with
  | none => rw [hp] at h; simp [EV.sub] at h
  | some v => simp

/-- ★ a Metropolis–Hastings run never leaves the support of the prior: `InS` is any predicate that
holds at the start and at every proposal whose log-prior is finite -/
theorem mh_support (InS : List Rat → Prop) (β : Rat) (ps : List Proposal) :
    ∀ (s : MState) (lus : List Rat) (s' : MState) (rest : List Rat) (cs : List Nat),
    InS s.x → (∀ p ∈ ps, p.prior.isSome → InS p.x) →
    mhRun β s ps lus = some (s', rest, cs) → InS s'.x := by
  induction ps with
  | nil => intro s lus s' rest cs h0 _ h; simp [mhRun] at h; obtain ⟨rfl, _, _⟩ := h; exact h0
  | cons p ps ih =>
    intro s lus s' rest cs h0 hp h
    simp only [mhRun] at h
    split at h
    · simp at h
    · rename_i s1 lus1 c1 hstep
      split at h
      · simp at h
      · rename_i s2 lus2 cs2 hrun
        simp at h; obtain ⟨rfl, rfl, rfl⟩ := h
        apply ih s1 lus1 s2 lus2 cs2 ?_ (fun q hq => hp q (by simp [hq])) hrun
        rcases mhStep_cases β s p lus s1 lus1 c1 hstep with ⟨rfl, _⟩ | ⟨rfl, _, la, lu, hla, _, _⟩
        · exact h0
        · exact hp p (by simp) (accept_prior_finite β s p la hla)

/-- the invariant "stored log-likelihood and tempered log-posterior are those of the state at β" -/
def Consistent (priorF likF : List Rat → EV) (β : Rat) (x : List Rat) (lik post : EV) : Prop :=
  lik = likF x ∧ post = EV.add (priorF x) (EV.smul β (likF x))

/-- ★ the state returned by a run carries its own log-likelihood and tempered log-posterior at the
current exponent, provided the entry state does (see `retemper_invariant`) and the proposal
records are the prior / likelihood of their points -/
theorem mh_consistent (priorF likF : List Rat → EV) (β : Rat) (ps : List Proposal) :
    ∀ (s : MState) (lus : List Rat) (s' : MState) (rest : List Rat) (cs : List Nat),
    Consistent priorF likF β s.x s.lik s.post →
    (∀ p ∈ ps, p.prior = priorF p.x ∧ (p.prior.isSome → p.lik = likF p.x)) →
    mhRun β s ps lus = some (s', rest, cs) → Consistent priorF likF β s'.x s'.lik s'.post := by
  induction ps with
  | nil => intro s lus s' rest cs h0 _ h; simp [mhRun] at h; obtain ⟨rfl, _, _⟩ := h; exact h0
  | cons p ps ih =>
    intro s lus s' rest cs h0 hp h
    simp only [mhRun] at h
    split at h
    · simp at h
    · rename_i s1 lus1 c1 hstep
      split at h
      · simp at h
      · rename_i s2 lus2 cs2 hrun
        simp at h; obtain ⟨rfl, rfl, rfl⟩ := h
        apply ih s1 lus1 s2 lus2 cs2 ?_ (fun q hq => hp q (by simp [hq])) hrun
        rcases mhStep_cases β s p lus s1 lus1 c1 hstep with ⟨rfl, _⟩ | ⟨rfl, _, la, lu, hla, _, _⟩
        · exact h0
        · have hfin := accept_prior_finite β s p la hla
          obtain ⟨hpr, hlk⟩ := hp p (by simp)
          have hlk' := hlk hfin
          obtain ⟨v, hv⟩ := Option.isSome_iff_exists.mp hfin
          unfold Consistent accept propLP
          simp only [hv]
          rw [← hpr, hv, ← hlk']
          exact ⟨rfl, rfl⟩

/-! ## 4. the stage loop -/

/-- ★ re-tempering establishes the entry invariant of the MH kernel at the new exponent -/
theorem retemper_invariant (priorF likF : List Rat → EV) (β β' : Rat) (p : Particle)
    (h : Consistent priorF likF β p.x p.lik p.post) :
    Consistent priorF likF β' (retemper (β' - β) p).x (retemper (β' - β) p).lik (retemper (β' - β) p).post := by
  obtain ⟨h1, h2⟩ := h
  unfold retemper Consistent
  simp only
  refine ⟨h1, ?_⟩
  rw [h2, h1]
  cases priorF p.x <;> cases likF p.x <;> simp [EV.add, EV.smul]
  ring

/-- the population-level invariant: every particle is inside the support and consistent at `β` -/
def PopOK (InS : List Rat → Prop) (priorF likF : List Rat → EV) (β : Rat) (ps : List Particle) : Prop :=
  ∀ p ∈ ps, InS p.x ∧ Consistent priorF likF β p.x p.lik p.post

/-- all proposal records of a stage are faithful to `priorF`, `likF`, and finite log-prior means
inside the support -/
def MovesOK (InS : List Rat → Prop) (priorF likF : List Rat → EV) (ms : List Move) : Prop :=
  ∀ m ∈ ms, ∀ q ∈ m.props, (q.prior.isSome → InS q.x) ∧ q.prior = priorF q.x ∧ (q.prior.isSome → q.lik = likF q.x)

theorem resample_mem (ps : List Particle) (ids : List Nat) (cap : List Particle)
    (h : resample ps ids = some cap) : cap.length = ids.length ∧ ∀ p ∈ cap, p ∈ ps := by
  unfold resample at h
  induction ids generalizing cap with
  | nil => simp at h; subst h; simp
  | cons i is ih =>
    rw [List.mapM_cons] at h
    cases hi : ps[i]? with
    | none => simp [hi] at h
    | some a =>
      cases hr : List.mapM (fun i => ps[i]?) is with
      | none => simp [hi, hr] at h
      | some t =>
        simp [hi, hr] at h
        subst h
        obtain ⟨hl, hm⟩ := ih t hr
        refine ⟨by simp [hl], ?_⟩
        intro p hp
        rcases List.mem_cons.mp hp with rfl | hp'
        · exact List.mem_of_getElem? hi
        · exact hm p hp'

theorem mutateAll_ok (InS : List Rat → Prop) (priorF likF : List Rat → EV) (β : Rat) :
    ∀ (cap : List Particle) (ms : List Move) (nxt : List (Particle × Nat)),
    PopOK InS priorF likF β cap → MovesOK InS priorF likF ms →
    mutateAll β cap ms = some nxt →
    nxt.length = cap.length ∧ PopOK InS priorF likF β (nxt.map (·.1)) := by
  intro cap
  induction cap with
  | nil =>
    intro ms nxt _ _ h
    cases ms with
    | nil => simp [mutateAll] at h; subst h; simp [PopOK]
    | cons _ _ => simp [mutateAll] at h
  | cons p cap ih =>
    intro ms nxt hpop hmv h
    cases ms with
    | nil => simp [mutateAll] at h
    | cons m ms =>
      simp only [mutateAll] at h
      split at h
      · rename_i r rs hr hrs
        simp at h; subst h
        obtain ⟨hl, hok⟩ := ih ms rs (fun q hq => hpop q (by simp [hq])) (fun m' hm' => hmv m' (by simp [hm'])) hrs
        refine ⟨by simp [hl], ?_⟩
        intro q hq
        simp only [List.map_cons, List.mem_cons] at hq
        rcases hq with rfl | hq
        · unfold mutate at hr
          split at hr
          · simp at hr
          · rename_i s rest cs hrun
            simp at hr; subst hr
            obtain ⟨hin, hcons⟩ := hpop p (by simp)
            have hm := hmv m (by simp)
            exact ⟨mh_support InS β m.props ⟨p.x, p.lik, p.post, 0⟩ m.lus s rest cs hin
                      (fun q hq => (hm q hq).1) hrun,
                   mh_consistent priorF likF β m.props ⟨p.x, p.lik, p.post, 0⟩ m.lus s rest cs hcons
                      (fun q hq => (hm q hq).2) hrun⟩
        · exact hok q hq
      · simp at h

/-- ★ one pass of the stage loop: from a population of `N` consistent particles inside the support
at `β` it produces `N` resampled and `N` mutated particles, all inside the support and consistent
at the new exponent `β'` -/
theorem stage_invariant (InS : List Rat → Prop) (priorF likF : List Rat → EV) (β β' : Rat)
    (ps : List Particle) (ids : List Nat) (ms : List Move) (cap : List Particle) (nxt : List (Particle × Nat))
    (hpop : PopOK InS priorF likF β ps) (hmv : MovesOK InS priorF likF ms)
    (h : stage β β' ps ids ms = some (cap, nxt)) :
    cap.length = ps.length ∧ nxt.length = ps.length ∧
    PopOK InS priorF likF β' cap ∧ PopOK InS priorF likF β' (nxt.map (·.1)) := by
  unfold stage at h
  split_ifs at h with hlen
  split at h
  · simp at h
  · rename_i cap' hres
    split at h
    · simp at h
    · rename_i nxt' hmut
      simp at h; obtain ⟨rfl, rfl⟩ := h
      obtain ⟨hl, hmem⟩ := resample_mem _ _ _ hres
      have hcap : PopOK InS priorF likF β' cap' := by
        intro p hp
        have := hmem p hp
        simp only [List.mem_map] at this
        obtain ⟨p0, hp0, rfl⟩ := this
        obtain ⟨hin, hc⟩ := hpop p0 hp0
        exact ⟨hin, retemper_invariant priorF likF β β' p0 hc⟩
      obtain ⟨hl2, hok2⟩ := mutateAll_ok InS priorF likF β' cap' ms nxt' hcap hmv hmut
      have hlen' : ids.length = ps.length := not_not.mp hlen
      exact ⟨by rw [hl, hlen'], by rw [hl2, hl, hlen'], hcap, hok2⟩

/-- ★ shape of the trace: every stage records `N` particles, all inside the prior support (and all
consistent with the exponent of their stage) -/
theorem trace_shape (InS : List Rat → Prop) (priorF likF : List Rat → EV) :
    ∀ (ss : List StageIn) (β : Rat) (ps : List Particle) (tr : List (List Particle)),
    PopOK InS priorF likF β ps → (∀ s ∈ ss, MovesOK InS priorF likF s.moves) →
    runStages β ps ss = some tr →
    tr.length = ss.length + 1 ∧ ∀ pop ∈ tr, pop.length = ps.length ∧ ∀ p ∈ pop, InS p.x := by
  intro ss
  induction ss with
  | nil =>
    intro β ps tr hpop _ h
    simp [runStages] at h; subst h
    simp; intro p hp; exact (hpop p hp).1
  | cons s ss ih =>
    intro β ps tr hpop hmv h
    simp only [runStages] at h
    split at h
    · simp at h
    · rename_i cap nxt hst
      split at h
      · simp at h
      · rename_i tr' hrun
        simp at h; subst h
        obtain ⟨_, hl2, _, hok⟩ := stage_invariant InS priorF likF β s.beta ps s.ids s.moves cap nxt hpop
          (hmv s (by simp)) hst
        obtain ⟨hlen, hall⟩ := ih s.beta (nxt.map (·.1)) tr' hok (fun t ht => hmv t (by simp [ht])) hrun
        refine ⟨by simp [hlen], ?_⟩
        intro pop hpop'
        rcases List.mem_cons.mp hpop' with rfl | hp
        · exact ⟨rfl, fun p hp => (hpop p hp).1⟩
        · obtain ⟨h1, h2⟩ := hall pop hp
          exact ⟨by rw [h1]; simp [hl2], h2⟩

/-! ## 4b. the whole loop: exponents produced by the bisection, populations by the stage step -/

/-- successive recorded exponents: strictly increasing (and at most 1) while below 1; after 1 only the
terminal entry 1 follows -/
def StepOK (a b : Rat) : Prop := (a < 1 ∧ a < b ∧ b ≤ 1) ∨ (a = 1 ∧ b = 1)

/-- ★ the statement for the executed stage loop, for an arbitrary ESS oracle per stage: every recorded
exponent strictly exceeds the previous one and is at most 1; if the loop terminates, the last stage has
exponent exactly 1 (the terminal entry 1 can only follow an entry equal to 1); every stage records `N`
particles, all inside the prior support. -/
theorem run_statement (InS : List Rat → Prop) (priorF likF : List Rat → EV) (c : Consts) (htol : 0 ≤ c.tol) :
    ∀ (envs : List StageEnv) (β prev : Rat) (ps : List Particle) (tr : List (Rat × List Particle)) (fin : Bool),
    β ≤ 1 → PopOK InS priorF likF β ps → (∀ e ∈ envs, MovesOK InS priorF likF e.moves) →
    runLoop c envs β prev ps = .ok tr fin →
    List.IsChain StepOK (β :: tr.map (·.1)) ∧
    (∀ e ∈ tr, e.2.length = ps.length ∧ ∀ p ∈ e.2, InS p.x) ∧
    (fin = true → (tr.map (·.1)).getLast? = some 1) := by
  intro envs
  induction envs with
  | nil =>
    intro β prev ps tr fin hβ hpop _ h
    simp only [runLoop] at h
    split_ifs at h with hlt
    · simp at h; obtain ⟨rfl, rfl⟩ := h; simp
    · simp at h; obtain ⟨rfl, rfl⟩ := h
      have hb1 : β = 1 := le_antisymm hβ (not_lt.mp hlt)
      refine ⟨by simp [StepOK, hb1], ?_, by simp⟩
      intro e he; simp at he; subst he
      exact ⟨rfl, fun p hp => (hpop p hp).1⟩
  | cons e es ih =>
    intro β prev ps tr fin hβ hpop hmv h
    simp only [runLoop] at h
    split_ifs at h with hlt
    · split at h
      · simp at h
      · simp at h
      · rename_i b' ess' cl hcb
        split at h
        · simp at h
        · rename_i cap nxt hst
          split at h
          · rename_i tr' fin' hrec
            simp at h; obtain ⟨rfl, rfl⟩ := h
            have hgt := beta_strictly_increases c e.ess β prev b' ess' cl htol hlt hcb
            have hle := beta_le_one c e.ess β prev b' ess' cl hcb
            obtain ⟨_, hl2, _, hok⟩ := stage_invariant InS priorF likF β b' ps e.ids e.moves cap nxt hpop
              (hmv e (by simp)) hst
            obtain ⟨hch, hsh, hfin⟩ := ih b' ess' (nxt.map (·.1)) tr' fin' hle hok
              (fun t ht => hmv t (by simp [ht])) hrec
            refine ⟨?_, ?_, ?_⟩
            · simp only [List.map_cons]
              exact List.IsChain.cons_cons (Or.inl ⟨hlt, hgt, hle⟩) hch
            · intro x hx
              rcases List.mem_cons.mp hx with rfl | hx'
              · exact ⟨rfl, fun p hp => (hpop p hp).1⟩
              · obtain ⟨h1, h2⟩ := hsh x hx'
                exact ⟨by rw [h1]; simp [hl2], h2⟩
            · intro hf
              have := hfin hf
              cases tr' with
              | nil => simp at this
              | cons a t => simpa [List.getLast?_cons_cons] using this
          · rename_i r hne
            exact absurd h (hne _ _)
    · simp at h; obtain ⟨rfl, rfl⟩ := h
      have hb1 : β = 1 := le_antisymm hβ (not_lt.mp hlt)
      refine ⟨by simp [StepOK, hb1], ?_, by simp⟩
      intro e he; simp at he; subst he
      exact ⟨rfl, fun p hp => (hpop p hp).1⟩

/-! ## 5. non-vacuity: concrete instances of the hypotheses used above -/

/-- a step-shaped antitone ESS: 100 up to exponent 1/4, then 90 (target 95 for `prev = 100`) -/
def exE (b : Rat) : Rat := if b ≤ 1/4 then 100 else 90

example : Antitone exE := by
  intro a b hab
  unfold exE
  split_ifs with h1 h2 <;> linarith

/-- the bisection on `exE` stops unclamped within `1e-8` of the threshold `1/4` -/
example : (match computeBeta consts (fun b => .val (exE b)) 0 100 with
    | .done b e false => decide (1/4 - 1/100000000 ≤ b ∧ b ≤ 1/4 + 1/100000000 ∧ e = exE b)
    | _ => false) = true := by decide +kernel

/-- flat log-likelihoods: ESS stays at `N`, the exponent is clamped to 1 -/
example : computeBeta consts (fun _ => .val 60) 0 60 = .done 1 60 true := by decide +kernel

/-- the `ESS == rN` break: returns the first midpoint -/
example : computeBeta consts (fun _ => .val 95) 0 100 = .done 1 95 true := by decide +kernel
example : computeBeta consts (fun _ => .val 95) (1/2) 100 = .done 1 95 true := by decide +kernel

/-- hypotheses of `bisect_fuel_suffices` / `bisect_optimal` hold for every `old ≥ 0` with the code's constants -/
example (old : Rat) (h : 0 ≤ old) : consts.maxBeta - old ≤ consts.tol * 2 ^ fuel := by
  have : consts.maxBeta = 2 := rfl
  have h2 : consts.tol = 1/100000000 := rfl
  rw [this, h2]; norm_num [fuel]; linarith

/-- the NaN answer raises, an unanswered query is reported, `old ≥ 2 − 1e-8` is `UnboundLocalError` -/
example : computeBeta consts (fun _ => .nan) 0 60 = .raise .Value := by decide +kernel
example : computeBeta consts (tableEss [(1, .val 40)]) 0 100 = .need (1/2) := by decide +kernel
example : computeBeta consts (fun _ => .val 60) 2 60 = .raise .Unbound := by decide +kernel

/-- weights: `exp` values `[1, 1/2, 1/2]` -/
example : weights [1, 1/2, 1/2] = [1/2, 1/4, 1/4] ∧ evidenceArg [1, 1/2, 1/2] = 2/3 := by decide +kernel
example : (∀ x ∈ ([1, 1/2, 1/2] : List Rat), 0 ≤ x) ∧ (1 : Rat) ∈ ([1, 1/2, 1/2] : List Rat) ∧ 0 < sumL [1, 1/2, 1/2] := by
  decide +kernel

/-- uniform prior on `[0,1]` (log-density 0 inside, `-inf` outside) and log-likelihood `−x` -/
def exPrior (x : List Rat) : EV := if x.all (fun v => decide (0 ≤ v ∧ v ≤ 1)) then some 0 else none
def exLik (x : List Rat) : EV := some (-(sumL x))
def exIn (x : List Rat) : Prop := x.all (fun v => decide (0 ≤ v ∧ v ≤ 1)) = true

def exProps : List Proposal :=
  [⟨[3/2], none, none⟩, ⟨[1/4], some 0, some (-1/4)⟩, ⟨[3/4], some 0, some (-3/4)⟩]

/-- an MH run at `β = 1/2` from `x = 1/2`: outside the support (no uniform used), accepted, rejected -/
example : mhRun (1/2) ⟨[1/2], some (-1/2), some (-1/4), 0⟩ exProps [-1, -1/8]
    = some (⟨[1/4], some (-1/4), some (-1/8), 1⟩, [], [0, 2, 1]) := by decide +kernel

example : Consistent exPrior exLik (1/2) [1/2] (some (-1/2)) (some (-1/4)) := by
  unfold Consistent; decide +kernel

example : ∀ p ∈ exProps, (p.prior.isSome → exIn p.x) ∧ p.prior = exPrior p.x ∧ (p.prior.isSome → p.lik = exLik p.x) := by
  unfold exIn; decide +kernel

/-- a two-particle, one-stage run: re-temper 0 → 1/2, resample `[1,1]`, mutate -/
def exPop : List Particle := [⟨[1/2], some (-1/2), some 0⟩, ⟨[1/4], some (-1/4), some 0⟩]
def exStage : StageIn := ⟨1/2, [1, 1], [⟨exProps, [-1, -1/8]⟩, ⟨[], []⟩]⟩

example : runStages 0 exPop [exStage]
    = some [exPop, [⟨[1/4], some (-1/4), some (-1/8)⟩, ⟨[1/4], some (-1/4), some (-1/8)⟩]] := by decide +kernel

example : PopOK exIn exPrior exLik 0 exPop := by
  unfold PopOK Consistent exIn; decide +kernel

example : MovesOK exIn exPrior exLik exStage.moves := by
  unfold MovesOK exIn; decide +kernel

/-- `exp`-form of the acceptance rule instantiated with a strictly increasing map on ℚ -/
example : StrictMono (fun x : Rat => x + 1) := fun a b h => by simpa using h

/-- a whole run: two particles, one stage whose ESS never drops (exponent clamped to 1), then the loop
stops; the trace is `[(1, exPop), (1, mutated)]` and the run is finished -/
example : (match runLoop consts [⟨fun _ => .val 60, [1, 1], [⟨exProps, [-1, -1/8]⟩, ⟨[], []⟩]⟩] 0 2 exPop with
    | .ok tr true => decide (tr.map (·.1) = [1, 1]) && (tr.map (·.2.length) == [2, 2])
    | _ => false) = true := by decide +kernel

end Pun.Tmcmc
