import Pun.Model.Tmcmc
import Mathlib.Tactic.Linarith
namespace Pun.Tmcmc
theorem beta_le_one (c : Consts) (ess : Rat → Ans) (old prev b e : Rat) (cl : Bool)
    (h : computeBeta c ess old prev = .done b e cl) : b ≤ 1 := by
  unfold computeBeta at h
  split at h
  · split at h <;> try (simp at h)
    split at h <;> simp at h <;> obtain ⟨rfl, _, _⟩ := h
    · exact le_refl _
    · linarith
  · simp at h
end Pun.Tmcmc
