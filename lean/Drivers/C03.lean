import Pun.Drv.Loop
import Pun.Drv.C03
def main : IO Unit := Pun.Drv.runLoop Pun.Drv.C03.handle
