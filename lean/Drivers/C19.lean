import Pun.Drv.Loop
import Pun.Drv.C19
def main : IO Unit := Pun.Drv.runLoop Pun.Drv.C19.handle
