import Pun.Drv.Loop
import Pun.Drv.C17
def main : IO Unit := Pun.Drv.runLoop Pun.Drv.C17.handle
