import Pun.Drv.Loop
import Pun.Drv.C04
def main : IO Unit := Pun.Drv.runLoop Pun.Drv.C04.handle
