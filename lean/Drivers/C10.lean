import Pun.Drv.Loop
import Pun.Drv.C10
def main : IO Unit := Pun.Drv.runLoop Pun.Drv.C10.handle
