import Pun.Drv.Loop
import Pun.Drv.C16
def main : IO Unit := Pun.Drv.runLoop Pun.Drv.C16.handle
