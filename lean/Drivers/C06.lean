import Pun.Drv.Loop
import Pun.Drv.C06
def main : IO Unit := Pun.Drv.runLoop Pun.Drv.C06.handle
