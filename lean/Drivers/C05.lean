import Pun.Drv.Loop
import Pun.Drv.C05
def main : IO Unit := Pun.Drv.runLoop Pun.Drv.C05.handle
