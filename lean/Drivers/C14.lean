import Pun.Drv.Loop
import Pun.Drv.C14
def main : IO Unit := Pun.Drv.runLoop Pun.Drv.C14.handle
