import Pun.Drv.Loop
import Pun.Drv.C11
def main : IO Unit := Pun.Drv.runLoop Pun.Drv.C11.handle
