import Pun.Drv.Loop
import Pun.Drv.C15
def main : IO Unit := Pun.Drv.runLoop Pun.Drv.C15.handle
