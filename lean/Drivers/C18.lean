import Pun.Drv.Loop
import Pun.Drv.C18
def main : IO Unit := Pun.Drv.runLoop Pun.Drv.C18.handle
