import Pun.Drv.Loop
import Pun.Drv.C20
def main : IO Unit := Pun.Drv.runLoop Pun.Drv.C20.handle
