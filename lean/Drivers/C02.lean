import Pun.Drv.Loop
import Pun.Drv.C02
def main : IO Unit := Pun.Drv.runLoop Pun.Drv.C02.handle
