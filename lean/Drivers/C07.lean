import Pun.Drv.Loop
import Pun.Drv.C07
def main : IO Unit := Pun.Drv.runLoop Pun.Drv.C07.handle
