import Pun.Drv.Loop
import Pun.Drv.C09
def main : IO Unit := Pun.Drv.runLoop Pun.Drv.C09.handle
