import Pun.Drv.Loop
import Pun.Drv.C13
def main : IO Unit := Pun.Drv.runLoop Pun.Drv.C13.handle
