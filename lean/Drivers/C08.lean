import Pun.Drv.Loop
import Pun.Drv.C08
def main : IO Unit := Pun.Drv.runLoop Pun.Drv.C08.handle
