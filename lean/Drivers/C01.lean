import Pun.Drv.Loop
import Pun.Drv.C01
def main : IO Unit := Pun.Drv.runLoop Pun.Drv.C01.handle
