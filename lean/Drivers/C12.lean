import Pun.Drv.Loop
import Pun.Drv.C12
def main : IO Unit := Pun.Drv.runLoop Pun.Drv.C12.handle
